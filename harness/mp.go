package main

// A small MessagePack tree (format-preserving) used by the harness to build non-canonical and
// hostile encodings.  Independent of the library under test and of the Lean model.

import (
	"encoding/binary"
	"fmt"
)

type mpKind int

const (
	mpNil mpKind = iota
	mpBool
	mpInt // value in I (signed) or U (unsigned) with format code
	mpStr
	mpBin
	mpArr
	mpMap
	mpRaw // verbatim bytes (ext, floats, anything we do not look into)
)

type mpNode struct {
	Kind mpKind
	B    bool
	Neg  bool   // integer is negative: value = -int64 semantics in I
	U    uint64 // unsigned magnitude / two's complement for negatives
	I    int64
	Code byte // format code to use when encoding (0 = canonical)
	S    []byte
	Kids []*mpNode // array elements, or alternating key/value for maps
	Raw  []byte
}

func mpParse(b []byte) (*mpNode, []byte, error) {
	if len(b) == 0 {
		return nil, nil, fmt.Errorf("eof")
	}
	c := b[0]
	r := b[1:]
	need := func(n int) error {
		if len(r) < n {
			return fmt.Errorf("short")
		}
		return nil
	}
	switch {
	case c <= 0x7f:
		return &mpNode{Kind: mpInt, U: uint64(c), I: int64(c)}, r, nil
	case c >= 0xe0:
		return &mpNode{Kind: mpInt, Neg: true, I: int64(int8(c)), U: uint64(int64(int8(c)))}, r, nil
	case c >= 0xa0 && c <= 0xbf:
		n := int(c - 0xa0)
		if err := need(n); err != nil {
			return nil, nil, err
		}
		return &mpNode{Kind: mpStr, S: r[:n]}, r[n:], nil
	case c >= 0x90 && c <= 0x9f:
		return mpParseSeq(mpArr, int(c-0x90), r)
	case c >= 0x80 && c <= 0x8f:
		return mpParseSeq(mpMap, 2*int(c-0x80), r)
	}
	switch c {
	case 0xc0:
		return &mpNode{Kind: mpNil}, r, nil
	case 0xc2, 0xc3:
		return &mpNode{Kind: mpBool, B: c == 0xc3}, r, nil
	case 0xc4, 0xc5, 0xc6, 0xd9, 0xda, 0xdb:
		w := map[byte]int{0xc4: 1, 0xc5: 2, 0xc6: 4, 0xd9: 1, 0xda: 2, 0xdb: 4}[c]
		if err := need(w); err != nil {
			return nil, nil, err
		}
		n := int(beUint(r[:w]))
		r = r[w:]
		if len(r) < n {
			return nil, nil, fmt.Errorf("short")
		}
		k := mpBin
		if c >= 0xd9 {
			k = mpStr
		}
		return &mpNode{Kind: k, S: r[:n]}, r[n:], nil
	case 0xcc, 0xcd, 0xce, 0xcf:
		w := 1 << (c - 0xcc)
		if err := need(w); err != nil {
			return nil, nil, err
		}
		u := beUint(r[:w])
		return &mpNode{Kind: mpInt, U: u, I: int64(u)}, r[w:], nil
	case 0xd0, 0xd1, 0xd2, 0xd3:
		w := 1 << (c - 0xd0)
		if err := need(w); err != nil {
			return nil, nil, err
		}
		u := beUint(r[:w])
		var i int64
		switch w {
		case 1:
			i = int64(int8(u))
		case 2:
			i = int64(int16(u))
		case 4:
			i = int64(int32(u))
		default:
			i = int64(u)
		}
		return &mpNode{Kind: mpInt, Neg: i < 0, I: i, U: uint64(i)}, r[w:], nil
	case 0xdc, 0xdd, 0xde, 0xdf:
		w := 2
		if c == 0xdd || c == 0xdf {
			w = 4
		}
		if err := need(w); err != nil {
			return nil, nil, err
		}
		n := int(beUint(r[:w]))
		if n > len(r) {
			return nil, nil, fmt.Errorf("short")
		}
		if c >= 0xde {
			return mpParseSeq(mpMap, 2*n, r[w:])
		}
		return mpParseSeq(mpArr, n, r[w:])
	}
	return nil, nil, fmt.Errorf("unsupported code %#x", c)
}

func mpParseSeq(k mpKind, n int, r []byte) (*mpNode, []byte, error) {
	nd := &mpNode{Kind: k}
	for i := 0; i < n; i++ {
		kid, rest, err := mpParse(r)
		if err != nil {
			return nil, nil, err
		}
		nd.Kids = append(nd.Kids, kid)
		r = rest
	}
	return nd, r, nil
}

func beUint(b []byte) uint64 {
	var u uint64
	for _, x := range b {
		u = u<<8 | uint64(x)
	}
	return u
}

func bePut(w int, u uint64) []byte {
	b := make([]byte, 8)
	binary.BigEndian.PutUint64(b, u)
	return b[8-w:]
}

// mpEnc encodes with the node's Code when set (and valid for the value), else canonically.
func mpEnc(n *mpNode) []byte {
	switch n.Kind {
	case mpNil:
		return []byte{0xc0}
	case mpBool:
		if n.B {
			return []byte{0xc3}
		}
		return []byte{0xc2}
	case mpRaw:
		return n.Raw
	case mpInt:
		switch n.Code {
		case 0xcc:
			return append([]byte{0xcc}, bePut(1, n.U)...)
		case 0xcd:
			return append([]byte{0xcd}, bePut(2, n.U)...)
		case 0xce:
			return append([]byte{0xce}, bePut(4, n.U)...)
		case 0xcf:
			return append([]byte{0xcf}, bePut(8, n.U)...)
		case 0xd0:
			return append([]byte{0xd0}, bePut(1, uint64(n.I))...)
		case 0xd1:
			return append([]byte{0xd1}, bePut(2, uint64(n.I))...)
		case 0xd2:
			return append([]byte{0xd2}, bePut(4, uint64(n.I))...)
		case 0xd3:
			return append([]byte{0xd3}, bePut(8, uint64(n.I))...)
		}
		if n.Neg {
			switch {
			case n.I >= -32:
				return []byte{byte(n.I)}
			case n.I >= -128:
				return append([]byte{0xd0}, bePut(1, uint64(n.I))...)
			case n.I >= -32768:
				return append([]byte{0xd1}, bePut(2, uint64(n.I))...)
			case n.I >= -2147483648:
				return append([]byte{0xd2}, bePut(4, uint64(n.I))...)
			}
			return append([]byte{0xd3}, bePut(8, uint64(n.I))...)
		}
		switch {
		case n.U <= 127:
			return []byte{byte(n.U)}
		case n.U <= 255:
			return append([]byte{0xcc}, bePut(1, n.U)...)
		case n.U <= 65535:
			return append([]byte{0xcd}, bePut(2, n.U)...)
		case n.U <= 4294967295:
			return append([]byte{0xce}, bePut(4, n.U)...)
		}
		return append([]byte{0xcf}, bePut(8, n.U)...)
	case mpStr, mpBin:
		l := len(n.S)
		var h []byte
		code := n.Code
		if code == 0 {
			if n.Kind == mpStr {
				switch {
				case l < 32:
					code = 0xa0
				case l < 256:
					code = 0xd9
				case l < 65536:
					code = 0xda
				default:
					code = 0xdb
				}
			} else {
				switch {
				case l < 256:
					code = 0xc4
				case l < 65536:
					code = 0xc5
				default:
					code = 0xc6
				}
			}
		}
		switch code {
		case 0xa0:
			h = []byte{0xa0 + byte(l)}
		case 0xd9, 0xc4:
			h = append([]byte{code}, bePut(1, uint64(l))...)
		case 0xda, 0xc5:
			h = append([]byte{code}, bePut(2, uint64(l))...)
		default:
			h = append([]byte{code}, bePut(4, uint64(l))...)
		}
		return append(h, n.S...)
	case mpArr, mpMap:
		cnt := len(n.Kids)
		fix, c16, c32 := byte(0x90), byte(0xdc), byte(0xdd)
		if n.Kind == mpMap {
			cnt /= 2
			fix, c16, c32 = 0x80, 0xde, 0xdf
		}
		var out []byte
		switch {
		case n.Code == c16 || (n.Code == 0 && cnt >= 16 && cnt < 65536):
			out = append([]byte{c16}, bePut(2, uint64(cnt))...)
		case n.Code == c32 || (n.Code == 0 && cnt >= 65536):
			out = append([]byte{c32}, bePut(4, uint64(cnt))...)
		default:
			out = []byte{fix + byte(cnt)}
		}
		for _, k := range n.Kids {
			out = append(out, mpEnc(k)...)
		}
		return out
	}
	panic("mpEnc")
}

func mpStrNode(s string) *mpNode { return &mpNode{Kind: mpStr, S: []byte(s)} }

// mpLoosen rewrites a tree with alternatives the library's decoder accepts for the same Go value:
// wider / signed integer formats, str<->bin, longer length headers.  It never changes values.
func mpLoosen(r *Rng, n *mpNode) {
	switch n.Kind {
	case mpInt:
		if r.Chance(1, 2) {
			if n.Neg {
				opts := []byte{0xd3}
				if n.I >= -2147483648 {
					opts = append(opts, 0xd2)
				}
				if n.I >= -32768 {
					opts = append(opts, 0xd1)
				}
				if n.I >= -128 {
					opts = append(opts, 0xd0)
				}
				n.Code = pick(r, opts)
			} else {
				opts := []byte{0xcf}
				if n.U <= 4294967295 {
					opts = append(opts, 0xce)
				}
				if n.U <= 65535 {
					opts = append(opts, 0xcd)
				}
				if n.U <= 255 {
					opts = append(opts, 0xcc)
				}
				if n.U <= 1<<63-1 {
					opts = append(opts, 0xd3)
				}
				if n.U <= 1<<31-1 {
					opts = append(opts, 0xd2)
				}
				if n.U <= 1<<15-1 {
					opts = append(opts, 0xd1)
				}
				if n.U <= 127 {
					opts = append(opts, 0xd0)
				}
				n.Code = pick(r, opts)
			}
		}
	case mpStr, mpBin:
		if r.Chance(1, 3) {
			if n.Kind == mpStr {
				n.Kind = mpBin
			} else {
				n.Kind = mpStr
			}
		}
		if r.Chance(1, 3) {
			l := len(n.S)
			if n.Kind == mpStr {
				opts := []byte{0xdb, 0xda}
				if l < 256 {
					opts = append(opts, 0xd9)
				}
				n.Code = pick(r, opts)
			} else {
				opts := []byte{0xc6, 0xc5}
				if l < 256 {
					opts = append(opts, 0xc4)
				}
				n.Code = pick(r, opts)
			}
		}
	case mpArr, mpMap:
		if r.Chance(1, 4) {
			if n.Kind == mpArr {
				n.Code = pick(r, []byte{0xdc, 0xdd})
			} else {
				n.Code = pick(r, []byte{0xde, 0xdf})
			}
		}
		for _, k := range n.Kids {
			mpLoosen(r, k)
		}
	}
}
