package main

// Family header (C19): Authorization-header grammar.
//
//   (hdr.format xT...)                   macaroon.ToAuthorizationHeader
//   (hdr.parse xH)                     macaroon.Parse: returned token list | error class
//   (hdr.strip xH)                     macaroon.StripAuthorizationScheme
//   (hdr.toks xH)                      bundle.ParseBundleWithFilter(..., KeepAll): typed tokens, Header(), String()
//   (hdr.split xLOC (xT xLOC|none)...)   macaroon.FindPermissionAndDischargeTokens
//   (hdr.ppd xH xLOC (xT ...)...)          macaroon.ParsePermissionAndDischargeTokens
//   (hdr.ppd.flyio xH (xT ...)...)         flyio.ParsePermissionAndDischargeTokens
//
//   (const err:unrecognized) / (const strip-exact)   headers that are NOT valid UTF-8 (phase F): outside the modelled
//                                      domain, the expected value is the name itself (model-independent oracle)
//
// Header strings of the hdr.* ops are always valid UTF-8 (the model works on code points).  In split/ppd the pairs
// are the decode oracle handed to the model: for each token what macaroon.Decode says (its
// location, or none) - the macaroon codec is not part of this property.
//
// Random token bytes never start with a msgpack array/map/ext header: hdr.toks feeds them to
// macaroon.Decode, whose allocation behaviour on adversarial input is another property's business.
// Value pools are deliberately wide (generator audit): tokens repeat inside a list (the same slice), look like header
// syntax or white space, are all-zero / all-ff, reach a few kB (64 kB+ in the thorough tier), lists reach dozens of
// tokens, scheme chains a dozen words, every IsSpace class and the neighbours of every IsSpace range occur, every
// case variant and near miss of the four labels is swept, locations come in clusters of near misses (case, trailing
// slash / space / NUL, path, query, port, scheme, Unicode normal forms, str8/str16 lengths) and tokens carry the
// issuer's location in places the split must not read (key-id, third-party caveat).
// Real tokens are minted with macaroon.New (nonce from crypto/rand: their 16 random bytes are the
// only data here that does not derive from the seed; every op line is self-contained all the same).

import (
	"encoding/base32"
	"encoding/base64"
	"encoding/hex"
	"errors"
	"fmt"
	"strings"
	"unicode/utf8"

	"github.com/superfly/macaroon"
	"github.com/superfly/macaroon/bundle"
	"github.com/superfly/macaroon/flyio"
	"github.com/superfly/macaroon/resset"
)

func init() { families["header"] = famHeader }

// ---- observables of the implementation ----

func hdrErrClass(err error) string {
	if errors.Is(err, macaroon.ErrUnrecognizedToken) {
		return "err:unrecognized"
	}
	return "err:other"
}

func implParse(h string) string {
	return guard(func() string {
		toks, err := macaroon.Parse(h)
		if err != nil {
			if toks != nil {
				return "err-with-tokens"
			}
			return hdrErrClass(err)
		}
		parts := []string{"ok"}
		for _, t := range toks {
			parts = append(parts, hx(t))
		}
		return strings.Join(parts, " ")
	})
}

func implFormat(toks [][]byte) string {
	return guard(func() string { return hs(macaroon.ToAuthorizationHeader(toks...)) })
}

func implStrip(h string) string {
	return guard(func() string {
		rest, found := macaroon.StripAuthorizationScheme(h)
		return fmt.Sprintf("%s %v", hs(rest), found)
	})
}

func implToks(o *Out, h string) string {
	return guard(func() string {
		b, _ := bundle.ParseBundleWithFilter("https://perm.example", h, bundle.KeepAll)
		var parts []string
		bundle.ForEach(b, func(t bundle.Token) {
			s := t.String()
			switch tt := t.(type) {
			case bundle.NonMacaroon:
				o.count("toks.class.non")
				parts = append(parts, "non:"+hs(s))
			case *bundle.MalformedMacaroon:
				var cie base64.CorruptInputError
				if errors.As(tt.Err, &cie) {
					o.count("toks.class.badb64")
					if !errors.Is(tt.Err, macaroon.ErrUnrecognizedToken) {
						parts = append(parts, "badb64-not-unrecognized:"+hs(s))
					} else {
						parts = append(parts, "badb64:"+hs(s))
					}
				} else {
					o.count("toks.class.mac.undecodable")
					parts = append(parts, "mac:"+hs(s)+":"+hx(rawOfPart(s)))
				}
			case *bundle.UnverifiedMacaroon:
				o.count("toks.class.mac.decoded")
				raw := rawOfPart(s)
				if enc, err := tt.UnsafeMac.Encode(); err != nil || string(enc) != string(raw) {
					o.count("toks.reencode-differs")
				}
				parts = append(parts, "mac:"+hs(s)+":"+hx(raw))
			default:
				parts = append(parts, fmt.Sprintf("unexpected-%T", t))
			}
		})
		parts = append(parts, "hdr:"+hs(b.Header()), "str:"+hs(b.String()))
		return strings.Join(parts, " ")
	})
}

// the bytes the tokeniser handed to macaroon.Decode: the standard decoding of what follows the first '_'
func rawOfPart(s string) []byte {
	_, b64, _ := strings.Cut(s, "_")
	raw, err := base64.StdEncoding.DecodeString(b64)
	if err != nil {
		return []byte("harness: base64 error on a part the tokeniser accepted")
	}
	return raw
}

func oracle(tok []byte) string {
	return guard(func() string {
		m, err := macaroon.Decode(tok)
		if err != nil {
			return "none"
		}
		return hs(m.Location)
	})
}

func oraclePairs(o *Out, toks [][]byte) string {
	var sb strings.Builder
	seen := map[string]bool{}
	for _, t := range toks {
		if seen[string(t)] {
			continue
		}
		seen[string(t)] = true
		orc := oracle(t)
		if orc == "none" {
			o.count("oracle.undecodable")
		} else {
			o.count("oracle.decodable")
		}
		fmt.Fprintf(&sb, " (%s %s)", hx(t), orc)
	}
	return sb.String()
}

func joinHx(ts [][]byte) string {
	p := make([]string, len(ts))
	for i, t := range ts {
		p[i] = hx(t)
	}
	return strings.Join(p, ",")
}

func implPPDResult(perm []byte, dis [][]byte, err error) string {
	if err != nil {
		return hdrErrClass(err)
	}
	parts := []string{"ok", hx(perm)}
	for _, d := range dis {
		parts = append(parts, hx(d))
	}
	return strings.Join(parts, " ")
}

// ---- generators ----

// every unicode.IsSpace code point class, both ends of the U+2000..U+200A range included
var hdrSpaces = []string{" ", " ", " ", " ", "\t", "\n", "\r", "\v", "\f", "\u0085", "\u00a0", "\u1680", "\u2000", "\u2001", "\u2003", "\u2009", "\u200a", "\u2028", "\u2029", "\u202f", "\u205f", "\u3000"}

// look like blanks but are not unicode.IsSpace: zero-width and formatting characters, controls, and the
// immediate neighbours of every range of the IsSpace table
var hdrNonSpaces = []string{"\u200b", "\u180e", "\ufeff", "\u2060", "\x00", "\x1f", "\u001c",
	"\x08", "\x0e", "\x7f", "\u0084", "\u0086", "\u009f", "\u00a1", "\u00ad", "\u167f", "\u1681", "\u1fff", "\u200c", "\u2027", "\u202a",
	"\u202e", "\u2030", "\u205e", "\u2fff", "\u3001", "\u303f", "\ufffd"}

// set by famHeader: the thorough tier draws from wider ranges (sizes, counts, chain lengths)
var hdrThorough bool

func (r *Rng) ws(max int) string {
	var sb strings.Builder
	for n := r.Intn(max + 1); n > 0; n-- {
		sb.WriteString(pick(r, hdrSpaces))
	}
	return sb.String()
}

func (r *Rng) randCase(s string) string {
	b := []byte(s)
	for i, c := range b {
		if r.Bool() {
			if c >= 'a' && c <= 'z' {
				b[i] = c - 32
			} else if c >= 'A' && c <= 'Z' {
				b[i] = c + 32
			}
		}
	}
	return string(b)
}

// a gap after a scheme word: white space containing at least one U+0020
func (r *Rng) gap() string {
	switch r.Intn(6) {
	case 0, 1, 2:
		return strings.Repeat(" ", 1+r.Intn(3))
	default:
		return r.ws(2) + " " + r.ws(2)
	}
}

// decorate wraps body in leading/trailing white space and 0..maxWords scheme words
func (r *Rng) decorate(o *Out, body string, maxWords int) string {
	nw := r.Intn(maxWords + 1)
	if maxWords > 0 && r.Chance(1, 25) {
		// "repeated": a long chain of scheme words (StripAuthorizationScheme recurses once per word)
		nw = 4 + r.Intn(9)
		if hdrThorough && r.Chance(1, 4) {
			nw = 13 + r.Intn(60)
		}
		o.count("deco.words.4+")
	} else {
		o.count(fmt.Sprintf("deco.words.%d", nw))
	}
	var sb strings.Builder
	lead, trail := "", ""
	if r.Chance(1, 3) {
		lead = r.ws(3)
	}
	if r.Chance(1, 3) {
		trail = r.ws(3)
	}
	if lead != "" || trail != "" {
		o.count("deco.outer-space")
	}
	sb.WriteString(lead)
	for i := 0; i < nw; i++ {
		w := pick(r, []string{"FlyV1", "Bearer"})
		switch r.Intn(4) {
		case 0:
			o.count("deco.case.exact")
		case 1:
			w = strings.ToLower(w)
			o.count("deco.case.lower")
		case 2:
			w = strings.ToUpper(w)
			o.count("deco.case.upper")
		default:
			w = r.randCase(w)
			o.count("deco.case.mixed")
		}
		sb.WriteString(w)
		sb.WriteString(r.gap())
	}
	sb.WriteString(body)
	sb.WriteString(trail)
	return sb.String()
}

func unsafeFirst(b byte) bool {
	return (b >= 0x80 && b <= 0x9f) || (b >= 0xc7 && b <= 0xc9) || (b >= 0xd4 && b <= 0xd8) || (b >= 0xdc && b <= 0xdf)
}

// byte strings that look like header syntax or white space once decoded: the grammar must treat a payload as opaque
var hdrSpecialToks = [][]byte{[]byte(" "), []byte("\n"), []byte("\r\n"), []byte("\t "), []byte("   "), {0}, {0, 0, 0}, {0xff}, {0xff, 0xff, 0xff},
	{0xfb, 0xff, 0xbf}, {0xfb, 0xef, 0xbe}, []byte(","), []byte("_"), []byte("fm2_QQ=="), []byte("FlyV1 fm2_QQ=="), []byte("fo1_x"), []byte("fm2_QQ==,fm2_QUI="),
	[]byte("="), []byte("===="), []byte("Bearer"), []byte("\u00a0"), []byte("\u2028x"), {0xa0}, {0xc0}, {0xc1}, {0x90 ^ 0xff}}

func (r *Rng) token(o *Out) []byte {
	if r.Chance(1, 12) {
		o.count("tok.special")
		return append([]byte(nil), pick(r, hdrSpecialToks)...)
	}
	var n int
	switch k := r.Intn(80); {
	case k < 20:
		n = 1 + r.Intn(6)
	case k == 20:
		// long payloads (a token with many caveats is a few kB); the thorough tier crosses 64 kB
		n = 201 + r.Intn(4000)
		if hdrThorough && r.Chance(1, 30) {
			n = 60000 + r.Intn(12000)
		}
	default:
		n = 1 + r.Intn(200)
	}
	b := r.Bytes(n)
	switch r.Intn(30) {
	case 0:
		for i := range b {
			b[i] = 0
		}
		o.count("tok.fill.zero")
	case 1:
		for i := range b {
			b[i] = 0xff
		}
		o.count("tok.fill.ff")
	}
	for unsafeFirst(b[0]) {
		b[0] = byte(r.U64())
	}
	o.count(fmt.Sprintf("tok.len%%3=%d", n%3))
	switch {
	case n <= 3:
		o.count("tok.len.1-3")
	case n <= 32:
		o.count("tok.len.4-32")
	case n <= 200:
		o.count("tok.len.33-200")
	case n <= 4200:
		o.count("tok.len.201-4200")
	default:
		o.count("tok.len.60000+")
	}
	return b
}

func (r *Rng) tokens(o *Out, max int) [][]byte {
	n := 1 + r.Intn(max)
	if r.Chance(1, 30) {
		// many tokens in one header
		n = max + 1 + r.Intn(40)
		if r.Chance(1, 3) {
			n = 50 + r.Intn(250) // no list is too long to come back whole (a parser that stops splitting after N elements)
		}
		o.count("toks.n.many")
	} else {
		o.count(fmt.Sprintf("toks.n.%d", n))
	}
	ts := make([][]byte, n)
	dup := false
	for i := range ts {
		if i > 0 && r.Chance(1, 12) {
			// the same token again (the very same slice): a header may repeat a token, order and multiplicity are kept
			ts[i] = ts[r.Intn(i)]
			dup = true
			continue
		}
		ts[i] = r.token(o)
	}
	if dup {
		o.count("toks.with-duplicate")
	}
	return ts
}

var macLabels = []string{"fm1r", "fm1a", "fm2"}

func entryOf(label string, tok []byte) string {
	return label + "_" + base64.StdEncoding.EncodeToString(tok)
}

func (r *Rng) oauthEntry(o *Out) string {
	o.count("entry.oauth")
	k := r.Intn(11)
	if k == 4 && r.Chance(2, 3) {
		k = 10
	}
	switch k {
	case 0:
		return "fo1_"
	case 1:
		return "fo1_" + base64.RawURLEncoding.EncodeToString(r.Bytes(1+r.Intn(30)))
	case 2:
		return "fo1_not base64 at all!_" + pick(r, hdrNonSpaces)
	case 3:
		// an opaque body that looks like a macaroon entry, a label, a scheme, padding, or more separators
		o.count("entry.oauth.lookalike")
		return "fo1_" + pick(r, []string{"fm2_QQ==", "fm1r_", "fo1_", "_", "__", "fm2", "====", "=", "FlyV1", "Bearer x", " ", "x ", " x", "\n", "\u00e9\u4e16\u754c", "\U0001f511", "fm2_" + strings.Repeat("A", 3)})
	case 4:
		o.count("entry.oauth.long")
		n := 300 + r.Intn(2000)
		return "fo1_" + base64.RawURLEncoding.EncodeToString(r.Bytes(n))
	case 5:
		// a JWT-like body: three dot-separated base64url segments
		return "fo1_" + base64.RawURLEncoding.EncodeToString(r.Bytes(12)) + "." + base64.RawURLEncoding.EncodeToString(r.Bytes(1+r.Intn(40))) + "." + base64.RawURLEncoding.EncodeToString(r.Bytes(32))
	default:
		return "fo1_" + base64.StdEncoding.EncodeToString(r.Bytes(r.Intn(20)))
	}
}

// entries with a label choice per token and OAuth entries interleaved
func (r *Rng) labelledEntries(o *Out, toks [][]byte, oauthChance int) []string {
	var es []string
	for _, t := range toks {
		for r.Chance(oauthChance, 10) {
			es = append(es, r.oauthEntry(o))
		}
		l := pick(r, macLabels)
		o.count("entry.label." + l)
		es = append(es, entryOf(l, t))
	}
	for r.Chance(oauthChance, 10) {
		es = append(es, r.oauthEntry(o))
	}
	return es
}

// corrupt returns a header derived from well-formed entries by one corruption, and its name
func (r *Rng) corrupt(o *Out, toks [][]byte) (string, string) {
	es := r.labelledEntries(o, toks, 1)
	var macIdx []int
	for j, e := range es {
		if !strings.HasPrefix(e, "fo1_") {
			macIdx = append(macIdx, j)
		}
	}
	i := pick(r, macIdx) // a macaroon entry: its payload is never empty
	label, b64, _ := strings.Cut(es[i], "_")
	join := func() string { return strings.Join(es, ",") }
	insertAt := func(s, ins string, pos int) string { return s[:pos] + ins + s[pos:] }
	kind := ""
	switch k := r.Intn(29); k {
	case 0:
		kind = "unknown-label"
		es[i] = pick(r, []string{"fm3", "fm1", "fm2x", "FM2", "fm1R", "Fm1a", "", "fo2", "fo1x", "fm", "fm22", "fm1ra", "xfm2", "fm1r\u212a", "\u017fm2"}) + "_" + b64
	case 1:
		kind = "label-with-space"
		es[i] = pick(r, []string{" fm2", "fm2 ", "\tfm1r", "fm1a\t", "\u00a0fm2", "fm2\n", "\nfm2", " fo1", "fo1 "}) + "_" + b64
	case 2:
		kind = "missing-separator"
		if r.Bool() {
			es[i] = label + pick(r, []string{"", "-", " ", ":", "="}) + b64
		} else {
			// an extra element that is a bare known label (OAuth label included) or a known label glued to
			// a payload without the separator, next to the valid entries
			kind = "missing-separator-extra"
			bare := pick(r, []string{"fo1", "fm2", "fm1r", "fm1a", "fo1" + b64, "fo1-x", "fo1 "})
			pos := r.Intn(len(es) + 1)
			es = append(es[:pos], append([]string{bare}, es[pos:]...)...)
		}
	case 3:
		kind = "separator-only"
		es[i] = pick(r, []string{"_", "_" + b64, "__", "_fm2_" + b64})
	case 4:
		kind = "empty-payload"
		es[i] = label + "_" + pick(r, []string{"", "\n", "\r\n", "\r\n\r\n", "=", "==", "====", "\r", "\n=\n"})
	case 5:
		kind = "bad-alphabet"
		pos := r.Intn(len(b64))
		rep := pick(r, []string{"-", "_", "!", "*", ".", " ", "\t", "\u00e9", "\u00a0", "\x00", "~", "@", ";", "\u2028", "\uff21", "\U0001d400", "\\", "\""})
		es[i] = label + "_" + b64[:pos] + rep + b64[pos+1:]
	case 6:
		kind = "pad-in-middle"
		pos := r.Intn(len(b64))
		es[i] = label + "_" + b64[:pos] + "=" + b64[pos+1:]
	case 7:
		kind = "padding-stripped"
		es[i] = label + "_" + strings.TrimRight(b64, "=")
	case 8:
		kind = "padding-extra"
		es[i] = label + "_" + b64 + pick(r, []string{"=", "==", "===", "===="})
	case 9:
		kind = "truncated"
		cut := 1 + r.Intn(3)
		if cut > len(b64) {
			cut = len(b64)
		}
		es[i] = label + "_" + b64[:len(b64)-cut]
	case 10:
		kind = "extra-char"
		es[i] = label + "_" + insertAt(b64, pick(r, []string{"A", "/", "+", "9", "AA", "AAA", "AAAA"}), r.Intn(len(b64)+1))
	case 11:
		kind = "newline-in-payload"
		nl := pick(r, []string{"\n", "\r", "\r\n", "\n\n"})
		s := insertAt(b64, nl, r.Intn(len(b64)+1))
		if r.Chance(1, 3) {
			s = insertAt(s, nl, r.Intn(len(s)+1))
		}
		es[i] = label + "_" + s
	case 12:
		kind = "newline-in-label"
		es[i] = insertAt(label, pick(r, []string{"\n", "\r"}), r.Intn(len(label)+1)) + "_" + b64
	case 13:
		kind = "empty-element"
		pos := r.Intn(len(es) + 1)
		es = append(es[:pos], append([]string{""}, es[pos:]...)...)
	case 14:
		kind = "trailing-or-leading-comma"
		if r.Bool() {
			return join() + ",", kind
		}
		return "," + join(), kind
	case 15:
		kind = "space-around-comma"
		if len(es) == 1 {
			es = append(es, entryOf(pick(r, macLabels), r.token(o)))
		}
		sep := pick(r, []string{", ", " ,", " , ", ",\t", "\n,", ",\u00a0", ", \r\n"})
		return strings.Join(es, sep), kind
	case 16:
		kind = "nonzero-pad-bits"
		// non-strict decoding ignores the unused low bits of the last sextet of a padded group
		if strings.HasSuffix(b64, "=") {
			core := strings.TrimRight(b64, "=")
			const alpha = "ABCDEFGHIJKLMNOPQRSTUVWXYZabcdefghijklmnopqrstuvwxyz0123456789+/"
			v := strings.IndexByte(alpha, core[len(core)-1])
			mask := 3
			if len(b64)-len(core) == 2 {
				mask = 15
			}
			v = v | (1 + r.Intn(mask))
			es[i] = label + "_" + core[:len(core)-1] + string(alpha[v]) + b64[len(core):]
		} else {
			es[i] = label + "_" + b64 + "\n"
		}
	case 17:
		kind = "double-separator"
		es[i] = label + "__" + b64
	case 18:
		kind = "only-oauth"
		n := 1 + r.Intn(3)
		es = es[:0]
		for j := 0; j < n; j++ {
			es = append(es, r.oauthEntry(o))
		}
	case 19:
		kind = "non-space-blank"
		ns := pick(r, hdrNonSpaces)
		if r.Bool() {
			return ns + join(), kind
		}
		return join() + ns, kind
	case 20:
		// a known label in another letter case: labels are compared exactly (an upper-case OAuth label is
		// not skipped either)
		kind = "label-case"
		if r.Chance(1, 3) {
			kind = "label-case-oauth"
			l := "fo1"
			for l == "fo1" {
				l = r.randCase("fo1")
			}
			pos := r.Intn(len(es) + 1)
			es = append(es[:pos], append([]string{l + "_" + pick(r, []string{"", "x", b64})}, es[pos:]...)...)
		} else {
			l := label
			for l == label {
				l = r.randCase(label)
			}
			es[i] = l + "_" + b64
		}
	case 21:
		// the payload in another text encoding of the same bytes
		kind = "other-encoding"
		raw, _ := base64.StdEncoding.DecodeString(b64)
		switch r.Intn(5) {
		case 0:
			es[i] = label + "_" + base64.URLEncoding.EncodeToString(raw)
		case 1:
			es[i] = label + "_" + base64.RawURLEncoding.EncodeToString(raw)
		case 2:
			es[i] = label + "_" + base64.RawStdEncoding.EncodeToString(raw)
		case 3:
			es[i] = label + "_" + hex.EncodeToString(raw)
		default:
			es[i] = label + "_" + base32.StdEncoding.EncodeToString(raw)
		}
	case 22:
		// white space other than CR/LF (or a blank that is no white space) inserted into the payload, its two ends included
		kind = "space-in-payload"
		sp := pick(r, []string{" ", " ", "\t", "\v", "\f", "\u00a0", "\u0085", "\u2003", "\u3000", "\u200b", "\x00"})
		es[i] = label + "_" + insertAt(b64, sp, pick(r, []int{0, len(b64), r.Intn(len(b64) + 1)}))
	case 23:
		kind = "blank-element"
		pos := r.Intn(len(es) + 1)
		es = append(es[:pos], append([]string{pick(r, []string{" ", "  ", "\t", "\n", "\r\n", "\u00a0", "\u3000", "\u200b"})}, es[pos:]...)...)
	case 24:
		// something else than a comma between the entries
		kind = "wrong-delimiter"
		if len(es) == 1 {
			es = append(es, entryOf(pick(r, macLabels), r.token(o)))
		}
		return strings.Join(es, pick(r, []string{";", " ", "  ", "\n", "\r\n", "\t", "|", ",,", ";,", "\uff0c", "\u060c", "&", "_", ""})), kind
	case 25:
		// a scheme word somewhere else than in front
		kind = "scheme-inside"
		w := pick(r, []string{"FlyV1", "Bearer", "flyv1", "BEARER"})
		switch r.Intn(5) {
		case 0:
			if len(es) == 1 {
				es = append(es, entryOf(pick(r, macLabels), r.token(o)))
			}
			j := 1 + r.Intn(len(es)-1)
			es[j] = w + r.gap() + es[j]
		case 1:
			return join() + " " + w, kind
		case 2:
			return w + join(), kind // glued to the first entry
		case 3:
			return w + pick(r, []string{",", ":", "=", "_", "\t", "\u00a0", ", "}) + join(), kind
		default:
			return w + " " + join() + "," + w + " " + join(), kind // two complete headers joined with a comma
		}
	case 26:
		// scheme words and white space, no entry at all
		kind = "scheme-only"
		var sb strings.Builder
		sb.WriteString(r.ws(2))
		for n := r.Intn(4); n > 0; n-- {
			sb.WriteString(r.randCase(pick(r, []string{"FlyV1", "Bearer"})))
			sb.WriteString(r.gap())
		}
		if r.Bool() {
			sb.WriteString(r.randCase(pick(r, []string{"FlyV1", "Bearer"})))
		}
		sb.WriteString(r.ws(2))
		return sb.String(), kind
	case 27:
		// the separator of one entry replaced by a look-alike, or the label written with look-alike characters
		kind = "lookalike"
		switch r.Intn(3) {
		case 0:
			es[i] = label + pick(r, []string{"\uff3f", "\u2017", "\u005f\u0332", "-", "\u203f"}) + b64
		case 1:
			es[i] = strings.NewReplacer("f", "\uff46", "m", "\uff4d", "1", "\uff11", "2", "\uff12").Replace(label) + "_" + b64
		default:
			es[i] = label + pick(r, []string{"\u200b", "\u0301", "\x00", "\ufeff"}) + "_" + b64
		}
	default:
		// two entries damaged at once, in two different ways (the tokeniser types each entry on its own)
		kind = "two-at-once"
		es[i] = pick(r, []string{"fm3", "FM2", "", "fm"}) + "_" + b64
		j := r.Intn(len(es) + 1)
		extra := pick(r, []string{"fm2_", "fm2_!!!!", "fm1r", "", "fm1a_QQ=", " fm2_QQ==", "fm2_QQ== "})
		es = append(es[:j], append([]string{extra}, es[j:]...)...)
	}
	return join(), kind
}

// headers that stress StripAuthorizationScheme
func (r *Rng) schemeSoup(o *Out) string {
	words := []string{"FlyV1", "Bearer", "flyv1", "BEARER", "bearer", "FLYV1", "Bearers", "FlyV", "FlyV11", "Bear", "Basic", "FlyV2",
		"Bearer\t", "\tFlyV1", "Bearer,", "FlyV1,", "fm2_QQ==", "fm2_QQ==,fm1r_QUI=", "fo1_x", "x", "",
		"Bea\u212aer", "\u017fearer", "\uff26lyV1", "FlyV\u0661", "FlyV1\u200b", "Bearer\u00a0", "\u00a0Bearer", "Bearer\u3000FlyV1", "\u0130", "bEARER", "fLYv1"}
	n := r.Intn(6)
	if r.Chance(1, 15) {
		n = 6 + r.Intn(10)
		if hdrThorough && r.Chance(1, 3) {
			n = 16 + r.Intn(50)
		}
		o.count("soup.words.6+")
	} else {
		o.count(fmt.Sprintf("soup.words.%d", n))
	}
	var sb strings.Builder
	sb.WriteString(r.ws(2))
	for i := 0; i < n; i++ {
		w := pick(r, words)
		if r.Chance(1, 4) {
			w = r.randCase(w)
		}
		sb.WriteString(w)
		switch r.Intn(5) {
		case 0:
			sb.WriteString(pick(r, []string{"\t", "\n", "\u00a0", "", "\u3000"}))
		default:
			sb.WriteString(r.gap())
		}
	}
	if r.Bool() {
		sb.WriteString(pick(r, words))
	}
	sb.WriteString(r.ws(2))
	return sb.String()
}

type realTok struct {
	loc  string
	tok  []byte
	kind string
}

// Locations in clusters of near misses of one another: a permission token is one whose location is EXACTLY
// the issuer's, byte for byte.  Index 0 of a cluster is the base location.
var hdrLocClusters = [][]string{
	{"https://perm.example", "https://perm.example/", "HTTPS://PERM.EXAMPLE", "https://Perm.Example", "https://perm.example ", " https://perm.example",
		"https://perm.example\n", "https://perm.example/v1", "https://perm.example?x=1", "https://perm.example#f", "https://perm.example:443", "https://perm.example.",
		"http://perm.example", "perm.example", "https://perm.example\x00", "https://perm.example\xff", "https://user@perm.example", "https://perm.exampl",
		"https://perm.example,https://tp.example", "https://perm.example%2F", "https://p\u00e9rm.example", "https://pe\u0301rm.example"},
	{flyio.LocationPermission, flyio.LocationPermission + "/", strings.ToUpper(flyio.LocationPermission), strings.TrimSuffix(flyio.LocationPermission, "/v1"),
		strings.Replace(flyio.LocationPermission, "https://", "http://", 1), flyio.LocationPermission + " ", flyio.LocationPermission + "/../v1",
		strings.Replace(flyio.LocationPermission, "api.fly.io", "API.fly.io", 1), flyio.LocationAuthentication, flyio.LocationAuthentication + "/",
		strings.TrimSuffix(flyio.LocationPermission, "1") + "2", flyio.LocationPermission + "?"},
	{"https://tp.example", "https://tp.example/", "", "root", "Root", " ", "\x00", "/", "https://" + strings.Repeat("a", 22) + ".example", // 38 bytes: msgpack str8
		"https://" + strings.Repeat("a", 22) + ".examplE", "https://" + strings.Repeat("long.", 60) + "example", // 315 bytes: msgpack str16
		"https://" + strings.Repeat("long.", 60) + "examplf"},
}

func mintPool(o *Out) ([]realTok, [][]realTok) {
	var pool []realTok
	byCluster := make([][]realTok, len(hdrLocClusters))
	n := 0
	add := func(ci int, loc, kind string, m *macaroon.Macaroon, err error) {
		if err != nil {
			panic(err)
		}
		tok, err := m.Encode()
		if err != nil {
			panic(err)
		}
		if dm, err := macaroon.Decode(tok); err != nil || dm.Location != loc {
			panic(fmt.Sprintf("harness: minted token of kind %s at %q does not decode back to its location", kind, loc))
		}
		o.count("mint." + kind)
		rt := realTok{loc, tok, kind}
		pool = append(pool, rt)
		byCluster[ci] = append(byCluster[ci], rt)
	}
	for ci, cl := range hdrLocClusters {
		for li, loc := range cl {
			n++
			for j := 0; j < 2; j++ {
				m, err := macaroon.New([]byte(fmt.Sprintf("kid-%d-%d", n, j)), loc, macaroon.NewSigningKey())
				add(ci, loc, "plain", m, err)
			}
			// a finalised PROOF token at the same location (a discharge of a third-party caveat that names this very
			// location): permission and discharge tokens are told apart by location alone, whatever the nonce says
			ka := macaroon.NewEncryptionKey()
			c3, err := macaroon.NewCaveat3P(ka, loc)
			if err != nil {
				panic(err)
			}
			_, d, err := macaroon.DischargeTicket(ka, loc, c3.Ticket)
			add(ci, loc, "proof", d, err)

			// Decoys: the OTHER places of a token where a location (or something like one) is written.  other = a
			// different location of the same cluster (for the base: its first near miss; for a near miss: the base).
			other := cl[0]
			if li == 0 {
				other = cl[1]
			}
			// key-id = the bytes of the other location
			m, err := macaroon.New([]byte(other), loc, macaroon.NewSigningKey())
			add(ci, loc, "decoy.kid-is-other-location", m, err)
			// a third-party caveat that names the other location; plus ordinary attenuation
			m, err = macaroon.New([]byte(fmt.Sprintf("kid-%d-3p", n)), loc, macaroon.NewSigningKey())
			if err == nil {
				err = m.Add(&macaroon.ValidityWindow{NotBefore: 1, NotAfter: 1 << 40}, &flyio.Organization{ID: 7, Mask: resset.ActionAll})
			}
			if err == nil {
				err = m.Add3P(macaroon.NewEncryptionKey(), other, &flyio.Apps{Apps: resset.ResourceSet[uint64, resset.Action]{1: resset.ActionRead}})
			}
			add(ci, loc, "decoy.3p-names-other-location", m, err)
			if li <= 1 {
				// the discharge of a third-party caveat of a token at `other`, issued at `loc`, and bound to its parent
				pm, err := macaroon.New([]byte("parent"), other, macaroon.NewSigningKey())
				if err != nil {
					panic(err)
				}
				ka := macaroon.NewEncryptionKey()
				if err := pm.Add3P(ka, loc); err != nil {
					panic(err)
				}
				ticket, err := pm.ThirdPartyTicket(loc)
				if err != nil {
					panic(err)
				}
				_, d, err := macaroon.DischargeTicket(ka, loc, ticket)
				if err == nil {
					err = d.BindToParentMacaroon(pm)
				}
				add(ci, loc, "proof.bound", d, err)
			}
		}
	}
	return pool, byCluster
}

// byte strings macaroon.Decode refuses (or, for the last kinds, may accept: the oracle decides), cheaply: they
// fail at the first msgpack byte or inside the nonce
func (r *Rng) undecodable(o *Out, pool []realTok) []byte {
	switch r.Intn(10) {
	case 0:
		o.count("split.tok.undecodable.c1")
		return append([]byte{0xc1}, r.Bytes(r.Intn(40))...)
	case 1:
		o.count("split.tok.undecodable.text")
		return []byte(pick(r, []string{"hello", "fm2_abc", "{}", "0", "not a token"}))
	case 2:
		o.count("split.tok.undecodable.truncated")
		t := pick(r, pool).tok
		return append([]byte(nil), t[:1+r.Intn(8)]...)
	case 3:
		o.count("split.tok.undecodable.firstbyte")
		t := append([]byte(nil), pick(r, pool).tok...)
		t[0] = 0xc1
		return t
	case 4:
		o.count("split.tok.undecodable.empty")
		if r.Bool() {
			return nil
		}
		return []byte{}
	case 5:
		// the location itself, as text
		o.count("split.tok.undecodable.location-text")
		return []byte(pick(r, pool).loc)
	case 6:
		// a real token still in its header clothing
		o.count("split.tok.undecodable.still-encoded")
		t := pick(r, pool).tok
		if r.Bool() {
			return []byte(base64.StdEncoding.EncodeToString(t))
		}
		return []byte(macaroon.ToAuthorizationHeader(t))
	case 7:
		o.count("split.tok.cut-or-extended")
		t := pick(r, pool).tok
		if r.Bool() {
			return append([]byte(nil), t[:len(t)-1-r.Intn(3)]...)
		}
		return append(append([]byte(nil), t...), pick(r, [][]byte{{0}, {0xc0}, {0x20}, {0x90}})...)
	default:
		o.count("split.tok.undecodable.random")
		b := r.Bytes(1 + r.Intn(60))
		for unsafeFirst(b[0]) {
			b[0] = byte(r.U64())
		}
		return b
	}
}

// a token list for the location split: real tokens of several locations (mostly of one cluster of near-miss
// locations), relocated copies, garbage
func (r *Rng) splitTokens(o *Out, all []realTok, byCluster [][]realTok) [][]byte {
	n := r.Intn(7)
	switch {
	case r.Chance(1, 10):
		n = 0
	case r.Chance(1, 20):
		n = 7 + r.Intn(24)
	}
	if n <= 6 {
		o.count(fmt.Sprintf("split.n.%d", n))
	} else {
		o.count("split.n.7+")
	}
	pool := all
	if r.Chance(3, 4) {
		ci := pick(r, []int{0, 0, 0, 1, 1, 1, 2, 2})
		pool = byCluster[ci]
		o.count(fmt.Sprintf("split.pool.cluster-%d", ci))
	} else {
		o.count("split.pool.all")
	}
	var ts [][]byte
	for i := 0; i < n; i++ {
		switch k := r.Intn(10); {
		case k < 6:
			rt := pick(r, pool)
			if r.Chance(1, 3) {
				// the cluster's base location: the one most calls below ask for
				rt = pick(r, pool[:5])
			}
			o.count("split.tok.real." + rt.kind)
			ts = append(ts, rt.tok)
		case k < 7:
			// change one byte of the location string inside a real token: still decodes, elsewhere
			rt := pick(r, pool)
			t := append([]byte(nil), rt.tok...)
			if idx := strings.Index(string(t), rt.loc); rt.loc != "" && idx >= 0 {
				switch r.Intn(3) {
				case 0:
					t[idx+r.Intn(len(rt.loc))] ^= 1
					o.count("split.tok.relocated")
				case 1:
					// a location that differs from the original only in letter case (one letter)
					for try := 0; try < 20; try++ {
						j := idx + r.Intn(len(rt.loc))
						if c := t[j] | 0x20; c >= 'a' && c <= 'z' {
							t[j] ^= 0x20
							break
						}
					}
					o.count("split.tok.relocated.case1")
				default:
					// … in the case of every letter
					for j := idx; j < idx+len(rt.loc); j++ {
						if c := t[j] | 0x20; c >= 'a' && c <= 'z' {
							t[j] ^= 0x20
						}
					}
					o.count("split.tok.relocated.caseall")
				}
			} else {
				o.count("split.tok.real." + rt.kind)
			}
			ts = append(ts, t)
		case k < 8 && len(ts) > 0:
			o.count("split.tok.duplicate")
			ts = append(ts, ts[r.Intn(len(ts))])
		default:
			ts = append(ts, r.undecodable(o, pool))
		}
	}
	return ts
}

// every spelling of a known label in another letter case, and near misses of the labels
func hdrLabelSweep() []string {
	var out []string
	for _, l := range []string{"fm1r", "fm1a", "fm2", "fo1"} {
		var letters []int
		for i := 0; i < len(l); i++ {
			if l[i] >= 'a' && l[i] <= 'z' {
				letters = append(letters, i)
			}
		}
		for mask := 1; mask < 1<<len(letters); mask++ {
			b := []byte(l)
			for j, pos := range letters {
				if mask&(1<<j) != 0 {
					b[pos] -= 32
				}
			}
			out = append(out, string(b))
		}
	}
	return append(out, "", "f", "fm", "fm1", "fo", "fm2x", "fm1rx", "fm1ax", "fo1x", "fm1ra", "fm1ar", "fm21", "fm12", "fo11", "fo2", "fo0", "fm3", "fm0", "fm1b", "fm1q", "fm1s",
		"fm2r", "fm2a", "xfm2", "xfo1", "m2", "o1", "fm-2", "fm.2", "fm1-r", "fl1r", "fn2", "em2", "gm2", "fm2\x00", "\x00fm2", "fm2\u200b", "\ufefffm2", "fm1r\u212a", "\u017fm2",
		"\uff46m2", "fm\uff12", "f\u043c2", "fo\u0661", "FlyV1", "Bearer", "bearer", "Basic", "fm2,", "fm2=", "fm2:", "fm1r/fm1a", "fm1r+fm1a", "macaroon", "oauth", "fm2 fm2", "1", "2")
}

var hdrInvalidUTF8 = []string{"\xff", "\x80", "\xbf", "\xc0\xaf", "\xc1\xbf", "\xed\xa0\x80", "\xf4\x90\x80\x80", "\xe2\x82", "\xf0\x9f\x94", "\xc2", "\xfe\xff", "\xf8\x88\x80\x80\x80"}

func famHeader(r *Rng, o *Out, tier string) {
	scale := 1
	hdrThorough = tier == "thorough"
	if hdrThorough {
		scale = 20
	}
	resStat := func(kind, res string) {
		cls := res
		if i := strings.IndexByte(res, ' '); i >= 0 {
			cls = res[:i]
		}
		if strings.HasPrefix(res, "panic") {
			cls = "panic"
		}
		o.count("res." + kind + "." + cls)
	}
	parseOp := func(kind, h string) {
		if !utf8.ValidString(h) {
			panic("harness generated a header that is not UTF-8")
		}
		res := implParse(h)
		resStat(kind, res)
		o.emit("(hdr.parse "+hs(h)+")", res)
	}
	toksOp0 := func(h string) { o.emit("(hdr.toks "+hs(h)+")", implToks(o, h)) }
	toksOp := func(h string) {
		toksOp0(h)
		if r.Chance(1, 10) {
			// what the bundle prints is a header again: parse it a second time (both parsers)
			h2 := guard(func() string {
				b, _ := bundle.ParseBundleWithFilter("https://perm.example", h, bundle.KeepAll)
				return b.Header()
			})
			if utf8.ValidString(h2) && !strings.HasPrefix(h2, "panic") {
				o.count("reparse")
				parseOp("reparse", h2)
				toksOp0(h2)
			}
		}
	}
	stripOp := func(h string) {
		res := implStrip(h)
		if strings.HasSuffix(res, "true") {
			o.count("res.strip.found")
		} else {
			o.count("res.strip.notfound")
		}
		o.emit("(hdr.strip "+hs(h)+")", res)
	}

	// fixed edge cases first
	for _, h := range []string{"", " ", "FlyV1", "FlyV1 ", "Bearer", "Bearer  ", "FlyV1 Bearer", "FlyV1 Bearer ", "FlyV1 FlyV1 x", ",", "_", "fm2_", "fo1_",
		"fo1_,fo1_", "FlyV1 fo1_abc", "fm2_QQ==", "fm2_QR==", "fm2_QQ", "fm2_QQ=", "fm2_QQ===", "fm2_Q", "fm2_=", "fm2_====", "FlyV1\tfm2_QQ==", "FlyV1\t fm2_QQ==",
		"FlyV1 \tfm2_QQ==", "FlyV1\u00a0fm2_QQ==", "flyv1 bearer FLYV1 fm2_QQ==", "fm2_QQ== FlyV1", "fm2_QQ== ", "fm2_QQ==\n", "fm2_Q\nQ=\r=", "fm2_QQ==,", ",fm2_QQ==",
		"fm2_QQ==, fm2_QQ==", "fm1r_QQ==,fm1a_QUI=,fm2_QUJD,fo1_zzz", "fm2_fm2_QQ==", "Bearer fm2_QQ==,Bearer fm2_QQ==", "FlyV1 fm2_QQ==,FlyV1", "\u212a fm2_QQ==",
		"FlyV1 fm2_QUJD QUJD", "fm2_QUJD QUJD", "fm2 _QQ==", "FlyV1 fm2 _QQ==",
		// added by the generator audit
		"FlyV1  ", "  FlyV1  fm2_QQ==  ", "FLYV1 fm2_QQ==", "Authorization: FlyV1 fm2_QQ==", "FlyV1: fm2_QQ==", "FlyV1,fm2_QQ==", "FlyV1fm2_QQ==", "FlyV1 FlyV1", "Bearer Bearer Bearer",
		"fm2_QQ==;fm2_QQ==", "fm2_QQ==,,fm2_QQ==", "fm2_QQ== ,fm2_QQ==", "fm2_QQ==\n,fm2_QQ==", "FO1_x,fm2_QQ==", "fm2_QQ==,FO1_x", "Fo1_,fm2_QQ==", "fo1_x", "fo1", "fo1,fm2_QQ==", "FM2_QQ==",
		"fm2_IA==", "fm2_Cg==", "fm2_AA==", "fm2_DQo=", "fm2_QQ==\r\n", "fm2_QQ\r\n==", "\r\nfm2_QQ==", "fm2_\r\nQQ==", "fm2\n_QQ==", "fm2_QUJD,fm2_QUJD", "fm2_QUJD,fm1r_QUJD,fm1a_QUJD",
		"fm2__QQ==", "fm2_QQ==_", "fm2_QQ==_x", "fm2_-_8=", "fm2_+/8=", "fm2_+/8", "fm2_-_8", "fm2_QQ==QQ==", "fm2_QUJDQQ==", "fm2_QQ==QUJD", "fm2_QUJD====", "fm2_Q=Q=", "fm2_=QQ=",
		"fm2_QQ= =", "fm2_QQ=\n=", "fm2_QUI", "fm2_QUI==", "fm2_QUJ=", "fm2_QUL=", "fm2_QV==", "fm2_Qf==", "fm2_Q/==", "fm2_//==", "fm2_////", "fm2_++++", "fm2_AAAA", "fm2_A", "fm2_AA", "fm2_AAA",
		"fm2_AAAAA", "fo1_fm2_QQ==", "fo1_fm2_QQ==,fm2_QUI=", "fo1_a b,fm2_QQ==", "FlyV1 fo1_a b,fm2_QQ==", "fo1_ ,fm2_QQ==", "fm2_QQ==,fo1_ ", "Bearer fo1_Bearer x,fm2_QQ==", "fo1_Bearer fm2_QQ==",
		"Bearer\u2003 fm2_QQ==", "Bearer \u2003fm2_QQ==", "Bearer\u2003fm2_QQ==", "\u2003Bearer fm2_QQ==\u2003", "\u200bBearer fm2_QQ==", "Bearer \u200bfm2_QQ==", "Bearer fm2_QQ==\u200b",
		"\ufeffFlyV1 fm2_QQ==", "FlyV1 \ufefffm2_QQ==", "FlyV1 fm2_QQ==\x00", "\x00", "\x00FlyV1 fm2_QQ==", "FlyV1\x00fm2_QQ==", "\"FlyV1 fm2_QQ==\"", "FlyV1 \"fm2_QQ==\"", "FlyV1=fm2_QQ==",
		"Basic fm2_QQ==", "Token fm2_QQ==", "FlyV2 fm2_QQ==", "Bearer FlyV2 fm2_QQ==", "FlyV1 Basic fm2_QQ==", "Bearer  Bearer", "Bearer fm2_QQ== Bearer", "FlyV1 fm2_QQ==, FlyV1 fm2_QUI="} {
		parseOp("edge", h)
		toksOp0(h)
		stripOp(h)
	}
	o.emit("(hdr.format)", implFormat(nil))
	o.emit("(hdr.format x)", implFormat([][]byte{{}}))
	o.emit("(hdr.format x x)", implFormat([][]byte{{}, {}}))
	parseOp("edge", macaroon.ToAuthorizationHeader())
	parseOp("edge", macaroon.ToAuthorizationHeader([]byte{}))
	parseOp("edge", macaroon.ToAuthorizationHeader([]byte{}, []byte{1}))

	// A. format, decorate, parse back
	for i := 0; i < 800*scale; i++ {
		toks := r.tokens(o, 6)
		hxs := make([]string, len(toks))
		for j, t := range toks {
			hxs[j] = hx(t)
		}
		o.emit("(hdr.format "+strings.Join(hxs, " ")+")", implFormat(toks))
		full := macaroon.ToAuthorizationHeader(toks...)
		body := strings.TrimPrefix(full, "FlyV1 ")
		var h string
		if r.Chance(1, 6) {
			h = r.decorate(o, full, 2) // keeps the scheme ToAuthorizationHeader wrote: up to three words
		} else {
			h = r.decorate(o, body, 3)
		}
		parseOp("roundtrip", h)
		stripOp(h)
		toksOp(h)
	}

	// A2. lists with empty (nil and zero-length) tokens among the others: they format, and do not parse back
	for i := 0; i < 40*scale; i++ {
		toks := r.tokens(o, 4)
		for n := 1 + r.Intn(2); n > 0; n-- {
			pos := r.Intn(len(toks) + 1)
			var e []byte
			if r.Bool() {
				e = []byte{}
			}
			toks = append(toks[:pos], append([][]byte{e}, toks[pos:]...)...)
		}
		o.count("format.with-empty-token")
		hxs := make([]string, len(toks))
		for j, t := range toks {
			hxs[j] = hx(t)
		}
		o.emit("(hdr.format "+strings.Join(hxs, " ")+")", implFormat(toks))
		h := r.decorate(o, macaroon.ToAuthorizationHeader(toks...), 1)
		parseOp("with-empty", h)
		toksOp0(h)
	}

	// B. label choices, OAuth entries
	for i := 0; i < 600*scale; i++ {
		toks := r.tokens(o, 6)
		h := r.decorate(o, strings.Join(r.labelledEntries(o, toks, 3), ","), 3)
		parseOp("labels", h)
		toksOp(h)
	}

	// B2. label sweep: every case variant and near miss of the four labels, alone / in front of / behind a valid entry
	for _, l := range hdrLabelSweep() {
		e := l + "_" + base64.StdEncoding.EncodeToString(r.token(o))
		good := entryOf(pick(r, macLabels), r.token(o))
		for k, body := range []string{e, e + "," + good, good + "," + e} {
			if k > 0 && hdrThorough == false && r.Bool() {
				continue
			}
			o.count("labelsweep")
			h := body
			if r.Chance(1, 3) {
				h = r.decorate(o, body, 2)
			}
			parseOp("labelsweep", h)
			toksOp0(h)
		}
	}

	// C. corruptions
	for i := 0; i < 1700*scale; i++ {
		toks := r.tokens(o, 4)
		body, kind := r.corrupt(o, toks)
		o.count("corrupt." + kind)
		h := body
		if r.Bool() {
			h = r.decorate(o, body, 2)
		}
		res := implParse(h)
		cls := res
		if j := strings.IndexByte(res, ' '); j >= 0 {
			cls = res[:j]
		}
		o.count("corrupt." + kind + "->" + cls)
		parseOp("corrupt", h)
		toksOp(h)
	}

	// D. scheme stripping
	for i := 0; i < 600*scale; i++ {
		h := r.schemeSoup(o)
		stripOp(h)
		if r.Chance(1, 3) {
			parseOp("soup", h)
			toksOp0(h)
		}
	}

	// E. location split
	pool, byCluster := mintPool(o)
	var locs []string
	for _, cl := range hdrLocClusters {
		locs = append(locs, cl...)
	}
	locs = append(locs, "https://nobody.example", "https://perm.exampld")
	for i := 0; i < 500*scale; i++ {
		toks := r.splitTokens(o, pool, byCluster)
		loc := pick(r, locs)
		locKind := "pool"
		if len(toks) > 0 && r.Chance(7, 10) {
			// the location of one of the listed tokens, when it has one - or a near miss of it
			if m, err := macaroon.Decode(pick(r, toks)); err == nil {
				loc = m.Location
				locKind = "of-a-listed-token"
				if r.Chance(1, 5) {
					switch r.Intn(6) {
					case 0:
						loc = r.randCase(loc)
						locKind = "listed.case"
					case 1:
						loc += pick(r, []string{"/", " ", "\n", "\x00", "?", "#", "."})
						locKind = "listed.suffixed"
					case 2:
						if len(loc) > 0 {
							loc = loc[:len(loc)-1]
						}
						locKind = "listed.shortened"
					case 3:
						loc = " " + loc
						locKind = "listed.prefixed"
					case 4:
						loc = strings.ToUpper(loc)
						locKind = "listed.upper"
					default:
						loc = strings.TrimRight(loc, "/ \n")
						locKind = "listed.trimmed"
					}
				}
			}
		}
		o.count("split.loc." + locKind)
		res := guard(func() string {
			pm, pt, dm, dt, err := macaroon.FindPermissionAndDischargeTokens(toks, loc)
			if err != nil {
				return "err"
			}
			if len(pm) != len(pt) || len(dm) != len(dt) {
				return "parallel-lists-differ"
			}
			for j := range pm {
				if pm[j].Location != loc {
					return "permission-macaroon-elsewhere"
				}
				if enc, err := pm[j].Encode(); err == nil && string(enc) != string(pt[j]) {
					o.count("split.parallel.reencode-differs")
				}
			}
			for j := range dm {
				if dm[j].Location == loc {
					return "discharge-macaroon-at-the-issuer"
				}
			}
			return "perm:" + joinHx(pt) + " dis:" + joinHx(dt)
		})
		// the model receives the list in order, duplicates included
		var sb strings.Builder
		for _, t := range toks {
			fmt.Fprintf(&sb, " (%s %s)", hx(t), oracle(t))
		}
		o.emit("(hdr.split "+hs(loc)+sb.String()+")", res)
		np := strings.Count(strings.SplitN(res, " ", 2)[0], "x")
		switch {
		case np == 0:
			o.count("res.split.perm.0")
		case np == 1:
			o.count("res.split.perm.1")
		default:
			o.count("res.split.perm.2+")
		}

		// the same tokens through a header
		var nonEmpty [][]byte
		for _, t := range toks {
			if len(t) > 0 {
				nonEmpty = append(nonEmpty, t)
			}
		}
		var body string
		switch {
		case len(nonEmpty) == 0:
			body = pick(r, []string{"", "fo1_x", "fm2_", "garbage"})
		case r.Chance(1, 8):
			body, _ = r.corrupt(o, nonEmpty)
		default:
			body = strings.Join(r.labelledEntries(o, nonEmpty, 1), ",")
		}
		h := r.decorate(o, body, 2)
		known := append([][]byte(nil), toks...)
		if parsed, err := macaroon.Parse(h); err == nil {
			known = append(known, parsed...)
		}
		pairs := oraclePairs(o, known)
		res = guard(func() string { return implPPDResult(macaroon.ParsePermissionAndDischargeTokens(h, loc)) })
		resStat("ppd", res)
		o.emit("(hdr.ppd "+hs(h)+" "+hs(loc)+pairs+")", res)
		res = guard(func() string { return implPPDResult(flyio.ParsePermissionAndDischargeTokens(h)) })
		resStat("ppd.flyio", res)
		o.emit("(hdr.ppd.flyio "+hs(h)+pairs+")", res)
		toksOp0(h) // real tokens through the bundle tokeniser
	}

	// F. Headers that are NOT valid UTF-8.  They are outside the modelled domain (the model works on code points);
	// what must happen does not need the model: an ill-formed byte sequence is no white space, no letter of a scheme,
	// no label, no base64 - wherever it is put into a header without OAuth entries (whose bodies are opaque), Parse
	// rejects with the unrecognized-token error; and in front of or behind an otherwise space-free body it stays
	// part of what StripAuthorizationScheme returns.  Model-independent oracle lines.
	for i := 0; i < 150*scale; i++ {
		toks := r.tokens(o, 3)
		body := strings.Join(r.labelledEntries(o, toks, 0), ",")
		h := r.decorate(o, body, 2)
		bad := pick(r, hdrInvalidUTF8)
		var bounds []int
		for j := range h {
			bounds = append(bounds, j)
		}
		bounds = append(bounds, len(h))
		pos := pick(r, bounds)
		hb := h[:pos] + bad + h[pos:]
		if utf8.ValidString(hb) {
			panic("harness: the ill-formed sequence became well-formed")
		}
		o.count("invalid-utf8.parse")
		res := implParse(hb)
		resStat("invalid-utf8", res)
		o.emit("(const err:unrecognized)", res)

		// strip: decoration around a body that starts or ends with the ill-formed bytes
		sb := body
		if r.Bool() {
			sb = bad + body
		} else {
			sb = body + bad
		}
		nwBefore := o.stats["deco.words.0"]
		hs2 := r.decorate(o, sb, 3)
		words0 := o.stats["deco.words.0"] != nwBefore
		want := fmt.Sprintf("%s %v", hs(sb), !words0)
		o.count("invalid-utf8.strip")
		if got := implStrip(hs2); got == want {
			o.emit("(const strip-exact)", "strip-exact")
		} else {
			o.emit("(const strip-exact)", "strip-differs:"+hs(hs2)+":"+got)
		}
	}
}
