package main

// Family header (C19): Authorization-header grammar.
//
//   (hdr.format xT...)                   macaroon.ToAuthorizationHeader
//   (hdr.parse xH)                     macaroon.Parse: returned token list | error class
//   (hdr.strip xH)                     macaroon.StripAuthorizationScheme
//   (hdr.toks xH)                      bundle.ParseBundleWithFilter(..., KeepAll): typed tokens, Header(), String()
//   (hdr.split xLOC (xT xLOC|none)...)   macaroon.FindPermissionAndDischargeTokens
//   (hdr.ppd xH xLOC (xT ...)...)          macaroon.ParsePermissionAndDischargeTokens
//   (hdr.ppd.flyio xH (xT ...)...)         flyio.ParsePermissionAndDischargeTokens
//
// Header strings are always valid UTF-8 (the model works on code points).  In split/ppd the pairs
// are the decode oracle handed to the model: for each token what macaroon.Decode says (its
// location, or none) - the macaroon codec is not part of this property.
//
// Random token bytes never start with a msgpack array/map/ext header: hdr.toks feeds them to
// macaroon.Decode, whose allocation behaviour on adversarial input is another property's business.
// Real tokens are minted with macaroon.New (nonce from crypto/rand: their 16 random bytes are the
// only data here that does not derive from the seed; every op line is self-contained all the same).

import (
	"encoding/base64"
	"errors"
	"fmt"
	"strings"
	"unicode/utf8"

	"github.com/superfly/macaroon"
	"github.com/superfly/macaroon/bundle"
	"github.com/superfly/macaroon/flyio"
)

func init() { families["header"] = famHeader }

// ---- observables of the implementation ----

func hdrErrClass(err error) string {
	if errors.Is(err, macaroon.ErrUnrecognizedToken) {
		return "err:unrecognized"
	}
	return "err:other"
}

func implParse(h string) string {
	return guard(func() string {
		toks, err := macaroon.Parse(h)
		if err != nil {
			if toks != nil {
				return "err-with-tokens"
			}
			return hdrErrClass(err)
		}
		parts := []string{"ok"}
		for _, t := range toks {
			parts = append(parts, hx(t))
		}
		return strings.Join(parts, " ")
	})
}

func implFormat(toks [][]byte) string {
	return guard(func() string { return hs(macaroon.ToAuthorizationHeader(toks...)) })
}

func implStrip(h string) string {
	return guard(func() string {
		rest, found := macaroon.StripAuthorizationScheme(h)
		return fmt.Sprintf("%s %v", hs(rest), found)
	})
}

func implToks(o *Out, h string) string {
	return guard(func() string {
		b, _ := bundle.ParseBundleWithFilter("https://perm.example", h, bundle.KeepAll)
		var parts []string
		bundle.ForEach(b, func(t bundle.Token) {
			s := t.String()
			switch tt := t.(type) {
			case bundle.NonMacaroon:
				o.count("toks.class.non")
				parts = append(parts, "non:"+hs(s))
			case *bundle.MalformedMacaroon:
				var cie base64.CorruptInputError
				if errors.As(tt.Err, &cie) {
					o.count("toks.class.badb64")
					if !errors.Is(tt.Err, macaroon.ErrUnrecognizedToken) {
						parts = append(parts, "badb64-not-unrecognized:"+hs(s))
					} else {
						parts = append(parts, "badb64:"+hs(s))
					}
				} else {
					o.count("toks.class.mac.undecodable")
					parts = append(parts, "mac:"+hs(s)+":"+hx(rawOfPart(s)))
				}
			case *bundle.UnverifiedMacaroon:
				o.count("toks.class.mac.decoded")
				raw := rawOfPart(s)
				if enc, err := tt.UnsafeMac.Encode(); err != nil || string(enc) != string(raw) {
					o.count("toks.reencode-differs")
				}
				parts = append(parts, "mac:"+hs(s)+":"+hx(raw))
			default:
				parts = append(parts, fmt.Sprintf("unexpected-%T", t))
			}
		})
		parts = append(parts, "hdr:"+hs(b.Header()), "str:"+hs(b.String()))
		return strings.Join(parts, " ")
	})
}

// the bytes the tokeniser handed to macaroon.Decode: the standard decoding of what follows the first '_'
func rawOfPart(s string) []byte {
	_, b64, _ := strings.Cut(s, "_")
	raw, err := base64.StdEncoding.DecodeString(b64)
	if err != nil {
		return []byte("harness: base64 error on a part the tokeniser accepted")
	}
	return raw
}

func oracle(tok []byte) string {
	return guard(func() string {
		m, err := macaroon.Decode(tok)
		if err != nil {
			return "none"
		}
		return hs(m.Location)
	})
}

func oraclePairs(o *Out, toks [][]byte) string {
	var sb strings.Builder
	seen := map[string]bool{}
	for _, t := range toks {
		if seen[string(t)] {
			continue
		}
		seen[string(t)] = true
		orc := oracle(t)
		if orc == "none" {
			o.count("oracle.undecodable")
		} else {
			o.count("oracle.decodable")
		}
		fmt.Fprintf(&sb, " (%s %s)", hx(t), orc)
	}
	return sb.String()
}

func joinHx(ts [][]byte) string {
	p := make([]string, len(ts))
	for i, t := range ts {
		p[i] = hx(t)
	}
	return strings.Join(p, ",")
}

func implPPDResult(perm []byte, dis [][]byte, err error) string {
	if err != nil {
		return hdrErrClass(err)
	}
	parts := []string{"ok", hx(perm)}
	for _, d := range dis {
		parts = append(parts, hx(d))
	}
	return strings.Join(parts, " ")
}

// ---- generators ----

var hdrSpaces = []string{" ", " ", " ", "\t", "\n", "\r", "\v", "\f", "\u0085", "\u00a0", "\u1680", "\u2003", "\u200a", "\u2028", "\u2029", "\u202f", "\u205f", "\u3000"}

// look like blanks but are not unicode.IsSpace
var hdrNonSpaces = []string{"\u200b", "\u180e", "\ufeff", "\u2060", "\x00", "\x1f", "\u001c"}

func (r *Rng) ws(max int) string {
	var sb strings.Builder
	for n := r.Intn(max + 1); n > 0; n-- {
		sb.WriteString(pick(r, hdrSpaces))
	}
	return sb.String()
}

func (r *Rng) randCase(s string) string {
	b := []byte(s)
	for i, c := range b {
		if r.Bool() {
			if c >= 'a' && c <= 'z' {
				b[i] = c - 32
			} else if c >= 'A' && c <= 'Z' {
				b[i] = c + 32
			}
		}
	}
	return string(b)
}

// a gap after a scheme word: white space containing at least one U+0020
func (r *Rng) gap() string {
	switch r.Intn(6) {
	case 0, 1, 2:
		return strings.Repeat(" ", 1+r.Intn(3))
	default:
		return r.ws(2) + " " + r.ws(2)
	}
}

// decorate wraps body in leading/trailing white space and 0..maxWords scheme words
func (r *Rng) decorate(o *Out, body string, maxWords int) string {
	nw := r.Intn(maxWords + 1)
	o.count(fmt.Sprintf("deco.words.%d", nw))
	var sb strings.Builder
	lead, trail := "", ""
	if r.Chance(1, 3) {
		lead = r.ws(3)
	}
	if r.Chance(1, 3) {
		trail = r.ws(3)
	}
	if lead != "" || trail != "" {
		o.count("deco.outer-space")
	}
	sb.WriteString(lead)
	for i := 0; i < nw; i++ {
		w := pick(r, []string{"FlyV1", "Bearer"})
		switch r.Intn(4) {
		case 0:
			o.count("deco.case.exact")
		case 1:
			w = strings.ToLower(w)
			o.count("deco.case.lower")
		case 2:
			w = strings.ToUpper(w)
			o.count("deco.case.upper")
		default:
			w = r.randCase(w)
			o.count("deco.case.mixed")
		}
		sb.WriteString(w)
		sb.WriteString(r.gap())
	}
	sb.WriteString(body)
	sb.WriteString(trail)
	return sb.String()
}

func unsafeFirst(b byte) bool {
	return (b >= 0x80 && b <= 0x9f) || (b >= 0xc7 && b <= 0xc9) || (b >= 0xd4 && b <= 0xd8) || (b >= 0xdc && b <= 0xdf)
}

func (r *Rng) token(o *Out) []byte {
	var n int
	switch r.Intn(4) {
	case 0:
		n = 1 + r.Intn(6)
	default:
		n = 1 + r.Intn(200)
	}
	b := r.Bytes(n)
	for unsafeFirst(b[0]) {
		b[0] = byte(r.U64())
	}
	o.count(fmt.Sprintf("tok.len%%3=%d", n%3))
	switch {
	case n <= 3:
		o.count("tok.len.1-3")
	case n <= 32:
		o.count("tok.len.4-32")
	default:
		o.count("tok.len.33-200")
	}
	return b
}

func (r *Rng) tokens(o *Out, max int) [][]byte {
	n := 1 + r.Intn(max)
	o.count(fmt.Sprintf("toks.n.%d", n))
	ts := make([][]byte, n)
	for i := range ts {
		ts[i] = r.token(o)
	}
	return ts
}

var macLabels = []string{"fm1r", "fm1a", "fm2"}

func entryOf(label string, tok []byte) string {
	return label + "_" + base64.StdEncoding.EncodeToString(tok)
}

func (r *Rng) oauthEntry(o *Out) string {
	o.count("entry.oauth")
	switch r.Intn(4) {
	case 0:
		return "fo1_"
	case 1:
		return "fo1_" + base64.RawURLEncoding.EncodeToString(r.Bytes(1+r.Intn(30)))
	case 2:
		return "fo1_not base64 at all!_" + pick(r, hdrNonSpaces)
	default:
		return "fo1_" + base64.StdEncoding.EncodeToString(r.Bytes(r.Intn(20)))
	}
}

// entries with a label choice per token and OAuth entries interleaved
func (r *Rng) labelledEntries(o *Out, toks [][]byte, oauthChance int) []string {
	var es []string
	for _, t := range toks {
		for r.Chance(oauthChance, 10) {
			es = append(es, r.oauthEntry(o))
		}
		l := pick(r, macLabels)
		o.count("entry.label." + l)
		es = append(es, entryOf(l, t))
	}
	for r.Chance(oauthChance, 10) {
		es = append(es, r.oauthEntry(o))
	}
	return es
}

// corrupt returns a header derived from well-formed entries by one corruption, and its name
func (r *Rng) corrupt(o *Out, toks [][]byte) (string, string) {
	es := r.labelledEntries(o, toks, 1)
	var macIdx []int
	for j, e := range es {
		if !strings.HasPrefix(e, "fo1_") {
			macIdx = append(macIdx, j)
		}
	}
	i := pick(r, macIdx) // a macaroon entry: its payload is never empty
	label, b64, _ := strings.Cut(es[i], "_")
	join := func() string { return strings.Join(es, ",") }
	insertAt := func(s, ins string, pos int) string { return s[:pos] + ins + s[pos:] }
	kind := ""
	switch k := r.Intn(20); k {
	case 0:
		kind = "unknown-label"
		es[i] = pick(r, []string{"fm3", "fm1", "fm2x", "FM2", "fm1R", "Fm1a", "", "fo2", "fo1x", "fm", "fm22", "fm1ra", "xfm2", "fm1r\u212a", "\u017fm2"}) + "_" + b64
	case 1:
		kind = "label-with-space"
		es[i] = pick(r, []string{" fm2", "fm2 ", "\tfm1r", "fm1a\t", "\u00a0fm2", "fm2\n", "\nfm2", " fo1", "fo1 "}) + "_" + b64
	case 2:
		kind = "missing-separator"
		if r.Bool() {
			es[i] = label + pick(r, []string{"", "-", " ", ":", "="}) + b64
		} else {
			// an extra element that is a bare known label (OAuth label included) or a known label glued to
			// a payload without the separator, next to the valid entries
			kind = "missing-separator-extra"
			bare := pick(r, []string{"fo1", "fm2", "fm1r", "fm1a", "fo1" + b64, "fo1-x", "fo1 "})
			pos := r.Intn(len(es) + 1)
			es = append(es[:pos], append([]string{bare}, es[pos:]...)...)
		}
	case 3:
		kind = "separator-only"
		es[i] = pick(r, []string{"_", "_" + b64, "__", "_fm2_" + b64})
	case 4:
		kind = "empty-payload"
		es[i] = label + "_" + pick(r, []string{"", "\n", "\r\n", "\r\n\r\n"})
	case 5:
		kind = "bad-alphabet"
		pos := r.Intn(len(b64))
		rep := pick(r, []string{"-", "_", "!", "*", ".", " ", "\t", "\u00e9", "\u00a0", "\x00", "~", "@"})
		es[i] = label + "_" + b64[:pos] + rep + b64[pos+1:]
	case 6:
		kind = "pad-in-middle"
		pos := r.Intn(len(b64))
		es[i] = label + "_" + b64[:pos] + "=" + b64[pos+1:]
	case 7:
		kind = "padding-stripped"
		es[i] = label + "_" + strings.TrimRight(b64, "=")
	case 8:
		kind = "padding-extra"
		es[i] = label + "_" + b64 + pick(r, []string{"=", "==", "===", "===="})
	case 9:
		kind = "truncated"
		cut := 1 + r.Intn(3)
		if cut > len(b64) {
			cut = len(b64)
		}
		es[i] = label + "_" + b64[:len(b64)-cut]
	case 10:
		kind = "extra-char"
		es[i] = label + "_" + insertAt(b64, pick(r, []string{"A", "/", "+", "9", "AA", "AAA", "AAAA"}), r.Intn(len(b64)+1))
	case 11:
		kind = "newline-in-payload"
		nl := pick(r, []string{"\n", "\r", "\r\n", "\n\n"})
		s := insertAt(b64, nl, r.Intn(len(b64)+1))
		if r.Chance(1, 3) {
			s = insertAt(s, nl, r.Intn(len(s)+1))
		}
		es[i] = label + "_" + s
	case 12:
		kind = "newline-in-label"
		es[i] = insertAt(label, pick(r, []string{"\n", "\r"}), r.Intn(len(label)+1)) + "_" + b64
	case 13:
		kind = "empty-element"
		pos := r.Intn(len(es) + 1)
		es = append(es[:pos], append([]string{""}, es[pos:]...)...)
	case 14:
		kind = "trailing-or-leading-comma"
		if r.Bool() {
			return join() + ",", kind
		}
		return "," + join(), kind
	case 15:
		kind = "space-around-comma"
		if len(es) == 1 {
			es = append(es, entryOf(pick(r, macLabels), r.token(o)))
		}
		sep := pick(r, []string{", ", " ,", " , ", ",\t", "\n,", ",\u00a0", ", \r\n"})
		return strings.Join(es, sep), kind
	case 16:
		kind = "nonzero-pad-bits"
		// non-strict decoding ignores the unused low bits of the last sextet of a padded group
		if strings.HasSuffix(b64, "=") {
			core := strings.TrimRight(b64, "=")
			const alpha = "ABCDEFGHIJKLMNOPQRSTUVWXYZabcdefghijklmnopqrstuvwxyz0123456789+/"
			v := strings.IndexByte(alpha, core[len(core)-1])
			mask := 3
			if len(b64)-len(core) == 2 {
				mask = 15
			}
			v = v | (1 + r.Intn(mask))
			es[i] = label + "_" + core[:len(core)-1] + string(alpha[v]) + b64[len(core):]
		} else {
			es[i] = label + "_" + b64 + "\n"
		}
	case 17:
		kind = "double-separator"
		es[i] = label + "__" + b64
	case 18:
		kind = "only-oauth"
		n := 1 + r.Intn(3)
		es = es[:0]
		for j := 0; j < n; j++ {
			es = append(es, r.oauthEntry(o))
		}
	default:
		kind = "non-space-blank"
		ns := pick(r, hdrNonSpaces)
		if r.Bool() {
			return ns + join(), kind
		}
		return join() + ns, kind
	}
	return join(), kind
}

// headers that stress StripAuthorizationScheme
func (r *Rng) schemeSoup(o *Out) string {
	words := []string{"FlyV1", "Bearer", "flyv1", "BEARER", "bearer", "FLYV1", "Bearers", "FlyV", "FlyV11", "Bear", "Basic", "FlyV2",
		"Bearer\t", "\tFlyV1", "Bearer,", "FlyV1,", "fm2_QQ==", "fm2_QQ==,fm1r_QUI=", "fo1_x", "x", "",
		"Bea\u212aer", "\u017fearer", "\uff26lyV1", "FlyV\u0661", "FlyV1\u200b", "Bearer\u00a0", "\u00a0Bearer", "Bearer\u3000FlyV1", "\u0130", "bEARER", "fLYv1"}
	n := r.Intn(6)
	o.count(fmt.Sprintf("soup.words.%d", n))
	var sb strings.Builder
	sb.WriteString(r.ws(2))
	for i := 0; i < n; i++ {
		w := pick(r, words)
		if r.Chance(1, 4) {
			w = r.randCase(w)
		}
		sb.WriteString(w)
		switch r.Intn(5) {
		case 0:
			sb.WriteString(pick(r, []string{"\t", "\n", "\u00a0", "", "\u3000"}))
		default:
			sb.WriteString(r.gap())
		}
	}
	if r.Bool() {
		sb.WriteString(pick(r, words))
	}
	sb.WriteString(r.ws(2))
	return sb.String()
}

type realTok struct {
	loc string
	tok []byte
}

func mintPool() []realTok {
	locs := []string{"https://perm.example", "https://tp.example", flyio.LocationPermission, flyio.LocationAuthentication, "", "root", "https://perm.example/"}
	var pool []realTok
	for i, loc := range locs {
		for j := 0; j < 3; j++ {
			m, err := macaroon.New([]byte(fmt.Sprintf("kid-%d-%d", i, j)), loc, macaroon.NewSigningKey())
			if err != nil {
				panic(err)
			}
			tok, err := m.Encode()
			if err != nil {
				panic(err)
			}
			pool = append(pool, realTok{loc, tok})
		}
		// a finalised PROOF token at the same location (a discharge of a third-party caveat that names this very
		// location): permission and discharge tokens are told apart by location alone, whatever the nonce says
		ka := macaroon.NewEncryptionKey()
		if c3, err := macaroon.NewCaveat3P(ka, loc); err == nil {
			if _, d, err := macaroon.DischargeTicket(ka, loc, c3.Ticket); err == nil {
				if tok, err := d.Encode(); err == nil {
					pool = append(pool, realTok{loc, tok})
				}
			}
		}
	}
	return pool
}

// byte strings macaroon.Decode refuses, cheaply (they fail at the first msgpack byte or inside the nonce)
func (r *Rng) undecodable(o *Out, pool []realTok) []byte {
	switch r.Intn(5) {
	case 0:
		o.count("split.tok.undecodable.c1")
		return append([]byte{0xc1}, r.Bytes(r.Intn(40))...)
	case 1:
		o.count("split.tok.undecodable.text")
		return []byte(pick(r, []string{"hello", "fm2_abc", "{}", "0", "not a token"}))
	case 2:
		o.count("split.tok.undecodable.truncated")
		t := pick(r, pool).tok
		return append([]byte(nil), t[:1+r.Intn(8)]...)
	case 3:
		o.count("split.tok.undecodable.firstbyte")
		t := append([]byte(nil), pick(r, pool).tok...)
		t[0] = 0xc1
		return t
	default:
		o.count("split.tok.undecodable.random")
		b := r.Bytes(1 + r.Intn(60))
		for unsafeFirst(b[0]) {
			b[0] = byte(r.U64())
		}
		return b
	}
}

// a token list for the location split: real tokens of several locations, relocated copies, garbage
func (r *Rng) splitTokens(o *Out, pool []realTok) [][]byte {
	n := r.Intn(7)
	if r.Chance(1, 10) {
		n = 0
	}
	o.count(fmt.Sprintf("split.n.%d", n))
	var ts [][]byte
	for i := 0; i < n; i++ {
		switch k := r.Intn(10); {
		case k < 6:
			o.count("split.tok.real")
			ts = append(ts, pick(r, pool).tok)
		case k < 7:
			// change one byte of the location string inside a real token: still decodes, elsewhere
			rt := pick(r, pool)
			t := append([]byte(nil), rt.tok...)
			if idx := strings.Index(string(t), rt.loc); rt.loc != "" && idx >= 0 {
				switch r.Intn(3) {
				case 0:
					t[idx+r.Intn(len(rt.loc))] ^= 1
					o.count("split.tok.relocated")
				case 1:
					// a location that differs from the original only in letter case (one letter)
					for try := 0; try < 20; try++ {
						j := idx + r.Intn(len(rt.loc))
						if c := t[j] | 0x20; c >= 'a' && c <= 'z' {
							t[j] ^= 0x20
							break
						}
					}
					o.count("split.tok.relocated.case1")
				default:
					// … in the case of every letter
					for j := idx; j < idx+len(rt.loc); j++ {
						if c := t[j] | 0x20; c >= 'a' && c <= 'z' {
							t[j] ^= 0x20
						}
					}
					o.count("split.tok.relocated.caseall")
				}
			} else {
				o.count("split.tok.real")
			}
			ts = append(ts, t)
		case k < 8 && len(ts) > 0:
			o.count("split.tok.duplicate")
			ts = append(ts, ts[r.Intn(len(ts))])
		default:
			ts = append(ts, r.undecodable(o, pool))
		}
	}
	return ts
}

func famHeader(r *Rng, o *Out, tier string) {
	scale := 1
	if tier == "thorough" {
		scale = 20
	}
	resStat := func(kind, res string) {
		cls := res
		if i := strings.IndexByte(res, ' '); i >= 0 {
			cls = res[:i]
		}
		if strings.HasPrefix(res, "panic") {
			cls = "panic"
		}
		o.count("res." + kind + "." + cls)
	}
	parseOp := func(kind, h string) {
		if !utf8.ValidString(h) {
			panic("harness generated a header that is not UTF-8")
		}
		res := implParse(h)
		resStat(kind, res)
		o.emit("(hdr.parse "+hs(h)+")", res)
	}
	toksOp := func(h string) { o.emit("(hdr.toks "+hs(h)+")", implToks(o, h)) }
	stripOp := func(h string) {
		res := implStrip(h)
		if strings.HasSuffix(res, "true") {
			o.count("res.strip.found")
		} else {
			o.count("res.strip.notfound")
		}
		o.emit("(hdr.strip "+hs(h)+")", res)
	}

	// fixed edge cases first
	for _, h := range []string{"", " ", "FlyV1", "FlyV1 ", "Bearer", "Bearer  ", "FlyV1 Bearer", "FlyV1 Bearer ", "FlyV1 FlyV1 x", ",", "_", "fm2_", "fo1_",
		"fo1_,fo1_", "FlyV1 fo1_abc", "fm2_QQ==", "fm2_QR==", "fm2_QQ", "fm2_QQ=", "fm2_QQ===", "fm2_Q", "fm2_=", "fm2_====", "FlyV1\tfm2_QQ==", "FlyV1\t fm2_QQ==",
		"FlyV1 \tfm2_QQ==", "FlyV1\u00a0fm2_QQ==", "flyv1 bearer FLYV1 fm2_QQ==", "fm2_QQ== FlyV1", "fm2_QQ== ", "fm2_QQ==\n", "fm2_Q\nQ=\r=", "fm2_QQ==,", ",fm2_QQ==",
		"fm2_QQ==, fm2_QQ==", "fm1r_QQ==,fm1a_QUI=,fm2_QUJD,fo1_zzz", "fm2_fm2_QQ==", "Bearer fm2_QQ==,Bearer fm2_QQ==", "FlyV1 fm2_QQ==,FlyV1", "\u212a fm2_QQ==",
		"FlyV1 fm2_QUJD QUJD", "fm2_QUJD QUJD", "fm2 _QQ==", "FlyV1 fm2 _QQ=="} {
		parseOp("edge", h)
		toksOp(h)
		stripOp(h)
	}
	o.emit("(hdr.format)", implFormat(nil))
	o.emit("(hdr.format x)", implFormat([][]byte{{}}))
	o.emit("(hdr.format x x)", implFormat([][]byte{{}, {}}))
	parseOp("edge", macaroon.ToAuthorizationHeader())
	parseOp("edge", macaroon.ToAuthorizationHeader([]byte{}))
	parseOp("edge", macaroon.ToAuthorizationHeader([]byte{}, []byte{1}))

	// A. format, decorate, parse back
	for i := 0; i < 800*scale; i++ {
		toks := r.tokens(o, 6)
		hxs := make([]string, len(toks))
		for j, t := range toks {
			hxs[j] = hx(t)
		}
		o.emit("(hdr.format "+strings.Join(hxs, " ")+")", implFormat(toks))
		full := macaroon.ToAuthorizationHeader(toks...)
		body := strings.TrimPrefix(full, "FlyV1 ")
		var h string
		if r.Chance(1, 6) {
			h = r.decorate(o, full, 2) // keeps the scheme ToAuthorizationHeader wrote: up to three words
		} else {
			h = r.decorate(o, body, 3)
		}
		parseOp("roundtrip", h)
		stripOp(h)
		toksOp(h)
	}

	// B. label choices, OAuth entries
	for i := 0; i < 600*scale; i++ {
		toks := r.tokens(o, 6)
		h := r.decorate(o, strings.Join(r.labelledEntries(o, toks, 3), ","), 3)
		parseOp("labels", h)
		toksOp(h)
	}

	// C. corruptions
	for i := 0; i < 1300*scale; i++ {
		toks := r.tokens(o, 4)
		body, kind := r.corrupt(o, toks)
		o.count("corrupt." + kind)
		h := body
		if r.Bool() {
			h = r.decorate(o, body, 2)
		}
		res := implParse(h)
		cls := res
		if j := strings.IndexByte(res, ' '); j >= 0 {
			cls = res[:j]
		}
		o.count("corrupt." + kind + "->" + cls)
		parseOp("corrupt", h)
		toksOp(h)
	}

	// D. scheme stripping
	for i := 0; i < 600*scale; i++ {
		h := r.schemeSoup(o)
		stripOp(h)
		if r.Chance(1, 3) {
			parseOp("soup", h)
			toksOp(h)
		}
	}

	// E. location split
	pool := mintPool()
	locs := []string{"https://perm.example", "https://tp.example", flyio.LocationPermission, flyio.LocationAuthentication, "", "root", "https://perm.example/", "https://nobody.example", "https://perm.exampld"}
	for i := 0; i < 450*scale; i++ {
		toks := r.splitTokens(o, pool)
		loc := pick(r, locs)
		if len(toks) > 0 && r.Chance(3, 5) {
			// the location of one of the listed tokens, when it has one
			if m, err := macaroon.Decode(pick(r, toks)); err == nil {
				loc = m.Location
			}
		}
		res := guard(func() string {
			pm, pt, dm, dt, err := macaroon.FindPermissionAndDischargeTokens(toks, loc)
			if err != nil {
				return "err"
			}
			if len(pm) != len(pt) || len(dm) != len(dt) {
				return "parallel-lists-differ"
			}
			for j := range pm {
				if pm[j].Location != loc {
					return "permission-macaroon-elsewhere"
				}
			}
			return "perm:" + joinHx(pt) + " dis:" + joinHx(dt)
		})
		// the model receives the list in order, duplicates included
		var sb strings.Builder
		for _, t := range toks {
			fmt.Fprintf(&sb, " (%s %s)", hx(t), oracle(t))
		}
		o.emit("(hdr.split "+hs(loc)+sb.String()+")", res)
		np := strings.Count(strings.SplitN(res, " ", 2)[0], "x")
		switch {
		case np == 0:
			o.count("res.split.perm.0")
		case np == 1:
			o.count("res.split.perm.1")
		default:
			o.count("res.split.perm.2+")
		}

		// the same tokens through a header
		var nonEmpty [][]byte
		for _, t := range toks {
			if len(t) > 0 {
				nonEmpty = append(nonEmpty, t)
			}
		}
		var body string
		switch {
		case len(nonEmpty) == 0:
			body = pick(r, []string{"", "fo1_x", "fm2_", "garbage"})
		case r.Chance(1, 8):
			body, _ = r.corrupt(o, nonEmpty)
		default:
			body = strings.Join(r.labelledEntries(o, nonEmpty, 1), ",")
		}
		h := r.decorate(o, body, 2)
		known := append([][]byte(nil), toks...)
		if parsed, err := macaroon.Parse(h); err == nil {
			known = append(known, parsed...)
		}
		pairs := oraclePairs(o, known)
		res = guard(func() string { return implPPDResult(macaroon.ParsePermissionAndDischargeTokens(h, loc)) })
		resStat("ppd", res)
		o.emit("(hdr.ppd "+hs(h)+" "+hs(loc)+pairs+")", res)
		res = guard(func() string { return implPPDResult(flyio.ParsePermissionAndDischargeTokens(h)) })
		resStat("ppd.flyio", res)
		o.emit("(hdr.ppd.flyio "+hs(h)+pairs+")", res)
		toksOp(h) // real tokens through the bundle tokeniser
	}
}
