package main

// Family tp (C16): the real tp.TP with a tp.MemoryStore behind a wrapping tp.Store, driven
// in-process through httptest by random histories over 1-4 concurrent flows (thorough tier: up to 8 flows, 60 actions).
//
//   (tp.run ACT …)     every handler runs to completion before the next starts
//   (tp.sched ITEM …)  handlers run as goroutines; the wrapping store parks every store operation
//                      and a seeded scheduler releases them one at a time, so the line is the exact
//                      interleaving of store operations that happened
//
// Observable per line: one token per action/handler — status, body kind, +app when an application
// handler ran, and for a discharge which pool token it verifies for (t<i>) with which of the
// application's caveats (c<k>) — then (sched only) the store-operation log, then the live keys.
// Evictions of the LRU are observed after every Insert and fed to the model as (evict …) items.
//
// Two tp.TP values (service 0 and 1: own Key and Location) share the ONE wrapped store; every
// action names the service it is addressed to.  A quarter of the polls / user visits / decisions on
// a flow go to the service that did NOT start it (pending and decided flows alike), init also gets
// valid tickets of the other service, and in tp.run episodes a third of the requests are realised
// on the other tp.TP with its Key and Location replaced for the call ("key rotated between approval and
// collection").  Pool token ids are 2*i+svc: the parity is the model's `sealer`.
//
// What varies per episode and is invisible to the model (the model must predict the same line whatever they are):
// the two Locations (trailing slash, upper-case host, port, a path with a `poll` segment, both services under ONE
// location string), the user-URL prefix of the store's PrefixMunger, whether a pool token
// carries a third-party caveat of BOTH services ("dual": a discharge must satisfy exactly the caveat of its own
// ticket; the harness supplies a discharge of its own making for the other one), caveats embedded in the tickets
// (the application must get exactly them from CaveatsFromRequest: `!cavs` otherwise), the JSON shape of the init
// body, how a secret is spelled in a URL (extra path segments, trailing slash, percent-encoding, query), the Go
// caveat kind behind a caveat id, whether caveat objects are shared between calls, application message texts,
// the representation of the tp.Store behind the services (see tpWrapStore: a third of the episodes run on a store
// that serialises / returns empty-not-nil / nil-for-empty / copies on write).
//
//   (const e2e:…)      the real tp.Client against the two services over an in-process RoundTripper: the name of
//                      the constant is what the scripted applications entitle the client to; model-independent

import (
	"bytes"
	"context"
	"encoding/hex"
	"encoding/json"
	"errors"
	"fmt"
	"io"
	"net/http"
	"net/http/cookiejar"
	"net/http/httptest"
	"net/url"
	"sort"
	"strings"
	"sync"
	"time"

	"github.com/superfly/macaroon"
	"github.com/superfly/macaroon/auth"
	"github.com/superfly/macaroon/flyio"
	"github.com/superfly/macaroon/resset"
	"github.com/superfly/macaroon/tp"
	"golang.org/x/crypto/blake2b"
)

func init() { families["tp"] = famTP }

const (
	tpFirst  = "https://first-party.example"
	tpCavEnd = int64(1) << 40
	tpNCav   = 8 // caveat ids 1..tpNCav are caveats Macaroon.Add accepts
)

// locations of service 0 / service 1 (own key, own location, SAME store); tp/README allows a path in a location,
// tp.url and the client's initURL have a branch of their own for a trailing slash
var tpLocPool = [2][]string{
	{"https://tp.example", "https://tp.example", "https://tp.example/", "https://TP.Example", "http://tp.example:8080", "https://tp.example/%7Etp"},
	{"https://tp-b.example/auth/v1", "https://tp-b.example/auth/v1", "https://tp-b.example/auth/v1/", "https://tp-b.example/a/poll/b", "https://TP-B.example:8443/Auth"},
}

// prefixes of the PrefixMunger: the user page is the application's own URL
var tpUserPfxPool = []string{"/user/", "/user/", "/u/", "/app/login/user/", "/user/id=", "/.well-known/macfly/3p/user/"}

type tpThreadKey struct{}

type tpTok struct {
	id      int // 2*i + svc: the model's ticket atom; its parity names the service whose key seals it
	svc     int
	m       *macaroon.Macaroon
	key     macaroon.SigningKey
	ticket  []byte
	tcavs   []byte   // msgpack of the caveats the first party embedded in the ticket
	helpers [][]byte // dual tokens: discharges (made by the harness) of the token's OTHER third-party caveats
}

type tpFlow struct {
	n                  int // 1-based order of Insert
	svc                int // the service whose init inserted it
	tid                int // pool token id of the ticket that started it
	us, ps             string
	pollLive, userLive bool
}

type tpAct struct {
	kind    string // init poll uservisit approve abort
	svc     int    // the tp.TP the request is addressed to
	viaSwap bool   // realised on the OTHER instance with its Key and Location replaced by this service's for the call
	good    bool
	tid     int    // pool token id (good) or bad-ticket kind
	raw     []byte // ticket bytes
	body    []byte // init: the request body (a JSON shape of raw, or something unparsable)
	mode    string // immediate poll user refuse none
	cs      []int
	cavs    []macaroon.Caveat // the Go caveats behind cs (fresh or the world's shared objects)
	nilCavs bool              // an empty list passed as no variadic argument at all
	status  int
	msg     int
	role    string // approve/abort: poll|user
	secret  string // the secret the handler will extract (what the model is told)
	tail    string // poll/uservisit: how it is spelled after the URL prefix
	path    string // uservisit: a whole path that does NOT start with the munger's prefix ("" = prefix + tail)
	query   string
	doneCtx int // approve/abort: 0 = the live context, 1 = an already cancelled one, 2 = one past its deadline
}

type tpThread struct {
	id         int
	act        *tpAct
	conc       bool
	parked     chan string
	release    chan struct{}
	done       chan string
	state      int // 0 running, 1 parked, 2 returned at spawn (its model step is still due), 3 finished
	parkedKind string
	out        string
	invoked    bool
	retSecret  string
	note       string
}

type tpWorld struct {
	r       *Rng
	o       *Out
	svcs    [2]*tp.TP
	ms      *tp.MemoryStore
	toks    []*tpTok
	foreign []byte // ticket sealed under another service's key
	flows   []*tpFlow
	xs      map[string]int
	threads []*tpThread
	items   []string
	oplog   []string
	inits   int
	conc    bool
	planned int             // inits that will insert
	lastSvc int             // service of the flow genSecret picked last
	initH   [2]http.Handler // the init middleware is built once per service and reused, as on a real mux
	locs    [2]string
	userPfx string
	dual    bool                    // every pool macaroon carries a third-party caveat of BOTH services
	cavObjs map[int]macaroon.Caveat // caveat objects shared between calls
	keys    [2]macaroon.EncryptionKey
}

// ---- wrapping store -------------------------------------------------------------------------

// tp.Store is the exported extension point: a deployment puts a database behind it.  Two thirds of the episodes run
// on the MemoryStore as it is ("memory"); the others on a representation a legitimate Store may have instead, all
// of them the same store at the level the model sees:
//
//	serialising    what goes in is copied (as if written to a row), what comes out is a fresh deep copy whose empty
//	               fields are EMPTY, NOT NIL slices (BLOB NOT NULL DEFAULT '', a Redis hash field, a JSON/gob round
//	               trip): a pending flow reads back as {Ticket, 0, []byte{}}
//	nil-for-empty  the reverse: what comes out has nil for every empty field
//	copy-on-write  Insert/Update store a deep copy: the caller's StoreData and its slices are not the stored ones
//	nil-nil-miss   a miss is reported as (nil, nil), not as an error (a key-value client whose Get returns "no value,
//	               no error"): both HTTP handlers of the library test `err != nil || sd == nil`, i.e. allow for it
type tpWrapStore struct {
	w     *tpWorld
	inner *tp.MemoryStore
	repr  string
}

var _ tp.Store = (*tpWrapStore)(nil)

var tpStoreReprs = []string{"memory", "memory", "memory", "memory", "memory", "memory", "serialising", "nil-for-empty", "copy-on-write", "nil-nil-miss"}

// what the store keeps of a StoreData handed to Insert/Update
func (s *tpWrapStore) in(sd *tp.StoreData) *tp.StoreData {
	if sd == nil || (s.repr != "serialising" && s.repr != "copy-on-write") {
		return sd
	}
	cp := tp.StoreData{ResponseStatus: sd.ResponseStatus}
	if sd.Ticket != nil {
		cp.Ticket = append([]byte{}, sd.Ticket...)
	}
	if sd.ResponseBody != nil {
		cp.ResponseBody = append([]byte{}, sd.ResponseBody...)
	}
	return &cp
}

// what Get* hands out
func (s *tpWrapStore) out(sd *tp.StoreData) *tp.StoreData {
	if sd == nil {
		return nil
	}
	switch s.repr {
	case "serialising":
		return &tp.StoreData{Ticket: append([]byte{}, sd.Ticket...), ResponseStatus: sd.ResponseStatus, ResponseBody: append([]byte{}, sd.ResponseBody...)}
	case "nil-for-empty":
		cp := tp.StoreData{ResponseStatus: sd.ResponseStatus}
		if len(sd.Ticket) > 0 {
			cp.Ticket = sd.Ticket
		}
		if len(sd.ResponseBody) > 0 {
			cp.ResponseBody = sd.ResponseBody
		}
		return &cp
	}
	return sd
}

func (s *tpWrapStore) park(ctx context.Context, kind string) *tpThread {
	th, _ := ctx.Value(tpThreadKey{}).(*tpThread)
	if th != nil && th.conc {
		th.parked <- kind
		<-th.release
	}
	return th
}

func (s *tpWrapStore) log(th *tpThread, f string, a ...any) {
	if th != nil && th.conc {
		s.w.oplog = append(s.w.oplog, fmt.Sprintf("%d:", th.id)+fmt.Sprintf(f, a...))
	}
}

func (s *tpWrapStore) Insert(ctx context.Context, sd *tp.StoreData) (string, string, error) {
	th := s.park(ctx, "ins")
	us, ps, err := s.inner.Insert(ctx, s.in(sd))
	if err == nil {
		fl := &tpFlow{n: len(s.w.flows) + 1, us: us, ps: ps, pollLive: true, userLive: true}
		if th0, _ := ctx.Value(tpThreadKey{}).(*tpThread); th0 != nil {
			fl.svc, fl.tid = th0.act.svc, th0.act.tid
		}
		s.w.flows = append(s.w.flows, fl)
		s.log(th, "ins:%s", s.w.sref(ps))
	}
	return us, ps, err
}

func hitmiss(ok bool, a, b string) string {
	if ok {
		return a
	}
	return b
}

func (s *tpWrapStore) GetByPollSecret(ctx context.Context, x string) (*tp.StoreData, error) {
	th := s.park(ctx, "get")
	sd, err := s.inner.GetByPollSecret(ctx, x)
	sd = s.out(sd)
	if s.repr == "nil-nil-miss" && err != nil {
		sd, err = nil, nil
	}
	s.log(th, "get:poll:%s:%s", s.w.sref(x), hitmiss(err == nil && sd != nil, "hit", "miss"))
	return sd, err
}

func (s *tpWrapStore) GetByUserSecret(ctx context.Context, x string) (*tp.StoreData, error) {
	th := s.park(ctx, "get")
	sd, err := s.inner.GetByUserSecret(ctx, x)
	sd = s.out(sd)
	if s.repr == "nil-nil-miss" && err != nil {
		sd, err = nil, nil
	}
	s.log(th, "get:user:%s:%s", s.w.sref(x), hitmiss(err == nil && sd != nil, "hit", "miss"))
	return sd, err
}

func (s *tpWrapStore) UpdateByPollSecret(ctx context.Context, x string, sd *tp.StoreData) error {
	th := s.park(ctx, "upd")
	err := s.inner.UpdateByPollSecret(ctx, x, s.in(sd))
	s.log(th, "upd:poll:%s:%s", s.w.sref(x), hitmiss(err == nil, "ok", "miss"))
	return err
}

func (s *tpWrapStore) UpdateByUserSecret(ctx context.Context, x string, sd *tp.StoreData) error {
	th := s.park(ctx, "upd")
	err := s.inner.UpdateByUserSecret(ctx, x, s.in(sd))
	s.log(th, "upd:user:%s:%s", s.w.sref(x), hitmiss(err == nil, "ok", "miss"))
	return err
}

func (s *tpWrapStore) DeleteByPollSecret(ctx context.Context, x string) error {
	th := s.park(ctx, "del")
	err := s.inner.DeleteByPollSecret(ctx, x)
	s.log(th, "del:poll:%s:%s", s.w.sref(x), hitmiss(err == nil, "ok", "miss"))
	return err
}

func (s *tpWrapStore) DeleteByUserSecret(ctx context.Context, x string) error {
	th := s.park(ctx, "del")
	err := s.inner.DeleteByUserSecret(ctx, x)
	s.log(th, "del:user:%s:%s", s.w.sref(x), hitmiss(err == nil, "ok", "miss"))
	return err
}

func (s *tpWrapStore) UserSecretToURL(us string) string { return s.inner.UserSecretToURL(us) }
func (s *tpWrapStore) UserSecretFromRequest(r *http.Request) (string, error) {
	return s.inner.UserSecretFromRequest(r)
}

// ---- world ----------------------------------------------------------------------------------

// caveat id k in 1..tpNCav: an ordinary, distinguishable caveat Macaroon.Add accepts — of several Go kinds (the
// discharge of a real deployment carries an attestation and a validity window); id 0: a caveat Macaroon.Add
// refuses (an attestation wrapped in IfPresent, one or two wrappers deep)
func tpCav(k, refusedKind int) macaroon.Caveat {
	switch k {
	case 0:
		u := auth.FlyioUserID(7)
		inner := &resset.IfPresent{Ifs: macaroon.NewCaveatSet(&u), Else: resset.ActionAll}
		if refusedKind == 1 {
			return &resset.IfPresent{Ifs: macaroon.NewCaveatSet(inner), Else: resset.ActionRead}
		}
		return inner
	case 5:
		u := auth.FlyioUserID(5)
		return &u
	case 6:
		return &flyio.Organization{ID: 6, Mask: resset.ActionAll}
	case 7: // a wrapper without an attestation inside: accepted
		return &resset.IfPresent{Ifs: macaroon.NewCaveatSet(&macaroon.ValidityWindow{NotBefore: 7, NotAfter: tpCavEnd}), Else: resset.ActionRead}
	case 8: // differs from id 1 in one field only: not a duplicate
		return &macaroon.ValidityWindow{NotBefore: 1, NotAfter: tpCavEnd + 1}
	}
	return &macaroon.ValidityWindow{NotBefore: int64(k), NotAfter: tpCavEnd}
}

func tpCavEnc(c macaroon.Caveat) string {
	b, err := macaroon.NewCaveatSet(c).MarshalMsgpack()
	if err != nil {
		return "unencodable"
	}
	return hex.EncodeToString(b)
}

var tpCavNames map[string]string

// the id of a caveat read back from a discharge; c? = none of the application's
func tpCavName(c macaroon.Caveat) string {
	if tpCavNames == nil {
		tpCavNames = map[string]string{}
		for k := 1; k <= tpNCav; k++ {
			tpCavNames[tpCavEnc(tpCav(k, 0))] = fmt.Sprintf("c%d", k)
		}
	}
	if n, ok := tpCavNames[tpCavEnc(c)]; ok {
		return n
	}
	return "c?"
}

// the Go caveats behind a list of ids: fresh objects, or (a third of the lists) the world's one object per id,
// so that two approvals / two flows are handed the very same caveat values
func (w *tpWorld) mkCavs(ks []int) []macaroon.Caveat {
	shared := w.r.Chance(1, 3)
	if len(ks) > 0 {
		w.o.count("cavs.objects." + hitmiss(shared, "shared", "fresh"))
	}
	cs := make([]macaroon.Caveat, len(ks))
	for i, k := range ks {
		switch {
		case k == 0:
			kind := w.r.Intn(2)
			w.o.count(fmt.Sprintf("cavs.refused.kind%d", kind))
			cs[i] = tpCav(0, kind)
		case shared:
			if w.cavObjs[k] == nil {
				w.cavObjs[k] = tpCav(k, 0)
			}
			cs[i] = w.cavObjs[k]
		default:
			cs[i] = tpCav(k, 0)
		}
	}
	return cs
}

// the URL a client derives from a location (tp/client.go: initURL)
func tpInitURL(loc string) string {
	if strings.HasSuffix(loc, "/") {
		return loc + tp.InitPath[1:]
	}
	return loc + tp.InitPath
}

func (w *tpWorld) pollBase(v int) string { return tpInitURL(w.locs[v]) + "/poll/" }

func (w *tpWorld) origin(v int) string {
	u, err := url.Parse(w.locs[v])
	if err != nil {
		panic(err)
	}
	return u.Scheme + "://" + u.Host
}

func (w *tpWorld) tokByID(id int) *tpTok {
	for _, t := range w.toks {
		if t.id == id {
			return t
		}
	}
	return nil
}

type tpMintPart struct {
	id, svc int
	ka      macaroon.EncryptionKey
	loc     string
}

func newTPWorld(r *Rng, o *Out, size, ntoks int) *tpWorld {
	w := &tpWorld{r: r, o: o, xs: map[string]int{}, cavObjs: map[int]macaroon.Caveat{}}
	w.userPfx = pick(r, tpUserPfxPool)
	o.count("world.user-prefix=" + w.userPfx)
	for v := range w.locs {
		w.locs[v] = pick(r, tpLocPool[v])
	}
	w.dual = r.Chance(1, 3)
	o.count("world.dual-tokens=" + fmt.Sprint(w.dual))
	if !w.dual && r.Chance(1, 8) { // two services (own keys) under one location string
		w.locs[1] = w.locs[0]
		o.count("world.one-location")
	}
	for v := range w.locs {
		o.count(fmt.Sprintf("world.loc%d=%s", v, w.locs[v]))
	}
	ms, err := tp.NewMemoryStore(tp.PrefixMunger(w.userPfx), size)
	if err != nil {
		panic(err)
	}
	w.ms = ms
	ws := &tpWrapStore{w: w, inner: ms, repr: pick(r, tpStoreReprs)}
	o.count("world.store=" + ws.repr)
	for v := range w.svcs {
		w.keys[v] = macaroon.NewEncryptionKey()
		w.svcs[v] = &tp.TP{Location: w.locs[v], Key: w.keys[v], Store: ws}
	}
	// one macaroon with one third-party caveat per part; a pool entry per part
	mint := func(kid byte, parts []tpMintPart) []*tpTok {
		k := macaroon.NewSigningKey()
		m, err := macaroon.New([]byte{kid, 7}, tpFirst, k)
		if err != nil {
			panic(err)
		}
		if err := m.Add(&flyio.Organization{ID: uint64(100 + int(kid)), Mask: resset.ActionAll}); err != nil {
			panic(err)
		}
		tcavs := make([][]byte, len(parts))
		for i, p := range parts {
			// caveats the first party embeds in the ticket (the service hands them to the application)
			var tc []macaroon.Caveat
			for j := r.Intn(3); j > 0; j-- {
				tc = append(tc, &macaroon.ValidityWindow{NotBefore: int64(1000 + 10*p.id + j), NotAfter: tpCavEnd})
			}
			o.count(fmt.Sprintf("ticket-caveats=%d", len(tc)))
			if tcavs[i], err = macaroon.NewCaveatSet(tc...).MarshalMsgpack(); err != nil {
				panic(err)
			}
			if err := m.Add3P(p.ka, p.loc, tc...); err != nil {
				panic(err)
			}
		}
		tks, err := m.ThirdPartyTickets()
		if err != nil {
			panic(fmt.Sprint("no ticket: ", err))
		}
		// re-read the token from its wire form, as a verifier would
		enc, err := m.Encode()
		if err != nil {
			panic(err)
		}
		dm, err := macaroon.Decode(enc)
		if err != nil {
			panic(err)
		}
		if _, err := dm.Verify(k, nil, nil); err == nil {
			panic("pool token verifies without a discharge")
		}
		toks := make([]*tpTok, len(parts))
		own := make([][]byte, len(parts))
		for i, p := range parts {
			if len(tks[p.loc]) == 0 {
				panic("no ticket for " + p.loc)
			}
			toks[i] = &tpTok{id: p.id, svc: p.svc, m: dm, key: k, ticket: tks[p.loc], tcavs: tcavs[i]}
			_, d, err := macaroon.DischargeTicket(p.ka, p.loc, tks[p.loc])
			if err != nil {
				panic(err)
			}
			if own[i], err = d.Encode(); err != nil {
				panic(err)
			}
		}
		for i := range parts {
			for j := range parts {
				if j != i {
					toks[i].helpers = append(toks[i].helpers, own[j])
				}
			}
		}
		if len(parts) > 1 {
			if _, err := dm.Verify(k, own, nil); err != nil {
				panic("dual pool token does not verify with both discharges")
			}
			if _, err := dm.Verify(k, own[:1], nil); err == nil {
				panic("dual pool token verifies with one discharge")
			}
		}
		return toks
	}
	for i := 1; i <= ntoks; i++ {
		p0 := tpMintPart{2 * i, 0, w.keys[0], w.locs[0]}
		p1 := tpMintPart{2*i + 1, 1, w.keys[1], w.locs[1]}
		switch {
		case !w.dual:
			w.toks = append(w.toks, mint(byte(p0.id), []tpMintPart{p0})...)
			w.toks = append(w.toks, mint(byte(p1.id), []tpMintPart{p1})...)
		case r.Bool():
			w.toks = append(w.toks, mint(byte(p0.id), []tpMintPart{p0, p1})...)
		default: // the caveat of service 1 first
			ts := mint(byte(p0.id), []tpMintPart{p1, p0})
			w.toks = append(w.toks, ts[1], ts[0])
		}
	}
	w.foreign = mint(99, []tpMintPart{{99, 0, macaroon.NewEncryptionKey(), w.locs[0]}})[0].ticket
	return w
}

func tpKeyName(role, secret string) string {
	d := blake2b.Sum256([]byte(secret))
	return hitmiss(role == "poll", "p", "u") + hex.EncodeToString(d[:])
}

// symbolic name of a presented or issued secret
func (w *tpWorld) sref(s string) string {
	for _, f := range w.flows {
		if s == f.ps {
			return fmt.Sprintf("f%d.poll", f.n)
		}
		if s == f.us {
			return fmt.Sprintf("f%d.user", f.n)
		}
	}
	n, ok := w.xs[s]
	if !ok {
		n = len(w.xs)
		w.xs[s] = n
	}
	return fmt.Sprintf("x%d", n)
}

// keys that the LRU dropped: reported as (evict …) only right after an Insert (the only place the
// LRU evicts); at other times the bookkeeping is only refreshed — the model predicts those removals
// itself and the final live set is compared.
func (w *tpWorld) syncEvictions(report bool) []string {
	var ev []string
	for _, f := range w.flows {
		if f.pollLive && !w.ms.Cache.Contains(tpKeyName("poll", f.ps)) {
			f.pollLive = false
			if report {
				ev = append(ev, fmt.Sprintf("poll f%d.poll", f.n))
			}
		}
		if f.userLive && !w.ms.Cache.Contains(tpKeyName("user", f.us)) {
			f.userLive = false
			if report {
				ev = append(ev, fmt.Sprintf("user f%d.user", f.n))
			}
		}
	}
	if len(ev) > 0 {
		w.o.count("evictions")
	}
	return ev
}

func (w *tpWorld) live() string {
	var names []string
	n := 0
	for _, f := range w.flows {
		if w.ms.Cache.Contains(tpKeyName("poll", f.ps)) {
			names = append(names, fmt.Sprintf("f%d.poll", f.n))
			n++
		}
		if w.ms.Cache.Contains(tpKeyName("user", f.us)) {
			names = append(names, fmt.Sprintf("f%d.user", f.n))
			n++
		}
	}
	s := "live:" + strings.Join(names, ",")
	if w.ms.Cache.Len() != n {
		s += "!stray"
	}
	return s
}

// the handlers of service v (inst is its tp.TP, or the other one with v's key and location swapped in); every
// handler sees the full, unstripped request path (a service whose location has a path is mounted there)
func (w *tpWorld) mux(v int, inst *tp.TP, kind string, rw http.ResponseWriter, r *http.Request) {
	switch kind {
	case "init":
		if w.initH[v] == nil {
			w.initH[v] = w.svcs[v].InitRequestMiddleware(http.HandlerFunc(w.handleInit))
		}
		w.initH[v].ServeHTTP(rw, r)
	case "poll":
		inst.HandlePollRequest(rw, r)
	case "uservisit":
		inst.UserRequestMiddleware(http.HandlerFunc(w.handleUser)).ServeHTTP(rw, r)
	default:
		panic("unrouted " + kind)
	}
}

// application message texts: JSON-special characters, non-ASCII, control characters, a long one
var tpMsgs = []string{"", "m1", `m2 "q" <&> é☃ \ {"discharge":"x"}`, "m3\x01\n\t" + strings.Repeat("long ", 300)}

func tpMsg(m int) string { return tpMsgs[m] }

// the caveats the middleware hands to the application are exactly those the first party put in the ticket
func (w *tpWorld) checkFD(th *tpThread, r *http.Request, tid int) {
	cs, err := tp.CaveatsFromRequest(r)
	if err != nil {
		th.note += "!nofd"
		return
	}
	enc, err := macaroon.NewCaveatSet(cs...).MarshalMsgpack()
	if t := w.tokByID(tid); t == nil || err != nil || !bytes.Equal(enc, t.tcavs) {
		th.note += "!cavs"
	}
}

// the application's init handler: follows the script of the request
func (w *tpWorld) handleInit(rw http.ResponseWriter, r *http.Request) {
	th := r.Context().Value(tpThreadKey{}).(*tpThread)
	th.invoked = true
	a := th.act
	w.checkFD(th, r, a.tid)
	svc := w.svcs[a.svc]
	switch a.mode {
	case "immediate":
		if a.nilCavs {
			svc.RespondDischarge(rw, r)
		} else {
			svc.RespondDischarge(rw, r, a.cavs...)
		}
	case "poll":
		th.retSecret = svc.RespondPoll(rw, r)
	case "user":
		th.retSecret = svc.RespondUserInteractive(rw, r)
	case "refuse":
		svc.RespondError(rw, r, a.status, tpMsg(a.msg))
	case "none":
	}
}

func (w *tpWorld) handleUser(rw http.ResponseWriter, r *http.Request) {
	th := r.Context().Value(tpThreadKey{}).(*tpThread)
	th.invoked = true
	tid := -1
	for _, f := range w.flows {
		if f.us == th.act.secret {
			tid = f.tid
		}
	}
	w.checkFD(th, r, tid)
	rw.Write([]byte("page"))
}

// which pool token the discharge verifies for, and which caveats it carries (ALL of them, read from the
// discharge itself: c? is a caveat the application did not choose)
func (w *tpWorld) dischargeTok(dis string) string {
	raw, err := macaroon.Parse(dis)
	if err != nil || len(raw) != 1 {
		return "discharge:unparsable"
	}
	return w.dischargeTokRaw(raw[0])
}

func (w *tpWorld) dischargeTokRaw(raw0 []byte) string {
	raw := [][]byte{raw0}
	dm, err := macaroon.Decode(raw0)
	if err != nil {
		return "discharge:undecodable"
	}
	var cavs []string
	attested := false
	for _, c := range dm.UnsafeCaveats.Caveats {
		cavs = append(cavs, tpCavName(c))
		attested = attested || macaroon.IsAttestation(c)
	}
	var ids []string
	note := ""
	for _, t := range w.toks {
		ds := append([][]byte{raw[0]}, t.helpers...)
		if _, err := t.m.Verify(t.key, ds, nil); err != nil {
			continue
		}
		ids = append(ids, fmt.Sprintf("t%d", t.id))
		if dm.Location != w.locs[t.svc] && !strings.Contains(note, "!loc") {
			note += "!loc"
		}
		// a first party that trusts the service (its location, its key) is given the attestation too
		cs, err := t.m.Verify(t.key, ds, map[string][]macaroon.EncryptionKey{w.locs[t.svc]: {w.keys[t.svc]}})
		if err != nil || attested != (len(macaroon.GetCaveats[*auth.FlyioUserID](cs)) > 0) {
			note += "!trust"
		}
	}
	if len(ids) == 0 {
		return "discharge:t?:"
	}
	return "discharge:" + strings.Join(ids, "+") + ":" + strings.Join(cavs, ",") + note
}

func (w *tpWorld) httpTok(rec *httptest.ResponseRecorder, th *tpThread) string {
	body := rec.Body.Bytes()
	kind := ""
	var jr struct {
		Error           string `json:"error"`
		Discharge       string `json:"discharge"`
		PollURL         string `json:"poll_url"`
		UserInteractive *struct {
			PollURL string `json:"poll_url"`
			UserURL string `json:"user_url"`
		} `json:"user_interactive"`
	}
	switch {
	case len(body) == 0:
		kind = "none"
	case string(body) == "page":
		kind = "page"
	case json.Unmarshal(body, &jr) != nil:
		kind = "other"
	case jr.Discharge != "":
		kind = w.dischargeTok(jr.Discharge)
	case jr.PollURL != "":
		ps, ok := strings.CutPrefix(jr.PollURL, w.pollBase(th.act.svc))
		kind = "poll:" + w.sref(ps)
		if !ok || th.retSecret != ps {
			kind += "!ret"
		}
	case jr.UserInteractive != nil:
		ps, ok1 := strings.CutPrefix(jr.UserInteractive.PollURL, w.pollBase(th.act.svc))
		us, ok2 := strings.CutPrefix(jr.UserInteractive.UserURL, w.userPfx)
		kind = "user:" + w.sref(ps) + "," + w.sref(us)
		if !ok1 || !ok2 || th.retSecret != us {
			kind += "!ret"
		}
	case jr.Error == "not found":
		kind = "notfound"
	case jr.Error == "not ready":
		kind = "notready"
	case jr.Error == "internal server error":
		kind = "error"
	case jr.Error != "":
		kind = "error:other"
		for k := 1; k < len(tpMsgs); k++ {
			if jr.Error == tpMsgs[k] {
				kind = fmt.Sprintf("error:m%d", k)
			}
		}
	default:
		kind = "empty"
	}
	tok := fmt.Sprintf("%d:%s", rec.Code, kind)
	if th.invoked {
		tok += "+app"
	}
	return tok + th.note
}

func (w *tpWorld) runAct(th *tpThread) string {
	ctx := context.WithValue(context.Background(), tpThreadKey{}, th)
	a := th.act
	svc := w.svcs[a.svc]
	if a.viaSwap { // the other instance, its Key and Location replaced by this service's for the duration of the call
		svc = w.svcs[1-a.svc]
		oldK, oldL := svc.Key, svc.Location
		svc.Key, svc.Location = w.svcs[a.svc].Key, w.svcs[a.svc].Location
		defer func() { svc.Key, svc.Location = oldK, oldL }()
	}
	switch a.kind {
	case "init":
		req := httptest.NewRequest("POST", tpInitURL(w.locs[a.svc]), bytes.NewReader(a.body)).WithContext(ctx)
		rec := httptest.NewRecorder()
		w.mux(a.svc, svc, a.kind, rec, req)
		return w.httpTok(rec, th)
	case "poll":
		req := httptest.NewRequest("GET", w.pollBase(a.svc)+a.tail+a.query, nil).WithContext(ctx)
		rec := httptest.NewRecorder()
		w.mux(a.svc, svc, a.kind, rec, req)
		return w.httpTok(rec, th)
	case "uservisit":
		// (the user page is the application's own URL: it does not live under the service's location path)
		p := w.userPfx + a.tail
		if a.path != "" {
			p = a.path
		}
		req := httptest.NewRequest("GET", w.origin(a.svc)+p+a.query, nil).WithContext(ctx)
		rec := httptest.NewRecorder()
		w.mux(a.svc, svc, a.kind, rec, req)
		return w.httpTok(rec, th)
	case "approve":
		var err error
		// (the application's context may be done already - the request of a browser that went away: the store takes
		// no notice of it, so the decision is taken and reported as taken all the same; what the call REPORTS and what
		// the next poll answers must agree)
		if a.doneCtx != 0 {
			dctx, cancel := context.WithCancel(ctx)
			cancel()
			if a.doneCtx == 2 {
				dctx, cancel = context.WithDeadline(ctx, time.Unix(1, 0))
				defer cancel()
			}
			ctx = dctx
		}
		switch {
		case a.role == "poll" && a.nilCavs:
			err = svc.DischargePoll(ctx, a.secret)
		case a.role == "poll":
			err = svc.DischargePoll(ctx, a.secret, a.cavs...)
		case a.nilCavs:
			err = svc.DischargeUserInteractive(ctx, a.secret)
		default:
			err = svc.DischargeUserInteractive(ctx, a.secret, a.cavs...)
		}
		return hitmiss(err == nil, "ok", "err")
	case "abort":
		var err error
		if a.doneCtx != 0 {
			dctx, cancel := context.WithCancel(ctx)
			cancel()
			ctx = dctx
		}
		if a.role == "poll" {
			err = svc.AbortPoll(ctx, a.secret, tpMsg(a.msg))
		} else {
			err = svc.AbortUserInteractive(ctx, a.secret, tpMsg(a.msg))
		}
		return hitmiss(err == nil, "ok", "err")
	}
	panic("bad action")
}

// query: the secret is part of the PATH; a query string (the return_to parameter the protocol's README lets a
// client append to the user URL, or any other) is no part of it. The model never sees it.
func (w *tpWorld) genQuery() string {
	q := pick(w.r, []string{"", "", "?return_to=https%3A%2F%2Fclient.example%2Fdone", "?", "?x=1&y=/a/b", "?/", "?a=b/"})
	w.o.count("query." + map[bool]string{true: "none", false: "present"}[q == ""])
	return q
}

func tpNats(ks []int) string {
	var sb strings.Builder
	for _, k := range ks {
		fmt.Fprintf(&sb, " %d", k)
	}
	return sb.String()
}

func (w *tpWorld) sxAct(a *tpAct) string {
	switch a.kind {
	case "init":
		t := fmt.Sprintf("(bad %d)", a.tid)
		if a.good {
			t = fmt.Sprintf("(good %d)", a.tid)
		}
		m := a.mode
		switch a.mode {
		case "immediate":
			m = "(immediate" + tpNats(a.cs) + ")"
		case "refuse":
			m = fmt.Sprintf("(refuse %d %d)", a.status, a.msg)
		}
		return fmt.Sprintf("(init %d %s %s)", a.svc, t, m)
	case "poll":
		return fmt.Sprintf("(poll %d %s)", a.svc, w.sref(a.secret))
	case "uservisit":
		return fmt.Sprintf("(uservisit %d %s)", a.svc, w.sref(a.secret))
	case "approve":
		return fmt.Sprintf("(approve %d %s %s%s)", a.svc, a.role, w.sref(a.secret), tpNats(a.cs))
	case "abort":
		return fmt.Sprintf("(abort %d %s %s %d)", a.svc, a.role, w.sref(a.secret), a.msg)
	}
	panic("bad action")
}

// ---- generators -----------------------------------------------------------------------------

func (w *tpWorld) genCavs() []int {
	r := w.r
	n := r.Intn(4)
	if r.Chance(1, 10) {
		n = 4 + r.Intn(6)
		w.o.count("cavs.long")
	}
	cs := make([]int, n)
	dup := false
	for i := range cs {
		switch {
		case i > 0 && r.Chance(1, 5): // duplicates on purpose: Macaroon.Add de-duplicates
			cs[i] = cs[r.Intn(i)]
		case r.Bool():
			cs[i] = 1 + r.Intn(4)
		default:
			cs[i] = 1 + r.Intn(tpNCav)
		}
		for _, c := range cs[:i] {
			dup = dup || c == cs[i]
		}
		w.o.count(fmt.Sprintf("cavs.id%d", cs[i]))
	}
	if dup {
		w.o.count("cavs.has-duplicate")
	}
	w.o.count(fmt.Sprintf("cavs.len=%d", n))
	if r.Chance(1, 6) { // a caveat Add refuses: first, in the middle, or last
		pos := r.Intn(n + 1)
		cs = append(cs[:pos], append([]int{0}, cs[pos:]...)...)
		switch {
		case n == 0:
			w.o.count("cavs.refused.alone")
		case pos == 0:
			w.o.count("cavs.refused.first")
		case pos == n:
			w.o.count("cavs.refused.last")
		default:
			w.o.count("cavs.refused.middle")
		}
	} else {
		w.o.count("cavs.accepted")
	}
	return cs
}

// the list an application passes: ids for the model, Go caveats for the library; an empty list is passed as an
// empty slice or as no variadic argument at all
func (w *tpWorld) setCavs(a *tpAct) {
	a.cs = w.genCavs()
	a.cavs = w.mkCavs(a.cs)
	if len(a.cs) == 0 && w.r.Bool() {
		a.nilCavs = true
		w.o.count("cavs.empty-as-nil")
	}
}

// a secret string to present to the namespace `role`
func (w *tpWorld) genSecretString(role string) string {
	randHex := func() string { return hex.EncodeToString(w.r.Bytes(16)) }
	if len(w.flows) == 0 {
		w.o.count("secret.never-issued")
		w.lastSvc = w.r.Intn(2)
		return randHex()
	}
	f := pick(w.r, w.flows)
	w.lastSvc = f.svc
	right, other := f.ps, f.us
	if role == "user" {
		right, other = f.us, f.ps
	}
	switch x := w.r.Intn(100); {
	case x < 62:
		w.o.count("secret.right")
		return right
	case x < 75:
		w.o.count("secret.swapped")
		return other
	case x < 82:
		w.o.count("secret.never-issued")
		return randHex()
	case x < 88:
		w.o.count("secret.wrong")
		b := []byte(right)
		i := w.r.Intn(len(b))
		if b[i] == '0' {
			b[i] = '1'
		} else {
			b[i] = '0'
		}
		return string(b)
	case x < 97: // strings derived from the right secret that are NOT it
		d := blake2b.Sum256([]byte(right))
		k := w.r.Intn(8)
		w.o.count("secret.derived." + []string{"upper-case", "first-half", "all-but-last", "one-more", "twice", "digest", "store-key", "second-half"}[k])
		switch k {
		case 0:
			return strings.ToUpper(right) // (a secret without a letter is its own upper case: then it IS right, and named so)
		case 1:
			return right[:len(right)/2]
		case 2:
			return right[:len(right)-1]
		case 3:
			return right + "0"
		case 4:
			return right + right
		case 5:
			return hex.EncodeToString(d[:])
		case 6:
			return tpKeyName(role, right)
		default:
			return right[len(right)/2:]
		}
	default:
		w.o.count("secret.empty")
		return ""
	}
}

// how a request presents a secret.  via = "api" (Discharge*/Abort*: the string as it is), "poll" (the handler takes
// the LAST segment of the escaped path) or "uservisit" (the munger takes everything after its prefix)
func (w *tpWorld) genSecret(a *tpAct, role, via string) {
	r := w.r
	s := w.genSecretString(role)
	a.secret, a.tail = s, s
	if via == "api" {
		if s != "" && r.Chance(1, 12) { // strings no URL would carry
			k := r.Intn(7)
			w.o.count("secret.api-spelling." + []string{"segment-before", "slash-after", "newline-after", "space-before", "very-long", "non-ascii", "nul-after"}[k])
			a.secret = []string{"zz/" + s, s + "/", s + "\n", " " + s, strings.Repeat(s, 64), "ſ" + s[1:], s + "\x00"}[k]
		}
		return
	}
	a.query = w.genQuery()
	switch x := r.Intn(100); {
	case x < 72:
		w.o.count("spelling.plain")
	case x < 82: // more path in front of the secret
		pre := pick(r, []string{"zz/", "./", "../", "/", "poll/", "a/b/"})
		a.tail = pre + s
		if via == "uservisit" {
			a.secret = a.tail
		}
		w.o.count("spelling.segments-before." + via)
	case x < 88:
		a.tail = s + "/"
		a.secret = hitmiss(via == "poll", "", a.tail)
		w.o.count("spelling.slash-after." + via)
	case x < 94 && s != "": // one character percent-encoded: another string (both handlers read the ESCAPED path)
		i := r.Intn(len(s))
		a.tail = fmt.Sprintf("%s%%%02X%s", s[:i], s[i], s[i+1:])
		a.secret = a.tail
		w.o.count("spelling.percent-encoded")
	case x < 97: // an encoded slash does not separate segments
		a.tail = "zz%2F" + s
		a.secret = a.tail
		w.o.count("spelling.encoded-slash-before")
	case via == "uservisit" && !w.conc: // a path outside the munger's prefix: no secret at all (and no store operation)
		a.path = pick(r, []string{"/other/" + s, strings.ToUpper(w.userPfx) + s, w.userPfx[:len(w.userPfx)-1] + s, "/" + s})
		if rest, ok := strings.CutPrefix(a.path, w.userPfx); ok {
			a.path, a.tail, a.secret = "", rest, rest
			w.o.count("spelling.plain")
		} else {
			a.secret = "!path:" + a.path
			w.o.count("spelling.outside-prefix")
		}
	default:
		w.o.count("spelling.plain")
	}
}

func tpB64(b []byte) string {
	j, _ := json.Marshal(b)
	return string(j) // with the quotes
}

// the JSON body of an init request whose ticket member decodes to a.raw (encoding/json: member names match
// case-insensitively, the LAST of duplicate members wins, []byte is a base64 string or an array of numbers,
// only the first JSON value of the body is read)
func (w *tpWorld) initBody(a *tpAct) {
	r := w.r
	b := tpB64(a.raw)
	shape := "plain"
	if r.Chance(2, 5) {
		shape = pick(r, []string{"member-name-case", "other-members", "duplicate-member", "spaced-and-trailing", "number-array", "newline-in-base64"})
	}
	switch shape {
	case "plain":
		a.body, _ = json.Marshal(map[string][]byte{"ticket": a.raw})
	case "member-name-case":
		a.body = []byte(`{"` + pick(r, []string{"TICKET", "Ticket", "tickeT"}) + `":` + b + `}`)
	case "other-members":
		decoy := tpB64(pick(r, w.toks).ticket)
		a.body = []byte(`{"comment":"x","n":[1,{"ticket":` + decoy + `}],"ticket":` + b + `,"z":{"ticket":` + decoy + `},"ticket2":` + decoy + `}`)
	case "duplicate-member": // an earlier member with another ticket (a good one, garbage, null)
		decoy := pick(r, []string{tpB64(pick(r, w.toks).ticket), tpB64(r.Bytes(1 + r.Intn(40))), "null", `""`})
		a.body = []byte(`{"ticket":` + decoy + `,"ticket":` + b + `}`)
	case "spaced-and-trailing":
		a.body = []byte(" \n{ \"ticket\" :\t" + b + " }\n{\"ticket\":" + tpB64(pick(r, w.toks).ticket) + "} trailing")
	case "number-array":
		var sb strings.Builder
		for i, x := range a.raw {
			if i > 0 {
				sb.WriteByte(',')
			}
			fmt.Fprintf(&sb, "%d", x)
		}
		a.body = []byte(`{"ticket":[` + sb.String() + `]}`)
	case "newline-in-base64":
		i := 1 + r.Intn(len(b)-2)
		a.body = []byte(`{"ticket":` + b[:i] + `\r\n` + b[i:] + `}`)
	}
	w.o.count("body." + shape)
}

func (w *tpWorld) genAct(maxFlows int) *tpAct {
	r := w.r
	wantInit := len(w.flows) == 0 && w.inits < 3 || (w.planned < maxFlows && w.inits < 2*maxFlows+2 && r.Chance(1, 3)) || (w.inits < 2*maxFlows+2 && r.Chance(1, 12))
	eager := len(w.flows) == 0 // the first flow: mostly a ticket that opens and a mode that stores something
	if wantInit {
		w.inits++
		a := &tpAct{kind: "init", svc: r.Intn(2)}
		w.o.count(fmt.Sprintf("act.init.svc%d", a.svc))
		own := func() *tpTok {
			for {
				if t := pick(r, w.toks); t.svc == a.svc {
					return t
				}
			}
		}
		x := r.Intn(100)
		if eager {
			x = x * 2 / 3
		}
		opens := false
		switch {
		case x < 64:
			t := own()
			a.good, a.tid, a.raw = true, t.id, t.ticket
			opens = true
			w.o.count("ticket.good")
		case x < 72: // a valid ticket of the OTHER service: sealed under a key this service does not hold
			t := pick(r, w.toks)
			for t.svc == a.svc {
				t = pick(r, w.toks)
			}
			a.good, a.tid, a.raw = true, t.id, t.ticket
			w.o.count("ticket.other-service")
		case x < 82:
			t := own()
			a.tid, a.raw = 1, append([]byte{}, t.ticket...)
			switch r.Intn(4) {
			case 0: // one byte short / one byte long
				if r.Bool() {
					a.raw = a.raw[:len(a.raw)-1]
				} else {
					a.raw = append(a.raw, byte(r.Intn(256)))
				}
				w.o.count("ticket.length-off-by-one")
			default:
				a.raw[r.Intn(len(a.raw))] ^= 1 << uint(r.Intn(8))
				w.o.count("ticket.bitflip")
			}
		case x < 90:
			a.tid, a.raw = 2, w.foreign
			w.o.count("ticket.foreign-key")
		case x < 94: // no ticket, or an empty one
			a.tid = 3
			a.body = []byte(pick(r, []string{`{}`, `{"comment": "no ticket here"}`, `{"Ticket2": "AAAA"}`, `null`, `{"ticket":null}`, `{"ticket":""}`, `{"ticket":[]}`,
				`{"x":{"ticket":` + tpB64(own().ticket) + `}}`, `{"ticket":` + tpB64(own().ticket) + `,"ticket":null}`, `{"ticket":` + tpB64(own().ticket) + `,"TICKET":""}`}))
			w.o.count("ticket.none-or-empty")
		case x < 97:
			a.tid, a.raw = 4, r.Bytes(1+r.Intn(80))
			w.o.count("ticket.garbage")
		default: // a body encoding/json refuses
			a.tid = 5
			t := own()
			std := tpB64(t.ticket)
			alt := strings.NewReplacer("+", "-", "/", "_").Replace(std)
			unpadded := strings.ReplaceAll(std, "=", "")
			bodies := []string{`{"ticket": 12`, `[]`, ``, `{"ticket":5}`, `"AQID"`, `{"ticket":"AQI"}`, `{"ticket":{"ticket":` + std + `}}`, `{"ticket":[` + std + `]}`}
			if alt != std {
				bodies = append(bodies, `{"ticket":`+alt+`}`) // the URL-safe alphabet
			}
			if unpadded != std {
				bodies = append(bodies, `{"ticket":`+unpadded+`}`)
			}
			a.body = []byte(pick(r, bodies))
			w.o.count("ticket.bad-json")
		}
		if a.raw != nil {
			w.initBody(a)
		}
		x = r.Intn(100)
		if eager {
			x = x * 4 / 5
		}
		switch {
		case x < 35 && w.planned < maxFlows:
			a.mode = "poll"
		case x < 70 && w.planned < maxFlows:
			a.mode = "user"
		case x < 85:
			a.mode = "immediate"
			w.setCavs(a)
		case x < 95:
			// (statuses an error answer is not expected to carry included: the service passes the application's choice on)
			a.mode, a.status, a.msg = "refuse", pick(r, []int{400, 401, 403, 420, 503, 200, 201, 202, 404, 500, 599}), r.Intn(4)
			w.o.count(fmt.Sprintf("refuse.status=%d", a.status))
		default:
			a.mode = "none"
		}
		if opens && (a.mode == "poll" || a.mode == "user") {
			w.planned++
		}
		w.o.count("act.init." + a.mode)
		return a
	}
	address := func(a *tpAct) *tpAct {
		a.svc = w.lastSvc
		if r.Chance(1, 4) { // the flow of one service addressed to the other
			a.svc = 1 - a.svc
			w.o.count("addr.other-service." + a.kind)
		} else {
			w.o.count("addr.own-service." + a.kind)
		}
		if !w.conc && r.Chance(1, 3) { // the same request, realised by replacing Key and Location of the other tp.TP
			a.viaSwap = true
			w.o.count("addr.via-key-swap")
		}
		return a
	}
	switch x := r.Intn(100); {
	case x < 38:
		w.o.count("act.poll")
		a := &tpAct{kind: "poll"}
		w.genSecret(a, "poll", "poll")
		return address(a)
	case x < 50:
		w.o.count("act.uservisit")
		a := &tpAct{kind: "uservisit"}
		w.genSecret(a, "user", "uservisit")
		for a.secret == "" && w.conc { // "/user/" answers 404 before the store is consulted: no store operation to schedule
			*a = tpAct{kind: "uservisit"}
			w.genSecret(a, "user", "uservisit")
		}
		return address(a)
	case x < 80:
		role := pick(r, []string{"poll", "user"})
		w.o.count("act.approve." + role)
		a := &tpAct{kind: "approve", role: role}
		if r.Chance(1, 5) {
			a.doneCtx = 1 + r.Intn(2)
			w.o.count("approve.done-context")
		}
		w.genSecret(a, role, "api")
		for a.secret == "" { // Discharge*/Abort* treat "" as "the other secret was given"
			w.genSecret(a, role, "api")
		}
		w.setCavs(a)
		return address(a)
	default:
		role := pick(r, []string{"poll", "user"})
		w.o.count("act.abort." + role)
		a := &tpAct{kind: "abort", role: role, msg: r.Intn(4)}
		if r.Chance(1, 5) {
			a.doneCtx = 1
			w.o.count("abort.done-context")
		}
		w.genSecret(a, role, "api")
		for a.secret == "" {
			w.genSecret(a, role, "api")
		}
		return address(a)
	}
}

func (w *tpWorld) countOut(tok string) {
	app := strings.Contains(tok, "+app")
	f := strings.SplitN(strings.TrimSuffix(tok, "+app"), ":", 3)
	k := f[0]
	if len(f) > 1 {
		k += ":" + f[1]
	}
	if app {
		k += "+app"
	}
	w.o.count("out." + k)
}

func tpSize(r *Rng) int {
	if r.Chance(7, 10) {
		return 100
	}
	return 1 + r.Intn(6)
}

// ---- sequential histories -------------------------------------------------------------------

// episode shape: 3-20 actions over 1-4 flows; the thorough tier also runs long histories over up to 8 flows
func tpShape(r *Rng, o *Out, tier string) (maxFlows, n int) {
	maxFlows, n = 1+r.Intn(4), 3+r.Intn(18)
	if tier == "thorough" && r.Chance(1, 10) {
		maxFlows, n = 1+r.Intn(8), 20+r.Intn(41)
		o.count("shape.long")
	}
	return
}

func tpRunEpisode(r *Rng, o *Out, tier string) {
	size := tpSize(r)
	w := newTPWorld(r, o, size, 1+r.Intn(3))
	maxFlows, n := tpShape(r, o, tier)
	var todo []*tpAct
	for i := 0; i < n; i++ {
		todo = append(todo, nil) // generated when its turn comes: the generator looks at the flows that exist
	}
	sweep := r.Chance(1, 3) // at the end, every flow is polled at its own service: whatever was decided is observed
	var acts, outs []string
	for i := 0; i < len(todo); i++ {
		a := todo[i]
		if a == nil {
			a = w.genAct(maxFlows)
		}
		th := &tpThread{id: i, act: a}
		out := guard(func() string { return w.runAct(th) })
		acts = append(acts, w.sxAct(a))
		outs = append(outs, out)
		w.countOut(out)
		for _, e := range w.syncEvictions(a.kind == "init") {
			acts = append(acts, "(evict "+e+")")
			outs = append(outs, "-")
		}
		if sweep && i == n-1 {
			for _, f := range w.flows {
				todo = append(todo, &tpAct{kind: "poll", svc: f.svc, secret: f.ps, tail: f.ps})
			}
			o.count("run.final-sweep")
		}
	}
	outs = append(outs, w.live())
	o.count(fmt.Sprintf("run.flows=%d", len(w.flows)))
	o.count("run.episodes")
	o.emit("(tp.run "+strings.Join(acts, " ")+")", strings.Join(outs, " "))
}

// ---- interleaved histories ------------------------------------------------------------------

func (w *tpWorld) await(th *tpThread, atSpawn bool) {
	select {
	case k := <-th.parked:
		th.state, th.parkedKind = 1, k
	case out := <-th.done:
		th.out = out
		th.state = 3
		if atSpawn {
			th.state = 2
		}
	case <-time.After(10 * time.Second):
		th.out, th.state = "hang", 3
	}
}

func (w *tpWorld) spawn(a *tpAct) {
	th := &tpThread{id: len(w.threads), act: a, conc: true,
		parked: make(chan string), release: make(chan struct{}), done: make(chan string, 1)}
	w.threads = append(w.threads, th)
	w.items = append(w.items, "(spawn "+w.sxAct(a)+")")
	go func() { th.done <- guard(func() string { return w.runAct(th) }) }()
	w.await(th, true)
}

func (w *tpWorld) stepThread(th *tpThread) {
	w.items = append(w.items, fmt.Sprintf("(step %d)", th.id))
	switch th.state {
	case 2:
		th.state = 3
	case 1:
		kind := th.parkedKind
		if kind == "del" { // the model splits Delete into its lookup and its removals
			w.items = append(w.items, fmt.Sprintf("(step %d)", th.id))
		}
		th.release <- struct{}{}
		w.await(th, false)
		for _, e := range w.syncEvictions(kind == "ins") {
			w.items = append(w.items, "(evict "+e+")")
			w.oplog = append(w.oplog, "evict:"+strings.Replace(e, " ", ":", 1))
		}
	}
}

func (w *tpWorld) active() []*tpThread {
	var act []*tpThread
	for _, th := range w.threads {
		if th.state != 3 {
			act = append(act, th)
		}
	}
	return act
}

func tpSchedEpisode(r *Rng, o *Out, tier string) {
	size := tpSize(r)
	w := newTPWorld(r, o, size, 1+r.Intn(3))
	w.conc = true
	maxFlows, n := tpShape(r, o, tier)
	conc := 2 + r.Intn(3)
	if tier == "thorough" && r.Chance(1, 10) {
		conc = 5 + r.Intn(3)
	}
	spawned := 0
	maxActive := 0
	for spawned < n || len(w.active()) > 0 {
		act := w.active()
		if len(act) > maxActive {
			maxActive = len(act)
		}
		switch {
		case spawned < n && len(act) < conc && (len(act) == 0 || r.Chance(2, 5)):
			w.spawn(w.genAct(maxFlows))
			spawned++
		case len(act) > 0 && r.Chance(1, 8): // barrier: everything pending returns before anything new starts
			for _, th := range act {
				for th.state != 3 {
					w.stepThread(th)
				}
			}
			o.count("sched.barrier")
		case len(act) > 0:
			w.stepThread(pick(r, act))
		}
	}
	var outs []string
	for _, th := range w.threads {
		outs = append(outs, th.out)
		w.countOut(th.out)
	}
	outs = append(outs, "|")
	outs = append(outs, w.oplog...)
	outs = append(outs, w.live())
	o.count(fmt.Sprintf("sched.flows=%d", len(w.flows)))
	o.count(fmt.Sprintf("sched.max-active=%d", maxActive))
	o.count("sched.episodes")
	// races worth knowing about: a poll that lost the Delete against another poll
	dels := map[string]int{}
	for _, l := range w.oplog {
		if strings.Contains(l, ":del:") {
			dels[l[strings.Index(l, ":del:"):]]++
		}
	}
	keys := make([]string, 0, len(dels))
	for k := range dels {
		keys = append(keys, k)
	}
	sort.Strings(keys)
	for _, k := range keys {
		if strings.HasSuffix(k, ":miss") {
			o.count("sched.poll-lost-delete-race")
		}
	}
	o.emit("(tp.sched "+strings.Join(w.items, " ")+")", strings.Join(outs, " "))
}

// ---- end to end: the real client against the real services ----------------------------------
//
// tp.Client.FetchDischargeTokens on a header of one or two pool macaroons; its http.Client's transport hands every
// request to the handlers of the service the URL names.  Each ticket has a script (what the application answers to
// the init request, and when and what it decides: inside the user-URL callback, or right before the client's k-th
// poll).  The line is (const EXPECTED) => OBSERVED: EXPECTED is what the scripts entitle the client to — the
// discharges (which ticket, which caveats), the errors, which macaroons verify with what came back.

type tpE2EScript struct {
	tok         *tpTok
	mode        string // immediate poll user refuse none
	cs          []int
	cavs        []macaroon.Caveat
	approve     bool // poll/user: the decision
	after       int  // the decision falls right before the client's after-th poll of this flow
	atVisit     bool // user: decided inside the user-URL callback
	visit       bool // user: the callback opens the user page
	cbErr       bool // user: the callback fails
	status, msg int
	us, ps      string
	polls       int
	decided     bool
}

type tpE2E struct {
	w       *tpWorld
	mu      sync.Mutex
	scripts []*tpE2EScript
	notes   []string
}

func (e *tpE2E) note(f string, a ...any) { e.notes = append(e.notes, "!"+fmt.Sprintf(f, a...)) }

func (e *tpE2E) decide(sc *tpE2EScript) {
	sc.decided = true
	svc := e.w.svcs[sc.tok.svc]
	ctx := context.Background()
	var err error
	switch {
	case sc.approve && sc.mode == "poll":
		err = svc.DischargePoll(ctx, sc.ps, sc.cavs...)
	case sc.approve:
		err = svc.DischargeUserInteractive(ctx, sc.us, sc.cavs...)
	case sc.mode == "poll":
		err = svc.AbortPoll(ctx, sc.ps, tpMsg(sc.msg))
	default:
		err = svc.AbortUserInteractive(ctx, sc.us, tpMsg(sc.msg))
	}
	if err != nil {
		e.note("decision-failed")
	}
}

// (a handler that panics: net/http recovers and drops the connection; here it is recorded and the client gets a
// transport error — the panic runs in a goroutine of the client, it must not end the process)
func (e *tpE2E) serve(v int, a *tpAct, req *http.Request) (resp *http.Response, th *tpThread) {
	th = &tpThread{act: a}
	rec := httptest.NewRecorder()
	if p := guard(func() string {
		e.w.mux(v, e.w.svcs[v], a.kind, rec, req.WithContext(context.WithValue(req.Context(), tpThreadKey{}, th)))
		return ""
	}); p != "" {
		e.note("%s-handler:%s", a.kind, p)
		return nil, th
	}
	resp = rec.Result()
	resp.Request = req
	return resp, th
}

func (e *tpE2E) RoundTrip(req *http.Request) (*http.Response, error) {
	e.mu.Lock()
	defer e.mu.Unlock()
	w := e.w
	u := req.URL.String()
	for v := range w.svcs {
		if req.Method == "POST" && u == tpInitURL(w.locs[v]) {
			var jr struct {
				Ticket []byte `json:"ticket"`
			}
			body, _ := io.ReadAll(req.Body)
			json.Unmarshal(body, &jr)
			req.Body = io.NopCloser(bytes.NewReader(body))
			for _, sc := range e.scripts {
				if bytes.Equal(sc.tok.ticket, jr.Ticket) && sc.tok.svc == v {
					a := &tpAct{kind: "init", svc: v, good: true, tid: sc.tok.id, mode: sc.mode, cs: sc.cs, cavs: sc.cavs, status: sc.status, msg: sc.msg}
					resp, th := e.serve(v, a, req)
					if th.note != "" {
						e.note("init%s", th.note)
					}
					if resp == nil {
						return nil, errors.New("connection dropped")
					}
					if (sc.mode == "poll" || sc.mode == "user") && len(w.flows) > 0 {
						f := w.flows[len(w.flows)-1]
						sc.us, sc.ps = f.us, f.ps
					}
					return resp, nil
				}
			}
			e.note("init-with-unknown-ticket")
			return nil, errors.New("unrouted")
		}
		if ps, ok := strings.CutPrefix(u, w.pollBase(v)); ok && req.Method == "GET" {
			for _, sc := range e.scripts {
				if sc.ps == ps && sc.ps != "" && sc.tok.svc == v {
					sc.polls++
					if sc.polls > 20 {
						e.note("polling-forever")
						return nil, errors.New("polling forever")
					}
					if !sc.decided && !sc.atVisit && sc.polls == sc.after {
						e.decide(sc)
					}
					resp, _ := e.serve(v, &tpAct{kind: "poll", svc: v, secret: ps}, req)
					if resp == nil {
						return nil, errors.New("connection dropped")
					}
					return resp, nil
				}
			}
			e.note("poll-of-unknown-secret")
			return nil, errors.New("unrouted")
		}
	}
	e.note("unrouted-request")
	return nil, errors.New("unrouted")
}

func (e *tpE2E) userURL(ctx context.Context, u string) error {
	e.mu.Lock()
	defer e.mu.Unlock()
	w := e.w
	for _, sc := range e.scripts {
		if sc.us != "" && u == w.userPfx+sc.us {
			if sc.visit {
				req := httptest.NewRequest("GET", w.origin(sc.tok.svc)+u+"?return_to=https%3A%2F%2Fclient.example%2Fdone", nil)
				resp, th := e.serve(sc.tok.svc, &tpAct{kind: "uservisit", svc: sc.tok.svc, secret: sc.us}, req)
				if resp != nil && (resp.StatusCode != 200 || !th.invoked || th.note != "") {
					e.note("user-page:%d%s", resp.StatusCode, th.note)
				}
			}
			if sc.atVisit {
				e.decide(sc)
			}
			if sc.cbErr {
				return errors.New("no browser")
			}
			return nil
		}
	}
	e.note("callback-with-unknown-url")
	return errors.New("unknown url")
}

func tpDedup(cs []int) []int {
	var out []int
	for _, c := range cs {
		seen := false
		for _, d := range out {
			seen = seen || c == d
		}
		if !seen {
			out = append(out, c)
		}
	}
	return out
}

func tpErrLeaves(err error) []error {
	if err == nil {
		return nil
	}
	if j, ok := err.(interface{ Unwrap() []error }); ok {
		var out []error
		for _, e := range j.Unwrap() {
			out = append(out, tpErrLeaves(e)...)
		}
		return out
	}
	return []error{err}
}

func tpE2EEpisode(r *Rng, o *Out) {
	w := newTPWorld(r, o, 100, 1+r.Intn(2))
	for w.locs[0] == w.locs[1] { // the transport tells the services apart by their URLs
		w = newTPWorld(r, o, 100, 1+r.Intn(2))
	}
	e := &tpE2E{w: w}
	// the header: one macaroon, or two
	var macs []*tpTok // one entry per macaroon
	first := pick(r, w.toks)
	macs = append(macs, first)
	if second := pick(r, w.toks); second.m != first.m && r.Bool() {
		macs = append(macs, second)
	}
	o.count(fmt.Sprintf("e2e.macaroons=%d", len(macs)))
	var hdr []string
	for _, t := range macs {
		s, err := t.m.String()
		if err != nil {
			panic(err)
		}
		hdr = append(hdr, s)
	}
	header := strings.Join(hdr, ",")
	scheme := r.Bool()
	if scheme {
		header = "FlyV1 " + header
	}
	withCallback := r.Chance(4, 5)
	withJar := r.Chance(1, 3) // with a cookie jar and a callback the client takes the tickets one after the other
	o.count("e2e.callback=" + fmt.Sprint(withCallback))
	o.count("e2e.jar=" + fmt.Sprint(withJar))
	var wantDis, wantErr, wantVerify []string
	for _, mt := range macs {
		all := true
		for _, t := range w.toks {
			if t.m != mt.m {
				continue
			}
			sc := &tpE2EScript{tok: t, approve: r.Chance(3, 4), after: 1 + r.Intn(3), atVisit: r.Bool(), visit: r.Chance(2, 3), cbErr: r.Chance(1, 10), status: pick(r, []int{400, 401, 403, 503, 200, 202}), msg: r.Intn(4)}
			sc.mode = pick(r, []string{"immediate", "immediate", "poll", "poll", "poll", "user", "user", "user", "refuse", "none"})
			sc.atVisit = sc.atVisit && sc.mode == "user"
			for len(sc.cs) == 0 || macaroonRefused(sc.cs) {
				a := &tpAct{}
				w.setCavs(a)
				sc.cs, sc.cavs = a.cs, a.cavs
				if len(sc.cs) == 0 {
					break
				}
			}
			e.scripts = append(e.scripts, sc)
			ok, errTok := false, "err:other"
			switch sc.mode {
			case "immediate":
				ok = true
			case "poll", "user":
				decision := hitmiss(sc.approve, "approve", "abort")
				switch {
				case sc.mode == "user" && !withCallback:
					decision = "no-callback"
				case sc.mode == "user" && sc.cbErr:
					decision = "callback-fails"
				case sc.approve:
					ok = true
				case sc.msg > 0:
					errTok = fmt.Sprintf("err:200:m%d", sc.msg)
				}
				if sc.mode == "user" {
					decision += hitmiss(sc.atVisit, ".at-visit", ".later")
				}
				o.count("e2e." + sc.mode + "." + decision)
			case "refuse":
				if sc.msg > 0 {
					errTok = fmt.Sprintf("err:%d:m%d", sc.status, sc.msg)
				}
			}
			o.count("e2e.mode." + sc.mode)
			if ok {
				wantDis = append(wantDis, fmt.Sprintf("discharge:t%d:%s", t.id, strings.Join(strings.Fields(strings.ReplaceAll(tpNats(tpDedup(sc.cs)), " ", " c")), ",")))
			} else {
				wantErr = append(wantErr, errTok)
				all = false
			}
		}
		wantVerify = append(wantVerify, fmt.Sprintf("verify:%d:%s", mt.m.Nonce.KID[0], hitmiss(all, "ok", "fail")))
	}
	opts := []tp.ClientOption{tp.WithHTTP(&http.Client{Transport: e}), tp.WithPollingBackoff(func(time.Duration) time.Duration { return time.Microsecond })}
	if withJar {
		jar, _ := cookiejar.New(nil)
		opts[0] = tp.WithHTTP(&http.Client{Transport: e, Jar: jar})
	}
	if withCallback {
		opts = append(opts, tp.WithUserURLCallback(e.userURL))
	}
	ctx, cancel := context.WithTimeout(context.Background(), 20*time.Second)
	defer cancel()
	var res string
	var err error
	if p := guard(func() string { res, err = tp.NewClient(tpFirst, opts...).FetchDischargeTokens(ctx, header); return "" }); p != "" {
		e.note("%s", p)
	}
	var gotDis, gotErr, gotVerify []string
	if _, had := macaroon.StripAuthorizationScheme(res); had != scheme {
		e.note("scheme")
	}
	raws, perr := macaroon.Parse(res)
	if perr != nil {
		e.note("unparsable-result")
	}
	var dis [][]byte
	for _, raw := range raws {
		if m, err := macaroon.Decode(raw); err == nil && m.Location != tpFirst {
			dis = append(dis, raw)
			gotDis = append(gotDis, w.dischargeTokRaw(raw))
		}
	}
	for _, l := range tpErrLeaves(err) {
		var te *tp.Error
		tok := "err:other"
		if errors.As(l, &te) {
			for k := 1; k < len(tpMsgs); k++ {
				if te.Msg == tpMsgs[k] {
					tok = fmt.Sprintf("err:%d:m%d", te.StatusCode, k)
				}
			}
		}
		gotErr = append(gotErr, tok)
	}
	for _, mt := range macs {
		_, verr := mt.m.Verify(mt.key, dis, nil)
		gotVerify = append(gotVerify, fmt.Sprintf("verify:%d:%s", mt.m.Nonce.KID[0], hitmiss(verr == nil, "ok", "fail")))
	}
	line := func(d, er, v []string) string {
		sort.Strings(d)
		sort.Strings(er)
		return "e2e;" + strings.Join(d, ";") + ";" + strings.Join(er, ";") + ";" + strings.Join(v, ";")
	}
	for _, sc := range e.scripts {
		o.count(fmt.Sprintf("e2e.polls-of-a-flow=%d", sc.polls))
	}
	o.count("e2e.episodes")
	o.emit("(const "+line(wantDis, wantErr, wantVerify)+")", line(gotDis, gotErr, gotVerify)+strings.Join(e.notes, ""))
}

func macaroonRefused(cs []int) bool {
	for _, c := range cs {
		if c == 0 {
			return true
		}
	}
	return false
}

func famTP(r *Rng, o *Out, tier string) {
	n := 1500
	if tier == "thorough" {
		n = 15000
	}
	for i := 0; i < n; i++ {
		tpRunEpisode(r, o, tier)
	}
	for i := 0; i < n; i++ {
		tpSchedEpisode(r, o, tier)
	}
	for i := 0; i < n/3; i++ {
		tpE2EEpisode(r, o)
	}
}
