package main

// Family tp (C16): the real tp.TP with a tp.MemoryStore behind a wrapping tp.Store, driven
// in-process through httptest by random histories over 1-4 concurrent flows.
//
//   (tp.run ACT …)     every handler runs to completion before the next starts
//   (tp.sched ITEM …)  handlers run as goroutines; the wrapping store parks every store operation
//                      and a seeded scheduler releases them one at a time, so the line is the exact
//                      interleaving of store operations that happened
//
// Observable per line: one token per action/handler — status, body kind, +app when an application
// handler ran, and for a discharge which pool token it verifies for (t<i>) with which of the
// application's caveats (c<k>) — then (sched only) the store-operation log, then the live keys.
// Evictions of the LRU are observed after every Insert and fed to the model as (evict …) items.
//
// Two tp.TP values (service 0 and 1: own Key and Location) share the ONE wrapped store; every
// action names the service it is addressed to.  A quarter of the polls / user visits / decisions on
// a flow go to the service that did NOT start it (pending and decided flows alike), init also gets
// valid tickets of the other service, and in tp.run episodes a third of the requests are realised
// on the other tp.TP with its Key replaced for the call ("key rotated between approval and
// collection").  Pool token ids are 2*i+svc: the parity is the model's `sealer`.

import (
	"bytes"
	"context"
	"encoding/hex"
	"encoding/json"
	"fmt"
	"net/http"
	"net/http/httptest"
	"sort"
	"strings"
	"time"

	"github.com/superfly/macaroon"
	"github.com/superfly/macaroon/auth"
	"github.com/superfly/macaroon/flyio"
	"github.com/superfly/macaroon/resset"
	"github.com/superfly/macaroon/tp"
	"golang.org/x/crypto/blake2b"
)

func init() { families["tp"] = famTP }

const (
	tpLoc     = "https://tp.example"           // service 0
	tpLocB    = "https://tp-b.example/auth/v1" // service 1: own key, own location (WITH a path, which tp/README allows), SAME store
	tpFirst   = "https://first-party.example"
	tpCavEnd  = int64(1) << 40
	tpUserPfx = "/user/"
)

type tpThreadKey struct{}

type tpTok struct {
	id     int // 2*i + svc: the model's ticket atom; its parity names the service whose key seals it
	svc    int
	m      *macaroon.Macaroon
	key    macaroon.SigningKey
	ticket []byte
}

type tpFlow struct {
	n                  int // 1-based order of Insert
	svc                int // the service whose init inserted it
	us, ps             string
	pollLive, userLive bool
}

type tpAct struct {
	kind     string // init poll uservisit approve abort
	svc      int    // the tp.TP the request is addressed to
	viaSwap  bool   // realised on the OTHER instance with its Key replaced by this service's key for the call
	good     bool
	tid      int    // pool token id (good) or bad-ticket kind
	raw      []byte // ticket bytes
	badJSON  bool
	noMember bool   // a JSON body without a ticket member: the same as an empty ticket
	mode     string // immediate poll user refuse none
	cs       []int
	status   int
	msg      int
	role     string // approve/abort: poll|user
	secret   string
}

type tpThread struct {
	id         int
	act        *tpAct
	conc       bool
	parked     chan string
	release    chan struct{}
	done       chan string
	state      int // 0 running, 1 parked, 2 returned at spawn (its model step is still due), 3 finished
	parkedKind string
	out        string
	invoked    bool
	retSecret  string
	note       string
}

var tpLocs = [2]string{tpLoc, tpLocB}

type tpWorld struct {
	r       *Rng
	o       *Out
	svcs    [2]*tp.TP
	ms      *tp.MemoryStore
	toks    []*tpTok
	foreign []byte // ticket sealed under another service's key
	flows   []*tpFlow
	xs      map[string]int
	threads []*tpThread
	items   []string
	oplog   []string
	inits   int
	conc    bool
	planned int             // inits that will insert
	lastSvc int             // service of the flow genSecret picked last
	initH   [2]http.Handler // the init middleware is built once per service and reused, as on a real mux
}

// ---- wrapping store -------------------------------------------------------------------------

type tpWrapStore struct {
	w     *tpWorld
	inner *tp.MemoryStore
}

var _ tp.Store = (*tpWrapStore)(nil)

func (s *tpWrapStore) park(ctx context.Context, kind string) *tpThread {
	th, _ := ctx.Value(tpThreadKey{}).(*tpThread)
	if th != nil && th.conc {
		th.parked <- kind
		<-th.release
	}
	return th
}

func (s *tpWrapStore) log(th *tpThread, f string, a ...any) {
	if th != nil && th.conc {
		s.w.oplog = append(s.w.oplog, fmt.Sprintf("%d:", th.id)+fmt.Sprintf(f, a...))
	}
}

func (s *tpWrapStore) Insert(ctx context.Context, sd *tp.StoreData) (string, string, error) {
	th := s.park(ctx, "ins")
	us, ps, err := s.inner.Insert(ctx, sd)
	if err == nil {
		fl := &tpFlow{n: len(s.w.flows) + 1, us: us, ps: ps, pollLive: true, userLive: true}
		if th0, _ := ctx.Value(tpThreadKey{}).(*tpThread); th0 != nil {
			fl.svc = th0.act.svc
		}
		s.w.flows = append(s.w.flows, fl)
		s.log(th, "ins:%s", s.w.sref(ps))
	}
	return us, ps, err
}

func hitmiss(ok bool, a, b string) string {
	if ok {
		return a
	}
	return b
}

func (s *tpWrapStore) GetByPollSecret(ctx context.Context, x string) (*tp.StoreData, error) {
	th := s.park(ctx, "get")
	sd, err := s.inner.GetByPollSecret(ctx, x)
	s.log(th, "get:poll:%s:%s", s.w.sref(x), hitmiss(err == nil && sd != nil, "hit", "miss"))
	return sd, err
}

func (s *tpWrapStore) GetByUserSecret(ctx context.Context, x string) (*tp.StoreData, error) {
	th := s.park(ctx, "get")
	sd, err := s.inner.GetByUserSecret(ctx, x)
	s.log(th, "get:user:%s:%s", s.w.sref(x), hitmiss(err == nil && sd != nil, "hit", "miss"))
	return sd, err
}

func (s *tpWrapStore) UpdateByPollSecret(ctx context.Context, x string, sd *tp.StoreData) error {
	th := s.park(ctx, "upd")
	err := s.inner.UpdateByPollSecret(ctx, x, sd)
	s.log(th, "upd:poll:%s:%s", s.w.sref(x), hitmiss(err == nil, "ok", "miss"))
	return err
}

func (s *tpWrapStore) UpdateByUserSecret(ctx context.Context, x string, sd *tp.StoreData) error {
	th := s.park(ctx, "upd")
	err := s.inner.UpdateByUserSecret(ctx, x, sd)
	s.log(th, "upd:user:%s:%s", s.w.sref(x), hitmiss(err == nil, "ok", "miss"))
	return err
}

func (s *tpWrapStore) DeleteByPollSecret(ctx context.Context, x string) error {
	th := s.park(ctx, "del")
	err := s.inner.DeleteByPollSecret(ctx, x)
	s.log(th, "del:poll:%s:%s", s.w.sref(x), hitmiss(err == nil, "ok", "miss"))
	return err
}

func (s *tpWrapStore) DeleteByUserSecret(ctx context.Context, x string) error {
	th := s.park(ctx, "del")
	err := s.inner.DeleteByUserSecret(ctx, x)
	s.log(th, "del:user:%s:%s", s.w.sref(x), hitmiss(err == nil, "ok", "miss"))
	return err
}

func (s *tpWrapStore) UserSecretToURL(us string) string { return s.inner.UserSecretToURL(us) }
func (s *tpWrapStore) UserSecretFromRequest(r *http.Request) (string, error) {
	return s.inner.UserSecretFromRequest(r)
}

// ---- world ----------------------------------------------------------------------------------

// caveat id k>0: an ordinary, distinguishable caveat; id 0: a caveat Macaroon.Add refuses
// (an attestation wrapped in IfPresent)
func tpCav(k int) macaroon.Caveat {
	if k == 0 {
		u := auth.FlyioUserID(7)
		return &resset.IfPresent{Ifs: macaroon.NewCaveatSet(&u), Else: resset.ActionAll}
	}
	return &macaroon.ValidityWindow{NotBefore: int64(k), NotAfter: tpCavEnd}
}

func tpCavs(ks []int) []macaroon.Caveat {
	cs := make([]macaroon.Caveat, len(ks))
	for i, k := range ks {
		cs[i] = tpCav(k)
	}
	return cs
}

func newTPWorld(r *Rng, o *Out, size, ntoks int) *tpWorld {
	w := &tpWorld{r: r, o: o, xs: map[string]int{}}
	ms, err := tp.NewMemoryStore(tp.PrefixMunger(tpUserPfx), size)
	if err != nil {
		panic(err)
	}
	w.ms = ms
	ws := &tpWrapStore{w: w, inner: ms}
	for v := range w.svcs {
		w.svcs[v] = &tp.TP{Location: tpLocs[v], Key: macaroon.NewEncryptionKey(), Store: ws}
	}
	mint := func(id, v int, ka macaroon.EncryptionKey) *tpTok {
		tpLoc := tpLocs[v]
		k := macaroon.NewSigningKey()
		m, err := macaroon.New([]byte{byte(id), 7}, tpFirst, k)
		if err != nil {
			panic(err)
		}
		if err := m.Add(&flyio.Organization{ID: uint64(100 + id), Mask: resset.ActionAll}); err != nil {
			panic(err)
		}
		if err := m.Add3P(ka, tpLoc); err != nil {
			panic(err)
		}
		tks, err := m.ThirdPartyTickets()
		if err != nil || len(tks[tpLoc]) == 0 {
			panic(fmt.Sprint("no ticket: ", err))
		}
		// re-read the token from its wire form, as a verifier would
		enc, err := m.Encode()
		if err != nil {
			panic(err)
		}
		dm, err := macaroon.Decode(enc)
		if err != nil {
			panic(err)
		}
		if _, err := dm.Verify(k, nil, nil); err == nil {
			panic("pool token verifies without a discharge")
		}
		return &tpTok{id: id, svc: v, m: dm, key: k, ticket: tks[tpLoc]}
	}
	for i := 1; i <= ntoks; i++ {
		for v := range w.svcs {
			w.toks = append(w.toks, mint(2*i+v, v, w.svcs[v].Key))
		}
	}
	w.foreign = mint(99, 0, macaroon.NewEncryptionKey()).ticket
	return w
}

func tpKeyName(role, secret string) string {
	d := blake2b.Sum256([]byte(secret))
	return hitmiss(role == "poll", "p", "u") + hex.EncodeToString(d[:])
}

// symbolic name of a presented or issued secret
func (w *tpWorld) sref(s string) string {
	for _, f := range w.flows {
		if s == f.ps {
			return fmt.Sprintf("f%d.poll", f.n)
		}
		if s == f.us {
			return fmt.Sprintf("f%d.user", f.n)
		}
	}
	n, ok := w.xs[s]
	if !ok {
		n = len(w.xs)
		w.xs[s] = n
	}
	return fmt.Sprintf("x%d", n)
}

// keys that the LRU dropped: reported as (evict …) only right after an Insert (the only place the
// LRU evicts); at other times the bookkeeping is only refreshed — the model predicts those removals
// itself and the final live set is compared.
func (w *tpWorld) syncEvictions(report bool) []string {
	var ev []string
	for _, f := range w.flows {
		if f.pollLive && !w.ms.Cache.Contains(tpKeyName("poll", f.ps)) {
			f.pollLive = false
			if report {
				ev = append(ev, fmt.Sprintf("poll f%d.poll", f.n))
			}
		}
		if f.userLive && !w.ms.Cache.Contains(tpKeyName("user", f.us)) {
			f.userLive = false
			if report {
				ev = append(ev, fmt.Sprintf("user f%d.user", f.n))
			}
		}
	}
	if len(ev) > 0 {
		w.o.count("evictions")
	}
	return ev
}

func (w *tpWorld) live() string {
	var names []string
	n := 0
	for _, f := range w.flows {
		if w.ms.Cache.Contains(tpKeyName("poll", f.ps)) {
			names = append(names, fmt.Sprintf("f%d.poll", f.n))
			n++
		}
		if w.ms.Cache.Contains(tpKeyName("user", f.us)) {
			names = append(names, fmt.Sprintf("f%d.user", f.n))
			n++
		}
	}
	s := "live:" + strings.Join(names, ",")
	if w.ms.Cache.Len() != n {
		s += "!stray"
	}
	return s
}

// the handlers of service v (inst is its tp.TP, or the other one with v's key swapped in)
func (w *tpWorld) mux(v int, inst *tp.TP, rw http.ResponseWriter, r *http.Request) {
	// (a service whose location has a path is mounted there and sees the full, unstripped path)
	path := strings.TrimPrefix(r.URL.EscapedPath(), "/auth/v1")
	switch {
	case path == tp.InitPath:
		if w.initH[v] == nil {
			w.initH[v] = w.svcs[v].InitRequestMiddleware(http.HandlerFunc(w.handleInit))
		}
		w.initH[v].ServeHTTP(rw, r)
	case strings.HasPrefix(path, tp.PollPathPrefix):
		inst.HandlePollRequest(rw, r)
	case strings.HasPrefix(path, tpUserPfx):
		inst.UserRequestMiddleware(http.HandlerFunc(w.handleUser)).ServeHTTP(rw, r)
	default:
		panic("unrouted " + path)
	}
}

func tpMsg(m int) string {
	if m == 0 {
		return ""
	}
	return fmt.Sprintf("m%d", m)
}

// the application's init handler: follows the script of the request
func (w *tpWorld) handleInit(rw http.ResponseWriter, r *http.Request) {
	th := r.Context().Value(tpThreadKey{}).(*tpThread)
	th.invoked = true
	if _, err := tp.CaveatsFromRequest(r); err != nil {
		th.note += "!nofd"
	}
	a := th.act
	svc := w.svcs[a.svc]
	switch a.mode {
	case "immediate":
		svc.RespondDischarge(rw, r, tpCavs(a.cs)...)
	case "poll":
		th.retSecret = svc.RespondPoll(rw, r)
	case "user":
		th.retSecret = svc.RespondUserInteractive(rw, r)
	case "refuse":
		svc.RespondError(rw, r, a.status, tpMsg(a.msg))
	case "none":
	}
}

func (w *tpWorld) handleUser(rw http.ResponseWriter, r *http.Request) {
	th := r.Context().Value(tpThreadKey{}).(*tpThread)
	th.invoked = true
	if _, err := tp.CaveatsFromRequest(r); err != nil {
		th.note += "!nofd"
	}
	rw.Write([]byte("page"))
}

// which pool token the discharge verifies for, and which application caveats it carries
func (w *tpWorld) dischargeTok(dis string) string {
	raw, err := macaroon.Parse(dis)
	if err != nil || len(raw) != 1 {
		return "discharge:unparsable"
	}
	var ids []string
	var cavs []string
	for _, t := range w.toks {
		cs, err := t.m.Verify(t.key, [][]byte{raw[0]}, nil)
		if err != nil {
			continue
		}
		ids = append(ids, fmt.Sprintf("t%d", t.id))
		cavs = cavs[:0]
		for _, c := range cs.Caveats {
			if vw, ok := c.(*macaroon.ValidityWindow); ok && vw.NotAfter == tpCavEnd {
				cavs = append(cavs, fmt.Sprintf("c%d", vw.NotBefore))
			}
		}
	}
	if len(ids) == 0 {
		return "discharge:t?:"
	}
	return "discharge:" + strings.Join(ids, "+") + ":" + strings.Join(cavs, ",")
}

func (w *tpWorld) httpTok(rec *httptest.ResponseRecorder, th *tpThread) string {
	body := rec.Body.Bytes()
	kind := ""
	var jr struct {
		Error           string `json:"error"`
		Discharge       string `json:"discharge"`
		PollURL         string `json:"poll_url"`
		UserInteractive *struct {
			PollURL string `json:"poll_url"`
			UserURL string `json:"user_url"`
		} `json:"user_interactive"`
	}
	switch {
	case len(body) == 0:
		kind = "none"
	case string(body) == "page":
		kind = "page"
	case json.Unmarshal(body, &jr) != nil:
		kind = "other"
	case jr.Discharge != "":
		kind = w.dischargeTok(jr.Discharge)
	case jr.PollURL != "":
		ps, ok := strings.CutPrefix(jr.PollURL, tpLocs[th.act.svc]+tp.PollPathPrefix)
		kind = "poll:" + w.sref(ps)
		if !ok || th.retSecret != ps {
			kind += "!ret"
		}
	case jr.UserInteractive != nil:
		ps, ok1 := strings.CutPrefix(jr.UserInteractive.PollURL, tpLocs[th.act.svc]+tp.PollPathPrefix)
		us, ok2 := strings.CutPrefix(jr.UserInteractive.UserURL, tpUserPfx)
		kind = "user:" + w.sref(ps) + "," + w.sref(us)
		if !ok1 || !ok2 || th.retSecret != us {
			kind += "!ret"
		}
	case jr.Error == "not found":
		kind = "notfound"
	case jr.Error == "not ready":
		kind = "notready"
	case jr.Error == "internal server error":
		kind = "error"
	case jr.Error != "":
		if strings.HasPrefix(jr.Error, "m") {
			kind = "error:" + jr.Error
		} else {
			kind = "error:other"
		}
	default:
		kind = "empty"
	}
	tok := fmt.Sprintf("%d:%s", rec.Code, kind)
	if th.invoked {
		tok += "+app"
	}
	return tok + th.note
}

func (w *tpWorld) runAct(th *tpThread) string {
	ctx := context.WithValue(context.Background(), tpThreadKey{}, th)
	a := th.act
	svc, tpLoc := w.svcs[a.svc], tpLocs[a.svc]
	if a.viaSwap { // the other instance, its Key replaced by this service's key for the duration of the call
		svc = w.svcs[1-a.svc]
		old := svc.Key
		svc.Key = w.svcs[a.svc].Key
		defer func() { svc.Key = old }()
	}
	switch a.kind {
	case "init":
		var body []byte
		if a.badJSON {
			body = []byte(`{"ticket": 12`)
		} else if a.noMember {
			body = []byte(pick(w.r, []string{`{}`, `{"comment": "no ticket here"}`, `{"Ticket2": "AAAA"}`}))
		} else {
			body, _ = json.Marshal(map[string][]byte{"ticket": a.raw})
		}
		req := httptest.NewRequest("POST", tpLoc+tp.InitPath, bytes.NewReader(body)).WithContext(ctx)
		rec := httptest.NewRecorder()
		w.mux(a.svc, svc, rec, req)
		return w.httpTok(rec, th)
	case "poll":
		req := httptest.NewRequest("GET", tpLoc+tp.PollPathPrefix+a.secret+w.query(), nil).WithContext(ctx)
		rec := httptest.NewRecorder()
		w.mux(a.svc, svc, rec, req)
		return w.httpTok(rec, th)
	case "uservisit":
		// (the user page is the application's own URL: it does not live under the service's location path)
		req := httptest.NewRequest("GET", strings.TrimSuffix(tpLoc, "/auth/v1")+tpUserPfx+a.secret+w.query(), nil).WithContext(ctx)
		rec := httptest.NewRecorder()
		w.mux(a.svc, svc, rec, req)
		return w.httpTok(rec, th)
	case "approve":
		var err error
		if a.role == "poll" {
			err = svc.DischargePoll(ctx, a.secret, tpCavs(a.cs)...)
		} else {
			err = svc.DischargeUserInteractive(ctx, a.secret, tpCavs(a.cs)...)
		}
		return hitmiss(err == nil, "ok", "err")
	case "abort":
		var err error
		if a.role == "poll" {
			err = svc.AbortPoll(ctx, a.secret, tpMsg(a.msg))
		} else {
			err = svc.AbortUserInteractive(ctx, a.secret, tpMsg(a.msg))
		}
		return hitmiss(err == nil, "ok", "err")
	}
	panic("bad action")
}

// query: the secret is the rest of the PATH; a query string (the return_to parameter the protocol's README lets a
// client append to the user URL, or any other) is no part of it. The model never sees it.
func (w *tpWorld) query() string {
	q := pick(w.r, []string{"", "", "?return_to=https%3A%2F%2Fclient.example%2Fdone", "?", "?x=1&y=/a/b"})
	w.o.count("query." + map[bool]string{true: "none", false: "present"}[q == ""])
	return q
}

func tpNats(ks []int) string {
	var sb strings.Builder
	for _, k := range ks {
		fmt.Fprintf(&sb, " %d", k)
	}
	return sb.String()
}

func (w *tpWorld) sxAct(a *tpAct) string {
	switch a.kind {
	case "init":
		t := fmt.Sprintf("(bad %d)", a.tid)
		if a.good {
			t = fmt.Sprintf("(good %d)", a.tid)
		}
		m := a.mode
		switch a.mode {
		case "immediate":
			m = "(immediate" + tpNats(a.cs) + ")"
		case "refuse":
			m = fmt.Sprintf("(refuse %d %d)", a.status, a.msg)
		}
		return fmt.Sprintf("(init %d %s %s)", a.svc, t, m)
	case "poll":
		return fmt.Sprintf("(poll %d %s)", a.svc, w.sref(a.secret))
	case "uservisit":
		return fmt.Sprintf("(uservisit %d %s)", a.svc, w.sref(a.secret))
	case "approve":
		return fmt.Sprintf("(approve %d %s %s%s)", a.svc, a.role, w.sref(a.secret), tpNats(a.cs))
	case "abort":
		return fmt.Sprintf("(abort %d %s %s %d)", a.svc, a.role, w.sref(a.secret), a.msg)
	}
	panic("bad action")
}

// ---- generators -----------------------------------------------------------------------------

func (w *tpWorld) genCavs() []int {
	n := w.r.Intn(4)
	cs := make([]int, n)
	for i := range cs {
		cs[i] = 1 + w.r.Intn(4) // duplicates on purpose: Macaroon.Add de-duplicates
	}
	if w.r.Chance(1, 6) { // a caveat Add refuses: first, in the middle, or last
		pos := w.r.Intn(n + 1)
		cs = append(cs[:pos], append([]int{0}, cs[pos:]...)...)
		switch {
		case n == 0:
			w.o.count("cavs.refused.alone")
		case pos == 0:
			w.o.count("cavs.refused.first")
		case pos == n:
			w.o.count("cavs.refused.last")
		default:
			w.o.count("cavs.refused.middle")
		}
	} else {
		w.o.count("cavs.accepted")
	}
	return cs
}

// a secret to present to the namespace `role`
func (w *tpWorld) genSecret(role string) string {
	randHex := func() string { return hex.EncodeToString(w.r.Bytes(16)) }
	if len(w.flows) == 0 {
		w.o.count("secret.never-issued")
		w.lastSvc = w.r.Intn(2)
		return randHex()
	}
	f := pick(w.r, w.flows)
	w.lastSvc = f.svc
	right, other := f.ps, f.us
	if role == "user" {
		right, other = f.us, f.ps
	}
	switch x := w.r.Intn(100); {
	case x < 68:
		w.o.count("secret.right")
		return right
	case x < 82:
		w.o.count("secret.swapped")
		return other
	case x < 90:
		w.o.count("secret.never-issued")
		return randHex()
	case x < 97:
		w.o.count("secret.wrong")
		b := []byte(right)
		i := w.r.Intn(len(b))
		if b[i] == '0' {
			b[i] = '1'
		} else {
			b[i] = '0'
		}
		return string(b)
	default:
		w.o.count("secret.empty")
		return ""
	}
}

func (w *tpWorld) genAct(maxFlows int) *tpAct {
	r := w.r
	wantInit := len(w.flows) == 0 && w.inits < 3 || (w.planned < maxFlows && w.inits < 2*maxFlows+2 && r.Chance(1, 3)) || (w.inits < 2*maxFlows+2 && r.Chance(1, 12))
	eager := len(w.flows) == 0 // the first flow: mostly a ticket that opens and a mode that stores something
	if wantInit {
		w.inits++
		a := &tpAct{kind: "init", svc: r.Intn(2)}
		w.o.count(fmt.Sprintf("act.init.svc%d", a.svc))
		own := func() *tpTok {
			for {
				if t := pick(r, w.toks); t.svc == a.svc {
					return t
				}
			}
		}
		x := r.Intn(100)
		if eager {
			x = x * 2 / 3
		}
		opens := false
		switch {
		case x < 64:
			t := own()
			a.good, a.tid, a.raw = true, t.id, t.ticket
			opens = true
			w.o.count("ticket.good")
		case x < 72: // a valid ticket of the OTHER service: sealed under a key this service does not hold
			t := pick(r, w.toks)
			for t.svc == a.svc {
				t = pick(r, w.toks)
			}
			a.good, a.tid, a.raw = true, t.id, t.ticket
			w.o.count("ticket.other-service")
		case x < 82:
			t := own()
			a.tid, a.raw = 1, append([]byte{}, t.ticket...)
			a.raw[r.Intn(len(a.raw))] ^= 1 << uint(r.Intn(8))
			w.o.count("ticket.bitflip")
		case x < 90:
			a.tid, a.raw = 2, w.foreign
			w.o.count("ticket.foreign-key")
		case x < 94:
			a.tid, a.raw = 3, nil
			if r.Bool() {
				a.noMember = true
				w.o.count("ticket.no-member")
			} else {
				w.o.count("ticket.empty")
			}
		case x < 97:
			a.tid, a.raw = 4, r.Bytes(1+r.Intn(80))
			w.o.count("ticket.garbage")
		default:
			a.tid, a.badJSON = 5, true
			w.o.count("ticket.bad-json")
		}
		x = r.Intn(100)
		if eager {
			x = x * 4 / 5
		}
		switch {
		case x < 35 && w.planned < maxFlows:
			a.mode = "poll"
		case x < 70 && w.planned < maxFlows:
			a.mode = "user"
		case x < 85:
			a.mode, a.cs = "immediate", w.genCavs()
		case x < 95:
			a.mode, a.status, a.msg = "refuse", pick(r, []int{400, 401, 403, 420, 503}), r.Intn(4)
		default:
			a.mode = "none"
		}
		if opens && (a.mode == "poll" || a.mode == "user") {
			w.planned++
		}
		w.o.count("act.init." + a.mode)
		return a
	}
	address := func(a *tpAct) *tpAct {
		a.svc = w.lastSvc
		if r.Chance(1, 4) { // the flow of one service addressed to the other
			a.svc = 1 - a.svc
			w.o.count("addr.other-service." + a.kind)
		} else {
			w.o.count("addr.own-service." + a.kind)
		}
		if !w.conc && r.Chance(1, 3) { // the same request, realised by replacing the Key of the other tp.TP
			a.viaSwap = true
			w.o.count("addr.via-key-swap")
		}
		return a
	}
	switch x := r.Intn(100); {
	case x < 38:
		w.o.count("act.poll")
		return address(&tpAct{kind: "poll", secret: w.genSecret("poll")})
	case x < 50:
		w.o.count("act.uservisit")
		a := &tpAct{kind: "uservisit", secret: w.genSecret("user")}
		for a.secret == "" && w.conc { // "/user/" answers 404 before the store is consulted: no store operation to schedule
			a.secret = w.genSecret("user")
		}
		return address(a)
	case x < 80:
		role := pick(r, []string{"poll", "user"})
		w.o.count("act.approve." + role)
		a := &tpAct{kind: "approve", role: role, secret: w.genSecret(role), cs: w.genCavs()}
		for a.secret == "" { // Discharge*/Abort* treat "" as "the other secret was given"
			a.secret = w.genSecret(role)
		}
		return address(a)
	default:
		role := pick(r, []string{"poll", "user"})
		w.o.count("act.abort." + role)
		a := &tpAct{kind: "abort", role: role, secret: w.genSecret(role), msg: r.Intn(4)}
		for a.secret == "" {
			a.secret = w.genSecret(role)
		}
		return address(a)
	}
}

func (w *tpWorld) countOut(tok string) {
	app := strings.Contains(tok, "+app")
	f := strings.SplitN(strings.TrimSuffix(tok, "+app"), ":", 3)
	k := f[0]
	if len(f) > 1 {
		k += ":" + f[1]
	}
	if app {
		k += "+app"
	}
	w.o.count("out." + k)
}

func tpSize(r *Rng) int {
	if r.Chance(7, 10) {
		return 100
	}
	return 1 + r.Intn(6)
}

// ---- sequential histories -------------------------------------------------------------------

func tpRunEpisode(r *Rng, o *Out) {
	size := tpSize(r)
	w := newTPWorld(r, o, size, 1+r.Intn(3))
	maxFlows := 1 + r.Intn(4)
	n := 3 + r.Intn(18)
	var acts, outs []string
	for i := 0; i < n; i++ {
		a := w.genAct(maxFlows)
		th := &tpThread{id: i, act: a}
		out := guard(func() string { return w.runAct(th) })
		acts = append(acts, w.sxAct(a))
		outs = append(outs, out)
		w.countOut(out)
		for _, e := range w.syncEvictions(a.kind == "init") {
			acts = append(acts, "(evict "+e+")")
			outs = append(outs, "-")
		}
	}
	outs = append(outs, w.live())
	o.count(fmt.Sprintf("run.flows=%d", len(w.flows)))
	o.count("run.episodes")
	o.emit("(tp.run "+strings.Join(acts, " ")+")", strings.Join(outs, " "))
}

// ---- interleaved histories ------------------------------------------------------------------

func (w *tpWorld) await(th *tpThread, atSpawn bool) {
	select {
	case k := <-th.parked:
		th.state, th.parkedKind = 1, k
	case out := <-th.done:
		th.out = out
		th.state = 3
		if atSpawn {
			th.state = 2
		}
	case <-time.After(10 * time.Second):
		th.out, th.state = "hang", 3
	}
}

func (w *tpWorld) spawn(a *tpAct) {
	th := &tpThread{id: len(w.threads), act: a, conc: true,
		parked: make(chan string), release: make(chan struct{}), done: make(chan string, 1)}
	w.threads = append(w.threads, th)
	w.items = append(w.items, "(spawn "+w.sxAct(a)+")")
	go func() { th.done <- guard(func() string { return w.runAct(th) }) }()
	w.await(th, true)
}

func (w *tpWorld) stepThread(th *tpThread) {
	w.items = append(w.items, fmt.Sprintf("(step %d)", th.id))
	switch th.state {
	case 2:
		th.state = 3
	case 1:
		kind := th.parkedKind
		if kind == "del" { // the model splits Delete into its lookup and its removals
			w.items = append(w.items, fmt.Sprintf("(step %d)", th.id))
		}
		th.release <- struct{}{}
		w.await(th, false)
		for _, e := range w.syncEvictions(kind == "ins") {
			w.items = append(w.items, "(evict "+e+")")
			w.oplog = append(w.oplog, "evict:"+strings.Replace(e, " ", ":", 1))
		}
	}
}

func (w *tpWorld) active() []*tpThread {
	var act []*tpThread
	for _, th := range w.threads {
		if th.state != 3 {
			act = append(act, th)
		}
	}
	return act
}

func tpSchedEpisode(r *Rng, o *Out) {
	size := tpSize(r)
	w := newTPWorld(r, o, size, 1+r.Intn(3))
	w.conc = true
	maxFlows := 1 + r.Intn(4)
	n := 3 + r.Intn(18)
	conc := 2 + r.Intn(3)
	spawned := 0
	maxActive := 0
	for spawned < n || len(w.active()) > 0 {
		act := w.active()
		if len(act) > maxActive {
			maxActive = len(act)
		}
		switch {
		case spawned < n && len(act) < conc && (len(act) == 0 || r.Chance(2, 5)):
			w.spawn(w.genAct(maxFlows))
			spawned++
		case len(act) > 0 && r.Chance(1, 8): // barrier: everything pending returns before anything new starts
			for _, th := range act {
				for th.state != 3 {
					w.stepThread(th)
				}
			}
			o.count("sched.barrier")
		case len(act) > 0:
			w.stepThread(pick(r, act))
		}
	}
	var outs []string
	for _, th := range w.threads {
		outs = append(outs, th.out)
		w.countOut(th.out)
	}
	outs = append(outs, "|")
	outs = append(outs, w.oplog...)
	outs = append(outs, w.live())
	o.count(fmt.Sprintf("sched.flows=%d", len(w.flows)))
	o.count(fmt.Sprintf("sched.max-active=%d", maxActive))
	o.count("sched.episodes")
	// races worth knowing about: a poll that lost the Delete against another poll
	dels := map[string]int{}
	for _, l := range w.oplog {
		if strings.Contains(l, ":del:") {
			dels[l[strings.Index(l, ":del:"):]]++
		}
	}
	keys := make([]string, 0, len(dels))
	for k := range dels {
		keys = append(keys, k)
	}
	sort.Strings(keys)
	for _, k := range keys {
		if strings.HasSuffix(k, ":miss") {
			o.count("sched.poll-lost-delete-race")
		}
	}
	o.emit("(tp.sched "+strings.Join(w.items, " ")+")", strings.Join(outs, " "))
}

func famTP(r *Rng, o *Out, tier string) {
	n := 1500
	if tier == "thorough" {
		n = 15000
	}
	for i := 0; i < n; i++ {
		tpRunEpisode(r, o)
	}
	for i := 0; i < n; i++ {
		tpSchedEpisode(r, o)
	}
}
