package main

// Family conc (C15): goroutines hammer pairs of Bundle entry points on a shared bundle
// (and on a bundle derived from it by Select) under a watchdog.  Observable per pair:
// ok | hang (some call never returned) | lost-update (concurrently added tokens missing).
// Built with -race in the thorough tier; the race detector's report is then the observable.

import (
	"bytes"
	"context"
	"encoding/json"
	"errors"
	"fmt"
	"io"
	"net/http"
	"os"
	"runtime"
	"sort"
	"strings"
	"sync"
	"sync/atomic"
	"time"

	"github.com/superfly/macaroon"
	"github.com/superfly/macaroon/bundle"
	"github.com/superfly/macaroon/flyio"
	"github.com/superfly/macaroon/resset"
	"github.com/superfly/macaroon/tp"
)

func init() { families["conc"] = famConc }

var errRefused = errors.New("third party refuses")
var dischargeCalls int64

const concLoc = "https://perm.example"
const concTP = "https://tp.example"

type concEnv struct {
	key   macaroon.SigningKey
	ka    macaroon.EncryptionKey
	hdr   string
	extra string
}

func newConcEnv() *concEnv {
	e := &concEnv{key: macaroon.NewSigningKey(), ka: macaroon.NewEncryptionKey()}
	m, _ := macaroon.New([]byte("kid"), concLoc, e.key)
	m.Add(&flyio.Organization{ID: 1, Mask: resset.ActionAll})
	m.Add3P(e.ka, concTP)
	tok, _ := m.String()
	m2, _ := macaroon.New([]byte("kid"), concLoc, e.key)
	m2.Add(&flyio.Organization{ID: 2, Mask: resset.ActionRead})
	tok2, _ := m2.String()
	e.hdr = "FlyV1 " + tok + "," + tok2
	// what AddTokens adds: a non-macaroon entry, so that the bundle's permission tokens (and with them the
	// cost of Verify/Attenuate per call) stay constant while the token list grows
	e.extra = "fo1_extra"
	return e
}

type concOp struct {
	name   string
	writer bool
	f      func(e *concEnv, b *bundle.Bundle)
}

var attenuateVariant int64

const concPre = 15

// the bundle the current pair was parsed into (the other target is derived from it by Select)
var concParent *bundle.Bundle

var concOps = []concOp{
	{"Bundle.AddTokens", true, func(e *concEnv, b *bundle.Bundle) {
		// the parent and a bundle derived from it add DIFFERENT entries: neither may end up holding the other's
		if b == concParent {
			b.AddTokens(e.extra)
		} else {
			b.AddTokens("fo1_derived")
		}
	}},
	{"Bundle.Filter", true, func(e *concEnv, b *bundle.Bundle) { b.Filter(bundle.KeepAll) }},
	{"Bundle.Attenuate", true, func(e *concEnv, b *bundle.Bundle) {
		// also the early-exit paths: no caveats to add, nothing to add them to (an empty selection shares the lock)
		switch atomic.AddInt64(&attenuateVariant, 1) % 3 {
		case 0:
			b.Attenuate()
		case 1:
			b.Select(bundle.LocationFilter("https://nowhere.example").Predicate()).Attenuate(&flyio.Organization{ID: 0, Mask: resset.ActionAll})
		default:
			b.Attenuate(&flyio.Organization{ID: 0, Mask: resset.ActionAll})
		}
	}},
	{"Bundle.Verify", true, func(e *concEnv, b *bundle.Bundle) {
		b.Verify(context.Background(), bundle.WithKey([]byte("kid"), e.key, nil))
	}},
	{"Bundle.Discharge", true, func(e *concEnv, b *bundle.Bundle) {
		// every other call is REFUSED by the third party (the error path of Discharge: nothing is added, the call returns
		// an error - and returns: an error path that asks the bundle about itself through a locking accessor never does)
		refuse := atomic.AddInt64(&dischargeCalls, 1)%2 == 0
		b.Discharge(concTP, e.ka, func(cs []macaroon.Caveat) ([]macaroon.Caveat, error) {
			if refuse {
				return nil, errRefused
			}
			return nil, nil
		})
	}},
	{"Bundle.Any", false, func(e *concEnv, b *bundle.Bundle) {
		b.Any(bundle.IsWellFormedMacaroon)
		b.Any(bundle.LocationFilter(concLoc))
	}},
	{"Bundle.Count", false, func(e *concEnv, b *bundle.Bundle) {
		b.Count(bundle.IsWellFormedMacaroon)
		b.Count(bundle.LocationFilter(concLoc))
	}},
	{"Bundle.Clone", false, func(e *concEnv, b *bundle.Bundle) { b.Clone() }},
	{"Bundle.Header", false, func(e *concEnv, b *bundle.Bundle) { _ = b.Header() }},
	{"Bundle.String", false, func(e *concEnv, b *bundle.Bundle) { _ = b.String() }},
	{"Bundle.Error", false, func(e *concEnv, b *bundle.Bundle) { _ = b.Error() }},
	{"Bundle.Len", false, func(e *concEnv, b *bundle.Bundle) { _ = b.Len() }},
	{"Bundle.IsEmpty", false, func(e *concEnv, b *bundle.Bundle) { _ = b.IsEmpty() }},
	{"Bundle.Select", false, func(e *concEnv, b *bundle.Bundle) {
		s := b.Select(bundle.IsWellFormedMacaroon)
		_ = s.Len()
	}},
	{"Bundle.Validate", false, func(e *concEnv, b *bundle.Bundle) {
		b.Validate(&flyio.Access{OrgID: p64(1), Action: resset.ActionRead})
	}},
	{"Bundle.UndischargedThirdPartyTickets", false, func(e *concEnv, b *bundle.Bundle) { b.UndischargedThirdPartyTickets() }},
	{"Bundle.UndischargedTicketsForThirdParty", false, func(e *concEnv, b *bundle.Bundle) { b.UndischargedTicketsForThirdParty(concTP) }},
	{"ForEach", false, func(e *concEnv, b *bundle.Bundle) { bundle.ForEach(b, func(t bundle.Token) { _ = t.String() }) }},
	{"Map", false, func(e *concEnv, b *bundle.Bundle) { bundle.Map(b, func(t bundle.Token) int { return len(t.String()) }) }},
	{"Reduce", false, func(e *concEnv, b *bundle.Bundle) {
		bundle.Reduce(b, func(n int, t bundle.Token) int { return n + 1 })
	}},
}

// runPair: g goroutines per op, iters calls each, half on the bundle and half on a Select-derived one.
func runPair(e *concEnv, a, w concOp, g, iters int, watchdog time.Duration) string {
	b, _ := bundle.ParseBundle(concLoc, e.hdr)
	concParent = b
	// (entries added one by one before the selection: 2 parsed + 15 gives length 17 in an array of 32 - a derived
	// bundle that shared the parent's backing array would write into those 15 spare slots)
	for k := 0; k < concPre; k++ {
		b.AddTokens(e.extra)
	}
	derived := b.Select(bundle.KeepAll)
	var wg sync.WaitGroup
	var addCalls int64
	start := make(chan struct{})
	run := func(op concOp, target *bundle.Bundle) {
		defer wg.Done()
		<-start
		for i := 0; i < iters; i++ {
			op.f(e, target)
			if op.name == "Bundle.AddTokens" && target == b {
				atomic.AddInt64(&addCalls, 1)
			}
		}
	}
	for i := 0; i < g; i++ {
		wg.Add(2)
		tgt := b
		if i%2 == 1 {
			tgt = derived
		}
		go run(a, tgt)
		go run(w, b)
	}
	before := b.Len()
	close(start)
	done := make(chan struct{})
	go func() { wg.Wait(); close(done) }()
	select {
	case <-done:
	case <-time.After(watchdog):
		// slow or stuck? a stuck lock never finishes; give a slow machine a generous second chance
		select {
		case <-done:
		case <-time.After(6 * watchdog):
			return "hang"
		}
	}
	// atomicity post-condition: every concurrently added token is present
	// (Filter keeps everything here - bundle.KeepAll - so it must not lose a concurrently added token either)
	if w.name == "Bundle.AddTokens" {
		extra := 0
		if a.name == "Bundle.Discharge" {
			extra = -1 // discharges may be appended too; only a lower bound is checked
		}
		want := before + int(atomic.LoadInt64(&addCalls))
		if got := b.Len(); got < want || (extra == 0 && a.name != "Bundle.AddTokens" && got != want) {
			return fmt.Sprintf("lost-update(have=%d,want=%d)", got, want)
		}
		// ... and they are its OWN entries: nothing the derived bundle added shows up in the parent, none of the
		// parent's were overwritten (a derived bundle must not share the parent's backing array)
		own, foreign := 0, 0
		for _, t := range strings.Split(b.String(), ",") {
			switch t {
			case e.extra:
				own++
			case "fo1_derived":
				foreign++
			}
		}
		if foreign != 0 || own != int(atomic.LoadInt64(&addCalls))+concPre {
			return fmt.Sprintf("lost-update(own=%d,foreign=%d,want=%d)", own, foreign, atomic.LoadInt64(&addCalls)+concPre)
		}
	}
	return "ok"
}

// sharedFilterRun: b = [permission token with a third-party caveat, its discharge, another token], sel = the
// permission tokens only; one IsMissingDischarge filter value counts on both concurrently: always 0 on b (the
// discharge is there) and always 1 on sel
func sharedFilterRun(e *concEnv, iters int) string {
	m, _ := macaroon.New([]byte("kid"), concLoc, e.key)
	c3, _ := macaroon.NewCaveat3P(e.ka, concTP)
	m.Add(c3)
	tok, _ := m.String()
	_, d, err := macaroon.DischargeTicket(e.ka, concTP, c3.Ticket)
	if err != nil {
		return "harness-error"
	}
	dis, _ := d.String()
	b, perr := bundle.ParseBundle(concLoc, "FlyV1 "+tok+","+dis)
	if perr != nil {
		return "harness-error"
	}
	sel := b.Select(b.IsPermissionToken)
	f := b.IsMissingDischarge(concTP)
	if b.Count(f) != 0 || sel.Count(f) != 1 {
		return fmt.Sprintf("wrong-answer(sequential:%d,%d)", b.Count(f), sel.Count(f))
	}
	var wrong int64
	var wg sync.WaitGroup
	for g := 0; g < 4; g++ {
		wg.Add(2)
		go func() {
			defer wg.Done()
			for i := 0; i < iters*10; i++ {
				if b.Count(f) != 0 {
					atomic.AddInt64(&wrong, 1)
				}
			}
		}()
		go func() {
			defer wg.Done()
			for i := 0; i < iters*10; i++ {
				if sel.Count(f) != 1 {
					atomic.AddInt64(&wrong, 1)
				}
			}
		}()
	}
	wg.Wait()
	if wrong != 0 {
		return "wrong-answer(shared filter value, concurrent readers)"
	}
	return "shared-filter"
}

// slowWriterRun: a Filter whose predicate is held up in the middle of its work keeps the write lock; a second call
// arrives meanwhile and is let go a moment later. Whatever the second call returns must be what it returns on the
// token list BEFORE the filter or on the list AFTER it - never a mixture, never a panic - and a token added
// meanwhile must be there afterwards. (The controlled counterpart of the hammered pairs: the writer is known to be
// half way when the other call starts.)
func slowWriterRun(e *concEnv) string {
	hdr := e.hdr + ",fo1_drop1,fo1_keep1,fo1_drop2,fo1_keep2"
	keep := func(t bundle.Token) bool { return !strings.Contains(t.String(), "fo1_drop") }
	mk := func() *bundle.Bundle {
		b, err := bundle.ParseBundleWithFilter(concLoc, hdr, bundle.KeepAll)
		if err != nil {
			panic(err)
		}
		return b
	}
	type second struct {
		name string
		f    func(b *bundle.Bundle) string
	}
	seconds := []second{
		{"Clone", func(b *bundle.Bundle) string { return b.Clone().Header() }},
		{"Header", func(b *bundle.Bundle) string { return b.Header() }},
		{"String", func(b *bundle.Bundle) string { return b.String() }},
		{"Len", func(b *bundle.Bundle) string { return fmt.Sprint(b.Len()) }},
		{"Count", func(b *bundle.Bundle) string { return fmt.Sprint(b.Count(bundle.KeepAll)) }},
		{"Select", func(b *bundle.Bundle) string { return b.Select(bundle.KeepAll).Header() }},
		{"Map", func(b *bundle.Bundle) string {
			return strings.Join(bundle.Map(b, func(t bundle.Token) string { return t.String() }), ",")
		}},
		{"Reduce", func(b *bundle.Bundle) string {
			return bundle.Reduce(b, func(acc string, t bundle.Token) string { return acc + "," + t.String() })
		}},
		{"IsEmpty", func(b *bundle.Bundle) string { return fmt.Sprint(b.IsEmpty()) }},
		{"Any", func(b *bundle.Bundle) string {
			return fmt.Sprint(b.Any(bundle.Predicate(func(t bundle.Token) bool { return strings.Contains(t.String(), "fo1_drop2") })))
		}},
		{"Any.filter", func(b *bundle.Bundle) string { return fmt.Sprint(b.Any(bundle.LocationFilter(concLoc))) }},
		{"Count.predicate", func(b *bundle.Bundle) string {
			return fmt.Sprint(b.Count(bundle.Predicate(func(t bundle.Token) bool { return strings.Contains(t.String(), "fo1_") })))
		}},
		{"Error", func(b *bundle.Bundle) string { return fmt.Sprint(b.Error()) }},
		{"Validate", func(b *bundle.Bundle) string {
			return fmt.Sprint(b.Validate(&flyio.Access{OrgID: p64(1), Action: resset.ActionRead}) == nil)
		}},
		{"UndischargedThirdPartyTickets", func(b *bundle.Bundle) string { return fmt.Sprint(len(b.UndischargedThirdPartyTickets())) }},
		{"ForEach", func(b *bundle.Bundle) string {
			var sb strings.Builder
			bundle.ForEach(b, func(t bundle.Token) { sb.WriteString(t.String() + ",") })
			return sb.String()
		}},
		{"AddTokens", func(b *bundle.Bundle) string { b.AddTokens("fo1_added"); return "" }},
	}
	for _, sc := range seconds {
		for _, derived := range []bool{false, true} {
			b := mk()
			target := b
			if derived {
				target = b.Select(bundle.KeepAll) // shares the guard, has its own list: the filter on b leaves it alone
			}
			oldB, newB := mk(), mk()
			if !derived {
				newB.Filter(bundle.Predicate(keep))
			}
			var wantOld, wantNew string
			if sc.name == "AddTokens" {
				oldB.AddTokens("fo1_added")
				newB.AddTokens("fo1_added")
				wantOld, wantNew = oldB.Header(), newB.Header()
			} else {
				wantOld, wantNew = sc.f(oldB), sc.f(newB)
			}
			entered, release := make(chan struct{}), make(chan struct{})
			// (held up at its fifth token: by then one token has been dropped and a later one moved into its place,
			// so the list in memory is neither the old nor the new one)
			var calls int64
			slow := bundle.Predicate(func(t bundle.Token) bool {
				if atomic.AddInt64(&calls, 1) == 5 {
					close(entered)
					<-release
				}
				return keep(t)
			})
			res := make(chan string, 2)
			go func() {
				defer func() {
					if r := recover(); r != nil {
						res <- fmt.Sprintf("panic(Filter:%v)", r)
					}
				}()
				b.Filter(slow)
				res <- "filter-done"
			}()
			select {
			case <-entered:
			case <-time.After(4 * time.Second):
				return "hang(slow Filter never started)"
			}
			go func() {
				defer func() {
					if r := recover(); r != nil {
						res <- fmt.Sprintf("panic(%s during Filter:%v)", sc.name, r)
					}
				}()
				got := sc.f(target)
				if sc.name == "AddTokens" {
					res <- "second-done"
					return
				}
				if got != wantOld && got != wantNew {
					res <- fmt.Sprintf("wrong-answer(%s during Filter, derived=%v: neither the old nor the new list)", sc.name, derived)
					return
				}
				res <- "second-done"
			}()
			time.Sleep(15 * time.Millisecond)
			// mutual exclusion: the Filter still holds the write lock, so the second call - on the bundle or on a
			// selection sharing its guard - cannot have come back yet (a result with a wrong value or a panic is
			// reported as such below; a RIGHT-looking early answer was still computed inside the writer's section)
			early := ""
			select {
			case r := <-res:
				if r == "second-done" {
					early = fmt.Sprintf("wrong-answer(%s returned while Filter held the write lock, derived=%v: not excluded)", sc.name, derived)
				} else {
					early = r
				}
			default:
			}
			close(release)
			if early != "" {
				<-res // the filter itself
				return early
			}
			for k := 0; k < 2; k++ {
				select {
				case r := <-res:
					if r != "filter-done" && r != "second-done" {
						return r
					}
				case <-time.After(4 * time.Second):
					return fmt.Sprintf("hang(%s during Filter)", sc.name)
				}
			}
			if sc.name == "AddTokens" {
				if got := target.Header(); got != wantOld && got != wantNew {
					return fmt.Sprintf("lost-update(AddTokens during Filter, derived=%v)", derived)
				}
			}
		}
	}
	return "slow-writer"
}

// panickingCallbackRun: a user callback (filter predicate, ForEach/Map/Reduce function, verifier, discharger) that
// PANICS on one token; the caller recovers - as net/http does for a handler - and keeps using the bundle: every
// later call on it and on a selection sharing its guard returns (the lock was released on the way out), and a
// token added afterwards is there.
func panickingCallbackRun(e *concEnv) string {
	mk := func() *bundle.Bundle {
		b, err := bundle.ParseBundleWithFilter(concLoc, e.hdr+",fo1_a,fo1_b,fo1_c", bundle.KeepAll)
		if err != nil {
			panic(err)
		}
		return b
	}
	boomAt := func(n int) func() {
		var calls int64
		return func() {
			if atomic.AddInt64(&calls, 1) == int64(n) {
				panic("callback failure")
			}
		}
	}
	type cbOp struct {
		name string
		f    func(b *bundle.Bundle, boom func())
	}
	ops := []cbOp{
		{"ForEach", func(b *bundle.Bundle, boom func()) { bundle.ForEach(b, func(t bundle.Token) { boom() }) }},
		{"Map", func(b *bundle.Bundle, boom func()) { bundle.Map(b, func(t bundle.Token) int { boom(); return 0 }) }},
		{"Reduce", func(b *bundle.Bundle, boom func()) {
			bundle.Reduce(b, func(n int, t bundle.Token) int { boom(); return n + 1 })
		}},
		{"Filter", func(b *bundle.Bundle, boom func()) {
			b.Filter(bundle.Predicate(func(bundle.Token) bool { boom(); return true }))
		}},
		{"Select", func(b *bundle.Bundle, boom func()) {
			b.Select(bundle.Predicate(func(bundle.Token) bool { boom(); return true }))
		}},
		{"Any", func(b *bundle.Bundle, boom func()) {
			b.Any(bundle.Predicate(func(bundle.Token) bool { boom(); return false }))
		}},
		{"Count", func(b *bundle.Bundle, boom func()) {
			b.Count(bundle.Predicate(func(bundle.Token) bool { boom(); return true }))
		}},
		{"Verify", func(b *bundle.Bundle, boom func()) {
			b.Verify(context.Background(), bundle.VerifierFunc(func(ctx context.Context, perm bundle.Macaroon, diss []bundle.Macaroon) bundle.VerificationResult {
				boom()
				return nil
			}))
		}},
		{"Discharge", func(b *bundle.Bundle, boom func()) {
			b.Discharge(concTP, e.ka, func(cs []macaroon.Caveat) ([]macaroon.Caveat, error) { boom(); return nil, nil })
		}},
	}
	for _, op := range ops {
		for _, onDerived := range []bool{false, true} {
			b := mk()
			derived := b.Select(bundle.KeepAll)
			target := b
			if onDerived {
				target = derived
			}
			n := 3
			if op.name == "Verify" || op.name == "Discharge" {
				n = 1
			}
			func() {
				defer func() { _ = recover() }()
				op.f(target, boomAt(n))
			}()
			done := make(chan string, 1)
			go func() {
				defer func() {
					if r := recover(); r != nil {
						done <- fmt.Sprintf("panic(after a recovered callback panic in %s: %v)", op.name, r)
					}
				}()
				b.AddTokens("fo1_after")
				_ = derived.Len()
				_ = b.Header()
				derived.AddTokens("fo1_after2")
				if !strings.Contains(b.Header(), "fo1_after") || !strings.Contains(derived.Header(), "fo1_after2") {
					done <- fmt.Sprintf("lost-update(after a recovered callback panic in %s)", op.name)
					return
				}
				done <- "ok"
			}()
			select {
			case r := <-done:
				if r != "ok" {
					return r
				}
			case <-time.After(3 * time.Second):
				return fmt.Sprintf("hang(calls after a recovered callback panic in %s, derived=%v: the lock is still held)", op.name, onDerived)
			}
		}
	}
	return "panicking-callbacks"
}

// returnedValuesRun: what an operation RETURNED to its caller (the caveat sets of Verify, the tickets of
// UndischargedThirdPartyTickets, the slices of Map) is the caller's: callers use it outside any lock, so no later
// operation on the bundle - or on a selection of it - may write to it. Deterministic: the returned values are
// rendered, the bundle is modified (attenuated through a selection, filtered, added to, discharged, verified again),
// and they must render the same; the thorough tier's -race pass watches the same program run concurrently.
func returnedValuesRun(e *concEnv) string {
	b, err := bundle.ParseBundle(concLoc, e.hdr)
	if err != nil {
		return "harness-error"
	}
	ctx := context.Background()
	v := bundle.WithKey([]byte("kid"), e.key, nil)
	b.Discharge(concTP, e.ka, func(cs []macaroon.Caveat) ([]macaroon.Caveat, error) { return nil, nil })
	sets, err := b.Verify(ctx, v)
	if err != nil || len(sets) == 0 {
		return "harness-error(verify)"
	}
	render := func() string {
		var sb strings.Builder
		for _, cs := range sets {
			sb.WriteString(sxCavs(cs.Caveats) + ";")
		}
		return sb.String()
	}
	tickets := b.UndischargedThirdPartyTickets()
	strs := bundle.Map(b, func(t bundle.Token) string { return t.String() })
	before, beforeT, beforeS := render(), fmt.Sprint(tickets), strings.Join(strs, ",")
	var wg sync.WaitGroup
	stop := make(chan struct{})
	wg.Add(1)
	go func() { // a caller using what it was given, outside any lock
		defer wg.Done()
		for {
			select {
			case <-stop:
				return
			default:
				_ = render()
			}
		}
	}()
	sel := b.Select(bundle.KeepAll)
	for i := 0; i < 8; i++ {
		sel.Attenuate(&macaroon.ValidityWindow{NotBefore: 0, NotAfter: int64(4_000_000_000 + i)})
		b.Attenuate(&flyio.Organization{ID: 1, Mask: resset.ActionAll &^ resset.Action(1<<uint(i%4)+16)})
	}
	b.AddTokens("fo1_later")
	b.Verify(ctx, v)
	b.Filter(bundle.Predicate(func(t bundle.Token) bool { return !strings.Contains(t.String(), "fo1_") }))
	close(stop)
	wg.Wait()
	switch {
	case render() != before:
		return "wrong-answer(the caveat sets Verify returned changed after later operations on the bundle)"
	case fmt.Sprint(tickets) != beforeT:
		return "wrong-answer(the tickets UndischargedThirdPartyTickets returned changed)"
	case strings.Join(strs, ",") != beforeS:
		return "wrong-answer(the slice Map returned changed)"
	}
	return "returned-values-stable"
}

// two bundles parsed INDEPENDENTLY from one header (different mutexes) and verified through ONE verification
// cache: nothing the one does may show in the other - a cache that hands the first bundle's token object (or
// caveat set) to the second makes every Attenuate of the one a write into the other, under the wrong lock
func sharedCacheRun(e *concEnv) string {
	ctx := context.Background()
	cache := bundle.NewVerificationCache(bundle.WithKey([]byte("kid"), e.key, nil), time.Hour, 64)
	mk := func() *bundle.Bundle {
		b, err := bundle.ParseBundle(concLoc, e.hdr)
		if err != nil {
			return nil
		}
		return b
	}
	a, b, c := mk(), mk(), mk()
	if a == nil || b == nil || c == nil {
		return "harness-error"
	}
	dis := func(cs []macaroon.Caveat) ([]macaroon.Caveat, error) { return nil, nil }
	// identical discharges in all three (the hit needs the same candidate strings): discharge once, re-parse
	a.Discharge(concTP, e.ka, dis)
	hdr := a.Header()
	a, _ = bundle.ParseBundle(concLoc, hdr)
	b, _ = bundle.ParseBundle(concLoc, hdr)
	c = a.Clone()
	if a == nil || b == nil {
		return "harness-error"
	}
	if _, err := a.Verify(ctx, cache); err != nil { // miss: stored
		return "harness-error(verify)"
	}
	setsB, err := b.Verify(ctx, cache) // hit
	if err != nil {
		return "harness-error(verify b)"
	}
	if _, err := c.Verify(ctx, cache); err != nil { // hit
		return "harness-error(verify c)"
	}
	view := func(x *bundle.Bundle, sets []*macaroon.CaveatSet) string {
		var sb strings.Builder
		sb.WriteString(x.Header() + "|" + fmt.Sprint(x.Len()) + "|")
		for _, cs := range sets {
			sb.WriteString(sxCavs(cs.Caveats) + ";")
		}
		if err := x.Validate(&flyio.Access{OrgID: p64(1), Action: resset.ActionRead}); err != nil {
			sb.WriteString("|refused")
		} else {
			sb.WriteString("|cleared")
		}
		return sb.String()
	}
	beforeB, beforeC := view(b, setsB), c.Header()
	var wg sync.WaitGroup
	stop := make(chan struct{})
	changed := int32(0)
	for i := 0; i < 3; i++ {
		wg.Add(1)
		go func() { // readers of b and c, each under its OWN bundle's lock only
			defer wg.Done()
			for {
				select {
				case <-stop:
					return
				default:
					if b.Header() != strings.SplitN(beforeB, "|", 2)[0] || c.Header() != beforeC {
						atomic.StoreInt32(&changed, 1)
					}
					_ = b.Validate(&flyio.Access{OrgID: p64(1), Action: resset.ActionRead})
					_ = c.String()
				}
			}
		}()
	}
	for i := 0; i < 40; i++ {
		a.Attenuate(&macaroon.ValidityWindow{NotBefore: 0, NotAfter: int64(4_000_000_000 + i)})
		if i%8 == 0 {
			a.Verify(ctx, cache)
		}
	}
	close(stop)
	wg.Wait()
	switch {
	case atomic.LoadInt32(&changed) != 0:
		return "wrong-answer(readers of an untouched bundle saw its header change while another bundle was attenuated)"
	case view(b, setsB) != beforeB:
		return "wrong-answer(an independently parsed bundle changed after operations on another one sharing its verification cache)"
	case c.Header() != beforeC:
		return "wrong-answer(a clone changed after operations on its original, both verified through one cache)"
	}
	return "bundles-sharing-a-cache-stay-apart"
}

// the discharge client fetches the discharges of SEVERAL tickets in parallel goroutines and adds each to the bundle
// as it arrives: every ticket gets its own discharge, exactly once, and the result verifies (goroutines that share
// the loop variables all fetch the last ticket; `go.mod` says go 1.20: one variable per loop)
type concTPStub struct {
	ka  macaroon.EncryptionKey
	loc string
}

func (t *concTPStub) RoundTrip(r *http.Request) (*http.Response, error) {
	answer := func(code int, v any) (*http.Response, error) {
		b, _ := json.Marshal(v)
		return &http.Response{StatusCode: code, Header: http.Header{"Content-Type": {"application/json"}}, Body: io.NopCloser(bytes.NewReader(b)), Request: r}, nil
	}
	var req struct {
		Ticket []byte `json:"ticket"`
	}
	body, _ := io.ReadAll(r.Body)
	if json.Unmarshal(body, &req) != nil {
		return answer(400, map[string]string{"error": "bad request"})
	}
	_, dm, err := macaroon.DischargeTicket(t.ka, t.loc, req.Ticket)
	if err != nil {
		return answer(400, map[string]string{"error": "bad ticket"})
	}
	s, _ := dm.String()
	runtime.Gosched()
	return answer(200, map[string]string{"discharge": s})
}

func clientParallelFetchRun(e *concEnv, n int) string {
	ka := macaroon.NewEncryptionKey()
	var toks []string
	tickets := map[string]bool{}
	for i := 0; i < n; i++ {
		m, _ := macaroon.New([]byte("kid"), concLoc, e.key)
		m.Add(&flyio.Organization{ID: uint64(i + 1), Mask: resset.ActionAll})
		if m.Add3P(ka, concTP) != nil {
			return "harness-error"
		}
		tickets[string(macaroon.GetCaveats[*macaroon.Caveat3P](&m.UnsafeCaveats)[0].Ticket)] = true
		s, _ := m.String()
		toks = append(toks, s)
	}
	hdr := "FlyV1 " + strings.Join(toks, ",")
	c := tp.NewClient(concLoc, tp.WithHTTP(&http.Client{Transport: &concTPStub{ka: ka, loc: concTP}}))
	out, err := c.FetchDischargeTokens(context.Background(), hdr)
	if err != nil {
		return "wrong-answer(parallel fetch failed: " + strings.ReplaceAll(err.Error(), " ", "_") + ")"
	}
	b, err := bundle.ParseBundle(concLoc, out)
	if err != nil {
		return "wrong-answer(result does not parse)"
	}
	per := map[string]int{}
	bundle.ForEach(b, func(t bundle.Token) {
		if m, ok := t.(bundle.Macaroon); ok && tickets[string(m.Nonce().KID)] {
			per[string(m.Nonce().KID)]++
		}
	})
	for t := range tickets {
		if per[t] != 1 {
			return fmt.Sprintf("lost-update(a ticket has %d discharges after a parallel fetch of %d tickets; %d tickets have one)", per[t], n, len(per))
		}
	}
	sets, err := b.Verify(context.Background(), bundle.WithKey([]byte("kid"), e.key, nil))
	if err != nil || len(sets) != n {
		return fmt.Sprintf("wrong-answer(%d of %d permission tokens verify after the parallel fetch)", len(sets), n)
	}
	return "parallel-fetch-complete"
}

// readers run concurrently BY DESIGN (read lock): Count / Any with filters that are not Predicates work on a slice of
// their own - concurrent readers never share a scratch buffer, every count is right every time and nothing panics
func concurrentCountRun(e *concEnv, iters int) string {
	b, err := bundle.ParseBundle(concLoc, e.hdr)
	if err != nil {
		return "harness-error"
	}
	want := map[string]int{}
	filters := map[string]func() bundle.Filter{
		"here":      func() bundle.Filter { return bundle.LocationFilter(concLoc) },
		"elsewhere": func() bundle.Filter { return bundle.LocationFilter("https://nowhere.example") },
		"default":   func() bundle.Filter { return bundle.DefaultFilter(bundle.LocationFilter(concLoc).Predicate()) },
	}
	names := []string{"here", "elsewhere", "default"}
	for _, n := range names {
		want[n] = b.Count(filters[n]())
	}
	var wg sync.WaitGroup
	var wrong, panicked int32
	for g := 0; g < 6; g++ {
		wg.Add(1)
		go func(g int) {
			defer wg.Done()
			defer func() {
				if recover() != nil {
					atomic.StoreInt32(&panicked, 1)
				}
			}()
			n := names[g%len(names)]
			for i := 0; i < iters; i++ {
				if b.Count(filters[n]()) != want[n] || b.Any(filters[n]()) != (want[n] > 0) {
					atomic.StoreInt32(&wrong, 1)
				}
			}
		}(g)
	}
	wg.Wait()
	switch {
	case atomic.LoadInt32(&panicked) != 0:
		return "panic(concurrent Count/Any with non-Predicate filters)"
	case atomic.LoadInt32(&wrong) != 0:
		return "wrong-answer(a Count/Any running next to another one returned a wrong result)"
	}
	return "concurrent-counts-right"
}

// a CLONE is an independent bundle with a lock of its own: a callback running under a read operation on the one may
// write to (or read) the other - with a writer to either arriving in between - and every call returns. (A Select
// shares the parent's lock by design; that case is the pairwise matrix's.)
func cloneIndependentRun(e *concEnv, watchdog time.Duration) string {
	orig, err := bundle.ParseBundle(concLoc, e.hdr)
	if err != nil {
		return "harness-error"
	}
	clone := orig.Clone()
	done := make(chan string, 4)
	run := func(name string, f func()) {
		go func() {
			defer func() {
				if recover() != nil {
					done <- "panic(" + name + ")"
					return
				}
				done <- ""
			}()
			f()
		}()
	}
	// 1. iterate over the clone, write to the original from the callback
	run("AddTokens on the original from ForEach over its clone", func() {
		n := 0
		bundle.ForEach(clone, func(t bundle.Token) {
			if n == 0 {
				orig.AddTokens(e.extra)
			}
			n++
		})
	})
	// (one scenario at a time: run together, 1 and 2 would hold the two locks in opposite orders - a deadlock of the
	// TEST's making, which the race build's timing produced in thorough sweep #6)
	select {
	case r := <-done:
		if r != "" {
			return r
		}
	case <-time.After(watchdog):
		return "hang(an operation on a bundle and one on its CLONE wait for each other: they share a lock)"
	}
	// 2. iterate over the original, read the clone from the callback, a writer to the clone in between
	entered, release := make(chan struct{}), make(chan struct{})
	run("Len of the clone from ForEach over the original", func() {
		n := 0
		bundle.ForEach(orig, func(t bundle.Token) {
			if n == 0 {
				close(entered)
				<-release
				_ = clone.Len()
			}
			n++
		})
	})
	run("AddTokens on the clone meanwhile", func() {
		<-entered
		go func() { time.Sleep(20 * time.Millisecond); close(release) }()
		clone.AddTokens(e.extra)
	})
	timeout := time.After(watchdog)
	for i := 0; i < 2; i++ {
		select {
		case r := <-done:
			if r != "" {
				return r
			}
		case <-timeout:
			return "hang(an operation on a bundle and one on its CLONE wait for each other: they share a lock)"
		}
	}
	return "clone-is-independent"
}

func famConc(r *Rng, o *Out, tier string) {
	e := newConcEnv()
	g, iters, wd := 4, 150, 4*time.Second
	if tier == "thorough" {
		g, iters, wd = 8, 600, 10*time.Second
	}
	hunt := map[string]bool{}
	for _, h := range strings.Split(os.Getenv("VERIF_HUNT"), ",") {
		if h != "" {
			hunt[strings.SplitN(h, "#", 2)[0]] = true
		}
	}
	var writers, all []concOp
	for _, op := range concOps {
		all = append(all, op)
		if op.writer {
			writers = append(writers, op)
		}
	}
	sort.Slice(all, func(i, j int) bool { return all[i].name < all[j].name })
	// one FILTER VALUE shared by concurrent readers of a bundle and of a bundle derived from it (readers run
	// concurrently by design): a filter must not carry state between its applications
	o.emit("(const shared-filter)", sharedFilterRun(e, iters))
	o.emit("(const slow-writer)", slowWriterRun(e))
	o.emit("(const panicking-callbacks)", panickingCallbackRun(e))
	o.emit("(const returned-values-stable)", returnedValuesRun(e))
	o.emit("(const bundles-sharing-a-cache-stay-apart)", sharedCacheRun(e))
	o.emit("(const parallel-fetch-complete)", clientParallelFetchRun(e, 8))
	o.emit("(const concurrent-counts-right)", concurrentCountRun(e, 40*iters))
	o.emit("(const clone-is-independent)", cloneIndependentRun(e, wd))
	hangs := 0
	for _, a := range all {
		for _, w := range writers {
			if hangs >= 5 {
				// five pairs already never returned (each costs seven watchdog periods): the verdict is in, stop
				o.emit("(const remaining-pairs-skipped-after-5-hangs)", "remaining-pairs-skipped-after-5-hangs")
				return
			}
			gg, ii, ww := g, iters, wd
			if hunt[a.name] || hunt[w.name] {
				gg, ii, ww = 8, 4000, 6*time.Second // hammer the pair the model flagged
			} else if hunt["*"] {
				gg, ii, ww = 8, 1500, 6*time.Second // the tie is broken: hammer every pair
			}
			fmt.Fprintf(os.Stderr, "conc pair %s x %s\n", a.name, w.name)
			res := runPair(e, a, w, gg, ii, ww)
			if a.name == "Bundle.AddTokens" && w.name == "Bundle.AddTokens" {
				// which of the two first appends (parent's, derived bundle's) lands last is a coin flip: repeat, so
				// that a derived bundle sharing the parent's array is seen
				for k := 0; k < 11 && res == "ok"; k++ {
					res = runPair(e, a, w, gg, ii/3+1, ww)
				}
			}
			o.count("pair")
			o.count("res." + strings.SplitN(res, "(", 2)[0])
			if res == "hang" {
				hangs++
			}
			o.emit(fmt.Sprintf("(conc %s %s)", a.name, w.name), res)
		}
	}
}
