package main

// Family `cache` (C14): a pool of related headers (the same token with and without its discharges,
// attenuated variants, bad signatures, permuted discharge order, duplicates), 2-5 live bundles,
// histories (<= 15 steps) that are run on the Go side TWICE: once with every `verify … cached`
// going through bundle.NewVerificationCache(inner, ttl, size), once with every verification done
// directly on the key resolver.  The observable of a history is the pair of traces, so a
// non-transparent cache is a difference inside the implementation's own output before the model is
// consulted.  Per step: what the call returned, and kinds / Error() / digest of Header() of EVERY
// bundle.  The inner verifier is instrumented: the number of calls per cached verification is an
// observable, and every skipped call must be justified by an earlier success with the identical
// key while the entry was alive (`const justified` lines).  LRU evictions are read off the cache
// after every cached verification and handed to the model as explicit `evict` steps (the model
// allows any eviction at any time).
//
// crypto/rand.Reader is replaced by a seeded stream that is rewound before each step of each of
// the two runs, so that Discharge mints the same tokens in both.

import (
	"bytes"
	"context"
	crand "crypto/rand"
	"fmt"
	"os"
	"reflect"
	"sort"
	"strings"
	"time"
	"unsafe"

	"github.com/superfly/macaroon"
	"github.com/superfly/macaroon/bundle"
	"github.com/superfly/macaroon/flyio"
	"github.com/superfly/macaroon/resset"
)

func init() { families["cache"] = famCache }

// "copy" = the repaired semantics (what the theorems of C14 are about); VERIF_CACHE_SEM=share
// selects the model of the unrepaired code
var cacheSem = envOr("VERIF_CACHE_SEM", "copy")

type detReader struct{ r *Rng }

func (d *detReader) Read(p []byte) (int, error) {
	for i := range p {
		p[i] = byte(d.r.U64())
	}
	return len(p), nil
}

func setRand(seed uint64) { crand.Reader = &detReader{NewRng(seed)} }

func randHookable() bool {
	old := crand.Reader
	defer func() { crand.Reader = old }()
	setRand(42)
	a := macaroon.NewSigningKey()
	setRand(42)
	b := macaroon.NewSigningKey()
	return string(a) == string(b)
}

// keys currently in the LRU (oldest first); the field is unexported and its element type cannot be
// named here, so go through reflection
func lruKeys(vc *bundle.VerificationCache) []string {
	f := reflect.ValueOf(vc).Elem().FieldByName("cache")
	f = reflect.NewAt(f.Type(), unsafe.Pointer(f.UnsafeAddr())).Elem()
	out := f.MethodByName("Keys").Call(nil)
	return out[0].Interface().([]string)
}

// which order the model sorts the candidates in: "kid" = stable by ticket id (the code as it is
// now); VERIF_CACHE_ORDER=text selects the model of the string-sorted key (the code as found)
var cacheOrder = envOr("VERIF_CACHE_ORDER", "kid")

// replica of the cache key: candidates sorted as the cache sorts them, then the permission token
func cacheKey(perm bundle.Macaroon, diss []bundle.Macaroon) string {
	ds := append([]bundle.Macaroon{}, diss...)
	if cacheOrder == "text" {
		sort.SliceStable(ds, func(i, j int) bool { return ds[i].String() < ds[j].String() })
	} else {
		sort.SliceStable(ds, func(i, j int) bool { return bytes.Compare(ds[i].Nonce().KID, ds[j].Nonce().KID) < 0 })
	}
	ss := make([]string, len(ds))
	for i, d := range ds {
		ss[i] = d.String()
	}
	return strings.Join(append(ss, perm.String()), ",")
}

type logVerifier struct {
	kr    bundle.KeyResolver
	calls []string        // keys of this call
	ok    map[string]bool // key -> accepted (this call)
	// consume: delete what was verified from the map handed in, as the remote verifier of the
	// machinesapi package does - a Verifier owns its argument, the cache must not rely on it afterwards
	consume bool
}

func (v *logVerifier) Verify(ctx context.Context, dbp map[bundle.Macaroon][]bundle.Macaroon) map[bundle.Macaroon]bundle.VerificationResult {
	ret := make(map[bundle.Macaroon]bundle.VerificationResult, len(dbp))
	for perm, diss := range dbp {
		k := cacheKey(perm, diss)
		res := v.kr.VerifyOne(ctx, perm, diss)
		v.calls = append(v.calls, k)
		if _, isOK := res.(*bundle.VerifiedMacaroon); isOK {
			v.ok[k] = true
		}
		ret[perm] = res
	}
	if v.consume {
		for perm, res := range ret {
			if _, isOK := res.(*bundle.VerifiedMacaroon); isOK {
				delete(dbp, perm)
			}
		}
	}
	return ret
}

// keys of queries whose candidate list holds two different discharges for one ticket
var twoCandKeys = map[string]bool{}

// the queries a Verify call on b will make (replica of dischargesByPermission, as key strings)
func queryKeys(b *bundle.Bundle) []string {
	ms := macsOf(b)
	seen := map[bundle.Macaroon]bool{}
	var keys []string
	for _, p := range ms {
		if !b.IsPermissionToken(p) || seen[p] {
			continue
		}
		seen[p] = true
		var diss []bundle.Macaroon
		for _, tickets := range p.ThirdPartyTickets() {
			for _, t := range tickets {
				for _, d := range ms {
					if !b.IsPermissionToken(d) && string(d.Nonce().KID) == string(t) {
						diss = append(diss, d)
					}
				}
			}
		}
		k := cacheKey(p, diss)
		byKid := map[string]string{}
		for _, d := range diss {
			if prev, ok := byKid[string(d.Nonce().KID)]; ok && prev != d.String() {
				twoCandKeys[k] = true
			}
			byKid[string(d.Nonce().KID)] = d.String()
		}
		keys = append(keys, k)
	}
	return keys
}

type cStep struct {
	kind string // verify validate attenuate discharge filter header tick
	i    int
	mode string
	accs []macaroon.Access
	cavs []macaroon.Caveat
	tp   tpParty
	ka   []byte
	cb   bCb
	f    bFilter
	sx   string // the op without the discharge randomness
	seed uint64
	nrnd int
	rnds []string
}

// related headers around one token family
func (w *bWorld) relatedHeaders() []string {
	r := w.r
	var hs []string
	// prefer token families with several discharges (several tickets, or two candidates for one)
	big := w.fams[0]
	for _, f := range w.fams {
		if len(f) > len(big) {
			big = f
		}
	}
	for k := 0; k < 2; k++ {
		fam := pick(r, w.fams)
		if k == 0 && r.Chance(2, 3) {
			fam = big
		}
		all := strings.Join(fam, ",")
		hs = append(hs, all, all, fam[0])
		if len(fam) > 2 {
			// re-presentations of the same header with the discharges permuted: across tickets the
			// cache must still hit, within one ticket it must not hand out the other order's result
			for n := 0; n < 3; n++ {
				p := append([]string{}, fam[1:]...)
				for i := len(p) - 1; i > 0; i-- {
					j := r.Intn(i + 1)
					p[i], p[j] = p[j], p[i]
				}
				if r.Bool() {
					hs = append(hs, fam[0]+","+strings.Join(p, ","))
				} else {
					hs = append(hs, strings.Join(p, ",")+","+fam[0])
				}
				w.o.count("hdr.permuted")
			}
		}
		if len(fam) > 1 {
			hs = append(hs, strings.Join(fam[:len(fam)-1], ","))
		}
		hs = append(hs, all+","+all) // duplicates
	}
	for k := 0; k < 2; k++ {
		hs = append(hs, w.header(1, 5))
	}
	return hs
}

// wideHeaders: ONE permission token with 7-10 third-party caveats (distinct locations) and two
// acceptable discharges with different caveats for each ticket, i.e. 14-20 candidates for one
// permission token — beyond the size (12) up to which Go's slices.SortFunc is an insertion sort and
// therefore stable, so that an unstable sort by key-id shows as well.  The same token set is
// presented in several random orders (same-ticket and cross-ticket permutations).
func (w *bWorld) wideHeaders() []string {
	r := w.r
	kid := w.kids[0]
	m, err := macaroon.New(kid, w.permLoc, w.keys[string(kid)])
	if err != nil {
		panic(err)
	}
	m.Add(&flyio.Organization{ID: 1, Mask: resset.ActionAll})
	n := 7 + r.Intn(4)
	var dis []string
	for i := 0; i < n; i++ {
		loc := fmt.Sprintf("https://tp%d.wide.example", i)
		ka := r.Bytes(32)
		if r.Bool() {
			w.trusted[loc] = []macaroon.EncryptionKey{ka}
		}
		it, err := newTP(ka, loc)
		if err != nil {
			panic(err)
		}
		if err := m.Add(it.cav); err != nil {
			panic(err)
		}
		for k := 0; k < 2; k++ {
			_, dm, err := macaroon.DischargeTicket(ka, loc, it.tp.ticket)
			if err != nil {
				panic(err)
			}
			// the two candidates for a ticket impose different caveats
			if k == 0 {
				dm.Add(&flyio.Apps{Apps: resset.ResourceSet[uint64, resset.Action]{uint64(i + 1): resset.ActionAll}})
			} else {
				ro := resset.ActionRead
				dm.Add(&ro, &flyio.Organization{ID: uint64(i + 1), Mask: resset.ActionRead})
			}
			dis = append(dis, b64tok(w.label(), mustEnc(dm)))
		}
	}
	perm := b64tok("fm2", mustEnc(m))
	w.o.count(fmt.Sprintf("wide.candidates.%d", len(dis)))
	var hs []string
	for v := 0; v < 6; v++ {
		p := append([]string{}, dis...)
		for i := len(p) - 1; i > 0; i-- {
			j := r.Intn(i + 1)
			p[i], p[j] = p[j], p[i]
		}
		if v == 5 { // one candidate missing
			p = p[1:]
		}
		k := r.Intn(len(p) + 1)
		all := append(append(append([]string{}, p[:k]...), perm), p[k:]...)
		hs = append(hs, strings.Join(all, ","))
	}
	hs = append(hs, hs[0], hs[1]) // verbatim re-presentations as well
	return hs
}

// two discharges with the same key-id but different text in one header: the situation in which the
// key resolver's answer depends on the ORDER of the candidates
func twoCandidates(permLoc string, hdrs []string) bool {
	for _, h := range hdrs {
		b, _ := bundle.ParseBundleWithFilter(permLoc, h, bundle.KeepAll)
		byKid := map[string]string{}
		found := false
		bundle.ForEach(b, func(m bundle.Macaroon) {
			if m.Location() == permLoc {
				return
			}
			k := string(m.Nonce().KID)
			if prev, ok := byKid[k]; ok && prev != m.String() {
				found = true
			}
			byKid[k] = m.String()
		})
		if found {
			return true
		}
	}
	return false
}

func (w *bWorld) cacheEpisode(hookable bool, probe bool) {
	r, o := w.r, w.o
	ctx := context.Background()
	ttlName := pick(r, []string{"1h", "1h", "1h", "1h", "0", "-1s"})
	ttl, ttlTicks := time.Hour, int64(1_000_000_000)
	switch ttlName {
	case "0":
		ttl, ttlTicks = 0, 0
	case "-1s":
		ttl, ttlTicks = -time.Second, -1000
	}
	size := pick(r, []int{1, 2, 100, 100})
	o.count("ttl." + ttlName)
	o.count(fmt.Sprintf("size.%d", size))

	related := w.relatedHeaders()
	wide := !probe && r.Chance(1, 12)
	if wide { // 14-20 candidate discharges for one permission token
		related = w.wideHeaders()
		o.count("hist.wide")
	}
	nb := 2 + r.Intn(4)
	hdrs := make([]string, nb)
	for i := range hdrs {
		hdrs[i] = pick(r, related)
	}
	if probe { // F7: the same accepted token in two bundles, through one long-lived cache
		ttlName, ttl, ttlTicks, size, nb = "1h", time.Hour, int64(1_000_000_000), 100, 2
		pm, err := macaroon.New(w.kids[0], w.permLoc, w.keys[string(w.kids[0])])
		if err != nil {
			panic(err)
		}
		pm.Add(&flyio.Organization{ID: 1, Mask: resset.ActionAll})
		pe := b64tok("fm2", mustEnc(pm))
		hdrs = []string{pe, pe}
		o.count("probe.f7")
	}
	o.count(fmt.Sprintf("bundles.%d", nb))

	// the history
	n := 3 + r.Intn(13)
	steps := make([]*cStep, 0, n)
	for s := 0; s < n; s++ {
		st := &cStep{i: r.Intn(nb), seed: r.U64()}
		switch k := r.Intn(20); {
		case k < 8:
			st.kind, st.mode = "verify", "cached"
			if r.Chance(1, 6) {
				st.mode = "direct"
			}
			st.sx = fmt.Sprintf("(verify %d %s)", st.i, st.mode)
		case k < 11:
			st.kind = "validate"
			var sx string
			st.accs, sx = w.reqs()
			if sx != "" {
				sx = " " + sx
			}
			st.sx = fmt.Sprintf("(validate %d%s)", st.i, sx)
		case k < 14:
			st.kind = "attenuate"
			st.cavs = []macaroon.Caveat{w.cav()}
			if r.Chance(1, 4) {
				st.cavs = append(st.cavs, w.cav())
			}
			items := make([]string, len(st.cavs))
			for j, c := range st.cavs {
				items[j] = "(c " + sxCav(c) + ")"
			}
			st.sx = fmt.Sprintf("(attenuate %d %s)", st.i, strings.Join(items, " "))
		case k < 15 && hookable:
			st.kind = "discharge"
			st.tp = pick(r, w.tps)
			st.ka = st.tp.ka
			st.cb = w.genCb()
			st.sx = fmt.Sprintf("(discharge %d %s %s %s", st.i, hs(st.tp.loc), hx(st.ka), st.cb.sx)
		case k < 16:
			st.kind = "filter"
			st.f = w.genFilter(1)
			st.sx = fmt.Sprintf("(filter %d %s)", st.i, st.f.sx)
		case k < 19:
			st.kind = "header"
			st.sx = fmt.Sprintf("(header %d)", st.i)
		default:
			st.kind = "tick"
			st.sx = "tick"
		}
		o.count("op." + st.kind + st.mode)
		steps = append(steps, st)
	}
	if probe {
		ro := resset.ActionRead
		acc, sx := w.reqs()
		steps = []*cStep{
			{kind: "verify", mode: "cached", i: 0, sx: "(verify 0 cached)"},
			{kind: "verify", mode: "cached", i: 1, sx: "(verify 1 cached)"},
			{kind: "attenuate", i: 0, cavs: []macaroon.Caveat{&ro}, sx: "(attenuate 0 (c " + sxCav(&ro) + "))"},
			{kind: "header", i: 1, sx: "(header 1)"},
			{kind: "validate", i: 1, accs: acc, sx: "(validate 1 " + sx + ")"},
		}
	}

	type world struct {
		bs     []*bundle.Bundle
		cached bool
	}
	mk := func(cached bool) *world {
		wd := &world{cached: cached}
		for _, h := range hdrs {
			b, _ := bundle.ParseBundle(w.permLoc, h)
			wd.bs = append(wd.bs, b)
		}
		return wd
	}
	inner := &logVerifier{kr: w.resolver(), ok: map[string]bool{}, consume: w.r.Chance(1, 3)}
	if inner.consume {
		w.o.count("inner.consumesItsArgument")
	}
	vc := bundle.NewVerificationCache(inner, ttl, size)
	mirror := map[string]bool{}   // keys the model's store holds
	successAt := map[string]int{} // key -> step of the last accepted inner call (or insertion)
	var justify []string

	// one step on one world; returns the output token
	apply := func(wd *world, st *cStep, stepNo int) (string, []string) {
		b := wd.bs[st.i]
		extra := ""
		var evicts []string
		var out string
		setRand(st.seed)
		switch st.kind {
		case "verify":
			if st.mode == "cached" && wd.cached {
				want := queryKeys(b)
				inner.calls, inner.ok = nil, map[string]bool{}
				cs, err := b.Verify(ctx, vc)
				out = setsStr(cs, err)
				extra = fmt.Sprintf("~calls=%d", len(inner.calls))
				// every skipped query must be justified
				called := map[string]bool{}
				for _, k := range inner.calls {
					called[k] = true
				}
				for _, k := range want {
					if called[k] {
						continue
					}
					o.count("cache.hit")
					if twoCandKeys[k] {
						o.count("cache.hit.twoCandidatesForOneTicket")
					}
					if at, ok := successAt[k]; !ok || !(ttlTicks > 0) || !mirror[k] {
						justify = append(justify, fmt.Sprintf("unjustified:step%d:prev%d", stepNo, at))
					}
				}
				for _, k := range inner.calls {
					o.count("cache.miss")
					if twoCandKeys[k] {
						o.count("cache.miss.twoCandidatesForOneTicket")
					}
					if inner.ok[k] {
						mirror[k] = true
						successAt[k] = stepNo
					}
				}
				actual := map[string]bool{}
				for _, k := range lruKeys(vc) {
					actual[k] = true
					if !mirror[k] {
						justify = append(justify, "lru-holds-unknown-key")
					}
				}
				var gone []string
				for k := range mirror {
					if !actual[k] {
						gone = append(gone, k)
					}
				}
				sort.Strings(gone)
				for _, k := range gone {
					delete(mirror, k)
					evicts = append(evicts, hash8(k))
					o.count("cache.evict")
				}
			} else {
				cs, err := b.Verify(ctx, w.resolver())
				out = setsStr(cs, err)
			}
		case "validate":
			out = flagStr(b.Validate(st.accs...))
		case "attenuate":
			out = flagStr(b.Attenuate(st.cavs...))
		case "discharge":
			before := b.Len()
			err := b.Discharge(st.tp.loc, st.ka, st.cb.f)
			out = flagStr(err)
			if err == nil && wd.cached {
				ms := bundle.Map(b, func(t bundle.Token) bundle.Token { return t })
				for _, t := range ms[before:] {
					st.rnds = append(st.rnds, hx(t.(bundle.Macaroon).Nonce().Rnd))
				}
			}
		case "filter":
			b.Filter(st.f.mk(b))
			out = "-"
		case "header":
			out = hs(b.Header())
		default:
			out = "-"
		}
		return out + "~" + statesStr(wd.bs) + extra, evicts
	}

	res := guard(func() string {
		wc, wd := mk(true), mk(false)
		var opsSx, outC, outD []string
		now := 0
		for sn, st := range steps {
			oc, evicts := apply(wc, st, sn)
			od, _ := apply(wd, st, sn)
			sx := st.sx
			if st.kind == "discharge" {
				if len(st.rnds) > 0 {
					sx += " " + strings.Join(st.rnds, " ")
				}
				sx += ")"
			}
			now++
			opsSx = append(opsSx, fmt.Sprintf("(%d %s)", now, sx))
			outC = append(outC, oc)
			outD = append(outD, od)
			for _, e := range evicts {
				now++
				opsSx = append(opsSx, fmt.Sprintf("(%d (evict %s))", now, e))
				outC = append(outC, "-~"+statesStr(wc.bs))
				outD = append(outD, "-~"+statesStr(wd.bs))
			}
		}
		hx := make([]string, len(hdrs))
		for i, h := range hdrs {
			hx[i] = hs(h)
		}
		op := fmt.Sprintf("(cache.run (sem %s) (order %s) (scope %s) %s %s %s (ttl %d) (hdrs %s) %s)", cacheSem, cacheOrder, bundleScope, w.sxKeys(), sxTrust(w.trusted),
			hs(w.permLoc), ttlTicks, strings.Join(hx, " "), strings.Join(opsSx, " "))
		c, d := strings.Join(outC, " | "), strings.Join(outD, " | ")
		verdict := "transparent"
		if twoCandidates(w.permLoc, hdrs) {
			o.count("hist.twoCandidates")
		}
		if stripCalls(c) == d {
			o.count("go.transparent")
		} else if twoCandidates(w.permLoc, hdrs) {
			o.count("go.NOT-transparent.candidate-order")
			verdict = "not-transparent:candidate-order"
		} else {
			o.count("go.NOT-transparent.other")
			verdict = "not-transparent"
		}
		o.emit(op, c+" # "+d)
		// the implementation's own verdict on this history: cached run against direct run
		o.emit("(const transparent)", verdict)
		return ""
	})
	if res != "" {
		o.emit("(const cache-episode)", res)
	}
	j := "justified"
	if len(justify) > 0 {
		j = justify[0]
	}
	o.emit("(const justified)", j)
}

// timedEpisode: the expiry of an entry in REAL time.  ttl = 300 ms; two bundles hold the same accepted
// token; cached verifications at about 0 / 200 / 400 (/ 600) ms: miss (entry expires at 300), hit, and
// at 400 the entry must be gone although it was hit at 200 — a hit does not extend an entry's life —
// so the inner verifier is called again (and at 600 the entry made at 400 is hit).  In some episodes
// the issuer retires the key between the 2nd and 3rd call: the 3rd call, a miss, must fail like direct
// verification does.  The model is given the MEASURED times (ms since the start of the episode, read
// right before each call).  An episode in which any call comes within 60 ms of an expiry boundary, or
// in which a call itself takes more than 30 ms, is dropped and counted: no emitted line depends on a
// race with the clock.  Returns false when dropped.
func (w *bWorld) timedEpisode(four, rekey bool) bool {
	r, o := w.r, w.o
	ctx := context.Background()
	const ttlMs = 300
	kid := w.kids[0]
	pm, err := macaroon.New(kid, w.permLoc, w.keys[string(kid)])
	if err != nil {
		panic(err)
	}
	pm.Add(&flyio.Organization{ID: 1, Mask: resset.ActionAll})
	pe := b64tok("fm2", mustEnc(pm))
	hdrs := []string{pe, pe}
	targets := []int64{0, 200, 400}
	if four {
		targets = append(targets, 600)
	}
	kmOf := func() map[string]macaroon.SigningKey {
		km := map[string]macaroon.SigningKey{}
		for k, v := range w.keys {
			km[k] = v
		}
		return km
	}
	sxKm := func(km map[string]macaroon.SigningKey) string {
		ks := make([]string, 0, len(km))
		for k := range km {
			ks = append(ks, k)
		}
		sort.Strings(ks)
		p := []string{"keys"}
		for _, k := range ks {
			p = append(p, fmt.Sprintf("(%s %s)", hs(k), hx(km[k])))
		}
		return "(" + strings.Join(p, " ") + ")"
	}
	d := r.Dyn()
	d.WF, d.NowSec, d.NowNsec, d.Org, d.Action = "", baseNow, 0, p64(1), resset.ActionRead
	acc, accSx := d.As("org"), d.Sx("org")

	type world struct {
		bs []*bundle.Bundle
		km map[string]macaroon.SigningKey
	}
	mk := func() *world {
		wd := &world{km: kmOf()}
		for _, h := range hdrs {
			b, _ := bundle.ParseBundle(w.permLoc, h)
			wd.bs = append(wd.bs, b)
		}
		return wd
	}
	wc, wd := mk(), mk()
	inner := &logVerifier{kr: bundle.WithKeys(wc.km, w.trusted), ok: map[string]bool{}}
	vc := bundle.NewVerificationCache(inner, ttlMs*time.Millisecond, 100)
	direct := bundle.WithKeys(wd.km, w.trusted)

	var opsSx, outC, outD []string
	var times []int64
	start := time.Now()
	ms := func() int64 { return time.Since(start).Milliseconds() }
	stalled := false
	for k, target := range targets {
		if rekey && k == 2 { // the key is retired between the 2nd and the 3rd call
			delete(wc.km, string(kid))
			delete(wd.km, string(kid))
			now := ms()
			opsSx = append(opsSx, fmt.Sprintf("(%d (rekey %s))", now, sxKm(wc.km)))
			outC = append(outC, "-~"+statesStr(wc.bs))
			outD = append(outD, "-~"+statesStr(wd.bs))
		}
		if dt := target - ms(); dt > 0 {
			time.Sleep(time.Duration(dt) * time.Millisecond)
		}
		i := k % 2
		now := ms()
		inner.calls, inner.ok = nil, map[string]bool{}
		cs, err := wc.bs[i].Verify(ctx, vc)
		if ms()-now > 30 {
			stalled = true
		}
		times = append(times, now)
		opsSx = append(opsSx, fmt.Sprintf("(%d (verify %d cached))", now, i))
		outC = append(outC, setsStr(cs, err)+"~"+statesStr(wc.bs)+fmt.Sprintf("~calls=%d", len(inner.calls)))
		cs, err = wd.bs[i].Verify(ctx, direct)
		outD = append(outD, setsStr(cs, err)+"~"+statesStr(wd.bs))
		opsSx = append(opsSx, fmt.Sprintf("(%d (validate %d %s))", now, i, accSx))
		outC = append(outC, flagStr(wc.bs[i].Validate(acc))+"~"+statesStr(wc.bs))
		outD = append(outD, flagStr(wd.bs[i].Validate(acc))+"~"+statesStr(wd.bs))
	}
	// never emit a line whose expected value depends on a race with the clock
	for j, tj := range times {
		for _, tk := range times[j+1:] {
			if d := tk - (tj + ttlMs); d > -60 && d < 60 {
				stalled = true
			}
		}
	}
	if stalled {
		o.count("timed.dropped")
		return false
	}
	o.count(fmt.Sprintf("timed.calls%d.rekey%v", len(targets), rekey))
	hxs := make([]string, len(hdrs))
	for i, h := range hdrs {
		hxs[i] = hs(h)
	}
	op := fmt.Sprintf("(cache.run (sem %s) (order %s) (scope %s) %s %s %s (ttl %d) (hdrs %s) %s)", cacheSem, cacheOrder, bundleScope, w.sxKeys(),
		sxTrust(w.trusted), hs(w.permLoc), ttlMs, strings.Join(hxs, " "), strings.Join(opsSx, " "))
	c, dd := strings.Join(outC, " | "), strings.Join(outD, " | ")
	verdict := "transparent"
	if stripCalls(c) != dd {
		verdict = "not-transparent:timed"
		o.count("go.NOT-transparent.timed")
	} else {
		o.count("go.transparent")
	}
	o.emit(op, c+" # "+dd)
	o.emit("(const transparent)", verdict)
	return true
}

// sameNonceEpisode: several permission tokens with the SAME nonce in one header — the token, an
// attenuated variant (a holder added a caveat), a variant with a third-party caveat and its
// discharge, and a copy with a corrupted tail — all uncached when the header is first verified
// through a fresh cache; then each of them alone, and pairs, through the same cache.  Every one must
// get its own result (the attenuation must not be lost, the corrupted copy must stay rejected),
// exactly as with direct verification.
func (w *bWorld) sameNonceEpisode() {
	r, o := w.r, w.o
	ctx := context.Background()
	kid := w.kids[0]
	key := w.keys[string(kid)]
	pm, err := macaroon.New(kid, w.permLoc, key)
	if err != nil {
		panic(err)
	}
	pm.Add(&flyio.Organization{ID: 1, Mask: resset.ActionAll})
	raw := mustEnc(pm)
	tok := func(b []byte) string { return b64tok(w.label(), b) }
	P := tok(raw)
	// attenuated by a holder
	m1, _ := macaroon.Decode(raw)
	ro := resset.ActionRead
	m1.Add(&ro)
	P1 := tok(mustEnc(m1))
	// attenuated with a third-party caveat, discharged
	m2, _ := macaroon.Decode(raw)
	m2.Add(&flyio.Organization{ID: 1, Mask: resset.ActionRead | resset.ActionWrite})
	tp := w.tps[0]
	it, err := newTP(tp.ka, tp.loc)
	if err != nil {
		panic(err)
	}
	if err := m2.Add(it.cav); err != nil {
		panic(err)
	}
	_, dm, err := macaroon.DischargeTicket(tp.ka, tp.loc, it.tp.ticket)
	if err != nil {
		panic(err)
	}
	dm.Add(&flyio.Apps{Apps: resset.ResourceSet[uint64, resset.Action]{7: resset.ActionAll}})
	P2, D2 := tok(mustEnc(m2)), tok(mustEnc(dm))
	// corrupted tail
	mb, _ := macaroon.Decode(raw)
	mb.Tail[r.Intn(len(mb.Tail))] ^= 1 << uint(r.Intn(8))
	Pbad := tok(mustEnc(mb))
	var m3s string // sometimes a second holder-attenuated variant
	first := []string{P, P1, P2, D2, Pbad}
	if r.Bool() {
		m3, _ := macaroon.Decode(raw)
		m3.Add(&flyio.Apps{Apps: resset.ResourceSet[uint64, resset.Action]{1: resset.ActionRead}})
		m3s = tok(mustEnc(m3))
		first = append(first, m3s)
	}
	for i := len(first) - 1; i > 0; i-- {
		j := r.Intn(i + 1)
		first[i], first[j] = first[j], first[i]
	}
	hdrs := []string{strings.Join(first, ","), P, P1, P2 + "," + D2, Pbad, P1 + "," + Pbad, D2 + "," + P + "," + P2}
	if m3s != "" {
		hdrs = append(hdrs, m3s, m3s+","+P1)
	}
	mk := func() []*bundle.Bundle {
		var bs []*bundle.Bundle
		for _, h := range hdrs {
			b, _ := bundle.ParseBundle(w.permLoc, h)
			bs = append(bs, b)
		}
		return bs
	}
	bc, bd := mk(), mk()
	inner := &logVerifier{kr: w.resolver(), ok: map[string]bool{}}
	vc := bundle.NewVerificationCache(inner, time.Hour, 100)
	mkReq := func(act resset.Action) (macaroon.Access, string) {
		d := r.Dyn()
		d.WF, d.NowSec, d.NowNsec, d.Org, d.Action = "", baseNow, 0, p64(1), act
		return d.As("org"), d.Sx("org")
	}
	wAcc, wSx := mkReq(resset.ActionWrite)
	rAcc, rSx := mkReq(resset.ActionRead)
	var opsSx, outC, outD []string
	now := 0
	emitStep := func(sx, c, d string) {
		now++
		opsSx = append(opsSx, fmt.Sprintf("(%d %s)", now, sx))
		outC = append(outC, c)
		outD = append(outD, d)
	}
	visit := func(i int) {
		inner.calls, inner.ok = nil, map[string]bool{}
		cs, err := bc[i].Verify(ctx, vc)
		c := setsStr(cs, err) + "~" + statesStr(bc) + fmt.Sprintf("~calls=%d", len(inner.calls))
		cs, err = bd[i].Verify(ctx, w.resolver())
		emitStep(fmt.Sprintf("(verify %d cached)", i), c, setsStr(cs, err)+"~"+statesStr(bd))
		emitStep(fmt.Sprintf("(validate %d %s)", i, wSx), flagStr(bc[i].Validate(wAcc))+"~"+statesStr(bc), flagStr(bd[i].Validate(wAcc))+"~"+statesStr(bd))
		emitStep(fmt.Sprintf("(validate %d %s)", i, rSx), flagStr(bc[i].Validate(rAcc))+"~"+statesStr(bc), flagStr(bd[i].Validate(rAcc))+"~"+statesStr(bd))
	}
	visit(0) // everything misses in ONE call
	order := make([]int, 0, len(hdrs)-1)
	for i := 1; i < len(hdrs); i++ {
		order = append(order, i)
	}
	for i := len(order) - 1; i > 0; i-- {
		j := r.Intn(i + 1)
		order[i], order[j] = order[j], order[i]
	}
	for _, i := range order {
		visit(i)
	}
	o.count(fmt.Sprintf("sameNonce.tokens.%d", len(first)-1))
	hxs := make([]string, len(hdrs))
	for i, h := range hdrs {
		hxs[i] = hs(h)
	}
	op := fmt.Sprintf("(cache.run (sem %s) (order %s) (scope %s) %s %s %s (ttl %d) (hdrs %s) %s)", cacheSem, cacheOrder, bundleScope, w.sxKeys(),
		sxTrust(w.trusted), hs(w.permLoc), int64(1_000_000_000), strings.Join(hxs, " "), strings.Join(opsSx, " "))
	c, d := strings.Join(outC, " | "), strings.Join(outD, " | ")
	verdict := "transparent"
	if stripCalls(c) != d {
		verdict = "not-transparent:same-nonce"
		o.count("go.NOT-transparent.same-nonce")
	} else {
		o.count("go.transparent")
	}
	o.emit(op, c+" # "+d)
	o.emit("(const transparent)", verdict)
}

func stripCalls(s string) string {
	parts := strings.Split(s, " | ")
	for i, p := range parts {
		if k := strings.Index(p, "~calls="); k >= 0 {
			parts[i] = p[:k]
		}
	}
	return strings.Join(parts, " | ")
}

func famCache(r *Rng, o *Out, tier string) {
	old := crand.Reader
	defer func() { crand.Reader = old }()
	hookable := randHookable()
	if !hookable {
		o.count("rand.not-hookable")
		fmt.Fprintln(os.Stderr, "cache family: crypto/rand.Reader cannot be replaced; discharge steps are left out")
	}
	n := 120
	if tier == "thorough" {
		n = 2000
	}
	for e := 0; e < n; e++ {
		crand.Reader = old
		w := newBWorld(r, o)
		for len(w.perms) == 0 {
			w = newBWorld(r, o)
		}
		for k := 0; k < 3; k++ {
			w.cacheEpisode(hookable, e == 0 && k == 0)
		}
	}
	// same-nonce variants missing together in one call: which entry survives a key collision would
	// depend on map iteration order, so repeat with fresh caches
	crand.Reader = old
	sn := 6
	if tier == "thorough" {
		sn = 20
	}
	for e := 0; e < sn; e++ {
		newBWorld(r, o).sameNonceEpisode()
	}
	// a few episodes in real time (about half a second each)
	crand.Reader = old
	timed := 3
	if tier == "thorough" {
		timed = 10
	}
	for e, tries := 0, 0; e < timed && tries < 2*timed; tries++ {
		w := newBWorld(r, o)
		if w.timedEpisode(e%3 != 0, e%2 == 1) {
			e++
		}
	}

}
