package main

// Family `cache` (C14): a pool of related headers (the same token with and without its discharges,
// attenuated variants, bad signatures, permuted discharge order, duplicates), 2-5 live bundles,
// histories (<= 15 steps) that are run on the Go side TWICE: once with every `verify … cached`
// going through bundle.NewVerificationCache(inner, ttl, size), once with every verification done
// directly on the key resolver.  The observable of a history is the pair of traces, so a
// non-transparent cache is a difference inside the implementation's own output before the model is
// consulted.  Per step: what the call returned, and kinds / Error() / digest of Header() of EVERY
// bundle.  The inner verifier is instrumented: the number of calls per cached verification is an
// observable, and every skipped call must be justified by an earlier success with the identical
// key while the entry was alive (`const justified` lines).  LRU evictions are read off the cache
// after every cached verification and handed to the model as explicit `evict` steps (the model
// allows any eviction at any time).
//
// crypto/rand.Reader is replaced by a seeded stream that is rewound before each step of each of
// the two runs, so that Discharge mints the same tokens in both.
//
// Generator audit (round 18), what the pools now range over:
//   * worlds: a third come from newCacheWorld — key-ids of 0/1/8/16/300 bytes, issuer locations
//     with an upper-case host / URL path / trailing slash / the empty location, third-party
//     locations that differ from each other only in case, a trailing slash, a path + query, or
//     are empty;
//   * cache: sizes 1/2/3/5/100/2^20, ttl 1h / 0 / -1s / the largest Duration; 1-8 live bundles;
//   * headers: besides the old pool, the attenuated and the bad-signature variant of a token WITH
//     the token's discharges, the token and its attenuated variant sharing the discharges, two
//     families in one header, the discharges alone, re-presentations with a scheme prefix and
//     white space (same keys), the same bytes under other labels (other keys), junk in between;
//     a later bundle re-presents an earlier bundle's header with probability 1/3;
//   * steps: Attenuate with no caveats / with a caveat a token already carries / with a list Add
//     refuses (all or nothing) / with a fresh third-party caveat followed by verify, discharge,
//     verify; a key added to the issuer's key map in mid-history (an earlier failure must not stick);
//   * inner verifier: consumes its argument map (1/3), scrambles the candidate slices it was handed (1/4);
//   * timed episodes: also two keys with different expiry times, one hit and one miss in one call;
//   * extEpisode — operations OUTSIDE the modelled history alphabet (AddTokens, Clone, Select, the
//     caller overwriting the caveat sets Verify returned, Purge, a cache in front of a cache): judged by
//     the model-independent oracle alone (`(const transparent)`: cached run against direct run, and
//     `(const justified)`);
//   * concEpisode — schedules: 3-6 goroutines, one bundle each, one shared cache; every bundle's own
//     trace must be what the same steps give sequentially and directly (`(const conc-transparent)`; the
//     per-bundle traces also go to the model as all-direct histories).

import (
	"bytes"
	"context"
	crand "crypto/rand"
	"encoding/json"
	"fmt"
	"math"
	"os"
	"os/exec"
	"reflect"
	"sort"
	"strings"
	"sync"
	"time"
	"unsafe"

	"github.com/superfly/macaroon"
	"github.com/superfly/macaroon/auth"
	"github.com/superfly/macaroon/bundle"
	"github.com/superfly/macaroon/flyio"
	"github.com/superfly/macaroon/resset"
)

func init() {
	families["cache"] = famCache
	families["cache.conc"] = famCacheConc // hidden sub-command: the concurrent episodes, in a process of their own
}

// "copy" = the repaired semantics (what the theorems of C14 are about); VERIF_CACHE_SEM=share
// selects the model of the unrepaired code
var cacheSem = envOr("VERIF_CACHE_SEM", "copy")

type detReader struct{ r *Rng }

func (d *detReader) Read(p []byte) (int, error) {
	for i := range p {
		p[i] = byte(d.r.U64())
	}
	return len(p), nil
}

func setRand(seed uint64) { crand.Reader = &detReader{NewRng(seed)} }

func randHookable() bool {
	old := crand.Reader
	defer func() { crand.Reader = old }()
	setRand(42)
	a := macaroon.NewSigningKey()
	setRand(42)
	b := macaroon.NewSigningKey()
	return string(a) == string(b)
}

// keys currently in the LRU (oldest first); the field is unexported and its element type cannot be
// named here, so go through reflection
func lruKeys(vc *bundle.VerificationCache) []string {
	// found by what it IS (the field whose value offers Keys() []string), not by its name: renaming an unexported
	// field is a harmless change
	sv := reflect.ValueOf(vc).Elem()
	for i := 0; i < sv.NumField(); i++ {
		f := sv.Field(i)
		f = reflect.NewAt(f.Type(), unsafe.Pointer(f.UnsafeAddr())).Elem()
		m := f.MethodByName("Keys")
		if !m.IsValid() || m.Type().NumIn() != 0 || m.Type().NumOut() != 1 || m.Type().Out(0) != reflect.TypeOf([]string(nil)) {
			continue
		}
		if f.Kind() == reflect.Pointer && f.IsNil() {
			continue
		}
		return m.Call(nil)[0].Interface().([]string)
	}
	panic("harness: bundle.VerificationCache has no field offering Keys() []string any more")
}

// which order the model sorts the candidates in: "kid" = stable by ticket id (the code as it is
// now); VERIF_CACHE_ORDER=text selects the model of the string-sorted key (the code as found)
var cacheOrder = envOr("VERIF_CACHE_ORDER", "kid")

// replica of the cache key: candidates sorted as the cache sorts them, then the permission token
func cacheKey(perm bundle.Macaroon, diss []bundle.Macaroon) string {
	ds := append([]bundle.Macaroon{}, diss...)
	if cacheOrder == "text" {
		sort.SliceStable(ds, func(i, j int) bool { return ds[i].String() < ds[j].String() })
	} else {
		sort.SliceStable(ds, func(i, j int) bool { return bytes.Compare(ds[i].Nonce().KID, ds[j].Nonce().KID) < 0 })
	}
	ss := make([]string, len(ds))
	for i, d := range ds {
		ss[i] = d.String()
	}
	return strings.Join(append(ss, perm.String()), ",")
}

type logVerifier struct {
	kr    bundle.KeyResolver
	calls []string        // keys of this call
	ok    map[string]bool // key -> accepted (this call)
	// consume: delete what was verified from the map handed in, as the remote verifier of the
	// machinesapi package does - a Verifier owns its argument, the cache must not rely on it afterwards
	consume bool
	// scramble: reverse, in place, every candidate slice after it was used (same reason: the slices
	// belong to the verifier once they were handed over)
	scramble bool
}

func (v *logVerifier) Verify(ctx context.Context, dbp map[bundle.Macaroon][]bundle.Macaroon) map[bundle.Macaroon]bundle.VerificationResult {
	ret := make(map[bundle.Macaroon]bundle.VerificationResult, len(dbp))
	for perm, diss := range dbp {
		k := cacheKey(perm, diss)
		res := v.kr.VerifyOne(ctx, perm, diss)
		v.calls = append(v.calls, k)
		if _, isOK := res.(*bundle.VerifiedMacaroon); isOK {
			v.ok[k] = true
		}
		ret[perm] = res
	}
	if v.scramble {
		for _, diss := range dbp {
			for i, j := 0, len(diss)-1; i < j; i, j = i+1, j-1 {
				diss[i], diss[j] = diss[j], diss[i]
			}
		}
	}
	if v.consume {
		for perm, res := range ret {
			if _, isOK := res.(*bundle.VerifiedMacaroon); isOK {
				delete(dbp, perm)
			}
		}
	}
	return ret
}

// keys of queries whose candidate list holds two different discharges for one ticket
var twoCandKeys = map[string]bool{}

// the queries a Verify call on b will make (replica of dischargesByPermission, as key strings)
func queryKeys(b *bundle.Bundle) []string {
	ms := macsOf(b)
	seen := map[bundle.Macaroon]bool{}
	var keys []string
	for _, p := range ms {
		if !b.IsPermissionToken(p) || seen[p] {
			continue
		}
		seen[p] = true
		var diss []bundle.Macaroon
		for _, tickets := range p.ThirdPartyTickets() {
			for _, t := range tickets {
				for _, d := range ms {
					if !b.IsPermissionToken(d) && string(d.Nonce().KID) == string(t) {
						diss = append(diss, d)
					}
				}
			}
		}
		k := cacheKey(p, diss)
		byKid := map[string]string{}
		for _, d := range diss {
			if prev, ok := byKid[string(d.Nonce().KID)]; ok && prev != d.String() {
				twoCandKeys[k] = true
			}
			byKid[string(d.Nonce().KID)] = d.String()
		}
		keys = append(keys, k)
	}
	return keys
}

type cStep struct {
	kind string // verify validate attenuate discharge filter header tick rekey | ext: add clone select scribble purge
	i    int
	mode string
	sub  string // attenuate: plain empty dup refused 3p
	accs []macaroon.Access
	cavs []macaroon.Caveat
	tp3  *addItem // attenuate: a fresh third-party caveat, added after cavs
	tp   tpParty
	ka   []byte
	cb   bCb
	f    bFilter
	hdr  string // add
	sx   string // the op without the discharge randomness / the third-party nonce
	seed uint64
	nrnd int
	rnds []string
	n3p  []byte // VerifierKey nonce of the third-party caveat as it came out (cached run)
}

type relHdr struct{ h, kind string }

// the same header as a client might re-send it: scheme prefix, white space around the entries —
// every token text is the same after parsing, so the cache keys are the same
func decorateHdr(r *Rng, h string) string {
	parts := strings.Split(h, ",")
	for i, p := range parts {
		if r.Chance(1, 2) {
			parts[i] = pick(r, []string{" ", "  ", "\t", " \t"}) + p + pick(r, []string{"", " ", "\t"})
		}
	}
	h = strings.Join(parts, ",")
	if !strings.HasPrefix(h, "FlyV1 ") && !strings.HasPrefix(h, "Bearer ") {
		h = pick(r, []string{"FlyV1 ", "Bearer ", "FlyV1  ", ""}) + h
	}
	return h
}

// the same token bytes under another label: another text, hence another cache key
func relabelHdr(r *Rng, h string) string {
	parts := strings.Split(h, ",")
	for i, p := range parts {
		pfx, b64, ok := strings.Cut(p, "_")
		if !ok || (pfx != "fm1r" && pfx != "fm1a" && pfx != "fm2") {
			continue
		}
		others := []string{}
		for _, l := range []string{"fm2", "fm1r", "fm1a"} {
			if l != pfx {
				others = append(others, l)
			}
		}
		parts[i] = pick(r, others) + "_" + b64
	}
	return strings.Join(parts, ",")
}

func shuffled(r *Rng, xs []string) []string {
	p := append([]string{}, xs...)
	for i := len(p) - 1; i > 0; i-- {
		j := r.Intn(i + 1)
		p[i], p[j] = p[j], p[i]
	}
	return p
}

// related headers around one token family
func (w *bWorld) relatedHeaders() []relHdr {
	r := w.r
	var hs []relHdr
	add := func(kind, h string) { hs = append(hs, relHdr{h, kind}) }
	// prefer token families with several discharges (several tickets, or two candidates for one)
	big := w.fams[0]
	for _, f := range w.fams {
		if len(f) > len(big) {
			big = f
		}
	}
	for k := 0; k < 2; k++ {
		fam := pick(r, w.fams)
		if k == 0 && r.Chance(2, 3) {
			fam = big
		}
		all := strings.Join(fam, ",")
		add("all", all)
		add("all", all)
		add("permAlone", fam[0])
		if len(fam) > 2 {
			// re-presentations of the same header with the discharges permuted: across tickets the
			// cache must still hit, within one ticket it must not hand out the other order's result
			for n := 0; n < 3; n++ {
				p := shuffled(r, fam[1:])
				if r.Bool() {
					add("permuted", fam[0]+","+strings.Join(p, ","))
				} else {
					add("permuted", strings.Join(p, ",")+","+fam[0])
				}
				w.o.count("hdr.permuted")
			}
		}
		if len(fam) > 1 {
			add("minusLast", strings.Join(fam[:len(fam)-1], ","))
			add("dischargesAlone", strings.Join(fam[1:], ","))
		}
		add("duplicated", all+","+all) // duplicates
		add("decorated", decorateHdr(r, all))
		add("relabeled", relabelHdr(r, all))
		add("junkBetween", strings.Join(append(append(append([]string{}, fam[:1]...),
			pick(r, []string{"fo1_abc", "hello", "fm2_!!!", "", "fm3_QUJD", "fm2_QUJD="})), fam[1:]...), ","))
		// variants of the token itself (same nonce, same tickets) presented WITH the family's discharges
		if raw, ok := rawOfEntry(fam[0]); ok {
			if m, err := macaroon.Decode(raw); err == nil {
				if err := m.Add(w.cav()); err == nil {
					att := b64tok(w.label(), mustEnc(m))
					add("attenuated+discharges", strings.Join(append([]string{att}, fam[1:]...), ","))
					add("both+discharges", strings.Join(shuffled(r, append([]string{att}, fam...)), ","))
				}
			}
			if m, err := macaroon.Decode(raw); err == nil && len(m.Tail) > 0 {
				m.Tail[r.Intn(len(m.Tail))] ^= 1 << uint(r.Intn(8))
				add("badsig+discharges", strings.Join(append([]string{b64tok(w.label(), mustEnc(m))}, fam[1:]...), ","))
			}
		}
		other := pick(r, w.fams)
		add("twoFamilies", all+","+strings.Join(other, ","))
	}
	for k := 0; k < 2; k++ {
		add("random", w.header(1, 5))
	}
	return hs
}

// wideHeaders: ONE permission token with 7-10 third-party caveats (distinct locations) and two
// acceptable discharges with different caveats for each ticket, i.e. 14-20 candidates for one
// permission token — beyond the size (12) up to which Go's slices.SortFunc is an insertion sort and
// therefore stable, so that an unstable sort by key-id shows as well.  The same token set is
// presented in several random orders (same-ticket and cross-ticket permutations).
func (w *bWorld) wideHeaders() []string {
	r := w.r
	kid := w.kids[0]
	m, err := macaroon.New(kid, w.permLoc, w.keys[string(kid)])
	if err != nil {
		panic(err)
	}
	m.Add(&flyio.Organization{ID: 1, Mask: resset.ActionAll})
	n := 7 + r.Intn(4)
	var dis []string
	for i := 0; i < n; i++ {
		loc := fmt.Sprintf("https://tp%d.wide.example", i)
		ka := r.Bytes(32)
		if r.Bool() {
			w.trusted[loc] = []macaroon.EncryptionKey{ka}
		}
		it, err := newTP(ka, loc)
		if err != nil {
			panic(err)
		}
		if err := m.Add(it.cav); err != nil {
			panic(err)
		}
		for k := 0; k < 2; k++ {
			_, dm, err := macaroon.DischargeTicket(ka, loc, it.tp.ticket)
			if err != nil {
				panic(err)
			}
			// the two candidates for a ticket impose different caveats
			if k == 0 {
				dm.Add(&flyio.Apps{Apps: resset.ResourceSet[uint64, resset.Action]{uint64(i + 1): resset.ActionAll}})
			} else {
				ro := resset.ActionRead
				dm.Add(&ro, &flyio.Organization{ID: uint64(i + 1), Mask: resset.ActionRead})
			}
			dis = append(dis, b64tok(w.label(), mustEnc(dm)))
		}
	}
	perm := b64tok("fm2", mustEnc(m))
	w.o.count(fmt.Sprintf("wide.candidates.%d", len(dis)))
	var hs []string
	for v := 0; v < 6; v++ {
		p := append([]string{}, dis...)
		for i := len(p) - 1; i > 0; i-- {
			j := r.Intn(i + 1)
			p[i], p[j] = p[j], p[i]
		}
		if v == 5 { // one candidate missing
			p = p[1:]
		}
		k := r.Intn(len(p) + 1)
		all := append(append(append([]string{}, p[:k]...), perm), p[k:]...)
		hs = append(hs, strings.Join(all, ","))
	}
	hs = append(hs, hs[0], hs[1]) // verbatim re-presentations as well
	return hs
}

// two discharges with the same key-id but different text in one header: the situation in which the
// key resolver's answer depends on the ORDER of the candidates
func twoCandidates(permLoc string, hdrs []string) bool {
	for _, h := range hdrs {
		b, _ := bundle.ParseBundleWithFilter(permLoc, h, bundle.KeepAll)
		byKid := map[string]string{}
		found := false
		bundle.ForEach(b, func(m bundle.Macaroon) {
			if m.Location() == permLoc {
				return
			}
			k := string(m.Nonce().KID)
			if prev, ok := byKid[k]; ok && prev != m.String() {
				found = true
			}
			byKid[k] = m.String()
		})
		if found {
			return true
		}
	}
	return false
}

// set by famCache in the thorough tier: one history in ten has 16-40 steps
var cacheLongHistories bool

// what a header holds, read at generation time: the number of permission tokens (an upper bound for
// the whole history: nothing turns into a permission token later) and plain caveats they carry
type hdrInfo struct {
	nPerm   int
	carried []macaroon.Caveat
}

func (w *bWorld) infoOf(h string) hdrInfo {
	var hi hdrInfo
	b, _ := bundle.ParseBundle(w.permLoc, h)
	for _, m := range macsOf(b) {
		if !b.IsPermissionToken(m) {
			continue
		}
		hi.nPerm++
		for _, c := range m.UnsafeCaveats().Caveats {
			switch c.(type) {
			case *macaroon.Caveat3P, *macaroon.BindToParentToken:
			default:
				hi.carried = append(hi.carried, c)
			}
		}
	}
	return hi
}

// overwrite the caveat sets a Verify call returned (slice level: replace the first element, then
// append one).  They are the caller's results; doing so must not reach any other bundle.
func scribble(cs []*macaroon.CaveatSet) {
	for _, c := range cs {
		if c == nil {
			continue
		}
		deny := resset.ActionNone
		if len(c.Caveats) > 0 {
			c.Caveats[0] = &deny
		}
		c.Caveats = append(c.Caveats, &flyio.Organization{ID: 99, Mask: resset.ActionRead})
	}
}

// cacheEpisode: one history, run through the cache and directly.  ext = also operations outside the
// modelled alphabet (then no model line is emitted, the two `const` oracles judge alone).
func (w *bWorld) cacheEpisode(hookable bool, probe bool, ext bool) {
	r, o := w.r, w.o
	ctx := context.Background()
	pfx := ""
	if ext {
		pfx = "ext."
		o.count("ext.episodes")
	}
	ttlName := pick(r, []string{"1h", "1h", "1h", "1h", "0", "-1s", "max"})
	ttlOf := func(name string) (time.Duration, int64) {
		switch name {
		case "0":
			return 0, 0
		case "-1s":
			return -time.Second, -1000
		case "max": // 292 years: the expiry lies beyond what fits into int64 nanoseconds since 1970
			return time.Duration(math.MaxInt64), int64(1_000_000_000)
		}
		return time.Hour, int64(1_000_000_000)
	}
	ttl, ttlTicks := ttlOf(ttlName)
	size := pick(r, []int{1, 2, 100, 100, 3, 5, 1 << 20})
	o.count(pfx + "ttl." + ttlName)
	o.count(fmt.Sprintf("%ssize.%d", pfx, size))

	related := w.relatedHeaders()
	wide := !probe && !ext && r.Chance(1, 12)
	if wide { // 14-20 candidate discharges for one permission token
		related = nil
		for _, h := range w.wideHeaders() {
			related = append(related, relHdr{h, "wide"})
		}
		o.count("hist.wide")
	}
	nb := pick(r, []int{1, 2, 2, 3, 3, 3, 4, 4, 4, 5, 5, 5})
	if r.Chance(1, 12) {
		nb = 6 + r.Intn(3)
	}
	hdrs := make([]string, nb)
	for i := range hdrs {
		if i > 0 && r.Chance(1, 3) { // an earlier bundle's header again (same keys)
			hdrs[i] = hdrs[r.Intn(i)]
			kind := "verbatim"
			if r.Bool() {
				hdrs[i] = decorateHdr(r, hdrs[i])
				kind = "decorated"
			}
			o.count(pfx + "hdr.sel.again." + kind)
			continue
		}
		rh := pick(r, related)
		hdrs[i] = rh.h
		o.count(pfx + "hdr.sel." + rh.kind)
	}
	if probe { // F7: the same accepted token in two bundles, through one long-lived cache
		ttlName, ttl, ttlTicks, size, nb = "1h", time.Hour, int64(1_000_000_000), 100, 2
		pm, err := macaroon.New(w.kids[0], w.permLoc, w.keys[string(w.kids[0])])
		if err != nil {
			panic(err)
		}
		pm.Add(&flyio.Organization{ID: 1, Mask: resset.ActionAll})
		pe := b64tok("fm2", mustEnc(pm))
		hdrs = []string{pe, pe}
		o.count("probe.f7")
	}
	o.count(fmt.Sprintf("%sbundles.%d", pfx, nb))
	infos := make([]hdrInfo, nb)
	for i, h := range hdrs {
		infos[i] = w.infoOf(h)
	}

	// the history
	n := 3 + r.Intn(13)
	if cacheLongHistories && !probe && r.Chance(1, 10) { // thorough tier: long histories
		n = 16 + r.Intn(25)
		o.count(pfx + "hist.long")
	}
	steps := make([]*cStep, 0, n)
	push := func(st *cStep) {
		o.count(pfx + "op." + st.kind + st.mode)
		steps = append(steps, st)
	}
	verifyStep := func(i int, mode string) *cStep {
		return &cStep{kind: "verify", mode: mode, i: i, seed: r.U64(), sx: fmt.Sprintf("(verify %d %s)", i, mode)}
	}
	for len(steps) < n {
		st := &cStep{i: r.Intn(nb), seed: r.U64()}
		k := r.Intn(20)
		if ext && r.Chance(1, 4) {
			k = 20 + r.Intn(5)
		}
		switch {
		case k < 8:
			st.kind, st.mode = "verify", "cached"
			if r.Chance(1, 6) {
				st.mode = "direct"
			}
			st.sx = fmt.Sprintf("(verify %d %s)", st.i, st.mode)
		case k < 11:
			st.kind = "validate"
			var sx string
			st.accs, sx = w.reqs()
			if sx != "" {
				sx = " " + sx
			}
			st.sx = fmt.Sprintf("(validate %d%s)", st.i, sx)
		case k < 14:
			st.kind, st.sub = "attenuate", "plain"
			switch q := r.Intn(12); {
			case q == 0: // no caveats at all: the tokens are re-printed, nothing else
				st.sub = "empty"
			case q == 1 && len(infos[st.i].carried) > 0: // a caveat a token of this bundle carries already
				st.sub = "dup"
				st.cavs = []macaroon.Caveat{pick(r, infos[st.i].carried)}
				if r.Bool() {
					st.cavs = append(st.cavs, w.cav())
				}
			case q == 2: // a list Add refuses (attestation on a token that is no proof): nothing may change
				st.sub = "refused"
				a := auth.FlyioUserID(3)
				st.cavs = []macaroon.Caveat{w.cav(), &a}
				if r.Bool() {
					st.cavs[0], st.cavs[1] = st.cavs[1], st.cavs[0]
				}
			case q == 3 && hookable && infos[st.i].nPerm <= 1: // a fresh third-party caveat (its nonce is drawn per token)
				st.sub = "3p"
				p := pick(r, w.tps)
				it, err := newTP(p.ka, p.loc)
				if err != nil {
					panic(err)
				}
				st.tp3, st.tp = &it, p
				if r.Bool() {
					st.cavs = []macaroon.Caveat{w.cav()}
				}
			default:
				st.cavs = []macaroon.Caveat{w.cav()}
				if r.Chance(1, 4) {
					st.cavs = append(st.cavs, w.cav())
					if r.Chance(1, 2) {
						st.cavs = append(st.cavs, w.cav())
					}
				}
			}
			o.count(pfx + "attenuate." + st.sub)
			items := make([]string, len(st.cavs))
			for j, c := range st.cavs {
				items[j] = " (c " + sxCav(c) + ")"
			}
			st.sx = fmt.Sprintf("(attenuate %d%s", st.i, strings.Join(items, "")) // closed when the step has run
		case k < 15 && hookable:
			st.kind = "discharge"
			st.tp = pick(r, w.tps)
			st.ka = st.tp.ka
			st.cb = w.genCb()
			st.sx = fmt.Sprintf("(discharge %d %s %s %s", st.i, hs(st.tp.loc), hx(st.ka), st.cb.sx)
		case k < 16:
			st.kind = "filter"
			st.f = w.genFilter(1)
			st.sx = fmt.Sprintf("(filter %d %s)", st.i, st.f.sx)
		case k < 19:
			st.kind = "header"
			st.sx = fmt.Sprintf("(header %d)", st.i)
		case k < 20:
			st.kind = "tick"
			st.sx = "tick"
		// ---- outside the modelled alphabet (ext only); the bundle index is taken modulo the live bundles ----
		case k == 20:
			st.kind = "add"
			st.i = r.Intn(64)
			fam := pick(r, w.fams)
			switch r.Intn(3) {
			case 0:
				st.hdr = strings.Join(fam[1:], ",") // the discharges of a family (possibly none)
			case 1:
				st.hdr = pick(r, fam)
			default:
				st.hdr = w.header(1, 2)
			}
		case k == 21:
			st.kind = "clone"
			st.i = r.Intn(64)
		case k == 22:
			st.kind = "select"
			st.i = r.Intn(64)
			st.f = w.genFilter(1)
		case k == 23:
			st.kind = "scribble"
		default:
			st.kind = "purge"
		}
		push(st)
		if st.sub == "3p" && r.Bool() { // the interesting continuation: must fail, discharge, must verify
			push(verifyStep(st.i, "cached"))
			cb := w.genCb()
			push(&cStep{kind: "discharge", i: st.i, seed: r.U64(), tp: st.tp, ka: st.tp.ka, cb: cb,
				sx: fmt.Sprintf("(discharge %d %s %s %s", st.i, hs(st.tp.loc), hx(st.tp.ka), cb.sx)})
			push(verifyStep(st.i, "cached"))
		}
	}
	if ext && r.Bool() {
		// what Verify returned belongs to the caller.  X := Clone(b0); verify b0 and X through the cache
		// (X hits what b0 left); the caller overwrites X's sets; a fresh clone Y verifies (must get what
		// direct verification gives); the caller overwrites b0's sets — the ones the entry was made
		// from; a fresh clone Z verifies.  (index -1 = the bundle created last)
		o.count("ext.scribbleProbe")
		for _, t := range []struct {
			kind string
			i    int
		}{{"clone", 0}, {"verify", 0}, {"verify", -1}, {"scribble", -1}, {"clone", 0}, {"verify", -1}, {"validate", -1},
			{"scribble", 0}, {"clone", 0}, {"verify", -1}, {"validate", -1}} {
			st := &cStep{kind: t.kind, i: t.i, seed: r.U64()}
			switch t.kind {
			case "verify":
				st.mode = "cached"
			case "validate":
				st.accs, _ = w.reqs()
			}
			push(st)
		}
	}
	if probe {
		ro := resset.ActionRead
		acc, sx := w.reqs()
		steps = []*cStep{
			{kind: "verify", mode: "cached", i: 0, sx: "(verify 0 cached)"},
			{kind: "verify", mode: "cached", i: 1, sx: "(verify 1 cached)"},
			{kind: "attenuate", sub: "plain", i: 0, cavs: []macaroon.Caveat{&ro}, sx: "(attenuate 0 (c " + sxCav(&ro) + ")"},
			{kind: "header", i: 1, sx: "(header 1)"},
			{kind: "validate", i: 1, accs: acc, sx: "(validate 1 " + sx + ")"},
		}
	}

	// a key of the issuer that is only added in mid-history: what failed before must verify from then
	// on, through the cache as well (a failure is never remembered)
	keysSx0 := w.sxKeys()
	var lateKid []byte
	var lateKey macaroon.SigningKey
	if !probe && r.Chance(1, 8) {
		lateKid = pick(r, w.kids)
		lateKey = w.keys[string(lateKid)]
		full := w.sxKeys()
		delete(w.keys, string(lateKid))
		keysSx0 = w.sxKeys()
		defer func() { w.keys[string(lateKid)] = lateKey }()
		at := r.Intn(len(steps) + 1)
		st := &cStep{kind: "rekey", sx: "(rekey " + full + ")", seed: r.U64()}
		steps = append(steps[:at], append([]*cStep{st}, steps[at:]...)...)
		o.count(pfx + "op.rekey.keyAdded")
	}

	type world struct {
		bs     []*bundle.Bundle
		cached bool
		last   map[*bundle.Bundle][]*macaroon.CaveatSet // what the last Verify of a bundle returned
	}
	mk := func(cached bool) *world {
		wd := &world{cached: cached, last: map[*bundle.Bundle][]*macaroon.CaveatSet{}}
		for _, h := range hdrs {
			b, _ := bundle.ParseBundle(w.permLoc, h)
			wd.bs = append(wd.bs, b)
		}
		return wd
	}
	inner := &logVerifier{kr: w.resolver(), ok: map[string]bool{}, consume: w.r.Chance(1, 3), scramble: w.r.Chance(1, 4)}
	if inner.consume {
		w.o.count(pfx + "inner.consumesItsArgument")
	}
	if inner.scramble {
		w.o.count(pfx + "inner.scramblesTheCandidates")
	}
	vc := bundle.NewVerificationCache(inner, ttl, size)
	caches := []*bundle.VerificationCache{vc}
	if ext && r.Chance(1, 4) { // a cache in front of a cache
		ttl2name := pick(r, []string{"1h", "0", "max"})
		ttl2, ticks2 := ttlOf(ttl2name)
		if ticks2 > ttlTicks {
			ttlTicks = ticks2
		}
		vc2 := bundle.NewVerificationCache(inner, ttl2, pick(r, []int{1, 2, 100}))
		vc = bundle.NewVerificationCache(vc2, ttl, size)
		caches = []*bundle.VerificationCache{vc, vc2}
		o.count("ext.cacheInFrontOfCache.innerTtl." + ttl2name)
	}
	liveKeys := func() []string {
		var ks []string
		for _, c := range caches {
			ks = append(ks, lruKeys(c)...)
		}
		return ks
	}
	mirror := map[string]bool{}   // keys the model's store holds
	successAt := map[string]int{} // key -> step of the last accepted inner call (or insertion)
	var justify []string

	// one step on one world; returns the output token
	apply := func(wd *world, st *cStep, stepNo int) (string, []string) {
		b := wd.bs[len(wd.bs)-1]
		if st.i >= 0 {
			b = wd.bs[st.i%len(wd.bs)]
		}
		extra := ""
		var evicts []string
		var out string
		setRand(st.seed)
		switch st.kind {
		case "verify":
			if st.mode == "cached" && wd.cached {
				want := queryKeys(b)
				inner.calls, inner.ok = nil, map[string]bool{}
				cs, err := b.Verify(ctx, vc)
				wd.last[b] = cs
				out = setsStr(cs, err)
				extra = fmt.Sprintf("~calls=%d", len(inner.calls))
				// every skipped query must be justified
				called := map[string]bool{}
				for _, k := range inner.calls {
					called[k] = true
				}
				for _, k := range want {
					if called[k] {
						continue
					}
					o.count(pfx + "cache.hit")
					if twoCandKeys[k] {
						o.count(pfx + "cache.hit.twoCandidatesForOneTicket")
					}
					if at, ok := successAt[k]; !ok || !(ttlTicks > 0) || !mirror[k] {
						justify = append(justify, fmt.Sprintf("unjustified:step%d:prev%d", stepNo, at))
					}
				}
				for _, k := range inner.calls {
					o.count(pfx + "cache.miss")
					if twoCandKeys[k] {
						o.count(pfx + "cache.miss.twoCandidatesForOneTicket")
					}
					if inner.ok[k] {
						mirror[k] = true
						successAt[k] = stepNo
					}
				}
				actual := map[string]bool{}
				for _, k := range liveKeys() {
					actual[k] = true
					if !mirror[k] {
						justify = append(justify, "lru-holds-unknown-key")
					}
				}
				var gone []string
				for k := range mirror {
					if !actual[k] {
						gone = append(gone, k)
					}
				}
				sort.Strings(gone)
				for _, k := range gone {
					delete(mirror, k)
					evicts = append(evicts, hash8(k))
					o.count(pfx + "cache.evict")
				}
			} else {
				cs, err := b.Verify(ctx, w.resolver())
				wd.last[b] = cs
				out = setsStr(cs, err)
			}
		case "validate":
			out = flagStr(b.Validate(st.accs...))
		case "attenuate":
			cavs := st.cavs
			if st.tp3 != nil {
				cavs = append(append([]macaroon.Caveat{}, cavs...), st.tp3.cav)
			}
			err := b.Attenuate(cavs...)
			out = flagStr(err)
			if st.tp3 != nil && wd.cached {
				st.n3p = make([]byte, 12)
				if err == nil {
					for _, m := range macsOf(b) {
						if !b.IsPermissionToken(m) {
							continue
						}
						for _, c := range m.UnsafeCaveats().Caveats {
							if c3, ok := c.(*macaroon.Caveat3P); ok && string(c3.Ticket) == string(st.tp3.tp.ticket) && len(c3.VerifierKey) >= 12 {
								st.n3p = c3.VerifierKey[:12]
							}
						}
					}
				}
			}
			if wd.cached {
				o.count(pfx + "attenuate." + st.sub + "." + out)
			}
		case "discharge":
			before := b.Len()
			err := b.Discharge(st.tp.loc, st.ka, st.cb.f)
			out = flagStr(err)
			if err == nil && wd.cached {
				ms := bundle.Map(b, func(t bundle.Token) bundle.Token { return t })
				for _, t := range ms[before:] {
					st.rnds = append(st.rnds, hx(t.(bundle.Macaroon).Nonce().Rnd))
				}
			}
		case "filter":
			b.Filter(st.f.mk(b))
			out = "-"
		case "header":
			out = hs(b.Header())
		case "rekey":
			w.keys[string(lateKid)] = lateKey
			out = "-"
		case "add":
			out = flagStr(b.AddTokens(st.hdr))
		case "clone":
			wd.bs = append(wd.bs, b.Clone())
			out = "-"
		case "select":
			wd.bs = append(wd.bs, b.Select(st.f.mk(b)))
			out = "-"
		case "scribble":
			scribble(wd.last[b])
			out = "-"
		case "purge":
			if wd.cached {
				for _, c := range caches {
					c.Purge()
				}
				for k := range mirror {
					delete(mirror, k)
				}
			}
			out = "-"
		default:
			out = "-"
		}
		return out + "~" + statesStr(wd.bs) + extra, evicts
	}

	res := guard(func() string {
		wc, wd := mk(true), mk(false)
		var opsSx, outC, outD []string
		now := 0
		for sn, st := range steps {
			oc, evicts := apply(wc, st, sn)
			od, _ := apply(wd, st, sn)
			sx := st.sx
			switch st.kind {
			case "discharge":
				if len(st.rnds) > 0 {
					sx += " " + strings.Join(st.rnds, " ")
				}
				sx += ")"
			case "attenuate":
				if st.tp3 != nil {
					sx += fmt.Sprintf(" (new3p %s %s %s %s)", hs(st.tp3.tp.loc), hx(st.tp3.tp.ticket), hx(st.tp3.tp.rn), hx(st.n3p))
				}
				sx += ")"
			}
			now++
			opsSx = append(opsSx, fmt.Sprintf("(%d %s)", now, sx))
			outC = append(outC, oc)
			outD = append(outD, od)
			for _, e := range evicts {
				now++
				opsSx = append(opsSx, fmt.Sprintf("(%d (evict %s))", now, e))
				outC = append(outC, "-~"+statesStr(wc.bs))
				outD = append(outD, "-~"+statesStr(wd.bs))
			}
		}
		hx := make([]string, len(hdrs))
		for i, h := range hdrs {
			hx[i] = hs(h)
		}
		op := fmt.Sprintf("(cache.run (sem %s) (order %s) (scope %s) %s %s %s (ttl %d) (hdrs %s) %s)", cacheSem, cacheOrder, bundleScope, keysSx0, sxTrust(w.trusted),
			hs(w.permLoc), ttlTicks, strings.Join(hx, " "), strings.Join(opsSx, " "))
		c, d := strings.Join(outC, " | "), strings.Join(outD, " | ")
		verdict := "transparent"
		if twoCandidates(w.permLoc, hdrs) {
			o.count(pfx + "hist.twoCandidates")
		}
		if stripCalls(c) == d {
			o.count(pfx + "go.transparent")
		} else if twoCandidates(w.permLoc, hdrs) {
			o.count(pfx + "go.NOT-transparent.candidate-order")
			verdict = "not-transparent:candidate-order"
		} else {
			o.count(pfx + "go.NOT-transparent.other")
			verdict = "not-transparent"
		}
		if ext {
			// outside the modelled alphabet: the implementation's own verdict is the oracle
			if verdict != "transparent" && os.Getenv("VERIF_CACHE_DEBUG") != "" {
				fmt.Fprintf(os.Stderr, "ext episode not transparent:\n  cached: %s\n  direct: %s\n", stripCalls(c), d)
				for sn, st := range steps {
					fmt.Fprintf(os.Stderr, "  step %d: %s %s i=%d %s\n", sn, st.kind, st.mode, st.i, st.sx)
				}
			}
		} else {
			o.emit(op, c+" # "+d)
		}
		// the implementation's own verdict on this history: cached run against direct run
		o.emit("(const transparent)", verdict)
		return ""
	})
	if res != "" {
		o.emit("(const cache-episode)", res)
	}
	j := "justified"
	if len(justify) > 0 {
		j = justify[0]
	}
	o.emit("(const justified)", j)
}

// timedEpisode: the expiry of an entry in REAL time.  ttl = 300 ms; two bundles hold the same accepted
// token; cached verifications at about 0 / 200 / 400 (/ 600) ms: miss (entry expires at 300), hit, and
// at 400 the entry must be gone although it was hit at 200 — a hit does not extend an entry's life —
// so the inner verifier is called again (and at 600 the entry made at 400 is hit).  In some episodes
// the issuer retires the key between the 2nd and 3rd call: the 3rd call, a miss, must fail like direct
// verification does.  The model is given the MEASURED times (ms since the start of the episode, read
// right before each call).  An episode in which any call comes within 60 ms of an expiry boundary, or
// in which a call itself takes more than 30 ms, is dropped and counted: no emitted line depends on a
// race with the clock.  Returns false when dropped.
//
// twoKeys: two different tokens P and Q, bundles [P], [Q], [P,Q]; P is cached at 0 (until 300), Q at
// 200 (until 500); at 400 the bundle holding both must get Q from the cache and P from the inner
// verifier (one call), at 600 the other way round: every entry has its OWN expiry.
func (w *bWorld) timedEpisode(four, rekey, twoKeys bool) bool {
	r, o := w.r, w.o
	ctx := context.Background()
	const ttlMs = 300
	kid := w.kids[0]
	pm, err := macaroon.New(kid, w.permLoc, w.keys[string(kid)])
	if err != nil {
		panic(err)
	}
	pm.Add(&flyio.Organization{ID: 1, Mask: resset.ActionAll})
	pe := b64tok("fm2", mustEnc(pm))
	hdrs := []string{pe, pe}
	which := []int{0, 1, 0, 1}
	if twoKeys {
		rekey = false // a retired key would (rightly) leave the live entry of Q usable: not a transparency matter
		qm, err := macaroon.New(kid, w.permLoc, w.keys[string(kid)])
		if err != nil {
			panic(err)
		}
		qm.Add(&flyio.Organization{ID: 1, Mask: resset.ActionRead})
		qe := b64tok("fm2", mustEnc(qm))
		hdrs = []string{pe, qe, pick(r, []string{pe + "," + qe, qe + "," + pe})}
		which = []int{0, 1, 2, 2}
	}
	targets := []int64{0, 200, 400}
	if four {
		targets = append(targets, 600)
	}
	kmOf := func() map[string]macaroon.SigningKey {
		km := map[string]macaroon.SigningKey{}
		for k, v := range w.keys {
			km[k] = v
		}
		return km
	}
	sxKm := func(km map[string]macaroon.SigningKey) string {
		ks := make([]string, 0, len(km))
		for k := range km {
			ks = append(ks, k)
		}
		sort.Strings(ks)
		p := []string{"keys"}
		for _, k := range ks {
			p = append(p, fmt.Sprintf("(%s %s)", hs(k), hx(km[k])))
		}
		return "(" + strings.Join(p, " ") + ")"
	}
	d := r.Dyn()
	d.WF, d.NowSec, d.NowNsec, d.Org, d.Action = "", baseNow, 0, p64(1), resset.ActionRead
	acc, accSx := d.As("org"), d.Sx("org")

	type world struct {
		bs []*bundle.Bundle
		km map[string]macaroon.SigningKey
	}
	mk := func() *world {
		wd := &world{km: kmOf()}
		for _, h := range hdrs {
			b, _ := bundle.ParseBundle(w.permLoc, h)
			wd.bs = append(wd.bs, b)
		}
		return wd
	}
	wc, wd := mk(), mk()
	inner := &logVerifier{kr: bundle.WithKeys(wc.km, w.trusted), ok: map[string]bool{}}
	vc := bundle.NewVerificationCache(inner, ttlMs*time.Millisecond, 100)
	direct := bundle.WithKeys(wd.km, w.trusted)

	var opsSx, outC, outD []string
	var times []int64
	start := time.Now()
	ms := func() int64 { return time.Since(start).Milliseconds() }
	stalled := false
	for k, target := range targets {
		if rekey && k == 2 { // the key is retired between the 2nd and the 3rd call
			delete(wc.km, string(kid))
			delete(wd.km, string(kid))
			now := ms()
			opsSx = append(opsSx, fmt.Sprintf("(%d (rekey %s))", now, sxKm(wc.km)))
			outC = append(outC, "-~"+statesStr(wc.bs))
			outD = append(outD, "-~"+statesStr(wd.bs))
		}
		if dt := target - ms(); dt > 0 {
			time.Sleep(time.Duration(dt) * time.Millisecond)
		}
		i := which[k]
		now := ms()
		inner.calls, inner.ok = nil, map[string]bool{}
		cs, err := wc.bs[i].Verify(ctx, vc)
		if ms()-now > 30 {
			stalled = true
		}
		times = append(times, now)
		opsSx = append(opsSx, fmt.Sprintf("(%d (verify %d cached))", now, i))
		outC = append(outC, setsStr(cs, err)+"~"+statesStr(wc.bs)+fmt.Sprintf("~calls=%d", len(inner.calls)))
		cs, err = wd.bs[i].Verify(ctx, direct)
		outD = append(outD, setsStr(cs, err)+"~"+statesStr(wd.bs))
		opsSx = append(opsSx, fmt.Sprintf("(%d (validate %d %s))", now, i, accSx))
		outC = append(outC, flagStr(wc.bs[i].Validate(acc))+"~"+statesStr(wc.bs))
		outD = append(outD, flagStr(wd.bs[i].Validate(acc))+"~"+statesStr(wd.bs))
	}
	// never emit a line whose expected value depends on a race with the clock
	for j, tj := range times {
		for _, tk := range times[j+1:] {
			if d := tk - (tj + ttlMs); d > -60 && d < 60 {
				stalled = true
			}
		}
	}
	if stalled {
		o.count("timed.dropped")
		return false
	}
	o.count(fmt.Sprintf("timed.calls%d.rekey%v.twoKeys%v", len(targets), rekey, twoKeys))
	hxs := make([]string, len(hdrs))
	for i, h := range hdrs {
		hxs[i] = hs(h)
	}
	op := fmt.Sprintf("(cache.run (sem %s) (order %s) (scope %s) %s %s %s (ttl %d) (hdrs %s) %s)", cacheSem, cacheOrder, bundleScope, w.sxKeys(),
		sxTrust(w.trusted), hs(w.permLoc), ttlMs, strings.Join(hxs, " "), strings.Join(opsSx, " "))
	c, dd := strings.Join(outC, " | "), strings.Join(outD, " | ")
	verdict := "transparent"
	if stripCalls(c) != dd {
		verdict = "not-transparent:timed"
		o.count("go.NOT-transparent.timed")
	} else {
		o.count("go.transparent")
	}
	o.emit(op, c+" # "+dd)
	o.emit("(const transparent)", verdict)
	return true
}

// sameNonceEpisode: several permission tokens with the SAME nonce in one header — the token, an
// attenuated variant (a holder added a caveat), a variant with a third-party caveat and its
// discharge, and a copy with a corrupted tail — all uncached when the header is first verified
// through a fresh cache; then each of them alone, and pairs, through the same cache.  Every one must
// get its own result (the attenuation must not be lost, the corrupted copy must stay rejected),
// exactly as with direct verification.
func (w *bWorld) sameNonceEpisode() {
	r, o := w.r, w.o
	ctx := context.Background()
	kid := w.kids[0]
	key := w.keys[string(kid)]
	pm, err := macaroon.New(kid, w.permLoc, key)
	if err != nil {
		panic(err)
	}
	pm.Add(&flyio.Organization{ID: 1, Mask: resset.ActionAll})
	raw := mustEnc(pm)
	tok := func(b []byte) string { return b64tok(w.label(), b) }
	P := tok(raw)
	// attenuated by a holder
	m1, _ := macaroon.Decode(raw)
	ro := resset.ActionRead
	m1.Add(&ro)
	P1 := tok(mustEnc(m1))
	// attenuated with a third-party caveat, discharged
	m2, _ := macaroon.Decode(raw)
	m2.Add(&flyio.Organization{ID: 1, Mask: resset.ActionRead | resset.ActionWrite})
	tp := w.tps[0]
	it, err := newTP(tp.ka, tp.loc)
	if err != nil {
		panic(err)
	}
	if err := m2.Add(it.cav); err != nil {
		panic(err)
	}
	_, dm, err := macaroon.DischargeTicket(tp.ka, tp.loc, it.tp.ticket)
	if err != nil {
		panic(err)
	}
	dm.Add(&flyio.Apps{Apps: resset.ResourceSet[uint64, resset.Action]{7: resset.ActionAll}})
	P2, D2 := tok(mustEnc(m2)), tok(mustEnc(dm))
	// corrupted tail
	mb, _ := macaroon.Decode(raw)
	mb.Tail[r.Intn(len(mb.Tail))] ^= 1 << uint(r.Intn(8))
	Pbad := tok(mustEnc(mb))
	var m3s string // sometimes a second holder-attenuated variant
	first := []string{P, P1, P2, D2, Pbad}
	if r.Bool() {
		m3, _ := macaroon.Decode(raw)
		m3.Add(&flyio.Apps{Apps: resset.ResourceSet[uint64, resset.Action]{1: resset.ActionRead}})
		m3s = tok(mustEnc(m3))
		first = append(first, m3s)
	}
	for i := len(first) - 1; i > 0; i-- {
		j := r.Intn(i + 1)
		first[i], first[j] = first[j], first[i]
	}
	hdrs := []string{strings.Join(first, ","), P, P1, P2 + "," + D2, Pbad, P1 + "," + Pbad, D2 + "," + P + "," + P2}
	if m3s != "" {
		hdrs = append(hdrs, m3s, m3s+","+P1)
	}
	mk := func() []*bundle.Bundle {
		var bs []*bundle.Bundle
		for _, h := range hdrs {
			b, _ := bundle.ParseBundle(w.permLoc, h)
			bs = append(bs, b)
		}
		return bs
	}
	bc, bd := mk(), mk()
	inner := &logVerifier{kr: w.resolver(), ok: map[string]bool{}}
	vc := bundle.NewVerificationCache(inner, time.Hour, 100)
	mkReq := func(act resset.Action) (macaroon.Access, string) {
		d := r.Dyn()
		d.WF, d.NowSec, d.NowNsec, d.Org, d.Action = "", baseNow, 0, p64(1), act
		return d.As("org"), d.Sx("org")
	}
	wAcc, wSx := mkReq(resset.ActionWrite)
	rAcc, rSx := mkReq(resset.ActionRead)
	var opsSx, outC, outD []string
	now := 0
	emitStep := func(sx, c, d string) {
		now++
		opsSx = append(opsSx, fmt.Sprintf("(%d %s)", now, sx))
		outC = append(outC, c)
		outD = append(outD, d)
	}
	visit := func(i int) {
		inner.calls, inner.ok = nil, map[string]bool{}
		cs, err := bc[i].Verify(ctx, vc)
		c := setsStr(cs, err) + "~" + statesStr(bc) + fmt.Sprintf("~calls=%d", len(inner.calls))
		cs, err = bd[i].Verify(ctx, w.resolver())
		emitStep(fmt.Sprintf("(verify %d cached)", i), c, setsStr(cs, err)+"~"+statesStr(bd))
		emitStep(fmt.Sprintf("(validate %d %s)", i, wSx), flagStr(bc[i].Validate(wAcc))+"~"+statesStr(bc), flagStr(bd[i].Validate(wAcc))+"~"+statesStr(bd))
		emitStep(fmt.Sprintf("(validate %d %s)", i, rSx), flagStr(bc[i].Validate(rAcc))+"~"+statesStr(bc), flagStr(bd[i].Validate(rAcc))+"~"+statesStr(bd))
	}
	visit(0) // everything misses in ONE call
	order := make([]int, 0, len(hdrs)-1)
	for i := 1; i < len(hdrs); i++ {
		order = append(order, i)
	}
	for i := len(order) - 1; i > 0; i-- {
		j := r.Intn(i + 1)
		order[i], order[j] = order[j], order[i]
	}
	for _, i := range order {
		visit(i)
	}
	o.count(fmt.Sprintf("sameNonce.tokens.%d", len(first)-1))
	hxs := make([]string, len(hdrs))
	for i, h := range hdrs {
		hxs[i] = hs(h)
	}
	op := fmt.Sprintf("(cache.run (sem %s) (order %s) (scope %s) %s %s %s (ttl %d) (hdrs %s) %s)", cacheSem, cacheOrder, bundleScope, w.sxKeys(),
		sxTrust(w.trusted), hs(w.permLoc), int64(1_000_000_000), strings.Join(hxs, " "), strings.Join(opsSx, " "))
	c, d := strings.Join(outC, " | "), strings.Join(outD, " | ")
	verdict := "transparent"
	if stripCalls(c) != d {
		verdict = "not-transparent:same-nonce"
		o.count("go.NOT-transparent.same-nonce")
	} else {
		o.count("go.transparent")
	}
	o.emit(op, c+" # "+d)
	o.emit("(const transparent)", verdict)
}

func stripCalls(s string) string {
	parts := strings.Split(s, " | ")
	for i, p := range parts {
		if k := strings.Index(p, "~calls="); k >= 0 {
			parts[i] = p[:k]
		}
	}
	return strings.Join(parts, " | ")
}

// concEpisode: schedules.  3-6 goroutines, each with a bundle of its own, all verifying through ONE
// cache; every goroutine runs its own list of steps (cached verify / validate / plain attenuation /
// header / filter) on its own bundle.  Bundles share nothing and the cache is transparent, so the
// trace of every bundle must be what the same steps give when run alone, sequentially, with direct
// verification — whatever the interleaving.  Oracle lines: `(const conc-transparent)`, and per
// bundle the trace next to the direct one as an all-direct history for the model.
func (w *bWorld) concEpisode() {
	r, o := w.r, w.o
	ctx := context.Background()
	related := w.relatedHeaders()
	nb := 3 + r.Intn(4)
	hdrs := make([]string, nb)
	for i := range hdrs {
		if i > 0 && r.Chance(1, 2) { // contention on the same keys
			hdrs[i] = hdrs[r.Intn(i)]
		} else {
			hdrs[i] = pick(r, related).h
		}
	}
	ttlName := pick(r, []string{"1h", "1h", "0", "max"})
	ttl := map[string]time.Duration{"1h": time.Hour, "0": 0, "max": time.Duration(math.MaxInt64)}[ttlName]
	size := pick(r, []int{1, 2, 100})
	o.count("conc.ttl." + ttlName)
	o.count(fmt.Sprintf("conc.size.%d", size))
	o.count(fmt.Sprintf("conc.bundles.%d", nb))
	plans := make([][]*cStep, nb)
	for i := range plans {
		for s, n := 0, 4+r.Intn(7); s < n; s++ {
			st := &cStep{}
			switch k := r.Intn(10); {
			case k < 4:
				st.kind, st.sx = "verify", "(verify 0 direct)"
			case k < 6:
				st.kind = "validate"
				var sx string
				st.accs, sx = w.reqs()
				if sx != "" {
					sx = " " + sx
				}
				st.sx = "(validate 0" + sx + ")"
			case k < 8:
				st.kind = "attenuate"
				st.cavs = []macaroon.Caveat{w.cav()}
				st.sx = "(attenuate 0 (c " + sxCav(st.cavs[0]) + "))"
			case k < 9:
				st.kind, st.sx = "header", "(header 0)"
			default:
				st.kind = "filter"
				st.f = w.genFilter(1)
				st.sx = "(filter 0 " + st.f.sx + ")"
			}
			o.count("conc.op." + st.kind)
			plans[i] = append(plans[i], st)
		}
	}
	runOne := func(h string, plan []*cStep, v bundle.Verifier, rounds int) (tr []string) {
		defer func() {
			if p := recover(); p != nil {
				tr = append(tr, "panic:"+strings.ReplaceAll(strings.SplitN(fmt.Sprint(p), "\n", 2)[0], " ", "_"))
			}
		}()
		b, _ := bundle.ParseBundle(w.permLoc, h)
		one := []*bundle.Bundle{b}
		for _, st := range plan {
			var out string
			switch st.kind {
			case "verify":
				cs, err := b.Verify(ctx, v)
				out = setsStr(cs, err)
				for k := 1; k < rounds; k++ { // more pressure on the cache: the answer must not change
					cs, err := b.Verify(ctx, v)
					if s := setsStr(cs, err); s != out {
						out = "unstable(" + out + "/" + s + ")"
					}
				}
			case "validate":
				out = flagStr(b.Validate(st.accs...))
			case "attenuate":
				out = flagStr(b.Attenuate(st.cavs...))
			case "header":
				out = hs(b.Header())
			default:
				b.Filter(st.f.mk(b))
				out = "-"
			}
			tr = append(tr, out+"~"+statesStr(one))
		}
		return tr
	}
	vc := bundle.NewVerificationCache(w.resolver(), ttl, size)
	conc := make([][]string, nb)
	var wg sync.WaitGroup
	start := make(chan struct{})
	for i := 0; i < nb; i++ {
		wg.Add(1)
		go func(i int) {
			defer wg.Done()
			<-start
			conc[i] = runOne(hdrs[i], plans[i], vc, 3)
		}(i)
	}
	close(start)
	wg.Wait()
	verdict := "conc-transparent"
	for i := 0; i < nb; i++ {
		direct := runOne(hdrs[i], plans[i], w.resolver(), 1)
		c, d := strings.Join(conc[i], " | "), strings.Join(direct, " | ")
		if c != d && verdict == "conc-transparent" {
			verdict = fmt.Sprintf("not-transparent:concurrent:bundle%d", i)
		}
		ops := make([]string, len(plans[i]))
		for k, st := range plans[i] {
			ops[k] = fmt.Sprintf("(%d %s)", k+1, st.sx)
		}
		o.emit(fmt.Sprintf("(cache.run (sem %s) (order %s) (scope %s) %s %s %s (ttl %d) (hdrs %s) %s)", cacheSem, cacheOrder, bundleScope, w.sxKeys(),
			sxTrust(w.trusted), hs(w.permLoc), int64(1_000_000_000), hs(hdrs[i]), strings.Join(ops, " ")), c+" # "+d)
	}
	if verdict == "conc-transparent" {
		o.count("conc.go.transparent")
	} else {
		o.count("conc.go.NOT-transparent")
	}
	o.emit("(const conc-transparent)", verdict)
}

func famCacheConc(r *Rng, o *Out, tier string) {
	n := 10
	if tier == "thorough" {
		n = 120
	}
	for e := 0; e < n; e++ {
		var w *bWorld
		for w == nil || len(w.perms) == 0 {
			if e%3 == 2 {
				w = newCacheWorld(r, o)
			} else {
				w = newBWorld(r, o)
			}
		}
		w.concEpisode()
	}
}

func runConcChild(r *Rng, o *Out, tier string) {
	dir, err := os.MkdirTemp("", "cacheconc")
	if err != nil {
		panic(err)
	}
	defer os.RemoveAll(dir)
	ctx, cancel := context.WithTimeout(context.Background(), 10*time.Minute)
	defer cancel()
	cmd := exec.CommandContext(ctx, os.Args[0], "cache.conc", "-seed", fmt.Sprint(r.U64()), "-tier", tier, "-out", dir)
	var stderr bytes.Buffer
	cmd.Stderr = &stderr
	if err := cmd.Run(); err != nil {
		msg := "hang"
		if ctx.Err() == nil {
			msg = strings.SplitN(strings.TrimSpace(stderr.String()), "\n", 2)[0]
		}
		o.count("conc.child.crashed")
		o.emit("(const conc-transparent)", "crashed:"+strings.ReplaceAll(msg, " ", "_"))
		return
	}
	ops, err1 := os.ReadFile(dir + "/ops.txt")
	impl, err2 := os.ReadFile(dir + "/impl.txt")
	meta, err3 := os.ReadFile(dir + "/meta.json")
	if err1 != nil || err2 != nil || err3 != nil {
		o.emit("(const conc-transparent)", "crashed:no-output")
		return
	}
	ol, il := strings.Split(strings.TrimRight(string(ops), "\n"), "\n"), strings.Split(strings.TrimRight(string(impl), "\n"), "\n")
	for i := range ol {
		if i < len(il) && ol[i] != "" {
			o.emit(ol[i], il[i])
		}
	}
	var m struct {
		Stats map[string]int `json:"stats"`
	}
	if json.Unmarshal(meta, &m) == nil {
		for k, v := range m.Stats {
			if strings.HasPrefix(k, "conc.") {
				o.stats[k] += v
			}
		}
	}
}

// newCacheWorld: a world like newBWorld's with wider value pools — key-ids of 0 / 1 / 8 / 16 / 300
// bytes (distinct), issuer locations with an upper-case host, a URL path, a trailing slash, or empty,
// third-party locations that differ only in letter case / a trailing slash / a path and query, or
// are empty.  Nothing in the cache looks at any of these; that is what is being checked.
func newCacheWorld(r *Rng, o *Out) *bWorld {
	w := &bWorld{r: r, o: o, keys: map[string]macaroon.SigningKey{}, trusted: map[string][]macaroon.EncryptionKey{}}
	w.permLoc = pick(r, []string{flyio.LocationPermission, "https://perm.example", "https://Perm.Example/v1/", "https://perm.example/", "", "root,a b"})
	o.count("world.permLoc." + map[bool]string{true: "empty", false: "nonempty"}[w.permLoc == ""])
	nk := 1 + r.Intn(3)
	for len(w.kids) < nk {
		kid := r.Bytes(pick(r, []int{0, 1, 8, 16, 300}))
		if _, dup := w.keys[string(kid)]; dup {
			continue
		}
		w.kids = append(w.kids, kid)
		w.keys[string(kid)] = r.Bytes(32)
		o.count(fmt.Sprintf("world.kidLen.%d", len(kid)))
	}
	o.count(fmt.Sprintf("kids.%d", nk))
	ntp := 1 + r.Intn(3)
	locs := shuffled(r, []string{"https://auth.example", "https://auth.example/", "https://AUTH.example", "https://auth.example/v1/discharge?x=1&y=2",
		"https://other.example", "tp3", ""})
	for _, l := range locs {
		if len(w.tps) == ntp {
			break
		}
		if l == w.permLoc {
			continue
		}
		p := tpParty{l, r.Bytes(32)}
		w.tps = append(w.tps, p)
		if r.Chance(2, 3) {
			w.trusted[p.loc] = append(w.trusted[p.loc], p.ka)
		}
		o.count("world.tpLoc." + map[bool]string{true: "empty", false: "nonempty"}[l == ""])
	}
	o.count(fmt.Sprintf("tps.%d", len(w.tps)))
	o.count("world.wide")
	w.buildPool()
	return w
}

func famCache(r *Rng, o *Out, tier string) {
	old := crand.Reader
	defer func() { crand.Reader = old }()
	hookable := randHookable()
	if !hookable {
		o.count("rand.not-hookable")
		fmt.Fprintln(os.Stderr, "cache family: crypto/rand.Reader cannot be replaced; discharge steps are left out")
	}
	n := 120
	if tier == "thorough" {
		n = 2000
		cacheLongHistories = true
	}
	mkWorld := func(e int) *bWorld {
		if e%3 == 2 {
			return newCacheWorld(r, o)
		}
		return newBWorld(r, o)
	}
	for e := 0; e < n; e++ {
		crand.Reader = old
		w := mkWorld(e)
		for len(w.perms) == 0 {
			w = mkWorld(e)
		}
		for k := 0; k < 3; k++ {
			w.cacheEpisode(hookable, e == 0 && k == 0, false)
		}
		if e%2 == 1 { // operations outside the modelled alphabet: the implementation's own verdict only
			w.cacheEpisode(hookable, false, true)
		}
	}
	// same-nonce variants missing together in one call: which entry survives a key collision would
	// depend on map iteration order, so repeat with fresh caches
	crand.Reader = old
	sn := 6
	if tier == "thorough" {
		sn = 20
	}
	for e := 0; e < sn; e++ {
		newBWorld(r, o).sameNonceEpisode()
	}
	// schedules: in a child process, so that a fatal runtime error (concurrent map writes, a deadlock)
	// becomes an observable of this run instead of ending it
	crand.Reader = old
	runConcChild(r, o, tier)
	// a few episodes in real time (about half a second each)
	crand.Reader = old
	timed := 4
	if tier == "thorough" {
		timed = 12
	}
	for e, tries := 0, 0; e < timed && tries < 2*timed; tries++ {
		w := newBWorld(r, o)
		if w.timedEpisode(e%3 != 0 || e%4 == 3, e%2 == 1, e%4 == 3) {
			e++
		}
	}

}
