package main

// Family `bundle` (C13): headers assembled from a pool of real tokens (valid, attenuated,
// undischarged, discharged, wrongly keyed, unknown key-id, foreign location, malformed
// base64/msgpack, non-macaroon entries, duplicates) in random order; key maps with 1-3 key-ids; one
// to three third parties; random operation sequences (<= 10) over the bundle and bundles derived
// from it by Select/Clone.  One `bundle.run` line per history; after every step the kinds, the
// Error() flag and a digest of Header() of EVERY live bundle are compared, so that an effect on a
// bundle the operation did not name is visible.  `spec.bundle` lines are the differential oracle
// of the main theorem: the bundle's per-token verdict against direct macaroon.Verify +
// CaveatSet.Validate on each token of the printed header.

import (
	"context"
	"crypto/sha256"
	"encoding/base64"
	"encoding/hex"
	"fmt"
	"os"
	"sort"
	"strings"
	"time"

	"github.com/superfly/macaroon"
	"github.com/superfly/macaroon/auth"
	"github.com/superfly/macaroon/bundle"
	"github.com/superfly/macaroon/flyio"
	"github.com/superfly/macaroon/resset"
)

func init() { families["bundle"] = famBundle }

// which tickets Discharge works on in the model: "that" = the documented contract (and the code
// after the repair of F6); VERIF_BUNDLE_SCOPE=every selects the model of the unrepaired code
var bundleScope = envOr("VERIF_BUNDLE_SCOPE", "that")

type bWorld struct {
	r       *Rng
	o       *Out
	permLoc string
	kids    [][]byte
	keys    map[string]macaroon.SigningKey
	tps     []tpParty
	trusted map[string][]macaroon.EncryptionKey
	pool    []string   // header entries
	perms   []string   // entries that are permission tokens of permLoc under a known key (for the cache family)
	big     bool       // thorough tier: some headers with up to 25 entries
	fams    [][]string // per minted token: its entry followed by the discharges minted for it
}

func b64tok(label string, raw []byte) string {
	return label + "_" + base64.StdEncoding.EncodeToString(raw)
}

func (w *bWorld) label() string { return pick(w.r, []string{"fm2", "fm2", "fm1r", "fm1a"}) }

// caveats that requests of bReq sometimes clear and sometimes do not
func (w *bWorld) cav() macaroon.Caveat {
	r := w.r
	switch r.Intn(7) {
	case 0, 1:
		return &flyio.Organization{ID: pick(r, []uint64{1, 2}), Mask: pick(r, []resset.Action{resset.ActionAll, resset.ActionRead, resset.ActionRead | resset.ActionWrite})}
	case 2:
		a := pick(r, []resset.Action{resset.ActionRead, resset.ActionRead | resset.ActionWrite, resset.ActionAll})
		return &a
	case 3:
		return &flyio.Apps{Apps: resset.ResourceSet[uint64, resset.Action]{1: resset.ActionAll, 2: pick(r, []resset.Action{resset.ActionRead, resset.ActionAll})}}
	case 4:
		return &macaroon.ValidityWindow{NotBefore: 0, NotAfter: pick(r, []int64{4_000_000_000, 4_000_000_001, 1000})}
	case 5:
		return &resset.IfPresent{Ifs: macaroon.NewCaveatSet(&flyio.Apps{Apps: resset.ResourceSet[uint64, resset.Action]{1: resset.ActionAll}}), Else: resset.ActionRead}
	default:
		return r.plainCav(1)
	}
}

func (w *bWorld) req() req {
	r := w.r
	d := r.Dyn()
	d.WF = ""
	if r.Chance(1, 12) {
		d.WF = "invalidAccess"
	}
	d.NowSec, d.NowNsec = baseNow, 0
	d.Org = p64(pick(r, []uint64{1, 2}))
	if r.Chance(1, 10) { // the request names no organization, or the wildcard
		d.Org = pick(r, []*uint64{nil, p64(0)})
	}
	d.Action = pick(r, []resset.Action{resset.ActionRead, resset.ActionWrite, resset.ActionRead | resset.ActionWrite, resset.ActionNone, resset.ActionAll, 0x20})
	if r.Bool() {
		d.App = p64(pick(r, []uint64{1, 2, 3, 0}))
	}
	kind := pick(r, []string{"org", "orgApp", "full", "app", "action", "bare", "fullNoAction"})
	return req{d.As(kind), d.Sx(kind), "dyn." + kind}
}

func (w *bWorld) reqs() ([]macaroon.Access, string) {
	n := pick(w.r, []int{1, 1, 1, 2, 0, 3, 4})
	w.o.count(fmt.Sprintf("reqs.%d", n))
	accs := make([]macaroon.Access, n)
	sxs := make([]string, n)
	for i := range accs {
		q := w.req()
		accs[i], sxs[i] = q.acc, q.sx
	}
	return accs, strings.Join(sxs, " ")
}

func newBWorld(r *Rng, o *Out) *bWorld {
	w := &bWorld{r: r, o: o, keys: map[string]macaroon.SigningKey{}, trusted: map[string][]macaroon.EncryptionKey{}}
	// the issuer's location: also the empty string, with a trailing slash, with upper-case letters
	w.permLoc = pick(r, []string{flyio.LocationPermission, "https://perm.example", "root", flyio.LocationPermission, "https://perm.example", "",
		"https://perm.example/", "Https://Perm.Example"})
	o.count("permloc." + map[bool]string{true: "empty", false: "nonempty"}[w.permLoc == ""])
	nk := 1 + r.Intn(3)
	for i := 0; i < nk; i++ {
		// key-ids of every length, the empty one included; distinct
		kid := r.Bytes(pick(r, []int{1, 8, 16, 0, 40}))
		for _, dup := w.keys[string(kid)]; dup; _, dup = w.keys[string(kid)] {
			kid = r.Bytes(pick(r, []int{1, 8, 16}))
		}
		w.kids = append(w.kids, kid)
		w.keys[string(kid)] = r.Bytes(32)
		o.count(fmt.Sprintf("kid.len.%d", len(kid)))
	}
	o.count(fmt.Sprintf("kids.%d", nk))
	ntp := 1 + r.Intn(3)
	locs := []string{"https://auth.example", "https://other.example", "tp3"}
	if r.Chance(1, 4) { // third parties whose locations differ in a trailing slash / letter case only
		locs = []string{"https://auth.example", "https://auth.example/", "https://AUTH.example"}
		o.count("tps.confusable")
	}
	for i := 0; i < ntp; i++ {
		p := tpParty{locs[i], r.Bytes(32)}
		if i == 1 && r.Chance(1, 6) { // two third parties sharing one key
			p.ka = w.tps[0].ka
			o.count("tps.sharedKey")
		}
		w.tps = append(w.tps, p)
		// trusted keys per location: none, the right one, the right one behind / in front of decoys, only a wrong one
		decoy := macaroon.EncryptionKey(r.Bytes(32))
		switch r.Intn(6) {
		case 0, 1:
			w.trusted[p.loc] = []macaroon.EncryptionKey{p.ka}
			o.count("trust.exact")
		case 2:
			w.trusted[p.loc] = []macaroon.EncryptionKey{decoy, p.ka}
			o.count("trust.decoyFirst")
		case 3:
			w.trusted[p.loc] = []macaroon.EncryptionKey{p.ka, decoy}
			o.count("trust.decoyLast")
		case 4:
			w.trusted[p.loc] = []macaroon.EncryptionKey{decoy}
			o.count("trust.wrongOnly")
		default:
			o.count("trust.none")
		}
	}
	o.count(fmt.Sprintf("tps.%d", ntp))
	w.buildPool()
	return w
}

// caseFlipOne flips the case of one letter of s (s itself if it has no letter)
func caseFlipOne(r *Rng, s string) string {
	var idx []int
	for i := 0; i < len(s); i++ {
		if (s[i] >= 'a' && s[i] <= 'z') || (s[i] >= 'A' && s[i] <= 'Z') {
			idx = append(idx, i)
		}
	}
	if len(idx) == 0 {
		return s
	}
	b := []byte(s)
	b[pick(r, idx)] ^= 0x20
	return string(b)
}

// mint one permission-shaped token and its satellite entries
func (w *bWorld) mintFamily() {
	r, o := w.r, w.o
	kid := pick(r, w.kids)
	key := w.keys[string(kid)]
	loc := w.permLoc
	kind := "valid"
	switch r.Intn(10) {
	case 0:
		key = r.Bytes(32)
		kind = "wrongkey"
	case 1:
		kid = r.Bytes(4)
		key = r.Bytes(32)
		kind = "unknownkid"
	case 2:
		// (foreign tokens keep the issuer's key: only the location tells them apart; among them locations that
		// differ from the issuer's in letter case only)
		loc = pick(r, []string{"https://elsewhere.example", w.permLoc + "/", "", strings.ToUpper(w.permLoc), caseFlipOne(r, w.permLoc)})
		if loc == w.permLoc {
			loc = w.permLoc + "x"
		}
		kind = "foreign"
	}
	m, err := macaroon.New(kid, loc, key)
	if err != nil {
		panic(err)
	}
	if r.Chance(1, 8) { // a token minted with the old two-field nonce
		m, err = macaroon.Decode(oldFormatToken(key, kid, r.Bytes(16), loc))
		if err != nil {
			panic(err)
		}
		o.count("pool.nonce.v0")
	}
	for i, n := 0, r.Intn(3); i < n; i++ {
		if err := m.Add(w.cav()); err != nil {
			o.count("pool.add.err")
		}
	}
	type use struct {
		p  tpParty
		it addItem
	}
	var uses []use
	for _, p := range w.tps {
		if !r.Chance(1, 2) {
			continue
		}
		var tcavs []macaroon.Caveat
		if r.Chance(1, 3) {
			tcavs = append(tcavs, w.cav())
		}
		it, err := newTP(p.ka, p.loc, tcavs...)
		if err != nil {
			panic(err)
		}
		if err := m.Add(it.cav); err != nil {
			panic(err)
		}
		uses = append(uses, use{p, it})
		if r.Chance(1, 3) {
			m.Add(w.cav())
		}
	}
	o.count(fmt.Sprintf("pool.perm.%s.tp%d", kind, len(uses)))
	raw := mustEnc(m)
	entry := b64tok(w.label(), raw)
	w.pool = append(w.pool, entry)
	fam := []string{entry}
	defer func() { w.fams = append(w.fams, fam) }()
	if kind == "valid" {
		w.perms = append(w.perms, entry)
	}
	// an attenuated variant of the same token
	if r.Chance(1, 3) {
		m2, _ := macaroon.Decode(raw)
		m2.Add(w.cav())
		e2 := b64tok(w.label(), mustEnc(m2))
		w.pool = append(w.pool, e2)
		if kind == "valid" {
			w.perms = append(w.perms, e2)
		}
		o.count("pool.attenuatedVariant")
	}
	// a variant with a broken signature
	if r.Chance(1, 5) {
		m2, _ := macaroon.Decode(raw)
		m2.Tail[0] ^= 1
		w.pool = append(w.pool, b64tok(w.label(), mustEnc(m2)))
		o.count("pool.badsig")
	}
	// a sibling token carrying the SAME third-party caveats (same tickets): one discharge serves both
	if len(uses) > 0 && r.Chance(1, 6) {
		sm, err := macaroon.New(kid, loc, key)
		if err != nil {
			panic(err)
		}
		sm.Add(w.cav())
		for _, u := range uses {
			if err := sm.Add(u.it.cav); err != nil {
				panic(err)
			}
		}
		se := b64tok(w.label(), mustEnc(sm))
		w.pool = append(w.pool, se)
		fam = append(fam, se)
		if kind == "valid" {
			w.perms = append(w.perms, se)
		}
		o.count("pool.sharedTicketSibling")
	}
	for _, u := range uses {
		if r.Chance(1, 4) {
			o.count("pool.undischarged")
			continue
		}
		// a token that merely carries the ticket as its key-id (wrong key): a candidate that never verifies
		fake := ""
		if r.Chance(1, 6) {
			fm, err := macaroon.New(u.it.tp.ticket, u.p.loc, r.Bytes(32))
			if err != nil {
				panic(err)
			}
			fake = b64tok(w.label(), mustEnc(fm))
			o.count("pool.fakeCandidate")
			if r.Bool() { // in front of the real ones
				w.pool = append(w.pool, fake)
				fam = append(fam, fake)
				fake = ""
			}
		}
		nd := 1
		if r.Chance(1, 2) {
			nd = 2 // two candidates for one ticket
			o.count("pool.twoCandidates")
		}
		for k := 0; k < nd; k++ {
			var extra []macaroon.Caveat
			if r.Chance(1, 2) {
				extra = append(extra, w.cav())
			}
			if k == 1 { // the second candidate always imposes something the first does not
				ro := pick(r, []resset.Action{resset.ActionRead, resset.ActionRead | resset.ActionWrite})
				extra = append(extra, &ro)
			}
			if r.Chance(1, 4) {
				a := auth.FlyioUserID(uint64(7 + k))
				extra = append(extra, &a)
			}
			var dm *macaroon.Macaroon
			// the discharge's Location is its minter's choice: usually the caveat's, sometimes not
			dloc := u.p.loc
			if r.Chance(1, 6) {
				dloc = pick(r, []string{u.p.loc + "/", strings.ToUpper(u.p.loc), "", "https://minted.elsewhere.example", caseFlipOne(r, u.p.loc)})
				o.count("pool.discharge.otherLocation")
				if r.Bool() && dloc != w.permLoc { // trust is looked up under the discharge's location
					w.trusted[dloc] = append(w.trusted[dloc], u.p.ka)
				}
			}
			if r.Chance(4, 5) {
				_, d, err := macaroon.DischargeTicket(u.p.ka, dloc, u.it.tp.ticket)
				if err != nil {
					panic(err)
				}
				dm = d
				o.count("pool.discharge.proof")
			} else {
				d, err := macaroon.New(u.it.tp.ticket, dloc, u.it.tp.rn)
				if err != nil {
					panic(err)
				}
				dm = d
				o.count("pool.discharge.nonproof")
			}
			if r.Chance(1, 12) { // a discharge that itself demands a discharge: nested ones are never looked for
				if err := dm.Add3P(r.Bytes(32), "https://nested.example"); err == nil {
					o.count("pool.discharge.nested3p")
				}
			}
			for _, c := range extra {
				if err := dm.Add(c); err != nil {
					o.count("pool.discharge.add.err")
				}
			}
			switch r.Intn(6) {
			case 0:
				if err := dm.Bind(raw); err == nil {
					o.count("pool.discharge.bound")
				}
			case 1: // bound to some other token: must be rejected
				other, _ := macaroon.New(r.Bytes(4), w.permLoc, r.Bytes(32))
				if err := dm.Bind(mustEnc(other)); err == nil {
					o.count("pool.discharge.boundElsewhere")
				}
			}
			de := b64tok(w.label(), mustEnc(dm))
			if r.Chance(1, 10) { // CR / LF inside the base64 text: Go's decoder skips them, the text is kept as it came
				k := 5 + r.Intn(len(de)-6)
				de = de[:k] + pick(r, []string{"\r\n", "\n", "\r"}) + de[k:]
				o.count("pool.textWithNewline")
			}
			w.pool = append(w.pool, de)
			fam = append(fam, de)
		}
		if fake != "" {
			w.pool = append(w.pool, fake)
			fam = append(fam, fake)
		}
	}
}

func (w *bWorld) buildPool() {
	r := w.r
	for i, n := 0, 2+r.Intn(3); i < n; i++ {
		w.mintFamily()
	}
	// junk
	// random bytes that are NOT a macaroon (bytes starting with 0x90, the empty array, decode to the zero
	// Macaroon whose nil key-id / tail the codec model does not tell from empty ones — C11 lists wire nil
	// for []byte fields as outside its domain — so such accidents are redrawn and counted)
	garbage := r.Bytes(1 + r.Intn(20))
	for {
		if _, err := macaroon.Decode(garbage); err != nil {
			break
		}
		w.o.count("pool.junk.redrawn-decodable")
		garbage = r.Bytes(1 + r.Intn(20))
	}
	junk := []string{
		"fm2_!!!", "fm1r_", "fm2_" + base64.StdEncoding.EncodeToString(garbage),
		"fm1a_" + base64.StdEncoding.EncodeToString([]byte{0x94, 0x93}), "fo1_abc", "hello", "", "fm3_QUJD", "x y",
		"fm2_QUJD=", "Bearer", "fm2_" + base64.RawStdEncoding.EncodeToString(r.Bytes(7)),
		"fm2_", "_", "fm2__QUJD", "FlyV1", "fm2 _QUJD", "fm1r_QUJD QUJD", "fm2_\u00e9", "\u00a0", "fm2_QUJD\u00a0",
	}
	if len(w.perms) > 0 {
		// real tokens under a label that is not one: upper case, unknown; and with trailing bytes after the macaroon
		p := w.perms[0]
		_, b64, _ := strings.Cut(p, "_")
		junk = append(junk, "FM2_"+b64, "Fm1r_"+b64, "fm1_"+b64, "fm2a_"+b64)
		if raw, err := base64.StdEncoding.DecodeString(b64); err == nil {
			junk = append(junk, "fm2_"+base64.StdEncoding.EncodeToString(append(append([]byte{}, raw...), 0xc0)))
		}
	}
	for i, n := 0, r.Intn(4); i < n; i++ {
		w.pool = append(w.pool, pick(r, junk))
		w.o.count("pool.junk")
	}
}

func (w *bWorld) header(min, max int) string {
	r := w.r
	n := min + r.Intn(max-min+1)
	var parts []string
	if r.Chance(3, 5) { // a coherent core: one token with (almost) all of its discharges
		fam := pick(r, w.fams)
		for j, e := range fam {
			if j > 0 && r.Chance(1, 8) {
				continue
			}
			parts = append(parts, e)
		}
		n = r.Intn(3)
		w.o.count("hdr.coherent")
	}
	for i := 0; i < n; i++ {
		e := pick(r, w.pool)
		if r.Chance(1, 5) { // white space around an entry is trimmed: every kind strings.TrimSpace knows
			ws := []string{" ", "  ", "\t", "\r\n", "\n", "\u00a0", "\u3000", "\u0085", "\v\f", ""}
			e = pick(r, ws) + e + pick(r, ws)
			w.o.count("hdr.whitespace")
		}
		parts = append(parts, e)
	}
	if r.Chance(1, 10) { // empty entries
		parts = append(parts, pick(r, []string{"", " ", ""}))
		w.o.count("hdr.emptyEntry")
	}
	for i := len(parts) - 1; i > 0; i-- {
		j := r.Intn(i + 1)
		parts[i], parts[j] = parts[j], parts[i]
	}
	h := strings.Join(parts, ",")
	switch r.Intn(9) {
	case 0:
		h = "FlyV1 " + h
	case 1:
		h = "Bearer " + h
	case 2: // schemes in any letter case, several of them, extra white space
		h = pick(r, []string{"flyv1 ", "BEARER ", "bearer FlyV1 ", "FlyV1  ", " FlyV1 ", "FlyV1 Bearer FLYV1 "}) + h
		w.o.count("hdr.schemeVariant")
	case 3: // something that is NOT a scheme prefix: no space after it, or another word
		h = pick(r, []string{"FlyV1\t", "FlyV2 ", "Basic ", "FlyV1"}) + h
		w.o.count("hdr.notAScheme")
	}
	return h
}

func (w *bWorld) sxKeys() string {
	ks := make([]string, 0, len(w.keys))
	for k := range w.keys {
		ks = append(ks, k)
	}
	sort.Strings(ks)
	p := []string{"keys"}
	for _, k := range ks {
		p = append(p, fmt.Sprintf("(%s %s)", hs(k), hx(w.keys[k])))
	}
	return "(" + strings.Join(p, " ") + ")"
}

func (w *bWorld) resolver() bundle.KeyResolver { return bundle.WithKeys(w.keys, w.trusted) }

func hash8(s string) string {
	h := sha256.Sum256([]byte(s))
	return hex.EncodeToString(h[:8])
}

func tokKinds(b *bundle.Bundle) string {
	var sb strings.Builder
	bundle.ForEach(b, func(t bundle.Token) {
		switch t.(type) {
		case bundle.NonMacaroon:
			sb.WriteByte('N')
		case *bundle.MalformedMacaroon:
			sb.WriteByte('M')
		case *bundle.UnverifiedMacaroon:
			sb.WriteByte('U')
		case *bundle.VerifiedMacaroon:
			sb.WriteByte('V')
		case *bundle.FailedMacaroon:
			sb.WriteByte('F')
		default:
			sb.WriteByte('?')
		}
	})
	return sb.String()
}

func bundleState(b *bundle.Bundle) string {
	e := "n"
	if b.Error() != nil {
		e = "e"
	}
	return tokKinds(b) + ":" + e + ":" + hash8(b.Header())
}

func statesStr(bs []*bundle.Bundle) string {
	p := make([]string, len(bs))
	for i, b := range bs {
		p[i] = fmt.Sprintf("b%d=%s", i, bundleState(b))
	}
	return strings.Join(p, ",")
}

func setsStr(cs []*macaroon.CaveatSet, err error) string {
	if err != nil {
		return "err"
	}
	p := make([]string, len(cs))
	for i, c := range cs {
		p[i] = sxCavs(c.Caveats)
	}
	return "ok" + strings.Join(p, "+")
}

func flagStr(err error) string {
	if err != nil {
		return "err"
	}
	return "ok"
}

// ---- filters in both worlds ----

type bFilter struct {
	mk func(b *bundle.Bundle) bundle.Filter
	sx string
}
type bPred struct {
	mk func(b *bundle.Bundle) bundle.Predicate
	sx string
}

func constPred(p bundle.Predicate, sx string) bPred {
	return bPred{func(*bundle.Bundle) bundle.Predicate { return p }, sx}
}

func (w *bWorld) genPred(depth int) bPred {
	r := w.r
	k := r.Intn(14)
	if depth <= 0 && k >= 10 && k <= 12 {
		k = r.Intn(10)
	}
	switch k {
	case 0:
		return constPred(bundle.KeepAll, "all")
	case 1:
		return constPred(bundle.KeepNone, "none")
	case 2:
		return bPred{func(b *bundle.Bundle) bundle.Predicate { return b.IsPermissionToken }, "perm"}
	case 3:
		l := pick(r, []string{w.permLoc, w.tps[0].loc, "https://elsewhere.example", ""})
		return constPred(bundle.LocationFilter(l).Predicate(), "(loc "+hs(l)+")")
	case 4:
		return constPred(bundle.IsVerifiedMacaroon, "ver")
	case 5:
		return constPred(bundle.IsUnverifiedMacaroon, "unv")
	case 6:
		return constPred(bundle.IsFailedMacaroon, "failed")
	case 7:
		return constPred(bundle.IsMalformedMacaroon, "malformed")
	case 8:
		return constPred(bundle.IsNonMacaroon, "nonmac")
	case 9:
		return constPred(bundle.IsWellFormedMacaroon, "wf")
	case 10:
		a, b := w.genPred(depth-1), w.genPred(depth-1)
		return bPred{func(x *bundle.Bundle) bundle.Predicate { return bundle.And(a.mk(x), b.mk(x)) }, "(and " + a.sx + " " + b.sx + ")"}
	case 11:
		a, b := w.genPred(depth-1), w.genPred(depth-1)
		return bPred{func(x *bundle.Bundle) bundle.Predicate { return bundle.Or(a.mk(x), b.mk(x)) }, "(or " + a.sx + " " + b.sx + ")"}
	case 12:
		a := w.genPred(depth - 1)
		return bPred{func(x *bundle.Bundle) bundle.Predicate { return bundle.Not(a.mk(x)) }, "(not " + a.sx + ")"}
	default:
		accs, sx := w.reqs()
		if sx != "" {
			sx = " " + sx
		}
		return constPred(bundle.AllowsAccess(accs...), "(allows"+sx+")")
	}
}

func (w *bWorld) genFilter(depth int) bFilter {
	r := w.r
	switch r.Intn(8) {
	case 0:
		return bFilter{func(b *bundle.Bundle) bundle.Filter { return bundle.DefaultFilter(b.IsPermissionToken) }, "default"}
	case 1:
		l := pick(r, w.tps).loc
		if r.Chance(1, 5) {
			l = "https://nobody.example"
		}
		return bFilter{func(b *bundle.Bundle) bundle.Filter { return b.IsMissingDischarge(l) }, "(missing " + hs(l) + ")"}
	case 2, 3:
		if depth > 0 {
			f := w.genFilter(depth - 1)
			return bFilter{func(b *bundle.Bundle) bundle.Filter { return b.WithDischarges(f.mk(b)) }, "(withDischarges " + f.sx + ")"}
		}
		fallthrough
	default:
		p := w.genPred(2)
		return bFilter{func(b *bundle.Bundle) bundle.Filter { return p.mk(b) }, p.sx}
	}
}

// ---- callbacks and attenuation items ----

type bCb struct {
	f  bundle.Discharger
	sx string
}

func (w *bWorld) genCb() bCb {
	r := w.r
	var cavs []macaroon.Caveat
	for i, n := 0, r.Intn(3); i < n; i++ {
		if r.Chance(1, 4) {
			a := auth.FlyioUserID(9)
			cavs = append(cavs, &a)
		} else {
			cavs = append(cavs, w.cav())
		}
	}
	items := make([]string, len(cavs))
	for i, c := range cavs {
		items[i] = "(c " + sxCav(c) + ")"
	}
	is := strings.Join(items, " ")
	if is != "" {
		is = " " + is
	}
	switch r.Intn(6) {
	case 0:
		return bCb{func([]macaroon.Caveat) ([]macaroon.Caveat, error) { return nil, fmt.Errorf("refused") }, "err"}
	case 1:
		return bCb{func(tc []macaroon.Caveat) ([]macaroon.Caveat, error) {
			if len(tc) != 0 {
				return nil, fmt.Errorf("ticket has caveats")
			}
			return cavs, nil
		}, "(ifnone" + is + ")"}
	default:
		return bCb{func([]macaroon.Caveat) ([]macaroon.Caveat, error) { return cavs, nil }, "(ok" + is + ")"}
	}
}

func macsOf(b *bundle.Bundle) []bundle.Macaroon {
	return bundle.Map(b, func(m bundle.Macaroon) bundle.Macaroon { return m })
}

// attenuation arguments; a fresh third-party caveat only when at most one token will take it
// (its VerifierKey nonce is drawn per token)
func (w *bWorld) genAttenuation(b *bundle.Bundle) (cavs []macaroon.Caveat, tpItem *addItem) {
	r := w.r
	n := 1 + r.Intn(2)
	for i := 0; i < n; i++ {
		switch {
		case r.Chance(1, 10):
			a := auth.FlyioUserID(3) // attestation on a non-proof token: Add fails
			cavs = append(cavs, &a)
		case r.Chance(1, 8) && len(cavs) > 0:
			cavs = append(cavs, cavs[0]) // duplicate: dedup
		default:
			cavs = append(cavs, w.cav())
		}
	}
	if r.Chance(1, 6) && b.Count(b.IsPermissionToken) <= 1 {
		p := pick(r, w.tps)
		it, err := newTP(p.ka, p.loc)
		if err != nil {
			panic(err)
		}
		tpItem = &it
	}
	return
}

// ---- the differential oracle of bundle_decision ----

func rawOfEntry(s string) ([]byte, bool) {
	pfx, b64, ok := strings.Cut(s, "_")
	if !ok || (pfx != "fm1r" && pfx != "fm1a" && pfx != "fm2") {
		return nil, false
	}
	raw, err := base64.StdEncoding.DecodeString(b64)
	return raw, err == nil
}

func (w *bWorld) specBundle(hdr string) {
	accs, rsx := w.reqs()
	if rsx != "" {
		rsx = " " + rsx
	}
	op := fmt.Sprintf("(spec.bundle %s %s %s %s%s)", w.sxKeys(), sxTrust(w.trusted), hs(w.permLoc), hs(hdr), rsx)
	res := guard(func() string {
		b, _ := bundle.ParseBundleWithFilter(w.permLoc, hdr, bundle.KeepAll)
		strs := bundle.Map(b, func(t bundle.Token) string { return t.String() })
		// direct: decode every entry ourselves
		type dec struct {
			m   *macaroon.Macaroon
			raw []byte
		}
		decs := make([]*dec, len(strs))
		var discharges [][]byte
		for i, s := range strs {
			if raw, ok := rawOfEntry(s); ok {
				if m, err := macaroon.Decode(raw); err == nil {
					decs[i] = &dec{m, raw}
					if m.Location != w.permLoc {
						discharges = append(discharges, raw)
					}
				}
			}
		}
		b.Verify(context.Background(), w.resolver())
		toks := bundle.Map(b, func(t bundle.Token) bundle.Token { return t })
		anyDirect := false
		for i, d := range decs {
			mine := "none"
			if vm, ok := toks[i].(*bundle.VerifiedMacaroon); ok {
				mine = fmt.Sprintf("%s %v", sxCavs(vm.Caveats.Caveats), vm.Caveats.Validate(accs...) == nil)
			}
			theirs := "none"
			if d != nil && d.m.Location == w.permLoc {
				if key, ok := w.keys[string(d.m.Nonce.KID)]; ok {
					if cs, err := d.m.Verify(key, discharges, w.trusted); err == nil {
						clears := cs.Validate(accs...) == nil
						anyDirect = anyDirect || clears
						theirs = fmt.Sprintf("%s %v", sxCavs(cs.Caveats), clears)
					}
				}
			}
			if mine != theirs {
				return fmt.Sprintf("disagree:%d", i)
			}
		}
		if (b.Validate(accs...) == nil) != anyDirect {
			return "disagree:validate"
		}
		if anyDirect {
			w.o.count("spec.permit")
		} else {
			w.o.count("spec.deny")
		}
		return "agree"
	})
	w.o.emit(op, res)
}

// ---- one history ----

func (w *bWorld) episode() {
	r, o := w.r, w.o
	ctx := context.Background()
	var bs []*bundle.Bundle
	var ops, outs []string
	defer func() {
		if p := recover(); p != nil {
			msg := strings.ReplaceAll(strings.SplitN(fmt.Sprint(p), "\n", 2)[0], " ", "_")
			o.emit(fmt.Sprintf("(bundle.run (scope %s) %s %s %s %s)", bundleScope, w.sxKeys(), sxTrust(w.trusted), hs(w.permLoc), strings.Join(ops, " ")), "panic:"+msg)
		}
	}()
	step := func(op, out string) {
		ops = append(ops, op)
		outs = append(outs, out+"~"+statesStr(bs))
	}
	hdr := w.header(1, 7)
	if w.big && r.Chance(1, 8) {
		hdr = w.header(12, 25)
		o.count("hdr.big")
	}
	pf := bFilter{func(b *bundle.Bundle) bundle.Filter { return nil }, "default"}
	if r.Chance(1, 4) {
		pf = w.genFilter(1)
		if strings.Contains(pf.sx, "perm") || strings.Contains(pf.sx, "withDischarges") || strings.Contains(pf.sx, "missing") || pf.sx == "default" {
			pf.sx = "default" // these need the bundle before it exists
		}
	}
	{
		var b *bundle.Bundle
		var err error
		if pf.sx == "default" {
			b, err = bundle.ParseBundle(w.permLoc, hdr)
		} else {
			b, err = bundle.ParseBundleWithFilter(w.permLoc, hdr, pf.mk(nil))
		}
		bs = append(bs, b)
		e := "n"
		if err != nil {
			e = "e"
		}
		step(fmt.Sprintf("(parse %s %s)", hs(hdr), pf.sx), fmt.Sprintf("new0:%s", e))
	}
	var specHdrs []string
	n := 1 + r.Intn(10)
	for s := 0; s < n; s++ {
		i := r.Intn(len(bs))
		b := bs[i]
		k := r.Intn(20)
		switch {
		case k == 16 || k == 17:
			// Verify with ANOTHER resolver than before: a key retired or replaced, trust dropped or widened
			keys := map[string]macaroon.SigningKey{}
			for kk, v := range w.keys {
				keys[kk] = v
			}
			trust := map[string][]macaroon.EncryptionKey{}
			for l, v := range w.trusted {
				trust[l] = v
			}
			how := pick(r, []string{"retire", "replace", "notrust", "trustall", "same", "nokeys"})
			switch how {
			case "retire":
				delete(keys, string(pick(r, w.kids)))
			case "replace":
				keys[string(pick(r, w.kids))] = r.Bytes(32)
			case "notrust":
				trust = map[string][]macaroon.EncryptionKey{}
			case "trustall":
				for _, p := range w.tps {
					trust[p.loc] = []macaroon.EncryptionKey{p.ka}
				}
			case "nokeys":
				keys = map[string]macaroon.SigningKey{}
			}
			ks := make([]string, 0, len(keys))
			for kk := range keys {
				ks = append(ks, kk)
			}
			sort.Strings(ks)
			kp := []string{"keys"}
			for _, kk := range ks {
				kp = append(kp, fmt.Sprintf("(%s %s)", hs(kk), hx(keys[kk])))
			}
			cs, err := b.Verify(ctx, bundle.WithKeys(keys, trust))
			o.count("op.verifyWith." + how + "." + flagStr(err))
			step(fmt.Sprintf("(verifyWith %d (%s) %s)", i, strings.Join(kp, " "), sxTrust(trust)), setsStr(cs, err))
		case k == 18:
			// add exactly the discharges of some token family (often the ones this bundle is missing)
			fam := pick(r, w.fams)
			h := strings.Join(fam[1:], ",")
			if len(fam) < 2 {
				h = fam[0]
			}
			err := b.AddTokens(h)
			o.count("op.addDischarges." + flagStr(err))
			step(fmt.Sprintf("(add %d %s)", i, hs(h)), flagStr(err))
		case k == 19:
			// Discharge for a location no token mentions: nothing to do, no error
			loc := pick(r, []string{"https://nobody.example", "", w.permLoc})
			ka := r.Bytes(32)
			err := b.Discharge(loc, ka, func([]macaroon.Caveat) ([]macaroon.Caveat, error) { return nil, nil })
			o.count("op.dischargeNobody." + flagStr(err))
			step(fmt.Sprintf("(discharge %d %s %s (ok))", i, hs(loc), hx(ka)), flagStr(err))
		case k == 0:
			h := w.header(1, 2)
			err := b.AddTokens(h)
			o.count("op.add." + flagStr(err))
			step(fmt.Sprintf("(add %d %s)", i, hs(h)), flagStr(err))
		case k == 1 && len(bs) < 5:
			f := w.genFilter(1)
			nb := b.Select(f.mk(b))
			bs = append(bs, nb)
			o.count("op.select")
			step(fmt.Sprintf("(select %d %s)", i, f.sx), fmt.Sprintf("new%d", len(bs)-1))
		case k == 2:
			f := w.genFilter(1)
			b.Filter(f.mk(b))
			o.count("op.filter")
			step(fmt.Sprintf("(filter %d %s)", i, f.sx), "-")
			if r.Bool() { // emptied bundles in particular
				step(fmt.Sprintf("(isEmpty %d)", i), fmt.Sprint(b.IsEmpty()))
				o.count(fmt.Sprintf("op.isEmpty.afterFilter.%v", b.IsEmpty()))
			}
		case k == 3 || k == 4:
			cavs, tpItem := w.genAttenuation(b)
			all := append([]macaroon.Caveat{}, cavs...)
			if tpItem != nil {
				all = append(all, tpItem.cav)
			}
			err := b.Attenuate(all...)
			items := make([]string, 0, len(all))
			for _, c := range cavs {
				items = append(items, "(c "+sxCav(c)+")")
			}
			if tpItem != nil {
				nonce := make([]byte, 12)
				if err == nil {
					for _, m := range macsOf(b) {
						if !b.IsPermissionToken(m) {
							continue
						}
						for _, c := range m.UnsafeCaveats().Caveats {
							if c3, ok := c.(*macaroon.Caveat3P); ok && string(c3.Ticket) == string(tpItem.tp.ticket) && len(c3.VerifierKey) >= 12 {
								nonce = c3.VerifierKey[:12]
							}
						}
					}
				}
				items = append(items, fmt.Sprintf("(new3p %s %s %s %s)", hs(tpItem.tp.loc), hx(tpItem.tp.ticket), hx(tpItem.tp.rn), hx(nonce)))
				o.count("op.attenuate.3p")
			}
			o.count("op.attenuate." + flagStr(err))
			step(fmt.Sprintf("(attenuate %d %s)", i, strings.Join(items, " ")), flagStr(err))
		case k == 5 || k == 6:
			p := pick(r, w.tps)
			ka := p.ka
			if r.Chance(1, 8) {
				ka = r.Bytes(32)
			}
			cb := w.genCb()
			before := b.Len()
			nund := 0
			for _, ts := range b.UndischargedThirdPartyTickets() {
				nund += len(ts)
			}
			err := b.Discharge(p.loc, ka, cb.f)
			var rnds []string
			if err == nil {
				ms := bundle.Map(b, func(t bundle.Token) bundle.Token { return t })
				for _, t := range ms[before:] {
					rnds = append(rnds, hx(t.(bundle.Macaroon).Nonce().Rnd))
				}
			}
			rs := strings.Join(rnds, " ")
			if rs != "" {
				rs = " " + rs
			}
			o.count(fmt.Sprintf("op.discharge.%s.und%d.new%d", flagStr(err), min(nund, 3), len(rnds)))
			step(fmt.Sprintf("(discharge %d %s %s %s%s)", i, hs(p.loc), hx(ka), cb.sx, rs), flagStr(err))
		case k == 7 || k == 8 || k == 9:
			cs, err := b.Verify(ctx, w.resolver())
			o.count(fmt.Sprintf("op.verify.%s.%d", flagStr(err), min(len(cs), 3)))
			step(fmt.Sprintf("(verify %d)", i), setsStr(cs, err))
		case k == 10 || k == 11:
			accs, sx := w.reqs()
			if sx != "" {
				sx = " " + sx
			}
			err := b.Validate(accs...)
			o.count("op.validate." + flagStr(err))
			step(fmt.Sprintf("(validate %d%s)", i, sx), flagStr(err))
		case k == 12 && len(bs) < 5:
			bs = append(bs, b.Clone())
			o.count("op.clone")
			step(fmt.Sprintf("(clone %d)", i), fmt.Sprintf("new%d", len(bs)-1))
		case k == 13:
			switch r.Intn(7) {
			case 0:
				step(fmt.Sprintf("(header %d)", i), hs(b.Header()))
			case 1:
				step(fmt.Sprintf("(len %d)", i), fmt.Sprint(b.Len()))
			case 4:
				step(fmt.Sprintf("(string %d)", i), hs(b.String()))
				o.count("op.string")
			case 5:
				step(fmt.Sprintf("(isEmpty %d)", i), fmt.Sprint(b.IsEmpty()))
				o.count("op.isEmpty")
			case 6:
				f := w.genFilter(1)
				step(fmt.Sprintf("(any %d %s)", i, f.sx), fmt.Sprint(b.Any(f.mk(b))))
				o.count("op.any")
			case 2:
				e := "nil"
				if b.Error() != nil {
					e = "err"
				}
				step(fmt.Sprintf("(error %d)", i), e)
			default:
				f := w.genFilter(1)
				step(fmt.Sprintf("(count %d %s)", i, f.sx), fmt.Sprint(b.Count(f.mk(b))))
			}
			o.count("op.query")
		case k == 14:
			u := b.UndischargedThirdPartyTickets()
			locs := make([]string, 0, len(u))
			for l := range u {
				locs = append(locs, l)
			}
			sort.Strings(locs)
			ps := make([]string, len(locs))
			for j, l := range locs {
				ts := make([]string, len(u[l]))
				for x, t := range u[l] {
					ts[x] = hx(t)
				}
				ps[j] = hs(l) + "=" + strings.Join(ts, ",")
			}
			o.count("op.undischarged")
			step(fmt.Sprintf("(undischarged %d)", i), "u:"+strings.Join(ps, ";"))
		default:
			l := pick(r, w.tps).loc
			ts := b.UndischargedTicketsForThirdParty(l)
			p := make([]string, len(ts))
			for x, t := range ts {
				p[x] = hx(t)
			}
			o.count("op.undischargedFor")
			step(fmt.Sprintf("(undischargedFor %d %s)", i, hs(l)), "u:"+strings.Join(p, ","))
		}
		if r.Chance(1, 5) {
			specHdrs = append(specHdrs, bs[r.Intn(len(bs))].Header())
		}
	}
	o.count(fmt.Sprintf("bundles.%d", len(bs)))
	o.emit(fmt.Sprintf("(bundle.run (scope %s) %s %s %s %s)", bundleScope, w.sxKeys(), sxTrust(w.trusted), hs(w.permLoc), strings.Join(ops, " ")),
		strings.Join(outs, " | "))
	specHdrs = append(specHdrs, hdr)
	for _, h := range specHdrs {
		w.specBundle(h)
	}
}

// f6Probe: one token with two third parties A and B, nothing discharged yet.  Discharge(A, keyA)
// must mint exactly A's discharge (the documented contract); then B; then the token verifies.
func f6Probe(r *Rng, o *Out) {
	w := &bWorld{r: r, o: o, keys: map[string]macaroon.SigningKey{}, trusted: map[string][]macaroon.EncryptionKey{}}
	w.permLoc = flyio.LocationPermission
	kid := r.Bytes(8)
	w.kids = [][]byte{kid}
	w.keys[string(kid)] = r.Bytes(32)
	w.tps = []tpParty{{"https://auth.example", r.Bytes(32)}, {"https://other.example", r.Bytes(32)}}
	m, err := macaroon.New(kid, w.permLoc, w.keys[string(kid)])
	if err != nil {
		panic(err)
	}
	for _, p := range w.tps {
		if err := m.Add3P(p.ka, p.loc); err != nil {
			panic(err)
		}
	}
	hdr := "FlyV1 " + b64tok("fm2", mustEnc(m))
	b, perr := bundle.ParseBundle(w.permLoc, hdr)
	bs := []*bundle.Bundle{b}
	var ops, outs []string
	step := func(op, out string) {
		ops = append(ops, op)
		outs = append(outs, out+"~"+statesStr(bs))
	}
	e := "n"
	if perr != nil {
		e = "e"
	}
	step(fmt.Sprintf("(parse %s default)", hs(hdr)), "new0:"+e)
	for _, p := range w.tps {
		before := b.Len()
		err := b.Discharge(p.loc, p.ka, func([]macaroon.Caveat) ([]macaroon.Caveat, error) { return nil, nil })
		rs := ""
		if err == nil {
			ms := bundle.Map(b, func(t bundle.Token) bundle.Token { return t })
			for _, t := range ms[before:] {
				rs += " " + hx(t.(bundle.Macaroon).Nonce().Rnd)
			}
		}
		step(fmt.Sprintf("(discharge 0 %s %s (ok)%s)", hs(p.loc), hx(p.ka), rs), flagStr(err))
	}
	cs, err := b.Verify(context.Background(), w.resolver())
	step("(verify 0)", setsStr(cs, err))
	o.count("probe.f6")
	o.emit(fmt.Sprintf("(bundle.run (scope %s) %s %s %s %s)", bundleScope, w.sxKeys(), sxTrust(w.trusted), hs(w.permLoc), strings.Join(ops, " ")),
		strings.Join(outs, " | "))
}

// tpAttenuationEpisode: third-party caveats added THROUGH the bundle.  One permission token
// (unverified / verified / failed), attenuated with a fresh third-party caveat — alone, mixed with
// plain caveats, two at once, or for a location the token already has (Add refuses: all or nothing)
// — then Validate WITHOUT re-verifying (a verified token's verified set has gained the third-party
// caveat itself, which clears nothing), Verify without the discharge (must fail), Discharge for that
// location + Verify (must succeed and impose the discharge's caveats), printing and re-parsing.
func (w *bWorld) tpAttenuationEpisode() {
	r, o := w.r, w.o
	ctx := context.Background()
	var bs []*bundle.Bundle
	var ops, outs []string
	defer func() {
		if p := recover(); p != nil {
			msg := strings.ReplaceAll(strings.SplitN(fmt.Sprint(p), "\n", 2)[0], " ", "_")
			o.emit(fmt.Sprintf("(bundle.run (scope %s) %s %s %s %s)", bundleScope, w.sxKeys(), sxTrust(w.trusted), hs(w.permLoc), strings.Join(ops, " ")), "panic:"+msg)
		}
	}()
	step := func(op, out string) {
		ops = append(ops, op)
		outs = append(outs, out+"~"+statesStr(bs))
	}
	kid := w.kids[0]
	m, err := macaroon.New(kid, w.permLoc, w.keys[string(kid)])
	if err != nil {
		panic(err)
	}
	m.Add(&flyio.Organization{ID: 1, Mask: resset.ActionAll})
	parts := []string{}
	hasA := r.Chance(1, 2)
	pa := w.tps[0]
	if hasA { // the token already carries (and the header discharges) a third-party caveat for A
		it, err := newTP(pa.ka, pa.loc)
		if err != nil {
			panic(err)
		}
		if err := m.Add(it.cav); err != nil {
			panic(err)
		}
		_, dm, err := macaroon.DischargeTicket(pa.ka, pa.loc, it.tp.ticket)
		if err != nil {
			panic(err)
		}
		parts = append(parts, b64tok(w.label(), mustEnc(dm)))
	}
	state := pick(r, []string{"unverified", "verified", "verified", "failed"})
	raw := mustEnc(m)
	if state == "failed" {
		m2, _ := macaroon.Decode(raw)
		m2.Tail[0] ^= 1
		raw = mustEnc(m2)
	}
	parts = append(parts, b64tok("fm2", raw))
	if r.Bool() {
		parts[0], parts[len(parts)-1] = parts[len(parts)-1], parts[0]
	}
	hdr := "FlyV1 " + strings.Join(parts, ",")
	mkReq := func(act resset.Action) (macaroon.Access, string) {
		d := r.Dyn()
		d.WF = ""
		d.NowSec, d.NowNsec = baseNow, 0
		d.Org = p64(1)
		d.Action = act
		return d.As("org"), d.Sx("org")
	}
	readAcc, readSx := mkReq(resset.ActionRead)
	writeAcc, writeSx := mkReq(resset.ActionWrite)
	validate := func(i int, acc macaroon.Access, sx string) {
		err := bs[i].Validate(acc)
		o.count("tp3.validate." + flagStr(err))
		step(fmt.Sprintf("(validate %d %s)", i, sx), flagStr(err))
	}
	verify := func(i int) {
		cs, err := bs[i].Verify(ctx, w.resolver())
		o.count("tp3.verify." + flagStr(err))
		step(fmt.Sprintf("(verify %d)", i), setsStr(cs, err))
	}

	b, perr := bundle.ParseBundle(w.permLoc, hdr)
	bs = append(bs, b)
	e := "n"
	if perr != nil {
		e = "e"
	}
	step(fmt.Sprintf("(parse %s default)", hs(hdr)), "new0:"+e)
	if state != "unverified" {
		verify(0)
	}
	validate(0, readAcc, readSx)

	// the attenuation
	late := []tpParty{{"https://late.example", r.Bytes(32)}, {"https://later.example", r.Bytes(32)}}
	variant := pick(r, []string{"tp", "tp", "plain+tp", "tp+plain", "tp+tp", "tp.existing", "plain+tp.existing"})
	if !hasA && strings.HasSuffix(variant, "existing") {
		variant = "tp"
	}
	plain := func() addItem {
		return addItem{cav: &flyio.Organization{ID: 1, Mask: resset.ActionRead | resset.ActionWrite}}
	}
	tp := func(p tpParty) addItem {
		var tc []macaroon.Caveat
		if r.Chance(1, 3) {
			tc = append(tc, w.cav())
		}
		it, err := newTP(p.ka, p.loc, tc...)
		if err != nil {
			panic(err)
		}
		return it
	}
	var items []addItem
	switch variant {
	case "tp":
		items = []addItem{tp(late[0])}
	case "plain+tp":
		items = []addItem{plain(), tp(late[0])}
	case "tp+plain":
		items = []addItem{tp(late[0]), plain()}
	case "tp+tp":
		items = []addItem{tp(late[0]), tp(late[1])}
	case "tp.existing":
		items = []addItem{tp(pa)}
	default:
		items = []addItem{plain(), tp(pa)}
	}
	o.count("tp3.variant." + variant + "." + state)
	{
		cavs := make([]macaroon.Caveat, len(items))
		for j, it := range items {
			cavs[j] = it.cav
		}
		err := b.Attenuate(cavs...)
		sx := make([]string, len(items))
		for j, it := range items {
			if it.tp == nil {
				sx[j] = "(c " + sxCav(it.cav) + ")"
				continue
			}
			nonce := make([]byte, 12)
			if err == nil {
				for _, mm := range macsOf(b) {
					if !b.IsPermissionToken(mm) {
						continue
					}
					for _, c := range mm.UnsafeCaveats().Caveats {
						if c3, ok := c.(*macaroon.Caveat3P); ok && string(c3.Ticket) == string(it.tp.ticket) && len(c3.VerifierKey) >= 12 {
							nonce = c3.VerifierKey[:12]
						}
					}
				}
			}
			sx[j] = fmt.Sprintf("(new3p %s %s %s %s)", hs(it.tp.loc), hx(it.tp.ticket), hx(it.tp.rn), hx(nonce))
		}
		o.count("tp3.attenuate." + flagStr(err))
		step(fmt.Sprintf("(attenuate 0 %s)", strings.Join(sx, " ")), flagStr(err))
	}
	// without re-verifying: a verified token now carries the third-party caveat in its verified set
	validate(0, readAcc, readSx)
	if r.Bool() {
		step("(header 0)", hs(b.Header()))
	}
	if r.Chance(1, 3) {
		accs, fsx := []macaroon.Access{readAcc}, readSx
		n := b.Count(bundle.AllowsAccess(accs...))
		step(fmt.Sprintf("(count 0 (allows %s))", fsx), fmt.Sprint(n))
	}
	// the discharge is missing: verification must fail
	verify(0)
	validate(0, readAcc, readSx)
	// discharge for the new location(s), then it verifies again and the discharge's caveats are imposed
	ro := resset.ActionRead
	for _, p := range late {
		before := b.Len()
		err := b.Discharge(p.loc, p.ka, func(tc []macaroon.Caveat) ([]macaroon.Caveat, error) { return []macaroon.Caveat{&ro}, nil })
		rs := ""
		if err == nil {
			ms := bundle.Map(b, func(t bundle.Token) bundle.Token { return t })
			for _, t := range ms[before:] {
				rs += " " + hx(t.(bundle.Macaroon).Nonce().Rnd)
			}
		}
		o.count("tp3.discharge." + flagStr(err))
		step(fmt.Sprintf("(discharge 0 %s %s (ok (c %s))%s)", hs(p.loc), hx(p.ka), sxCav(&ro), rs), flagStr(err))
		if variant != "tp+tp" {
			break
		}
	}
	verify(0)
	validate(0, readAcc, readSx)
	validate(0, writeAcc, writeSx)
	// print and re-parse
	bs = append(bs, b.Clone())
	step("(clone 0)", "new1")
	verify(1)
	validate(1, readAcc, readSx)
	validate(1, writeAcc, writeSx)
	o.emit(fmt.Sprintf("(bundle.run (scope %s) %s %s %s %s)", bundleScope, w.sxKeys(), sxTrust(w.trusted), hs(w.permLoc), strings.Join(ops, " ")),
		strings.Join(outs, " | "))
	w.specBundle(bs[0].Header())
}

// partialDischargeEpisode: a PARTIAL failure inside one Discharge call.  Two or three permission
// tokens each carry a third-party caveat for the same location (one token cannot carry two), so the
// call has several tickets to work on; exactly one of them fails — the callback refuses it, or
// returns caveats Add refuses (an attestation inside IfPresent), or its ticket is sealed under another
// key, or is garbage, or opens to garbage — first, last or in the middle.  Discharge must return an
// error and leave the bundle as it was (Len, Header, undischarged tickets, later Verify); when the
// failure was the callback's, a second call with an agreeable callback then discharges them all.
func (w *bWorld) partialDischargeEpisode() {
	r, o := w.r, w.o
	ctx := context.Background()
	var bs []*bundle.Bundle
	var ops, outs []string
	defer func() {
		if p := recover(); p != nil {
			msg := strings.ReplaceAll(strings.SplitN(fmt.Sprint(p), "\n", 2)[0], " ", "_")
			o.emit(fmt.Sprintf("(bundle.run (scope %s) %s %s %s %s)", bundleScope, w.sxKeys(), sxTrust(w.trusted), hs(w.permLoc), strings.Join(ops, " ")), "panic:"+msg)
		}
	}()
	step := func(op, out string) {
		ops = append(ops, op)
		outs = append(outs, out+"~"+statesStr(bs))
	}
	tp := w.tps[0]
	n := 2 + r.Intn(2)
	fail := pick(r, []int{0, n - 1, r.Intn(n)})
	mode := pick(r, []string{"refuse", "refuse", "badcavs", "badcavs", "otherkey", "garbage", "badplaintext"})
	pos := "middle"
	if fail == 0 {
		pos = "first"
	} else if fail == n-1 {
		pos = "last"
	}
	o.count("partial.mode." + mode + "." + pos)
	o.count(fmt.Sprintf("partial.tickets.%d", n))
	kid := w.kids[0]
	marker := func(i int) macaroon.Caveat { return &flyio.Organization{ID: uint64(10 + i), Mask: resset.ActionAll} }
	var parts []string
	for i := 0; i < n; i++ {
		m, err := macaroon.New(kid, w.permLoc, w.keys[string(kid)])
		if err != nil {
			panic(err)
		}
		m.Add(&flyio.Organization{ID: 1, Mask: resset.ActionAll})
		var c3 macaroon.Caveat
		switch {
		case i == fail && mode == "otherkey":
			it, err := newTP(r.Bytes(32), tp.loc, marker(i))
			if err != nil {
				panic(err)
			}
			c3 = it.cav
		case i == fail && mode == "garbage":
			c3 = &macaroon.Caveat3P{Location: tp.loc, Ticket: r.Bytes(pick(r, []int{0, 5, 40}))}
		case i == fail && mode == "badplaintext":
			c3 = &macaroon.Caveat3P{Location: tp.loc, Ticket: aeadSeal(tp.ka, r.Bytes(12), pick(r, [][]byte{{0xc1}, {0x92, 0xc0}, {}}))}
		default:
			it, err := newTP(tp.ka, tp.loc, marker(i))
			if err != nil {
				panic(err)
			}
			c3 = it.cav
		}
		if err := m.Add(c3); err != nil {
			panic(err)
		}
		parts = append(parts, b64tok(w.label(), mustEnc(m)))
	}
	if r.Chance(1, 3) {
		parts = append(parts, pick(r, []string{"hello", "fo1_abc"}))
	}
	hdr := "FlyV1 " + strings.Join(parts, ",")
	b, perr := bundle.ParseBundle(w.permLoc, hdr)
	bs = append(bs, b)
	e := "n"
	if perr != nil {
		e = "e"
	}
	step(fmt.Sprintf("(parse %s default)", hs(hdr)), "new0:"+e)

	ro := resset.ActionRead
	bad := auth.FlyioUserID(3)
	refused := &resset.IfPresent{Ifs: macaroon.NewCaveatSet(&bad), Else: resset.ActionRead}
	// the callback: a decision per ticket, keyed by the ticket's caveats
	mkCb := func(failing bool) bCb {
		type dec struct {
			cavs []macaroon.Caveat
			err  bool
		}
		decs := map[string]dec{}
		var cases []string
		for i := 0; i < n; i++ {
			d := dec{cavs: []macaroon.Caveat{&ro}}
			dsx := "(ok (c " + sxCav(&ro) + "))"
			if failing && i == fail && mode == "refuse" {
				d = dec{err: true}
				dsx = "err"
			}
			if failing && i == fail && mode == "badcavs" {
				d = dec{cavs: []macaroon.Caveat{&ro, refused}}
				dsx = "(ok (c " + sxCav(&ro) + ") (c " + sxCav(refused) + "))"
			}
			key := sxCavs([]macaroon.Caveat{marker(i)})
			decs[key] = d
			cases = append(cases, "("+key+" "+dsx+")")
		}
		return bCb{func(tc []macaroon.Caveat) ([]macaroon.Caveat, error) {
			d, ok := decs[sxCavs(tc)]
			if !ok || d.err {
				return nil, fmt.Errorf("refused")
			}
			return d.cavs, nil
		}, "(bycavs " + strings.Join(cases, " ") + " err)"}
	}
	undischarged := func() {
		ts := b.UndischargedTicketsForThirdParty(tp.loc)
		p := make([]string, len(ts))
		for x, t := range ts {
			p[x] = hx(t)
		}
		step(fmt.Sprintf("(undischargedFor 0 %s)", hs(tp.loc)), "u:"+strings.Join(p, ","))
	}
	discharge := func(cb bCb) error {
		before := b.Len()
		err := b.Discharge(tp.loc, tp.ka, cb.f)
		rs := ""
		if err == nil {
			ms := bundle.Map(b, func(t bundle.Token) bundle.Token { return t })
			for _, t := range ms[before:] {
				rs += " " + hx(t.(bundle.Macaroon).Nonce().Rnd)
			}
		}
		o.count("partial.discharge." + flagStr(err))
		step(fmt.Sprintf("(discharge 0 %s %s %s%s)", hs(tp.loc), hx(tp.ka), cb.sx, rs), flagStr(err))
		return err
	}
	verify := func() {
		cs, err := b.Verify(ctx, w.resolver())
		o.count("partial.verify." + flagStr(err))
		step("(verify 0)", setsStr(cs, err))
	}
	undischarged()
	if r.Chance(1, 3) {
		verify()
	}
	discharge(mkCb(true)) // one ticket fails: nothing may be appended
	step("(len 0)", fmt.Sprint(b.Len()))
	step("(header 0)", hs(b.Header()))
	undischarged()
	verify()
	discharge(mkCb(false)) // succeeds iff the failure was the callback's
	undischarged()
	verify()
	d := r.Dyn()
	d.WF, d.NowSec, d.NowNsec, d.Org, d.Action = "", baseNow, 0, p64(1), resset.ActionRead
	verr := b.Validate(d.As("org"))
	step(fmt.Sprintf("(validate 0 %s)", d.Sx("org")), flagStr(verr))
	o.emit(fmt.Sprintf("(bundle.run (scope %s) %s %s %s %s)", bundleScope, w.sxKeys(), sxTrust(w.trusted), hs(w.permLoc), strings.Join(ops, " ")),
		strings.Join(outs, " | "))
}

// failedAttenuationEpisode: an Attenuate that would succeed on one (verified) permission token and
// fails on a SIBLING: the caveats include a third-party caveat for a location the sibling already
// has one for, or the sibling is a finalised proof at the permission location, or an attestation is
// among the caveats.  All or nothing: not only Header() but also what the verified tokens clear
// (Validate, AllowsAccess, the verified sets) must be exactly what it was.  The failing sibling comes
// first, last or in between.
func (w *bWorld) failedAttenuationEpisode() {
	r, o := w.r, w.o
	ctx := context.Background()
	var bs []*bundle.Bundle
	var ops, outs []string
	defer func() {
		if p := recover(); p != nil {
			msg := strings.ReplaceAll(strings.SplitN(fmt.Sprint(p), "\n", 2)[0], " ", "_")
			o.emit(fmt.Sprintf("(bundle.run (scope %s) %s %s %s %s)", bundleScope, w.sxKeys(), sxTrust(w.trusted), hs(w.permLoc), strings.Join(ops, " ")), "panic:"+msg)
		}
	}()
	step := func(op, out string) {
		ops = append(ops, op)
		outs = append(outs, out+"~"+statesStr(bs))
	}
	kid := w.kids[0]
	key := w.keys[string(kid)]
	tp := w.tps[0]
	mint := func() *macaroon.Macaroon {
		m, err := macaroon.New(kid, w.permLoc, key)
		if err != nil {
			panic(err)
		}
		m.Add(&flyio.Organization{ID: 1, Mask: resset.ActionAll})
		return m
	}
	variant := pick(r, []string{"3p.sibling", "3p.sibling", "3p.sibling", "proof.sibling", "attestation"})
	// A: plain, will be verified
	groupA := []string{b64tok(w.label(), mustEnc(mint()))}
	if r.Chance(1, 3) { // a second plain token
		groupA = append(groupA, b64tok(w.label(), mustEnc(mint())))
	}
	// the sibling on which the attenuation fails
	var sib []string
	sibState := "none"
	if variant == "3p.sibling" || r.Chance(1, 3) {
		mb := mint()
		it, err := newTP(tp.ka, tp.loc)
		if err != nil {
			panic(err)
		}
		if err := mb.Add(it.cav); err != nil {
			panic(err)
		}
		sib = append(sib, b64tok(w.label(), mustEnc(mb)))
		sibState = "failed"
		if r.Bool() { // discharged: the sibling verifies as well
			_, dm, err := macaroon.DischargeTicket(tp.ka, tp.loc, it.tp.ticket)
			if err != nil {
				panic(err)
			}
			sib = append(sib, b64tok(w.label(), mustEnc(dm)))
			sibState = "verified"
		}
	}
	if variant == "proof.sibling" { // a finalised proof located at the permission location: Add refuses
		it, err := newTP(tp.ka, "https://elsewhere.example")
		if err != nil {
			panic(err)
		}
		_, pm, err := macaroon.DischargeTicket(tp.ka, w.permLoc, it.tp.ticket)
		if err != nil {
			panic(err)
		}
		sib = append(sib, b64tok(w.label(), mustEnc(pm)))
	}
	pos := pick(r, []string{"first", "last", "middle"})
	var parts []string
	switch pos {
	case "first":
		parts = append(append(parts, sib...), groupA...)
	case "last":
		parts = append(append(parts, groupA...), sib...)
	default:
		parts = append(append(append(parts, groupA[:1]...), sib...), groupA[1:]...)
	}
	o.count("failatt." + variant + "." + pos + ".sibling-" + sibState)
	hdr := "FlyV1 " + strings.Join(parts, ",")
	mkReq := func(act resset.Action) (macaroon.Access, string) {
		d := r.Dyn()
		d.WF, d.NowSec, d.NowNsec, d.Org, d.Action = "", baseNow, 0, p64(1), act
		return d.As("org"), d.Sx("org")
	}
	rAcc, rSx := mkReq(resset.ActionRead)
	sets := func(i int) {
		var p []string
		bundle.ForEach(bs[i], func(vm *bundle.VerifiedMacaroon) { p = append(p, sxCavs(vm.Caveats.Caveats)) })
		step(fmt.Sprintf("(sets %d)", i), "sets:"+strings.Join(p, "+"))
	}
	validate := func(i int) {
		err := bs[i].Validate(rAcc)
		o.count("failatt.validate." + flagStr(err))
		step(fmt.Sprintf("(validate %d %s)", i, rSx), flagStr(err))
	}
	verify := func(i int) {
		cs, err := bs[i].Verify(ctx, w.resolver())
		step(fmt.Sprintf("(verify %d)", i), setsStr(cs, err))
	}
	b, perr := bundle.ParseBundle(w.permLoc, hdr)
	bs = append(bs, b)
	e := "n"
	if perr != nil {
		e = "e"
	}
	step(fmt.Sprintf("(parse %s default)", hs(hdr)), "new0:"+e)
	verify(0)
	validate(0)
	sets(0)
	// the attenuation that must fail as a whole
	expired := &macaroon.ValidityWindow{NotBefore: 0, NotAfter: 1000}
	items := []string{"(c " + sxCav(expired) + ")"}
	cavs := []macaroon.Caveat{expired}
	switch variant {
	case "3p.sibling":
		it, err := newTP(tp.ka, tp.loc)
		if err != nil {
			panic(err)
		}
		cavs = append(cavs, it.cav)
		items = append(items, fmt.Sprintf("(new3p %s %s %s %s)", hs(it.tp.loc), hx(it.tp.ticket), hx(it.tp.rn), hx(make([]byte, 12))))
	case "attestation":
		a := auth.FlyioUserID(3)
		cavs = append(cavs, &a)
		items = append(items, "(c "+sxCav(&a)+")")
	}
	if r.Bool() { // the failing item first
		cavs[0], cavs[len(cavs)-1] = cavs[len(cavs)-1], cavs[0]
		items[0], items[len(items)-1] = items[len(items)-1], items[0]
	}
	aerr := b.Attenuate(cavs...)
	o.count("failatt.attenuate." + flagStr(aerr))
	step(fmt.Sprintf("(attenuate 0 %s)", strings.Join(items, " ")), flagStr(aerr))
	// nothing may have changed: neither what is printed nor what the verified tokens clear
	validate(0)
	sets(0)
	step(fmt.Sprintf("(count 0 (allows %s))", rSx), fmt.Sprint(b.Count(bundle.AllowsAccess(rAcc))))
	step("(header 0)", hs(b.Header()))
	bs = append(bs, b.Clone())
	step("(clone 0)", "new1")
	verify(1)
	validate(1)
	verify(0)
	validate(0)
	o.emit(fmt.Sprintf("(bundle.run (scope %s) %s %s %s %s)", bundleScope, w.sxKeys(), sxTrust(w.trusted), hs(w.permLoc), strings.Join(ops, " ")),
		strings.Join(outs, " | "))
}

// dischargeLocationEpisode: the Location of a discharge is the minter's choice and is not signed; a
// discharge answers a third-party caveat by its TICKET (key-id), whatever its Location says.  Here
// the discharge's Location differs from the Location written in the caveat (trailing slash, case,
// something else entirely, empty): it must survive ParseBundle's DefaultFilter and WithDischarges,
// and the token must verify with it.
func (w *bWorld) dischargeLocationEpisode() {
	r, o := w.r, w.o
	ctx := context.Background()
	var bs []*bundle.Bundle
	var ops, outs []string
	defer func() {
		if p := recover(); p != nil {
			msg := strings.ReplaceAll(strings.SplitN(fmt.Sprint(p), "\n", 2)[0], " ", "_")
			o.emit(fmt.Sprintf("(bundle.run (scope %s) %s %s %s %s)", bundleScope, w.sxKeys(), sxTrust(w.trusted), hs(w.permLoc), strings.Join(ops, " ")), "panic:"+msg)
		}
	}()
	step := func(op, out string) {
		ops = append(ops, op)
		outs = append(outs, out+"~"+statesStr(bs))
	}
	kid := w.kids[0]
	tp := w.tps[0]
	m, err := macaroon.New(kid, w.permLoc, w.keys[string(kid)])
	if err != nil {
		panic(err)
	}
	m.Add(&flyio.Organization{ID: 1, Mask: resset.ActionAll})
	it, err := newTP(tp.ka, tp.loc)
	if err != nil {
		panic(err)
	}
	if err := m.Add(it.cav); err != nil {
		panic(err)
	}
	how := pick(r, []string{"slash", "slash", "case", "other", "empty", "same", "permloc"})
	dloc := tp.loc
	switch how {
	case "slash":
		dloc = tp.loc + "/"
	case "case":
		dloc = strings.ToUpper(tp.loc)
	case "other":
		dloc = "https://entirely.elsewhere.example"
	case "empty":
		dloc = ""
	case "permloc": // located at the permission location: then it is no discharge at all
		dloc = w.permLoc
	}
	o.count("disloc." + how)
	trusted := map[string][]macaroon.EncryptionKey{}
	for k, v := range w.trusted {
		trusted[k] = v
	}
	if r.Bool() { // trust is looked up under the DISCHARGE's location
		trusted[dloc] = []macaroon.EncryptionKey{tp.ka}
	}
	saved := w.trusted
	w.trusted = trusted
	defer func() { w.trusted = saved }()
	_, dm, err := macaroon.DischargeTicket(tp.ka, dloc, it.tp.ticket)
	if err != nil {
		panic(err)
	}
	ro := resset.ActionRead
	dm.Add(&ro)
	if r.Bool() {
		a := auth.FlyioUserID(11)
		dm.Add(&a)
	}
	parts := []string{b64tok(w.label(), mustEnc(m)), b64tok(w.label(), mustEnc(dm))}
	if r.Chance(1, 3) { // and a discharge for nobody's ticket
		ot, _ := newTP(tp.ka, tp.loc)
		_, xm, _ := macaroon.DischargeTicket(tp.ka, tp.loc, ot.tp.ticket)
		parts = append(parts, b64tok(w.label(), mustEnc(xm)))
	}
	for i := len(parts) - 1; i > 0; i-- {
		j := r.Intn(i + 1)
		parts[i], parts[j] = parts[j], parts[i]
	}
	hdr := "FlyV1 " + strings.Join(parts, ",")
	d := r.Dyn()
	d.WF, d.NowSec, d.NowNsec, d.Org, d.Action = "", baseNow, 0, p64(1), resset.ActionRead
	acc, accSx := d.As("org"), d.Sx("org")
	verify := func(i int) {
		cs, err := bs[i].Verify(ctx, w.resolver())
		o.count("disloc.verify." + flagStr(err))
		step(fmt.Sprintf("(verify %d)", i), setsStr(cs, err))
		step(fmt.Sprintf("(validate %d %s)", i, accSx), flagStr(bs[i].Validate(acc)))
	}
	keepAll := r.Chance(1, 3)
	var b *bundle.Bundle
	var perr error
	fsx := "default"
	if keepAll {
		b, perr = bundle.ParseBundleWithFilter(w.permLoc, hdr, bundle.KeepAll)
		fsx = "all"
	} else {
		b, perr = bundle.ParseBundle(w.permLoc, hdr)
	}
	bs = append(bs, b)
	e := "n"
	if perr != nil {
		e = "e"
	}
	step(fmt.Sprintf("(parse %s %s)", hs(hdr), fsx), "new0:"+e)
	step("(len 0)", fmt.Sprint(b.Len()))
	step("(header 0)", hs(b.Header()))
	// WithDischarges must take the discharge along
	bs = append(bs, b.Select(b.WithDischarges(b.IsPermissionToken)))
	step("(select 0 (withDischarges perm))", fmt.Sprintf("new%d", len(bs)-1))
	step("(count 0 (withDischarges unv))", fmt.Sprint(b.Count(b.WithDischarges(bundle.IsUnverifiedMacaroon))))
	verify(1)
	if keepAll {
		b.Filter(bundle.DefaultFilter(b.IsPermissionToken))
		step("(filter 0 default)", "-")
	}
	verify(0)
	step(fmt.Sprintf("(undischargedFor 0 %s)", hs(tp.loc)), func() string {
		ts := b.UndischargedTicketsForThirdParty(tp.loc)
		p := make([]string, len(ts))
		for x, t := range ts {
			p[x] = hx(t)
		}
		return "u:" + strings.Join(p, ",")
	}())
	bs = append(bs, b.Clone())
	step("(clone 0)", fmt.Sprintf("new%d", len(bs)-1))
	verify(2)
	o.emit(fmt.Sprintf("(bundle.run (scope %s) %s %s %s %s)", bundleScope, w.sxKeys(), sxTrust(w.trusted), hs(w.permLoc), strings.Join(ops, " ")),
		strings.Join(outs, " | "))
	w.specBundle(hdr)
}

// sharedDischargeEpisode: ONE discharge serves the ticket of several permission tokens (differently attenuated
// copies of one root token, sent with the single discharge).  WithDischarges(f) keeps the discharge whenever ANY of
// the tokens it serves matches f - whichever comes first in the header: the selected (or filtered) bundle prints
// the matching copies and the discharge, verifies, and clears what the matching copy clears.
func (w *bWorld) sharedDischargeEpisode() {
	r, o := w.r, w.o
	ctx := context.Background()
	var bs []*bundle.Bundle
	var ops, outs []string
	defer func() {
		if p := recover(); p != nil {
			msg := strings.ReplaceAll(strings.SplitN(fmt.Sprint(p), "\n", 2)[0], " ", "_")
			o.emit(fmt.Sprintf("(bundle.run (scope %s) %s %s %s %s)", bundleScope, w.sxKeys(), sxTrust(w.trusted), hs(w.permLoc), strings.Join(ops, " ")), "panic:"+msg)
		}
	}()
	step := func(op, out string) {
		ops = append(ops, op)
		outs = append(outs, out+"~"+statesStr(bs))
	}
	kid := w.kids[0]
	tp := w.tps[0]
	root, err := macaroon.New(kid, w.permLoc, w.keys[string(kid)])
	if err != nil {
		panic(err)
	}
	root.Add(&flyio.Organization{ID: 1, Mask: resset.ActionAll})
	it, err := newTP(tp.ka, tp.loc)
	if err != nil {
		panic(err)
	}
	if err := root.Add(it.cav); err != nil {
		panic(err)
	}
	rootB := mustEnc(root)
	// copies: the root itself (read+write) and 1-2 attenuated ones (read-only; a narrower window)
	ro := resset.ActionRead
	copies := []string{b64tok(w.label(), rootB)}
	kinds := []string{"rw"}
	for i, n := 0, 1+r.Intn(2); i < n; i++ {
		c, _ := macaroon.Decode(rootB)
		if i == 0 {
			c.Add(&ro)
			kinds = append(kinds, "ro")
		} else {
			c.Add(&macaroon.ValidityWindow{NotBefore: 0, NotAfter: 4_000_000_000})
			kinds = append(kinds, "rw.window")
		}
		copies = append(copies, b64tok(w.label(), mustEnc(c)))
	}
	for i := len(copies) - 1; i > 0; i-- {
		j := r.Intn(i + 1)
		copies[i], copies[j] = copies[j], copies[i]
		kinds[i], kinds[j] = kinds[j], kinds[i]
	}
	o.count("shareddis.order." + strings.Join(kinds, ","))
	_, dm, err := macaroon.DischargeTicket(tp.ka, tp.loc, it.tp.ticket)
	if err != nil {
		panic(err)
	}
	dis := b64tok(w.label(), mustEnc(dm))
	parts := append(append([]string{}, copies...), dis)
	if r.Bool() { // the discharge anywhere in the header
		at := r.Intn(len(parts))
		parts[at], parts[len(parts)-1] = parts[len(parts)-1], parts[at]
	}
	hdr := "FlyV1 " + strings.Join(parts, ",")
	mkReq := func(a resset.Action) (macaroon.Access, string) {
		d := r.Dyn()
		d.WF, d.NowSec, d.NowNsec, d.Org, d.Action = "", baseNow, 0, p64(1), a
		return d.As("org"), d.Sx("org")
	}
	wAcc, wSx := mkReq(resset.ActionWrite)
	rAcc, rSx := mkReq(resset.ActionRead)
	verify := func(i int) {
		cs, err := bs[i].Verify(ctx, w.resolver())
		o.count("shareddis.verify." + flagStr(err))
		step(fmt.Sprintf("(verify %d)", i), setsStr(cs, err))
		step(fmt.Sprintf("(validate %d %s)", i, wSx), flagStr(bs[i].Validate(wAcc)))
		step(fmt.Sprintf("(validate %d %s)", i, rSx), flagStr(bs[i].Validate(rAcc)))
	}
	b, perr := bundle.ParseBundle(w.permLoc, hdr)
	bs = append(bs, b)
	e := "n"
	if perr != nil {
		e = "e"
	}
	step(fmt.Sprintf("(parse %s default)", hs(hdr)), "new0:"+e)
	step("(header 0)", hs(b.Header()))
	verify(0)
	// the copies that allow the write / only those that do not, each with the discharge
	allowsW := bundle.AllowsAccess(wAcc)
	bs = append(bs, b.Select(b.WithDischarges(allowsW)))
	step(fmt.Sprintf("(select 0 (withDischarges (allows %s)))", wSx), fmt.Sprintf("new%d", len(bs)-1))
	step("(header 1)", hs(bs[1].Header()))
	verify(1)
	notW := bundle.And(bundle.IsVerifiedMacaroon, bundle.Not(allowsW))
	bs = append(bs, b.Select(b.WithDischarges(notW)))
	step(fmt.Sprintf("(select 0 (withDischarges (and ver (not (allows %s)))))", wSx), fmt.Sprintf("new%d", len(bs)-1))
	step("(header 2)", hs(bs[2].Header()))
	verify(2)
	step(fmt.Sprintf("(count 0 (withDischarges (allows %s)))", wSx), fmt.Sprint(b.Count(b.WithDischarges(allowsW))))
	// and in place, on a clone
	bs = append(bs, b.Clone())
	step("(clone 0)", fmt.Sprintf("new%d", len(bs)-1))
	verify(3)
	bs[3].Filter(bs[3].WithDischarges(allowsW))
	step(fmt.Sprintf("(filter 3 (withDischarges (allows %s)))", wSx), "-")
	step("(header 3)", hs(bs[3].Header()))
	verify(3)
	o.emit(fmt.Sprintf("(bundle.run (scope %s) %s %s %s %s)", bundleScope, w.sxKeys(), sxTrust(w.trusted), hs(w.permLoc), strings.Join(ops, " ")),
		strings.Join(outs, " | "))
	w.specBundle(hdr)
}

// largeVerifiedSetEpisode: a verified caveat set LARGER than any single token's caveat list (a permission token with
// 1000 caveats plus a discharge with 30: every token stays below the decoder's pre-allocation bound of 1024, the
// verified set does not). The caveat that refuses the request is the LAST one of the discharge. Attenuate copies
// verified sets (Clone = encode + decode): after it the bundle must refuse what it refused before, like the
// re-parsed, re-verified header does.
func (w *bWorld) largeVerifiedSetEpisode() {
	r, o := w.r, w.o
	ctx := context.Background()
	var bs []*bundle.Bundle
	var ops, outs []string
	defer func() {
		if p := recover(); p != nil {
			msg := strings.ReplaceAll(strings.SplitN(fmt.Sprint(p), "\n", 2)[0], " ", "_")
			o.emit(fmt.Sprintf("(bundle.run (scope %s) %s %s %s %s)", bundleScope, w.sxKeys(), sxTrust(w.trusted), hs(w.permLoc), strings.Join(ops, " ")), "panic:"+msg)
		}
	}()
	step := func(op, out string) {
		ops = append(ops, op)
		outs = append(outs, out+"~"+statesStr(bs))
	}
	kid := w.kids[0]
	tp := w.tps[0]
	m, err := macaroon.New(kid, w.permLoc, w.keys[string(kid)])
	if err != nil {
		panic(err)
	}
	m.Add(&flyio.Organization{ID: 1, Mask: resset.ActionAll})
	nTok := pick(r, []int{995, 1000, 1010, 1022})
	for i := 0; i < nTok; i++ {
		m.Add(&macaroon.ValidityWindow{NotBefore: int64(i), NotAfter: 4_000_000_000 + int64(i)})
	}
	it, err := newTP(tp.ka, tp.loc)
	if err != nil {
		panic(err)
	}
	if err := m.Add(it.cav); err != nil {
		panic(err)
	}
	_, dm, err := macaroon.DischargeTicket(tp.ka, tp.loc, it.tp.ticket)
	if err != nil {
		panic(err)
	}
	nDis := pick(r, []int{5, 30, 40})
	for i := 0; i < nDis; i++ {
		dm.Add(&macaroon.ValidityWindow{NotBefore: int64(i), NotAfter: 3_000_000_000 + int64(i)})
	}
	ro := resset.ActionRead
	dm.Add(&ro) // the deciding caveat: last of the discharge, beyond position 1024 of the verified set
	o.count(fmt.Sprintf("largeset.total%d", nTok+nDis+3))
	hdr := "FlyV1 " + b64tok(w.label(), mustEnc(m)) + "," + b64tok(w.label(), mustEnc(dm))
	d := r.Dyn()
	d.WF, d.NowSec, d.NowNsec, d.Org, d.Action = "", baseNow, 0, p64(1), resset.ActionWrite
	wAcc, wSx := d.As("org"), d.Sx("org")
	d2 := *d
	d2.Action = resset.ActionRead
	rAcc, rSx := d2.As("org"), d2.Sx("org")
	verify := func(i int) {
		cs, err := bs[i].Verify(ctx, w.resolver())
		step(fmt.Sprintf("(verify %d)", i), setsStr(cs, err))
		step(fmt.Sprintf("(validate %d %s)", i, wSx), flagStr(bs[i].Validate(wAcc)))
		step(fmt.Sprintf("(validate %d %s)", i, rSx), flagStr(bs[i].Validate(rAcc)))
	}
	b, perr := bundle.ParseBundle(w.permLoc, hdr)
	bs = append(bs, b)
	e := "n"
	if perr != nil {
		e = "e"
	}
	step(fmt.Sprintf("(parse %s default)", hs(hdr)), "new0:"+e)
	verify(0)
	att := &flyio.Organization{ID: 1, Mask: resset.ActionRead | resset.ActionWrite}
	step(fmt.Sprintf("(attenuate 0 (c %s))", sxCav(att)), flagStr(b.Attenuate(att)))
	step(fmt.Sprintf("(validate 0 %s)", wSx), flagStr(b.Validate(wAcc)))
	step(fmt.Sprintf("(validate 0 %s)", rSx), flagStr(b.Validate(rAcc)))
	bs = append(bs, b.Clone())
	step("(clone 0)", fmt.Sprintf("new%d", len(bs)-1))
	verify(1)
	o.emit(fmt.Sprintf("(bundle.run (scope %s) %s %s %s %s)", bundleScope, w.sxKeys(), sxTrust(w.trusted), hs(w.permLoc), strings.Join(ops, " ")),
		strings.Join(outs, " | "))
}

// dupAttenuationEpisode: ONE Attenuate call with several caveats among which Add skips duplicates —
// of a caveat the token already carries, or of an earlier element of the list — at every position
// (first, in between, last).  For a verified token the verified set must gain exactly the caveats that
// were appended, in the order appended: Validate without re-verifying must answer like the printed
// header re-parsed and re-verified, in particular refuse a request only a NEW caveat prohibits.
func (w *bWorld) dupAttenuationEpisode() {
	r, o := w.r, w.o
	ctx := context.Background()
	var bs []*bundle.Bundle
	var ops, outs []string
	defer func() {
		if p := recover(); p != nil {
			msg := strings.ReplaceAll(strings.SplitN(fmt.Sprint(p), "\n", 2)[0], " ", "_")
			o.emit(fmt.Sprintf("(bundle.run (scope %s) %s %s %s %s)", bundleScope, w.sxKeys(), sxTrust(w.trusted), hs(w.permLoc), strings.Join(ops, " ")), "panic:"+msg)
		}
	}()
	step := func(op, out string) {
		ops = append(ops, op)
		outs = append(outs, out+"~"+statesStr(bs))
	}
	kid := w.kids[0]
	rw := resset.ActionRead | resset.ActionWrite
	ro := resset.ActionRead
	carried := []macaroon.Caveat{&flyio.Organization{ID: 1, Mask: resset.ActionAll}, &rw, &macaroon.ValidityWindow{NotBefore: 0, NotAfter: 4_000_000_000}}
	var parts []string
	for i, n := 0, 1+r.Intn(2); i < n; i++ {
		m, err := macaroon.New(kid, w.permLoc, w.keys[string(kid)])
		if err != nil {
			panic(err)
		}
		if err := m.Add(carried...); err != nil {
			panic(err)
		}
		parts = append(parts, b64tok(w.label(), mustEnc(m)))
	}
	hdr := "FlyV1 " + strings.Join(parts, ",")
	// new caveats: `ro` prohibits a write, the narrower window and the org mask are harmless for read/write now
	fresh := []macaroon.Caveat{&ro, &macaroon.ValidityWindow{NotBefore: 0, NotAfter: 3_000_000_000}, &flyio.Organization{ID: 1, Mask: rw},
		&flyio.Apps{Apps: resset.ResourceSet[uint64, resset.Action]{1: resset.ActionAll}}}
	// the argument list: 1-3 distinct new caveats, then duplicates (of carried ones and of list elements) inserted anywhere
	var list []macaroon.Caveat
	nNew := 1 + r.Intn(3)
	perm := []int{0, 1, 2, 3}
	for i := len(perm) - 1; i > 0; i-- {
		j := r.Intn(i + 1)
		perm[i], perm[j] = perm[j], perm[i]
	}
	if r.Chance(2, 3) { // make sure the caveat that prohibits the write is usually among them
		for i, x := range perm {
			if x == 0 {
				perm[0], perm[i] = perm[i], perm[0]
			}
		}
	}
	for _, x := range perm[:nNew] {
		list = append(list, fresh[x])
	}
	for i := len(list) - 1; i > 0; i-- {
		j := r.Intn(i + 1)
		list[i], list[j] = list[j], list[i]
	}
	nDup := 1 + r.Intn(2)
	kinds := ""
	for d := 0; d < nDup; d++ {
		var c macaroon.Caveat
		if r.Bool() {
			c = pick(r, carried)
			kinds += "c"
		} else {
			c = pick(r, list)
			kinds += "l"
		}
		at := r.Intn(len(list) + 1)
		list = append(list[:at], append([]macaroon.Caveat{c}, list[at:]...)...)
		switch {
		case at == 0:
			kinds += "F"
		case at == len(list)-1:
			kinds += "L"
		default:
			kinds += "M"
		}
	}
	o.count("dupatt.list" + fmt.Sprint(len(list)) + "." + kinds)
	mkReq := func(act resset.Action) (macaroon.Access, string) {
		d := r.Dyn()
		d.WF, d.NowSec, d.NowNsec, d.Org, d.Action = "", baseNow, 0, p64(1), act
		d.App = p64(1)
		return d.As("orgApp"), d.Sx("orgApp")
	}
	wAcc, wSx := mkReq(resset.ActionWrite)
	rAcc, rSx := mkReq(resset.ActionRead)
	validate := func(i int, acc macaroon.Access, sx string, tag string) {
		err := bs[i].Validate(acc)
		o.count("dupatt.validate." + tag + "." + flagStr(err))
		step(fmt.Sprintf("(validate %d %s)", i, sx), flagStr(err))
	}
	verify := func(i int) {
		cs, err := bs[i].Verify(ctx, w.resolver())
		step(fmt.Sprintf("(verify %d)", i), setsStr(cs, err))
	}
	sets := func(i int) {
		var p []string
		bundle.ForEach(bs[i], func(vm *bundle.VerifiedMacaroon) { p = append(p, sxCavs(vm.Caveats.Caveats)) })
		step(fmt.Sprintf("(sets %d)", i), "sets:"+strings.Join(p, "+"))
	}
	b, perr := bundle.ParseBundle(w.permLoc, hdr)
	bs = append(bs, b)
	e := "n"
	if perr != nil {
		e = "e"
	}
	step(fmt.Sprintf("(parse %s default)", hs(hdr)), "new0:"+e)
	verify(0)
	validate(0, wAcc, wSx, "before.write")
	items := make([]string, len(list))
	for i, c := range list {
		items[i] = "(c " + sxCav(c) + ")"
	}
	aerr := b.Attenuate(list...)
	o.count("dupatt.attenuate." + flagStr(aerr))
	step(fmt.Sprintf("(attenuate 0 %s)", strings.Join(items, " ")), flagStr(aerr))
	sets(0)
	validate(0, wAcc, wSx, "after.write")
	validate(0, rAcc, rSx, "after.read")
	step(fmt.Sprintf("(count 0 (allows %s))", wSx), fmt.Sprint(b.Count(bundle.AllowsAccess(wAcc))))
	step("(header 0)", hs(b.Header()))
	bs = append(bs, b.Clone())
	step("(clone 0)", "new1")
	verify(1)
	validate(1, wAcc, wSx, "reparsed.write")
	validate(1, rAcc, rSx, "reparsed.read")
	o.emit(fmt.Sprintf("(bundle.run (scope %s) %s %s %s %s)", bundleScope, w.sxKeys(), sxTrust(w.trusted), hs(w.permLoc), strings.Join(ops, " ")),
		strings.Join(outs, " | "))
}

// confusableLocationsEpisode: one token with third-party caveats for locations that differ only in a
// trailing slash / letter case (legal: Add refuses only the identical string), distinct keys.
// IsMissingDischarge, UndischargedTicketsForThirdParty and Discharge must treat them as the different
// third parties they are.
func (w *bWorld) confusableLocationsEpisode() {
	r, o := w.r, w.o
	ctx := context.Background()
	var bs []*bundle.Bundle
	var ops, outs []string
	defer func() {
		if p := recover(); p != nil {
			msg := strings.ReplaceAll(strings.SplitN(fmt.Sprint(p), "\n", 2)[0], " ", "_")
			o.emit(fmt.Sprintf("(bundle.run (scope %s) %s %s %s %s)", bundleScope, w.sxKeys(), sxTrust(w.trusted), hs(w.permLoc), strings.Join(ops, " ")), "panic:"+msg)
		}
	}()
	step := func(op, out string) {
		ops = append(ops, op)
		outs = append(outs, out+"~"+statesStr(bs))
	}
	base := pick(r, []string{"https://auth.example", "https://auth.example/v1", "tp"})
	parties := []tpParty{{base, r.Bytes(32)}, {base + "/", r.Bytes(32)}, {strings.ToUpper(base), r.Bytes(32)}}
	n := 2 + r.Intn(2)
	parties = parties[:n]
	for i := len(parties) - 1; i > 0; i-- {
		j := r.Intn(i + 1)
		parties[i], parties[j] = parties[j], parties[i]
	}
	kid := w.kids[0]
	m, err := macaroon.New(kid, w.permLoc, w.keys[string(kid)])
	if err != nil {
		panic(err)
	}
	m.Add(&flyio.Organization{ID: 1, Mask: resset.ActionAll})
	for _, p := range parties {
		if err := m.Add3P(p.ka, p.loc); err != nil {
			panic(err)
		}
	}
	o.count(fmt.Sprintf("confusable.parties.%d", n))
	hdr := "FlyV1 " + b64tok("fm2", mustEnc(m))
	b, perr := bundle.ParseBundle(w.permLoc, hdr)
	bs = append(bs, b)
	e := "n"
	if perr != nil {
		e = "e"
	}
	step(fmt.Sprintf("(parse %s default)", hs(hdr)), "new0:"+e)
	look := func() {
		for _, p := range parties {
			ts := b.UndischargedTicketsForThirdParty(p.loc)
			q := make([]string, len(ts))
			for x, t := range ts {
				q[x] = hx(t)
			}
			step(fmt.Sprintf("(undischargedFor 0 %s)", hs(p.loc)), "u:"+strings.Join(q, ","))
			step(fmt.Sprintf("(count 0 (missing %s))", hs(p.loc)), fmt.Sprint(b.Count(b.IsMissingDischarge(p.loc))))
		}
	}
	look()
	ro := resset.ActionRead
	for k, p := range parties {
		before := b.Len()
		err := b.Discharge(p.loc, p.ka, func([]macaroon.Caveat) ([]macaroon.Caveat, error) { return []macaroon.Caveat{&ro}, nil })
		rs := ""
		if err == nil {
			ms := bundle.Map(b, func(t bundle.Token) bundle.Token { return t })
			for _, t := range ms[before:] {
				rs += " " + hx(t.(bundle.Macaroon).Nonce().Rnd)
			}
		}
		o.count("confusable.discharge." + flagStr(err))
		step(fmt.Sprintf("(discharge 0 %s %s (ok (c %s))%s)", hs(p.loc), hx(p.ka), sxCav(&ro), rs), flagStr(err))
		if k == 0 {
			look()
		}
		cs, verr := b.Verify(ctx, w.resolver())
		step("(verify 0)", setsStr(cs, verr))
	}
	look()
	o.emit(fmt.Sprintf("(bundle.run (scope %s) %s %s %s %s)", bundleScope, w.sxKeys(), sxTrust(w.trusted), hs(w.permLoc), strings.Join(ops, " ")),
		strings.Join(outs, " | "))
}

// ---- flyio/bundle.go ----

// flyioEpisode: a bundle parsed with flyio.ParseBundle(WithFilter) from tokens of the four Fly.io
// locations; permission tokens with 0 / 1 / 2 agreeing / 2 conflicting Organization caveats and an
// Organization caveat inside IfPresent, rightly and wrongly keyed; queried through Count / Any /
// Select / Filter with flyio.IsPermissionToken / IsAuthToken / IsNewAuthToken / IsSecretsToken /
// IsForOrg / IsForOrgUnverified (and combinations) before and after Verify; flyio.UUIDs and
// flyio.NonceEmails (compared as the nonces they are derived from, in order).
func flyioEpisode(r *Rng, o *Out) {
	w := &bWorld{r: r, o: o, keys: map[string]macaroon.SigningKey{}, trusted: map[string][]macaroon.EncryptionKey{}}
	w.permLoc = flyio.LocationPermission
	for i, n := 0, 1+r.Intn(2); i < n; i++ {
		kid := r.Bytes(8)
		w.kids = append(w.kids, kid)
		w.keys[string(kid)] = r.Bytes(32)
	}
	w.tps = []tpParty{{flyio.LocationAuthentication, r.Bytes(32)}, {flyio.LocationNewAuthentication, r.Bytes(32)}}
	for _, p := range w.tps {
		if r.Bool() {
			w.trusted[p.loc] = []macaroon.EncryptionKey{p.ka}
		}
	}
	org := func(id uint64, mask resset.Action) macaroon.Caveat { return &flyio.Organization{ID: id, Mask: mask} }
	shapes := map[string]func() []macaroon.Caveat{
		"org0": func() []macaroon.Caveat { return nil },
		"org1": func() []macaroon.Caveat { return []macaroon.Caveat{org(pick(r, []uint64{1, 2, 3}), resset.ActionAll)} },
		"org2same": func() []macaroon.Caveat {
			return []macaroon.Caveat{org(1, resset.ActionAll), org(1, resset.ActionRead)}
		},
		"org2conflict": func() []macaroon.Caveat {
			return []macaroon.Caveat{org(1, resset.ActionAll), org(2, resset.ActionAll)}
		},
		"orgInIfPresent": func() []macaroon.Caveat {
			return []macaroon.Caveat{&resset.IfPresent{Ifs: macaroon.NewCaveatSet(org(pick(r, []uint64{1, 2}), resset.ActionAll)), Else: resset.ActionRead}}
		},
		"orgAndIfPresentConflict": func() []macaroon.Caveat {
			return []macaroon.Caveat{org(1, resset.ActionAll), &resset.IfPresent{Ifs: macaroon.NewCaveatSet(org(2, resset.ActionAll)), Else: resset.ActionAll}}
		},
		"orgWildcard": func() []macaroon.Caveat { return []macaroon.Caveat{org(0, resset.ActionAll)} },
		"orgPlusApps": func() []macaroon.Caveat {
			return []macaroon.Caveat{org(2, resset.ActionAll), &flyio.Apps{Apps: resset.ResourceSet[uint64, resset.Action]{1: resset.ActionAll}}}
		},
	}
	names := make([]string, 0, len(shapes))
	for n := range shapes {
		names = append(names, n)
	}
	sort.Strings(names)
	var parts []string
	for i, n := 0, 2+r.Intn(4); i < n; i++ {
		loc := pick(r, []string{flyio.LocationPermission, flyio.LocationPermission, flyio.LocationPermission, flyio.LocationAuthentication, flyio.LocationNewAuthentication, flyio.LocationSecrets, "https://elsewhere.example"})
		kid := pick(r, w.kids)
		key := w.keys[string(kid)]
		keyed := "ok"
		if r.Chance(1, 5) {
			key = r.Bytes(32)
			keyed = "wrongkey"
		}
		m, err := macaroon.New(kid, loc, key)
		if err != nil {
			panic(err)
		}
		shape := pick(r, names)
		if err := m.Add(shapes[shape]()...); err != nil {
			panic(err)
		}
		if loc == flyio.LocationPermission {
			o.count("flyio.perm." + shape + "." + keyed)
		} else {
			o.count("flyio.other." + loc)
		}
		// sometimes a third-party caveat discharged at the authentication location
		if loc == flyio.LocationPermission && r.Chance(1, 3) {
			p := pick(r, w.tps)
			it, err := newTP(p.ka, p.loc)
			if err != nil {
				panic(err)
			}
			if err := m.Add(it.cav); err != nil {
				panic(err)
			}
			if r.Chance(3, 4) {
				_, dm, err := macaroon.DischargeTicket(p.ka, p.loc, it.tp.ticket)
				if err != nil {
					panic(err)
				}
				if r.Bool() {
					a := auth.FlyioUserID(5)
					dm.Add(&a)
				}
				parts = append(parts, b64tok(w.label(), mustEnc(dm)))
			}
		}
		parts = append(parts, b64tok(w.label(), mustEnc(m)))
	}
	if r.Chance(1, 3) {
		parts = append(parts, pick(r, []string{"fm2_!!!", "hello", "fo1_abc"}))
	}
	for i := len(parts) - 1; i > 0; i-- {
		j := r.Intn(i + 1)
		parts[i], parts[j] = parts[j], parts[i]
	}
	hdr := "FlyV1 " + strings.Join(parts, ",")

	var bs []*bundle.Bundle
	var ops, outs []string
	defer func() {
		if p := recover(); p != nil {
			msg := strings.ReplaceAll(strings.SplitN(fmt.Sprint(p), "\n", 2)[0], " ", "_")
			o.emit(fmt.Sprintf("(bundle.run (scope %s) %s %s %s %s)", bundleScope, w.sxKeys(), sxTrust(w.trusted), hs(w.permLoc), strings.Join(ops, " ")), "panic:"+msg)
		}
	}()
	step := func(op, out string) {
		ops = append(ops, op)
		outs = append(outs, out+"~"+statesStr(bs))
	}
	{
		var b *bundle.Bundle
		var err error
		fsx := "default"
		if r.Chance(1, 3) {
			b, err = flyio.ParseBundleWithFilter(hdr, bundle.KeepAll)
			fsx = "all"
		} else {
			b, err = flyio.ParseBundle(hdr)
		}
		bs = append(bs, b)
		e := "n"
		if err != nil {
			e = "e"
		}
		step(fmt.Sprintf("(parse %s %s)", hs(hdr), fsx), "new0:"+e)
	}
	var genPred func(depth int) bPred
	genPred = func(depth int) bPred {
		k := r.Intn(11)
		if depth <= 0 && k >= 8 {
			k = r.Intn(8)
		}
		oid := pick(r, []uint64{1, 1, 2, 2, 0, 3})
		switch k {
		case 0:
			return constPred(flyio.IsPermissionToken, "flyPerm")
		case 1:
			return constPred(flyio.IsAuthToken, "flyAuth")
		case 2:
			return constPred(flyio.IsNewAuthToken, "flyNewAuth")
		case 3:
			return constPred(flyio.IsSecretsToken, "flySecrets")
		case 4, 5:
			now := time.Now()
			return constPred(flyio.IsForOrg(oid), fmt.Sprintf("(forOrg %d %d %d)", oid, now.Unix(), now.Nanosecond()))
		case 6, 7:
			return constPred(flyio.IsForOrgUnverified(oid), fmt.Sprintf("(forOrgUnv %d)", oid))
		case 8:
			a, b := genPred(depth-1), genPred(depth-1)
			return bPred{func(x *bundle.Bundle) bundle.Predicate { return bundle.And(a.mk(x), b.mk(x)) }, "(and " + a.sx + " " + b.sx + ")"}
		case 9:
			a, b := genPred(depth-1), genPred(depth-1)
			return bPred{func(x *bundle.Bundle) bundle.Predicate { return bundle.Or(a.mk(x), b.mk(x)) }, "(or " + a.sx + " " + b.sx + ")"}
		default:
			a := genPred(depth - 1)
			return bPred{func(x *bundle.Bundle) bundle.Predicate { return bundle.Not(a.mk(x)) }, "(not " + a.sx + ")"}
		}
	}
	query := func(phase string) {
		i := r.Intn(len(bs))
		b := bs[i]
		p := genPred(1)
		switch k := r.Intn(8); {
		case k < 3:
			n := b.Count(p.mk(b))
			o.count(fmt.Sprintf("flyio.%s.count.%d", phase, min(n, 2)))
			step(fmt.Sprintf("(count %d %s)", i, p.sx), fmt.Sprint(n))
		case k < 5:
			a := b.Any(p.mk(b))
			o.count(fmt.Sprintf("flyio.%s.any.%v", phase, a))
			step(fmt.Sprintf("(any %d %s)", i, p.sx), fmt.Sprint(a))
		case k < 6 && len(bs) < 4:
			bs = append(bs, b.Select(p.mk(b)))
			o.count("flyio." + phase + ".select")
			step(fmt.Sprintf("(select %d %s)", i, p.sx), fmt.Sprintf("new%d", len(bs)-1))
		case k < 7 && i > 0:
			b.Filter(p.mk(b))
			o.count("flyio." + phase + ".filter")
			step(fmt.Sprintf("(filter %d %s)", i, p.sx), "-")
		default:
			// UUIDs / NonceEmails, as the nonces they are derived from
			byUUID := map[string]string{}
			for _, m := range macsOf(b) {
				byUUID[m.Nonce().UUID().String()] = hx(m.Nonce().KID) + ":" + hx(m.Nonce().Rnd)
			}
			us := flyio.UUIDs(b)
			es := flyio.NonceEmails(b)
			out := make([]string, len(us))
			okEmails := len(es) == len(us)
			for j, u := range us {
				out[j] = byUUID[u]
				if out[j] == "" {
					out[j] = "?"
				}
				if okEmails && es[j] != u+"@tokens.fly.io" {
					okEmails = false
				}
			}
			res := "n:" + strings.Join(out, ",")
			if !okEmails {
				res += "!emails"
			}
			o.count("flyio." + phase + ".uuids")
			step(fmt.Sprintf("(uuids %d)", i), res)
		}
	}
	for k, n := 0, 2+r.Intn(3); k < n; k++ {
		query("before")
	}
	{
		cs, err := bs[0].Verify(context.Background(), w.resolver())
		o.count(fmt.Sprintf("flyio.verify.%s.%d", flagStr(err), min(len(cs), 3)))
		step("(verify 0)", setsStr(cs, err))
	}
	for k, n := 0, 3+r.Intn(4); k < n; k++ {
		query("after")
	}
	o.emit(fmt.Sprintf("(bundle.run (scope %s) %s %s %s %s)", bundleScope, w.sxKeys(), sxTrust(w.trusted), hs(w.permLoc), strings.Join(ops, " ")),
		strings.Join(outs, " | "))
}

func famBundle(r *Rng, o *Out, tier string) {
	f6Probe(r, o)
	n := 150
	if tier == "thorough" {
		n = 2500
	}
	for e := 0; e < n; e++ {
		w := newBWorld(r, o)
		w.big = tier == "thorough"
		for k := 0; k < 3; k++ {
			w.episode()
		}
		w.tpAttenuationEpisode()
		w.partialDischargeEpisode()
		w.failedAttenuationEpisode()
		w.dischargeLocationEpisode()
		w.dupAttenuationEpisode()
		w.sharedDischargeEpisode()
		if e%10 == 7 {
			w.largeVerifiedSetEpisode()
		}
		if r.Chance(1, 3) {
			w.confusableLocationsEpisode()
		}
		flyioEpisode(r, o)
	}
}

func envOr(k, d string) string {
	if v := os.Getenv(k); v != "" {
		return v
	}
	return d
}
