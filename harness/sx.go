package main

// S-expression printing of caveats, requests and errors: the canonical
// vocabulary of the line protocol shared with the Lean driver.

import (
	"encoding/hex"
	"errors"
	"fmt"
	"math/big"
	"sort"
	"strings"

	"github.com/superfly/macaroon"
	"github.com/superfly/macaroon/auth"
	"github.com/superfly/macaroon/flyio"
	"github.com/superfly/macaroon/resset"
)

func hx(b []byte) string { return "x" + hex.EncodeToString(b) }
func hs(s string) string { return hx([]byte(s)) }

func sxStrSet(name string, rs resset.ResourceSet[string, resset.Action]) string {
	keys := make([]string, 0, len(rs))
	for k := range rs {
		keys = append(keys, k)
	}
	sort.Strings(keys)
	var sb strings.Builder
	sb.WriteString("(" + name)
	for _, k := range keys {
		fmt.Fprintf(&sb, " (%s %d)", hs(k), uint16(rs[k]))
	}
	sb.WriteString(")")
	return sb.String()
}

func sxCavs(cs []macaroon.Caveat) string {
	parts := make([]string, len(cs))
	for i, c := range cs {
		parts[i] = sxCav(c)
	}
	return "(" + strings.Join(parts, " ") + ")"
}

// sxCav prints a caveat. Unknown Go caveat types print as (gounknown <type>), which
// the model refuses, so a new caveat kind in the library breaks the tie visibly.
func sxCav(c macaroon.Caveat) string {
	switch v := c.(type) {
	case nil:
		return "(gonil)"
	case *flyio.Organization:
		return fmt.Sprintf("(org %d %d)", v.ID, uint16(v.Mask))
	case *flyio.Apps:
		keys := make([]uint64, 0, len(v.Apps))
		for k := range v.Apps {
			keys = append(keys, k)
		}
		sort.Slice(keys, func(i, j int) bool { return keys[i] < keys[j] })
		var sb strings.Builder
		sb.WriteString("(apps")
		for _, k := range keys {
			fmt.Fprintf(&sb, " (%d %d)", k, uint16(v.Apps[k]))
		}
		sb.WriteString(")")
		return sb.String()
	case *flyio.Volumes:
		return sxStrSet("volumes", v.Volumes)
	case *flyio.Machines:
		return sxStrSet("machines", v.Machines)
	case *flyio.FeatureSet:
		return sxStrSet("featureSet", v.Features)
	case *flyio.MachineFeatureSet:
		return sxStrSet("machineFeatureSet", v.Features)
	case *flyio.AppFeatureSet:
		return sxStrSet("appFeatureSet", v.Features)
	case *flyio.Clusters:
		return sxStrSet("clusters", v.Clusters)
	case *flyio.StorageObjects:
		m := resset.ResourceSet[string, resset.Action]{}
		for k, a := range v.Prefixes {
			m[string(k)] = a
		}
		return sxStrSet("storageObjects", m)
	case *macaroon.ValidityWindow:
		return fmt.Sprintf("(vw %d %d)", v.NotBefore, v.NotAfter)
	case *flyio.Mutations:
		if v.Mutations == nil {
			return "(mutations nil)"
		}
		var sb strings.Builder
		sb.WriteString("(mutations")
		for _, m := range v.Mutations {
			sb.WriteString(" " + hs(m))
		}
		sb.WriteString(")")
		return sb.String()
	case *auth.ConfineUser:
		return fmt.Sprintf("(confineUser %d)", v.ID)
	case *auth.ConfineOrganization:
		return fmt.Sprintf("(confineOrg %d)", v.ID)
	case *flyio.IsUser:
		return fmt.Sprintf("(isUser %d)", v.ID)
	case *macaroon.Caveat3P:
		return fmt.Sprintf("(tp %s %s %s)", hs(v.Location), hx(v.VerifierKey), hx(v.Ticket))
	case *macaroon.BindToParentToken:
		return fmt.Sprintf("(bind %s)", hx(*v))
	case *resset.IfPresent:
		if v.Ifs == nil {
			return fmt.Sprintf("(ifp nil %d)", uint16(v.Else))
		}
		return fmt.Sprintf("(ifp %s %d)", sxCavs(v.Ifs.Caveats), uint16(v.Else))
	case *flyio.FromMachine:
		return fmt.Sprintf("(fromMachine %s)", hs(v.ID))
	case *auth.ConfineGoogleHD:
		return fmt.Sprintf("(googleHD %s)", hs(string(*v)))
	case *auth.ConfineGitHubOrg:
		return fmt.Sprintf("(githubOrg %d)", uint64(*v))
	case *auth.MaxValidity:
		return fmt.Sprintf("(maxValidity %d)", uint64(*v))
	case *flyio.IsMember:
		return "(isMember)"
	case *auth.FlyioUserID:
		return fmt.Sprintf("(flyioUser %d)", uint64(*v))
	case *auth.GitHubUserID:
		return fmt.Sprintf("(githubUser %d)", uint64(*v))
	case *auth.GoogleUserID:
		return fmt.Sprintf("(googleUser %s)", new(big.Int).Abs((*big.Int)(v)).String())
	case *resset.Action:
		return fmt.Sprintf("(action %d)", uint16(*v))
	case *flyio.Commands:
		if *v == nil {
			return "(commands nil)"
		}
		var sb strings.Builder
		sb.WriteString("(commands")
		for _, cmd := range *v {
			ex := 0
			if cmd.Exact {
				ex = 1
			}
			if cmd.Args == nil {
				fmt.Fprintf(&sb, " (cmd nil %d)", ex)
			} else {
				sb.WriteString(" (cmd (")
				for i, a := range cmd.Args {
					if i > 0 {
						sb.WriteString(" ")
					}
					sb.WriteString(hs(a))
				}
				fmt.Fprintf(&sb, ") %d)", ex)
			}
		}
		sb.WriteString(")")
		return sb.String()
	case *flyio.AllowedRoles:
		return fmt.Sprintf("(allowedRoles %d)", uint32(*v))
	case *flyio.FlySrc:
		return fmt.Sprintf("(flySrc %s %s %s)", hs(v.Organization), hs(v.App), hs(v.Instance))
	case *macaroon.UnregisteredCaveat:
		return fmt.Sprintf("(unreg %d %s)", uint64(v.Type), hx(v.RawMsgpack))
	case *userCaveat:
		if v.Attest {
			return "(flyioUser 0)"
		}
		return fmt.Sprintf("(unreg %d xc0)", uint64(v.CaveatType()))
	default:
		return fmt.Sprintf("(gounknown %d)", uint64(c.CaveatType()))
	}
}

// ---- errors ----

type sentinel struct {
	name string
	err  error
}

// most specific first: a leaf is named after the first sentinel met on the way down
var sentinels = []sentinel{
	{"resUnspecified", resset.ErrResourceUnspecified},
	{"resMutEx", resset.ErrResourcesMutuallyExclusive},
	{"forResource", resset.ErrUnauthorizedForResource},
	{"forAction", resset.ErrUnauthorizedForAction},
	{"forRole", flyio.ErrUnauthorizedForRole},
	{"invalidAccess", macaroon.ErrInvalidAccess},
	{"badCaveat", macaroon.ErrBadCaveat},
	{"unauthorized", macaroon.ErrUnauthorized},
}

var errForeign = errors.New("foreign validate error")

// errLeaves walks the error tree as errors.Is does and names every leaf.
func errLeaves(e error, out *[]string) {
	if e == nil {
		return
	}
	for _, s := range sentinels {
		if e == s.err {
			*out = append(*out, s.name)
			return
		}
	}
	switch e.(type) {
	case *auth.ConfineUser, *auth.ConfineOrganization, *auth.ConfineGoogleHD, *auth.ConfineGitHubOrg:
		*out = append(*out, "confine")
		return
	}
	switch u := e.(type) {
	case interface{ Unwrap() []error }:
		for _, x := range u.Unwrap() {
			errLeaves(x, out)
		}
	case interface{ Unwrap() error }:
		if x := u.Unwrap(); x != nil {
			errLeaves(x, out)
		} else {
			*out = append(*out, "other")
		}
	default:
		*out = append(*out, "other")
	}
}

// sxErr is the canonical observable of an error result: "ok" or "errs:<leaf,leaf,...>".
// The P-observable is ok vs errs; the leaf sequence is the fidelity observable.
func sxErr(e error) string {
	if e == nil {
		return "ok"
	}
	var ls []string
	errLeaves(e, &ls)
	// cross-check the walk against errors.Is for every sentinel
	for _, s := range sentinels {
		is := errors.Is(e, s.err)
		mine := false
		for _, l := range ls {
			if leafIs(l, s.name) {
				mine = true
			}
		}
		if is != mine {
			return fmt.Sprintf("errs:WALK-MISMATCH(%s,%v,%v)", s.name, is, ls)
		}
	}
	return "errs:" + strings.Join(ls, ",")
}

func leafIs(leaf, s string) bool {
	if leaf == s {
		return true
	}
	switch leaf {
	case "resUnspecified", "resMutEx":
		return s == "invalidAccess" || s == "unauthorized"
	case "forResource", "forAction", "forRole", "invalidAccess", "badCaveat":
		return s == "unauthorized"
	}
	return false
}
