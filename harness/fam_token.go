package main

// Token-level families.
//   legit (C05; also run by C04 and C11): mint -> attenuation steps by holders working from bytes -> discharges
//   (proof and non-proof, bound or not) -> Verify; every produced byte string must be reproduced by the model
//   from the extracted randomness, and Verify must return the expected caveat list.
//
// What one history of famLegit draws (every choice is counted in meta.json):
//   mint         key of 32 bytes or 0 (nil / empty), 1, 16, 31, 33, 64, 65, 128; key-id of 0, 1, 8, 16, 31, 32, 255, 256,
//                300 bytes (65535 / 65536 in the thorough tier); location plain, or with a trailing slash, upper case,
//                port, query, leading blank, Unicode, bytes that are not UTF-8, 31 / 32 / 255 / 256 characters (65536
//                thorough); new nonce format, or the old one hand-built with a random part of 0..32 bytes; a refused
//                mint is reported
//   steps        0..4 (8..15 sometimes, thorough); before a step possibly a hop: decode(encode), Clone, String -> Parse
//                (bare or behind the scheme name) -> Decode, or two hops in a row
//   arguments    0..3 per Add call from: WireCav / wideCav values (a value of registered kinds that does not survive a
//                hop is REPORTED, not skipped), byte-identical re-adds (same object / equal copy), near-duplicates (same
//                body under another type also sharing the Go map, one field off, a key more, other letter case, other
//                order), the same new value twice in one call, nests of 4..40 conditionals, 210 and 1030 caveats in one
//                call, third-party caveats (0..3 usually, up to 12 thorough; locations that are spellings of one host;
//                third parties sharing a key; the same value twice in one call; via NewCaveat3P+Add or via Add3P),
//                and arguments that must be REFUSED and leave the token usable: a second caveat for a used location
//                (new value / same value again), an attestation on a non-proof token
//   discharges   per third-party caveat a genuine one (sometimes two, the first presented decides): proof (extra caveats,
//                attestations, hand-written bindings of 1..32 bytes, Bind to the final token or to ANY earlier version
//                of it, once or twice, clone before the first encode, add-after-encode refused + encode again) or
//                non-proof (three-field nonce, or two-field hand-built; attenuated again after a hop; bound to the final
//                token or an ancestor); under the caveat's location or another one
//   presentation candidates that do not fit, the same discharge twice, junk (random bytes, empty, nil, an unrelated
//                token, the token itself, a discharge of another ticket) at any position, the whole list shuffled or not
//   trust        nil map / empty map / the right key alone / behind and in front of keys that do not open the ticket
//                (also of the wrong size) / only such keys / the right key under another location; attestations of a
//                proof come back iff its key is listed under the discharge's own location
//   oracles      Verify returns exactly first-party caveats in order of addition (duplicates collapsed) ++ the kept
//                caveats of the first fitting candidate per third-party caveat in CAVEAT order; the same on the object
//                in hand and on a second call; arguments and token unchanged; the ticket yields the author's caveats
//   then         a fork (Clone or second Decode; both branches attenuated, either order, both verified with the common
//                discharges), values outside the modelled value space (nil key-id, nil maps / slices / set pointer:
//                (const match), judged on the Go side alone), the same third-party caveat value on a second token, one
//                caveat list applied to two tokens

import (
	"bytes"
	"context"
	"crypto/sha256"
	"fmt"
	"math/big"
	"strings"

	"github.com/superfly/macaroon"
	"github.com/superfly/macaroon/auth"
	"github.com/superfly/macaroon/bundle"
	"github.com/superfly/macaroon/flyio"
	"github.com/superfly/macaroon/resset"
)

func init() {
	families["legit"] = famLegit
}

func isPlainKind(c macaroon.Caveat) bool {
	switch c.(type) {
	case *macaroon.Caveat3P, *macaroon.BindToParentToken:
		return false
	}
	return !macaroon.IsAttestation(c)
}

func (r *Rng) plainCav(depth int) macaroon.Caveat {
	for {
		c := r.WireCav(depth)
		if !isPlainKind(c) || containsAttestation(c) {
			continue
		}
		// a holder works from bytes: only values that survive a hop unchanged (an unregistered caveat
		// with a nil body, also inside a wrapper, decodes to something that cannot be re-encoded)
		b, err := encOne(c)
		if err != nil {
			continue
		}
		cs, err := macaroon.DecodeCaveats(b)
		if err != nil || len(cs.Caveats) != 1 {
			continue
		}
		b2, err := cs.MarshalMsgpack()
		if err != nil || string(b2) != string(b) {
			continue
		}
		if _, ok := c.(*macaroon.UnregisteredCaveat); ok {
			return cs.Caveats[0]
		}
		return c
	}
}

func containsAttestation(c macaroon.Caveat) bool {
	if macaroon.IsAttestation(c) {
		return true
	}
	if w, ok := c.(macaroon.WrapperCaveat); ok && w.Unwrap() != nil {
		for _, x := range w.Unwrap().Caveats {
			if containsAttestation(x) {
				return true
			}
			switch x.(type) {
			case *macaroon.Caveat3P, *macaroon.BindToParentToken:
				return true
			}
		}
	}
	return false
}

type tpParty struct {
	loc string
	ka  []byte
}

// oldFormatToken hand-builds a token with a two-field (version 0) nonce
func oldFormatToken(key, kid, rnd []byte, loc string) []byte {
	nonce := mpEnc(&mpNode{Kind: mpArr, Kids: []*mpNode{{Kind: mpBin, S: kid}, {Kind: mpBin, S: rnd}}})
	tail := hmacSum(key, nonce)
	out := append([]byte{0x94}, nonce...)
	out = append(out, mpEnc(mpStrNode(loc))...)
	out = append(out, 0x90)
	out = append(out, mpEnc(&mpNode{Kind: mpBin, S: tail})...)
	return out
}

// ---- family-local generators (wider pools than gen.go / WireCav; every choice is counted) ----

// a minting key is any byte string (an HMAC key): empty, nil, short, block-sized and longer than the SHA-256 block
func (r *Rng) legitKey(o *Out) []byte {
	if r.Chance(4, 5) {
		o.count("key.len32")
		return r.Bytes(32)
	}
	n := pick(r, []int{0, 1, 16, 31, 33, 64, 65, 128})
	o.count(fmt.Sprintf("key.len%d", n))
	if n == 0 && r.Bool() {
		o.count("key.nil")
		return nil
	}
	return r.Bytes(n)
}

// key-ids: empty (non-nil), every bin8 / bin16 header boundary (the bin32 boundary in the thorough tier)
func (r *Rng) legitKid(o *Out, tier string) []byte {
	n := pick(r, []int{1, 8, 16, 0, 300, 31, 32, 255, 256})
	if tier == "thorough" && r.Chance(1, 400) {
		n = pick(r, []int{65535, 65536})
	}
	o.count(fmt.Sprintf("kid.len%d", n))
	return r.Bytes(n)
}

var legitLocsPlain = []string{"https://api.fly.io/v1", "loc", ""}
var legitLocsWide = []string{"https://api.fly.io/v1/", "HTTPS://API.FLY.IO/V1", "https://api.fly.io/v1?x=1&y=2", "https://api.fly.io:443/v1#f",
	" https://api.fly.io/v1", "https://\xc3\xa9.example/\xe2\x84\xaa", "\xff\xfe\x00", "a\x00b", strings.Repeat("l", 31), strings.Repeat("l", 32),
	strings.Repeat("l", 255), strings.Repeat("l", 256)}

// the location of a token is any string (it is not signed, but every hop must carry it unchanged)
func (r *Rng) legitLoc(o *Out, tier string) string {
	if tier == "thorough" && r.Chance(1, 400) {
		o.count("loc.str32")
		return strings.Repeat("L", pick(r, []int{65535, 65536}))
	}
	if r.Chance(2, 3) {
		o.count("loc.plain")
		return pick(r, legitLocsPlain)
	}
	o.count("loc.wide")
	return pick(r, legitLocsWide)
}

// third-party locations: the three names used so far, then spellings that differ only in case, a trailing slash, a
// port, a query, leading white space, Unicode, bytes that are not UTF-8, the empty string, a long one - all of them
// DIFFERENT locations for Add's one-caveat-per-location rule
var legitPartyLocs = []string{"https://auth.example", "https://other.example", "tp3", "", "https://auth.example/", "HTTPS://AUTH.EXAMPLE",
	"https://Auth.Example", "https://auth.example/v1?x=1", "https://auth.example:443", " https://auth.example", "https://\xc3\xa9.example",
	"\xff", strings.Repeat("p", 300)}

var legitPartyCluster = []string{"https://auth.example", "https://auth.example/", "HTTPS://AUTH.EXAMPLE", "https://Auth.Example", "https://auth.example:443", " https://auth.example", "https://auth.example/v1?x=1"}

func (r *Rng) legitParties(o *Out, tier string) []tpParty {
	n := 3
	if r.Chance(1, 4) {
		n = 4 + r.Intn(3)
	}
	if tier == "thorough" && r.Chance(1, 10) {
		n = 7 + r.Intn(6)
	}
	var locs []string
	shuffle := func(xs []string) []string {
		xs = append([]string{}, xs...)
		for i := len(xs) - 1; i > 0; i-- {
			j := r.Intn(i + 1)
			xs[i], xs[j] = xs[j], xs[i]
		}
		return xs
	}
	switch r.Intn(4) {
	case 0, 1:
		locs = append(locs, legitPartyLocs[:3]...) // the old pool in its old order
		o.count("parties.plain")
	case 2:
		// spellings of ONE host first (they meet in one token), then the rest
		locs = append(shuffle(legitPartyCluster), shuffle(legitPartyLocs[1:])...)
		o.count("parties.lookalikes")
	default:
		locs = shuffle(legitPartyLocs)
		o.count("parties.wide")
	}
	// (no location twice)
	uniq := locs[:0:0]
	for _, l := range locs {
		dup := false
		for _, u := range uniq {
			dup = dup || u == l
		}
		if !dup {
			uniq = append(uniq, l)
		}
	}
	locs = uniq
	if n > len(locs) {
		n = len(locs)
	}
	ps := make([]tpParty, n)
	for i := range ps {
		ps[i] = tpParty{locs[i], r.Bytes(32)}
		// two third parties may share one key (one service under two names)
		if i > 0 && r.Chance(1, 6) {
			ps[i].ka = ps[r.Intn(i)].ka
			o.count("parties.sharedKey")
		}
	}
	return ps
}

// hopStable: the value survives a hop (encode, decode, encode) byte for byte and is a first-party, non-attestation
// kind; an unregistered caveat is handed out in its decoded form
func hopStable(c macaroon.Caveat) (macaroon.Caveat, bool) {
	if c == nil || !isPlainKind(c) || containsAttestation(c) {
		return nil, false
	}
	b, err := encOne(c)
	if err != nil {
		return nil, false
	}
	cs, err := macaroon.DecodeCaveats(b)
	if err != nil || len(cs.Caveats) != 1 {
		return nil, false
	}
	b2, err := cs.MarshalMsgpack()
	if err != nil || string(b2) != string(b) {
		return nil, false
	}
	if _, ok := c.(*macaroon.UnregisteredCaveat); ok {
		return cs.Caveats[0], true
	}
	return c, true
}

// legitCav: three quarters from the pools the family always used, a quarter from the wide pools of fam_wire.go (zero
// ids, case variants, ids that are prefixes of each other, NFC/NFD, exact map sizes around the header boundaries,
// nil / long / repetitive conditionals, array16 lists, unknown types at every boundary with non-minimal bodies)
func (r *Rng) legitCav(o *Out, depth int, tier string) macaroon.Caveat {
	if r.Chance(1, 4) {
		for tries := 0; tries < 30; tries++ {
			if c, ok := legitStable(o, r.wideCav(o, depth, tier)); ok {
				o.count("cav.wide")
				return c
			}
		}
	}
	o.count("cav.narrow")
	for {
		if c, ok := legitStable(o, r.WireCav(depth)); ok {
			return c
		}
	}
}

func legitHasUnreg(c macaroon.Caveat) bool {
	if _, ok := c.(*macaroon.UnregisteredCaveat); ok {
		return true
	}
	if w, ok := c.(macaroon.WrapperCaveat); ok && w.Unwrap() != nil {
		for _, x := range w.Unwrap().Caveats {
			if legitHasUnreg(x) {
				return true
			}
		}
	}
	return false
}

// legitStable: hopStable, but a value of REGISTERED kinds only that does not survive a hop is reported, not skipped
// (on the unchanged library the only values that do not are unregistered caveats with bodies the generic decoder
// normalises): the filter must not hide a defect of the codec from this family
func legitStable(o *Out, c macaroon.Caveat) (macaroon.Caveat, bool) {
	if c == nil || !isPlainKind(c) || containsAttestation(c) {
		return nil, false
	}
	c2, ok := hopStable(c)
	if !ok && !legitHasUnreg(c) {
		o.emit("(const match)", fmt.Sprintf("value-of-registered-kinds-does-not-survive-a-hop:%T", c))
	}
	return c2, ok
}

// legitCavCopy: an equal value in another object (what a holder who decoded the token has in hand)
func legitCavCopy(c macaroon.Caveat) macaroon.Caveat {
	b, err := encOne(c)
	if err != nil {
		return c
	}
	cs, err := macaroon.DecodeCaveats(b)
	if err != nil || len(cs.Caveats) != 1 {
		return c
	}
	return cs.Caveats[0]
}

func (r *Rng) attestCav(o *Out) macaroon.Caveat {
	switch r.Intn(3) {
	case 0:
		u := auth.FlyioUserID(r.wU64())
		o.count("attest.flyio")
		return &u
	case 1:
		u := auth.GitHubUserID(r.wU64())
		o.count("attest.github")
		return &u
	default:
		u := auth.GoogleUserID(*new(big.Int).SetBytes(r.Bytes(pick(r, []int{0, 1, 8, 9, 21}))))
		o.count("attest.google")
		return &u
	}
}

func legitStrSetOf(c macaroon.Caveat) (resset.ResourceSet[string, resset.Action], int) {
	switch v := c.(type) {
	case *flyio.Volumes:
		return v.Volumes, 0
	case *flyio.Machines:
		return v.Machines, 1
	case *flyio.FeatureSet:
		return v.Features, 2
	case *flyio.MachineFeatureSet:
		return v.Features, 3
	case *flyio.AppFeatureSet:
		return v.Features, 4
	case *flyio.Clusters:
		return v.Clusters, 5
	}
	return nil, -1
}

func legitMkStrSet(kind int, m resset.ResourceSet[string, resset.Action]) macaroon.Caveat {
	switch kind {
	case 0:
		return &flyio.Volumes{Volumes: m}
	case 1:
		return &flyio.Machines{Machines: m}
	case 2:
		return &flyio.FeatureSet{Features: m}
	case 3:
		return &flyio.MachineFeatureSet{Features: m}
	case 4:
		return &flyio.AppFeatureSet{Features: m}
	case 5:
		return &flyio.Clusters{Clusters: m}
	default:
		p := resset.ResourceSet[resset.Prefix, resset.Action]{}
		for k, v := range m {
			p[resset.Prefix(k)] = v
		}
		return &flyio.StorageObjects{Prefixes: p}
	}
}

func legitFlipCase(s string) string {
	if u := strings.ToUpper(s); u != s {
		return u
	}
	return strings.ToLower(s)
}

// nearDup: a caveat that is NOT a duplicate of c although it looks like one - the same body under another type
// number (also the very same Go map object under two types), or the same type with one field off by one, a key more,
// another letter case, another order.  Both must end up in the token and in the verified list.  nil: no neighbour.
func (r *Rng) nearDup(o *Out, c macaroon.Caveat) macaroon.Caveat {
	other := func(kind string, cs ...macaroon.Caveat) macaroon.Caveat {
		o.count("neardup." + kind)
		return pick(r, cs)
	}
	if m, k := legitStrSetOf(c); k >= 0 {
		switch r.Intn(3) {
		case 0:
			return other("strset.othertype.samemap", legitMkStrSet((k+1+r.Intn(5))%6, m), legitMkStrSet(6, m))
		case 1:
			m2 := resset.ResourceSet[string, resset.Action]{"extra": 1}
			for id, a := range m {
				m2[id] = a
			}
			return other("strset.superset", legitMkStrSet(k, m2))
		default:
			m2 := resset.ResourceSet[string, resset.Action]{}
			for id, a := range m {
				m2[legitFlipCase(id)] = a
			}
			return other("strset.case", legitMkStrSet(k, m2))
		}
	}
	switch v := c.(type) {
	case *auth.ConfineUser:
		return other("id.struct", &auth.ConfineOrganization{ID: v.ID}, &flyio.IsUser{ID: v.ID}, &auth.ConfineUser{ID: v.ID + 1})
	case *auth.ConfineOrganization:
		return other("id.struct", &auth.ConfineUser{ID: v.ID}, &flyio.IsUser{ID: v.ID}, &auth.ConfineOrganization{ID: v.ID - 1})
	case *flyio.IsUser:
		return other("id.struct", &auth.ConfineUser{ID: v.ID}, &auth.ConfineOrganization{ID: v.ID}, &flyio.IsUser{ID: v.ID ^ 1})
	case *flyio.Organization:
		return other("org", &flyio.Organization{ID: v.ID, Mask: v.Mask ^ 1}, &flyio.Organization{ID: v.ID + 1, Mask: v.Mask}, &flyio.Organization{ID: uint64(v.Mask), Mask: resset.Action(v.ID)})
	case *flyio.Apps:
		m2 := resset.ResourceSet[uint64, resset.Action]{1<<64 - 1: 1}
		for id, a := range v.Apps {
			m2[id] = a
		}
		return other("apps.superset", &flyio.Apps{Apps: m2})
	case *flyio.StorageObjects:
		m := resset.ResourceSet[string, resset.Action]{}
		for id, a := range v.Prefixes {
			m[string(id)] = a
		}
		return other("strset.othertype", legitMkStrSet(r.Intn(6), m))
	case *macaroon.ValidityWindow:
		return other("window", &macaroon.ValidityWindow{NotBefore: v.NotBefore, NotAfter: v.NotAfter + 1}, &macaroon.ValidityWindow{NotBefore: v.NotAfter, NotAfter: v.NotBefore},
			&macaroon.ValidityWindow{NotBefore: v.NotBefore - 1, NotAfter: v.NotAfter})
	case *flyio.Mutations:
		rev := make([]string, len(v.Mutations))
		for i, s := range v.Mutations {
			rev[len(rev)-1-i] = s
		}
		return other("mutations", &flyio.Mutations{Mutations: append(append([]string{}, v.Mutations...), "")}, &flyio.Mutations{Mutations: append(rev, "x")})
	case *flyio.FromMachine:
		return other("text", &flyio.FromMachine{ID: v.ID + "/"}, &flyio.FromMachine{ID: legitFlipCase(v.ID) + "k"}, &flyio.FromMachine{ID: v.ID + "\x00"})
	case *auth.ConfineGoogleHD:
		a, b := auth.ConfineGoogleHD(string(*v)+"."), auth.ConfineGoogleHD(legitFlipCase(string(*v))+"K")
		return other("text", &a, &b)
	case *auth.ConfineGitHubOrg:
		a, b := auth.MaxValidity(uint64(*v)), auth.ConfineGitHubOrg(uint64(*v)+1)
		return other("bareint.othertype", &a, &b)
	case *auth.MaxValidity:
		a, b := auth.ConfineGitHubOrg(uint64(*v)), auth.MaxValidity(uint64(*v)-1)
		return other("bareint.othertype", &a, &b)
	case *resset.Action:
		a := *v ^ 1
		return other("action", &a)
	case *flyio.AllowedRoles:
		a := *v ^ 1
		return other("roles", &a)
	case *flyio.FlySrc:
		return other("flysrc", &flyio.FlySrc{Organization: v.App, App: v.Organization, Instance: v.Instance + "x"}, &flyio.FlySrc{Organization: v.Organization, App: v.App, Instance: v.Instance + " "})
	case *flyio.Commands:
		c2 := append(append(flyio.Commands{}, *v...), flyio.Command{Args: []string{"near"}, Exact: true})
		return other("commands", &c2)
	case *resset.IfPresent:
		if v.Ifs == nil {
			return nil
		}
		return other("conditional", &resset.IfPresent{Ifs: v.Ifs, Else: v.Else ^ 1}, &resset.IfPresent{Ifs: macaroon.NewCaveatSet(append(append([]macaroon.Caveat{}, v.Ifs.Caveats...), &flyio.IsMember{})...), Else: v.Else})
	}
	return nil
}

// legitAdd runs m.Add(items...) on the real token and emits the model operations that must reproduce it (as doAdd
// of tokens.go, but the sealing nonce of every third-party caveat is found by its ticket: one call may name the same
// caveat value twice, or fail half way)
func legitAdd(o *Out, m *macaroon.Macaroon, items []addItem) error {
	before := mustEnc(m)
	nBefore := len(m.UnsafeCaveats.Caveats)
	own := map[string]bool{}
	for _, c := range m.UnsafeCaveats.Caveats {
		if _, isTP := c.(*macaroon.Caveat3P); isTP {
			own[sxCav(c)] = true
		}
	}
	cavs := make([]macaroon.Caveat, len(items))
	for i, it := range items {
		cavs[i] = it.cav
	}
	err := m.Add(cavs...)
	after, eerr := m.Encode()
	afterS := "err-encode"
	if eerr == nil {
		afterS = hx(after)
	}
	vk := map[string][]byte{}
	if nBefore <= len(m.UnsafeCaveats.Caveats) {
		for _, c := range m.UnsafeCaveats.Caveats[nBefore:] {
			if c3, ok := c.(*macaroon.Caveat3P); ok && len(c3.VerifierKey) >= 12 {
				vk[string(c3.Ticket)] = c3.VerifierKey[:12]
			}
		}
	}
	parts := make([]string, len(items))
	emitted := map[string]bool{}
	for i, it := range items {
		if it.tp == nil {
			parts[i] = "(c " + sxCav(it.cav) + ")"
			continue
		}
		if !emitted[string(it.tp.ticket)] {
			emitted[string(it.tp.ticket)] = true
			o.emit(fmt.Sprintf("(tok.ticket %s %s %s %s)", hx(it.tp.ka), sxCavs(it.tp.cavs), hx(it.tp.rn), hx(it.tp.ticket[:12])), hx(it.tp.ticket))
		}
		// the token's OWN copy of a third-party caveat (sealed key filled in) handed to Add once more: to the library
		// and to the model it is a caveat like any other, collapsed as the duplicate it is
		if c3, isTP := it.cav.(*macaroon.Caveat3P); isTP && len(c3.VerifierKey) > 0 && own[sxCav(c3)] {
			parts[i] = "(c " + sxCav(c3) + ")"
			continue
		}
		n, ok := vk[string(it.tp.ticket)]
		if !ok {
			n = make([]byte, 12)
		}
		parts[i] = fmt.Sprintf("(new3p %s %s %s %s)", hs(it.tp.loc), hx(it.tp.ticket), hx(it.tp.rn), hx(n))
	}
	res := "ok " + afterS
	if err != nil {
		res = "err:" + addClass(err) + " " + afterS
	}
	o.emit(fmt.Sprintf("(tok.add %s (%s))", hx(before), strings.Join(parts, " ")), res)
	return err
}

// legitAdd3P: the convenience entry point Add3P(ka, loc, cs...) - the caveat is made inside the library, so ticket,
// discharge key and sealing nonce are read off the token afterwards
func legitAdd3P(o *Out, m *macaroon.Macaroon, p tpParty, tcavs []macaroon.Caveat) (addItem, bool) {
	before := mustEnc(m)
	nBefore := len(m.UnsafeCaveats.Caveats)
	err := m.Add3P(p.ka, p.loc, tcavs...)
	if err != nil || len(m.UnsafeCaveats.Caveats) != nBefore+1 {
		o.emit("(const match)", "add3p-refused-or-did-not-append-one-caveat")
		return addItem{}, false
	}
	c3, ok := m.UnsafeCaveats.Caveats[nBefore].(*macaroon.Caveat3P)
	if !ok || len(c3.VerifierKey) < 12 || len(c3.Ticket) < 12 {
		o.emit("(const match)", "add3p-appended-something-else")
		return addItem{}, false
	}
	rn, ok := ticketKey(p.ka, c3.Ticket)
	if !ok {
		o.emit("(const match)", "add3p-ticket-does-not-open-under-the-third-party-key")
		return addItem{}, false
	}
	o.emit(fmt.Sprintf("(tok.ticket %s %s %s %s)", hx(p.ka), sxCavs(tcavs), hx(rn), hx(c3.Ticket[:12])), hx(c3.Ticket))
	o.emit(fmt.Sprintf("(tok.add %s ((new3p %s %s %s %s)))", hx(before), hs(p.loc), hx(c3.Ticket), hx(rn), hx(c3.VerifierKey[:12])), "ok "+hx(mustEnc(m)))
	return addItem{cav: c3, tp: &tpInfo{p.ka, p.loc, tcavs, c3.Ticket, rn}}, true
}

// legitHop: the next holder works from what the previous one sent: the encoded token decoded again, a Clone, or the
// printed form (String: "fm2_" + base64) parsed back
func legitHop(r *Rng, o *Out, tok *macaroon.Macaroon) (*macaroon.Macaroon, bool) {
	fail := func(enc []byte, what string) (*macaroon.Macaroon, bool) {
		// a token the library itself produced must come back: report it, give up this history
		o.emit("(dec.mac "+hexb(enc)+")", "err")
		o.emit("(const match)", what)
		return nil, false
	}
	enc := mustEnc(tok)
	switch k := r.Intn(10); {
	case k < 5:
		o.count("hop.decode")
		t2, err := macaroon.Decode(enc)
		if err != nil {
			return fail(enc, "legit-token-does-not-decode:"+strings.ReplaceAll(err.Error(), " ", "_"))
		}
		return t2, true
	case k < 7:
		o.count("hop.clone")
		t2, err := tok.Clone()
		if err != nil {
			return fail(enc, "legit-token-does-not-clone:"+strings.ReplaceAll(err.Error(), " ", "_"))
		}
		return t2, true
	case k < 9:
		o.count("hop.string")
		s, err := tok.String()
		if err != nil {
			return fail(enc, "legit-token-does-not-print")
		}
		if r.Bool() {
			s = macaroon.ToAuthorizationHeader(enc) // the same text behind the scheme name
		}
		toks, err := macaroon.Parse(s)
		if err != nil || len(toks) != 1 || !bytes.Equal(toks[0], enc) {
			return fail(enc, "printed-token-does-not-parse-back-to-its-bytes")
		}
		t2, err := macaroon.Decode(toks[0])
		if err != nil {
			return fail(enc, "legit-token-does-not-decode:"+strings.ReplaceAll(err.Error(), " ", "_"))
		}
		return t2, true
	default:
		o.count("hop.double")
		t2, err := macaroon.Decode(enc)
		if err != nil {
			return fail(enc, "legit-token-does-not-decode:"+strings.ReplaceAll(err.Error(), " ", "_"))
		}
		enc2 := mustEnc(t2)
		t3, err := macaroon.Decode(enc2)
		if err != nil || !bytes.Equal(enc, enc2) {
			return fail(enc2, "second-hop-changes-the-token")
		}
		return t3, true
	}
}

type legitTP struct {
	p      tpParty
	ticket []byte
	rn     []byte
	tcavs  []macaroon.Caveat
	it     addItem // the very caveat value that was passed to Add
}

// one byte string presented to Verify as a discharge
type legitCand struct {
	tp   int    // which third-party caveat (index in caveat order) it is a candidate for; -1: none
	enc  []byte // what is presented
	cavs []macaroon.Caveat
	fits bool
	dloc string
	ka   []byte
}

// legitDischarge: one genuine discharge of u for the token `final` (earlier versions of it: ancestors)
func (r *Rng) legitDischarge(o *Out, tier string, u legitTP, final []byte, ancestors [][]byte) legitCand {
	proof := r.Chance(3, 4)
	// the location a discharge carries is the third party's own choice (an argument of DischargeTicket, not
	// signed into the ticket): a discharge minted under another spelling, another name or none at all is
	// still the discharge of that ticket; trusted keys are looked up under the discharge's own location
	dloc := u.p.loc
	if r.Chance(1, 4) {
		dloc = pick(r, []string{u.p.loc + "/", strings.ToUpper(u.p.loc), "", "https://elsewhere.example", u.p.loc + "?x=1"})
		o.count("discharge.otherLocation")
	}
	// a discharge may be bound to the token it accompanies or to any earlier version of it (every attenuation of
	// the token it was bound to keeps it usable)
	parent := func() []byte {
		if r.Bool() {
			o.count("bound.to.final")
			return final
		}
		o.count("bound.to.ancestor")
		return pick(r, ancestors)
	}
	var extra []macaroon.Caveat
	for j, mm := 0, r.Intn(3); j < mm; j++ {
		extra = append(extra, r.legitCav(o, 1, tier))
	}
	var dm *macaroon.Macaroon
	var enc []byte
	if proof {
		tcs, d, err := macaroon.DischargeTicket(u.p.ka, dloc, u.ticket)
		if err != nil {
			o.emit("(const match)", "own-ticket-refused-by-DischargeTicket")
			return legitCand{tp: -1, enc: []byte{}}
		}
		o.count("discharge.proof")
		if sxCavs(tcs) != sxCavs(u.tcavs) {
			o.emit("(const match)", "ticket-caveats-differ-from-what-the-author-attached")
		}
		dm = d
		ops := []string{}
		outs := []string{}
		add := func(c macaroon.Caveat) {
			err := dm.Add(c)
			ops = append(ops, "(add "+sxCav(c)+")")
			if err != nil {
				outs = append(outs, "add:"+addClass(err))
			} else {
				outs = append(outs, "add:ok")
			}
		}
		for _, c := range extra {
			add(c)
		}
		// a proof may carry attestations (returned when the discharge's key is a trusted one, dropped otherwise)
		if r.Chance(1, 4) {
			for j, mm := 0, 1+r.Intn(2); j < mm; j++ {
				add(r.attestCav(o))
			}
			o.count("discharge.withAttestation")
		}
		// a binding caveat is "a prefix of the SHA-256 of the parent's tail": Bind writes 16 bytes, any other
		// length (shorter, longer, the whole digest) is just as legitimate when written by hand
		if r.Chance(1, 4) {
			if fm, err := macaroon.Decode(parent()); err == nil {
				dg := sha256.Sum256(fm.Tail)
				bc := macaroon.BindToParentToken(dg[:pick(r, []int{1, 2, 8, 15, 17, 20, 31, 32})])
				add(&bc)
				o.count(fmt.Sprintf("bound.byhand.len%d", len(bc)))
			}
		}
		if r.Bool() {
			ps := [][]byte{parent()}
			if r.Chance(1, 5) {
				ps = append(ps, parent()) // bound twice (the caveat "may appear multiple times")
				o.count("bound.twice")
			}
			for _, p := range ps {
				err := dm.Bind(p)
				ops = append(ops, "(bind "+hx(p)+")")
				if err != nil {
					outs = append(outs, "bind:"+addClass(err))
				} else {
					outs = append(outs, "bind:ok")
				}
			}
			o.count("bound")
		}
		// the third party may hand out a CLONE taken before the proof was ever encoded: it is as good
		var cloneEnc []byte
		if r.Chance(1, 3) {
			ops = append(ops, "clone")
			if cl, err := dm.Clone(); err != nil {
				outs = append(outs, "clone:err")
			} else {
				cloneEnc = mustEnc(cl)
				outs = append(outs, "clone:"+hx(cloneEnc))
			}
			o.count("discharge.clonedBeforeEncode")
		}
		enc = mustEnc(dm)
		ops = append(ops, "encode")
		outs = append(outs, "enc:"+hx(enc))
		// somebody tries to add to the finished proof (refused: the proof is what it was) and it is encoded again
		if r.Chance(1, 6) {
			add(r.legitCav(o, 0, tier))
			enc = mustEnc(dm)
			ops = append(ops, "encode")
			outs = append(outs, "enc:"+hx(enc))
			o.count("discharge.addAfterEncode")
		}
		if cloneEnc != nil {
			enc = cloneEnc
		}
		o.emit(fmt.Sprintf("(proof.run %s %s %s %s %s (%s))", hx(u.p.ka), hs(dloc), hx(u.ticket), hx(dm.Nonce.Rnd), hx(u.rn), strings.Join(ops, " ")), strings.Join(outs, " "))
	} else {
		// old style: a non-proof discharge is just a macaroon keyed by rn whose key-id is the ticket - minted today
		// (three-field nonce) or by an old third party (two-field nonce, hand-built)
		var d *macaroon.Macaroon
		if r.Chance(1, 3) {
			d, _ = macaroon.Decode(oldFormatToken(u.rn, u.ticket, r.Bytes(pick(r, []int{16, 16, 0, 1, 32})), dloc))
			if d == nil {
				o.emit("(const match)", "old-format-discharge-does-not-decode")
			} else {
				o.count("discharge.nonproof.v0")
			}
		}
		if d == nil {
			var err error
			d, err = macaroon.New(u.ticket, dloc, u.rn)
			if err != nil {
				o.emit("(const match)", "minting-a-discharge-refused")
				return legitCand{tp: -1, enc: []byte{}}
			}
			o.emit(fmt.Sprintf("(tok.new %s %s %s %s)", hx(u.rn), hx(u.ticket), hs(dloc), hx(d.Nonce.Rnd)), hx(mustEnc(d)))
		}
		o.count("discharge.nonproof")
		its := make([]addItem, len(extra))
		for j, c := range extra {
			its[j] = addItem{cav: c}
		}
		legitAdd(o, d, its)
		// the holder of a non-proof discharge may attenuate it further, working from its bytes
		if r.Chance(1, 3) {
			if d2, err := macaroon.Decode(mustEnc(d)); err != nil {
				o.emit("(const match)", "legit-discharge-does-not-decode")
			} else {
				d = d2
				var more []addItem
				for j, mm := 0, 1+r.Intn(2); j < mm; j++ {
					more = append(more, addItem{cav: r.legitCav(o, 1, tier)})
				}
				legitAdd(o, d, more)
				o.count("discharge.nonproof.attenuatedAfterHop")
			}
		}
		if r.Bool() {
			p := parent()
			before := mustEnc(d)
			err := d.Bind(p)
			res := "ok " + hx(mustEnc(d))
			if err != nil {
				res = "err:" + addClass(err) + " " + hx(mustEnc(d))
			}
			o.emit(fmt.Sprintf("(tok.bind %s %s)", hx(before), hx(p)), res)
			o.count("bound")
		}
		dm = d
		enc = mustEnc(d)
	}
	c := legitCand{tp: -1, enc: enc, fits: true, dloc: dloc, ka: u.p.ka}
	seenD := map[string]bool{}
	for _, x := range dm.UnsafeCaveats.Caveats {
		if _, isBind := x.(*macaroon.BindToParentToken); isBind {
			continue
		}
		b, _ := encOne(x)
		if !seenD[string(b)] {
			seenD[string(b)] = true
			c.cavs = append(c.cavs, x)
		}
	}
	return c
}

// legitNilValues: histories over values OUTSIDE the modelled value space (a nil key-id, nil maps, nil slices, a nil
// set pointer: Go writes them as msgpack nil, the model has no nil): judged on the Go side alone - every caveat that
// Add accepted comes back from Verify, in order, after hops
func legitNilValues(r *Rng, o *Out) string {
	return guard(func() string {
		key := r.Bytes(32)
		var kid []byte
		if r.Chance(1, 3) {
			kid = r.Bytes(4)
		} else {
			o.count("nil.kid")
		}
		tok, err := macaroon.New(kid, "loc", key)
		if err != nil {
			return "nil-values:mint-refused"
		}
		var nilCmds flyio.Commands
		pool := []macaroon.Caveat{&flyio.Apps{}, &flyio.Volumes{}, &flyio.Machines{}, &flyio.FeatureSet{}, &flyio.MachineFeatureSet{}, &flyio.AppFeatureSet{},
			&flyio.Clusters{}, &flyio.StorageObjects{}, &flyio.Mutations{}, &nilCmds, &flyio.Commands{{Args: nil}}, &resset.IfPresent{Else: 1},
			&resset.IfPresent{Ifs: &macaroon.CaveatSet{}, Else: 1}, &flyio.IsUser{ID: 7}}
		var want []macaroon.Caveat
		seen := map[string]bool{}
		for s, n := 0, 1+r.Intn(3); s < n; s++ {
			if r.Bool() {
				if tok, err = macaroon.Decode(mustEnc(tok)); err != nil {
					return "nil-values:legit-token-does-not-decode"
				}
			}
			c := pick(r, pool)
			o.count(fmt.Sprintf("nil.cav.%T", c))
			if err := tok.Add(c); err != nil {
				return "nil-values:add-refused"
			}
			if b, err := encOne(c); err == nil && !seen[string(b)] {
				seen[string(b)] = true
				want = append(want, c)
			}
		}
		t2, err := macaroon.Decode(mustEnc(tok))
		if err != nil {
			return "nil-values:legit-token-does-not-decode"
		}
		cs, err := t2.Verify(key, nil, nil)
		if err != nil {
			return "nil-values:legit-token-rejected"
		}
		if sxCavs(cs.Caveats) != sxCavs(want) {
			return "nil-values:other-caveats-returned"
		}
		return "match"
	})
}

func legitSameByteLists(a, b [][]byte) bool {
	if len(a) != len(b) {
		return false
	}
	for i := range a {
		if (a[i] == nil) != (b[i] == nil) || !bytes.Equal(a[i], b[i]) {
			return false
		}
	}
	return true
}

func legitHasKey(ks []macaroon.EncryptionKey, k []byte) bool {
	for _, x := range ks {
		if bytes.Equal(x, k) {
			return true
		}
	}
	return false
}

// caveat sets built with NewCaveatSet(list...) own their caveats: what the caller does with `list` afterwards - append
// into its spare capacity for the next conditional, overwrite an element - does not reach into a set already made,
// so a token attenuated with conditionals derived from one base slice verifies and yields them as they were added
func sharedBaseSliceRun(r *Rng) string {
	for i := 0; i < 8; i++ {
		key := r.Bytes(32)
		m, err := macaroon.New(r.Bytes(8), "https://api.fly.io/v1", key)
		if err != nil {
			return "harness-error"
		}
		base := make([]macaroon.Caveat, 0, 4)
		base = append(base, &macaroon.ValidityWindow{NotBefore: 0, NotAfter: int64(4_000_000_000 + i)})
		aR, aW := resset.ActionRead, resset.ActionWrite
		first := &resset.IfPresent{Ifs: macaroon.NewCaveatSet(append(base, &aR)...), Else: resset.ActionNone}
		if m.Add(first) != nil {
			return "harness-error(add)"
		}
		want1 := sxCav(first)
		second := &resset.IfPresent{Ifs: macaroon.NewCaveatSet(append(base, &aW)...), Else: resset.ActionRead}
		if m.Add(second) != nil {
			return "harness-error(add2)"
		}
		base[0] = &macaroon.ValidityWindow{NotBefore: 1, NotAfter: 2} // the caller goes on using its slice
		want2 := sxCav(second)
		b, err := m.Encode()
		if err != nil {
			return "harness-error(encode)"
		}
		d, err := macaroon.Decode(b)
		if err != nil {
			return "legit-token-does-not-decode"
		}
		cs, err := d.Verify(key, nil, nil)
		if err != nil {
			return "legitimately-attenuated-token-refused:" + strings.ReplaceAll(err.Error(), " ", "_")
		}
		if len(cs.Caveats) != 2 || sxCav(cs.Caveats[0]) != want1 || sxCav(cs.Caveats[1]) != want2 {
			return "verification-yields-other-conditionals-than-were-added"
		}
	}
	return "match"
}

// Clone of a caveat set is an independent copy - also of the EMPTY set (a token without caveats of its own): a failed
// Bundle.Attenuate stages its additions on clones and drops them, so the verified set of such a token stays empty
func emptySetCloneRun(r *Rng) string {
	e := macaroon.NewCaveatSet()
	c, err := e.Clone()
	if err != nil {
		return "harness-error"
	}
	c.Caveats = append(c.Caveats, &macaroon.ValidityWindow{NotBefore: 0, NotAfter: 1})
	if len(e.Caveats) != 0 || c == e {
		return "clone-of-the-empty-set-is-the-set-itself"
	}
	key, ka := r.Bytes(32), r.Bytes(32)
	loc, tpLoc := "https://api.fly.io/v1", "https://auth.example"
	bare, _ := macaroon.New([]byte("kid"), loc, key)
	with3p, _ := macaroon.New([]byte("kid"), loc, key)
	with3p.Add3P(ka, tpLoc)
	s1, _ := bare.String()
	s2, _ := with3p.String()
	b, err := bundle.ParseBundle(loc, "FlyV1 "+s1+","+s2)
	if err != nil {
		return "harness-error(bundle)"
	}
	sets, _ := b.Verify(context.Background(), bundle.WithKey([]byte("kid"), key, nil))
	if len(sets) != 1 || len(sets[0].Caveats) != 0 {
		return "harness-error(verify)"
	}
	before := b.Header()
	c3, _ := macaroon.NewCaveat3P(ka, tpLoc) // refused by the second token: it has a third-party caveat for that location
	if b.Attenuate(c3) == nil {
		return "harness-error(attenuate accepted)"
	}
	if b.Header() != before {
		return "failed-attenuation-changed-the-header"
	}
	if len(sets[0].Caveats) != 0 {
		return "failed-attenuation-left-a-caveat-in-the-verified-set-of-a-token-it-did-not-change"
	}
	if err := b.Validate(&flyio.Access{OrgID: p64(1), Action: resset.ActionRead}); err != nil {
		return "failed-attenuation-changed-what-the-bundle-clears"
	}
	return "match"
}

// harnessScopes: a caveat type of the application whose REGISTERED value holds a non-nil map (a constructor-made
// prototype): every decode starts from a fresh value of the type, never from the registered one
type harnessScopes struct {
	Scopes map[string]uint16 `json:"scopes"`
}

var cavHarnessScopes = macaroon.CaveatType(uint64(macaroon.CavMinUserDefined) + 0x7a7a02)

func init() { macaroon.RegisterCaveatType(&harnessScopes{Scopes: map[string]uint16{}}) }

func (c *harnessScopes) CaveatType() macaroon.CaveatType   { return cavHarnessScopes }
func (c *harnessScopes) Name() string                      { return "ZZHarnessScopes" }
func (c *harnessScopes) Prohibits(a macaroon.Access) error { return nil }

func decodedCaveatsIndependentRun(r *Rng) string {
	key := r.Bytes(32)
	mk := func(sc map[string]uint16) []byte {
		m, _ := macaroon.New(r.Bytes(8), "https://api.fly.io/v1", key)
		if m.Add(&harnessScopes{Scopes: sc}) != nil {
			return nil
		}
		return mustEnc(m)
	}
	t1, t2 := mk(map[string]uint16{"alpha": 1}), mk(map[string]uint16{"beta": 31})
	if t1 == nil || t2 == nil {
		return "harness-error"
	}
	d1, err := macaroon.Decode(t1)
	if err != nil {
		return "legit-token-does-not-decode"
	}
	cs1, err := d1.Verify(key, nil, nil)
	if err != nil {
		return "legit-token-refused(first)"
	}
	d2, err := macaroon.Decode(t2)
	if err != nil {
		return "legit-token-does-not-decode(second)"
	}
	if _, err := d2.Verify(key, nil, nil); err != nil {
		return "second-token-of-the-same-caveat-type-refused:" + strings.ReplaceAll(err.Error(), " ", "_")
	}
	if b, err := d2.Encode(); err != nil || !bytes.Equal(b, t2) {
		return "decode-then-re-encode-changed-the-second-token"
	}
	got := macaroon.GetCaveats[*harnessScopes](cs1)
	if len(got) != 1 || len(got[0].Scopes) != 1 || got[0].Scopes["alpha"] != 1 {
		return "a-verified-caveat-changed-when-another-token-of-its-type-was-decoded"
	}
	return "match"
}

func famLegit(r *Rng, o *Out, tier string) {
	o.emit("(const match)", sharedBaseSliceRun(r))
	o.emit("(const match)", decodedCaveatsIndependentRun(r))
	o.emit("(const match)", emptySetCloneRun(r))
	n := 600
	if tier == "thorough" {
		n = 6000
	}
	for i := 0; i < n; i++ {
		key := r.legitKey(o)
		kid := r.legitKid(o, tier) // (also the empty, non-nil key-id: a legal value for New)
		loc := r.legitLoc(o, tier)
		var tok *macaroon.Macaroon
		var err error
		if r.Chance(1, 5) {
			// the old two-field nonce; its random part was whatever the minting code of the day drew
			rl := pick(r, []int{16, 16, 16, 0, 1, 15, 17, 32})
			tb := oldFormatToken(key, kid, r.Bytes(rl), loc)
			tok, err = macaroon.Decode(tb)
			o.count("nonce.v0")
			o.count(fmt.Sprintf("nonce.v0.rnd%d", rl))
		} else {
			tok, err = macaroon.New(kid, loc, key)
			if err == nil {
				o.emit(fmt.Sprintf("(tok.new %s %s %s %s)", hx(key), hx(kid), hs(loc), hx(tok.Nonce.Rnd)), hx(mustEnc(tok)))
			}
			o.count("nonce.v1")
		}
		if err != nil {
			// minting takes any key-id, location and key: a refusal is a finding, not a skipped case
			o.emit("(const match)", "mint-refused:"+strings.ReplaceAll(err.Error(), " ", "_"))
			o.count("mint.err")
			continue
		}
		parties := r.legitParties(o, tier)
		tpRate := 4 // one argument in tpRate is a third-party caveat
		if r.Chance(1, 8) {
			tpRate = 2
			o.count("thirdParties.dense")
		}
		usedParty := map[string]bool{}
		var expected []macaroon.Caveat // first-party caveats in order of addition, duplicates collapsed
		seen := map[string]bool{}
		var tps []legitTP
		ancestors := [][]byte{mustEnc(tok)}
		steps := 1 + r.Intn(4)
		if r.Chance(1, 20) {
			steps = 0 // verified as minted
			o.count("steps.0")
		}
		if tier == "thorough" && r.Chance(1, 50) {
			steps = 8 + r.Intn(8)
			o.count("steps.many")
		}
		dead := false
		freshTP := func(p tpParty) addItem {
			var tcavs []macaroon.Caveat
			for j, mm := 0, r.Intn(3); j < mm; j++ {
				tcavs = append(tcavs, r.legitCav(o, 1, tier))
			}
			it, err := newTP(p.ka, p.loc, tcavs...)
			if err != nil {
				panic(err)
			}
			return it
		}
		for s := 0; s < steps && !dead; s++ {
			if r.Bool() || (i%97 == 5 && s == 1) { // a hop: the next holder works from what the last one sent
				t2, ok := legitHop(r, o, tok)
				if !ok {
					dead = true
					break
				}
				tok = t2
				o.count("hop")
			}
			var items []addItem
			// once in a while a LONG attenuation step: a couple of hundred small struct-bodied caveats (and a
			// Commands caveat with many commands) - tokens may carry any number of caveats
			if i%97 == 5 && s == 0 {
				for k := 0; k < 210; k++ {
					items = append(items, addItem{cav: &flyio.Organization{ID: uint64(1000 + k), Mask: resset.ActionAll}})
				}
				cmds := make(flyio.Commands, 120)
				for k := range cmds {
					cmds[k] = flyio.Command{Args: []string{"a", fmt.Sprint(k)}}
				}
				items = append(items, addItem{cav: &cmds})
				o.count("add.long")
			}
			// ... and more caveats than the decoder pre-allocates room for (1024), added in one call after another
			if i%293 == 11 && s == 0 {
				for k := 0; k < 1030; k++ {
					items = append(items, addItem{cav: &flyio.IsUser{ID: uint64(k)}})
				}
				o.count("add.beyondPrealloc")
			}
			// nesting: a conditional inside a conditional inside ... (well inside the decoder's depth budget)
			if r.Chance(1, 40) {
				d := pick(r, []int{4, 8, 16, 30, 40})
				var c macaroon.Caveat = r.legitCav(o, 0, tier)
				for k := 0; k < d; k++ {
					c = &resset.IfPresent{Ifs: macaroon.NewCaveatSet(c), Else: resset.Action(k)}
				}
				if c2, ok := legitStable(o, c); ok {
					items = append(items, addItem{cav: c2})
					o.count(fmt.Sprintf("cav.nested.depth%d", d))
				}
			}
			for k, m := 0, r.Intn(4); k < m; k++ {
				switch {
				case r.Chance(1, 5) && len(expected) > 0: // byte-identical re-add: the same object, or an equal value in another one
					c := pick(r, expected)
					if r.Bool() {
						c = legitCavCopy(c)
						o.count("readd.copy")
					}
					items = append(items, addItem{cav: c})
					o.count("readd")
				case r.Chance(1, 6) && len(expected) > 0: // looks like a duplicate, is none
					if c, ok := legitStable(o, r.nearDup(o, pick(r, expected))); ok {
						items = append(items, addItem{cav: c})
						o.count("neardup")
					}
				case r.Chance(1, tpRate):
					p := pick(r, parties)
					if usedParty[p.loc] {
						// a second caveat for a location the token already names is refused; the token stays what it
						// was (with the caveats in front of the refused one added) and remains usable
						if r.Chance(1, 4) {
							if r.Bool() {
								items = append(items, freshTP(p))
								o.count("add3p.usedLocation.newCaveat")
							} else {
								for _, u := range tps {
									if u.p.loc == p.loc {
										items = append(items, u.it)
										o.count("add3p.usedLocation.sameCaveatAgain")
										break
									}
								}
							}
						}
						continue
					}
					usedParty[p.loc] = true
					it := freshTP(p)
					items = append(items, it)
					if r.Chance(1, 6) {
						items = append(items, it) // the same caveat value twice in one call: collapsed
						o.count("add3p.sameValueTwiceInOneCall")
					}
					o.count("add3p")
				case r.Chance(1, 8): // a duplicate inside ONE call: the same object twice, or an equal copy
					c := r.legitCav(o, 2, tier)
					c2 := c
					if r.Bool() {
						c2 = legitCavCopy(c)
					}
					items = append(items, addItem{cav: c}, addItem{cav: c2})
					o.count("dup.withinOneCall")
				case r.Chance(1, 30): // an attestation offered to a non-proof token: refused, the token stays usable
					items = append(items, addItem{cav: r.attestCav(o)})
					o.count("add.attestationOnNonProof")
				default:
					items = append(items, addItem{cav: r.legitCav(o, 2, tier)})
				}
			}
			err := legitAdd(o, tok, items)
			// what the call must have done: duplicates (of the token's caveats, of earlier arguments) dropped, the rest
			// appended in order up to the first argument that is refused
			refused := false
			inCall := map[string]bool{}
			for _, it := range items {
				b, _ := encOne(it.cav)
				if seen[string(b)] || inCall[string(b)] {
					continue
				}
				inCall[string(b)] = true
				if it.tp != nil {
					already := false
					for _, u := range tps {
						if u.p.loc == it.tp.loc {
							already = true
						}
					}
					if already {
						refused = true
						break
					}
					tps = append(tps, legitTP{tpParty{it.tp.loc, it.tp.ka}, it.tp.ticket, it.tp.rn, it.tp.cavs, it})
					continue
				}
				if macaroon.IsAttestation(it.cav) {
					refused = true
					break
				}
				seen[string(b)] = true
				expected = append(expected, it.cav)
			}
			switch {
			case err != nil && !refused:
				o.emit("(const match)", "legit-attenuation-refused:"+addClass(err))
				o.count("add.err")
			case err == nil && refused:
				o.emit("(const match)", "attenuation-that-must-be-refused-went-through")
			case refused:
				o.count("add.refused.tokenStaysUsable")
			}
			// the convenience entry point for third-party caveats
			if r.Chance(1, 8) {
				for _, p := range parties {
					if usedParty[p.loc] {
						continue
					}
					var tcavs []macaroon.Caveat
					for j, mm := 0, r.Intn(3); j < mm; j++ {
						tcavs = append(tcavs, r.legitCav(o, 1, tier))
					}
					if it, ok := legitAdd3P(o, tok, p, tcavs); ok {
						usedParty[p.loc] = true
						// (it.cav is the token's own copy, sealed key included: adding THAT again is a byte-identical re-add)
						if b, err := encOne(it.cav); err == nil {
							seen[string(b)] = true
						}
						tps = append(tps, legitTP{p, it.tp.ticket, it.tp.rn, tcavs, it})
						o.count("add3p.viaAdd3P")
					}
					break
				}
			}
			ancestors = append(ancestors, mustEnc(tok))
		}
		if dead {
			continue
		}
		final := mustEnc(tok)
		// discharges: per third-party caveat one genuine discharge, sometimes a second genuine one (other caveats:
		// the FIRST presented decides), and candidates that do NOT fit (a discharge of the same ticket bound to
		// another token, one signed under another key): their failures do not matter
		var cands []legitCand
		for ti, u := range tps {
			c := r.legitDischarge(o, tier, u, final, ancestors)
			if c.fits {
				c.tp = ti
			}
			cands = append(cands, c)
			if r.Chance(1, 5) {
				c2 := r.legitDischarge(o, tier, u, final, ancestors)
				if c2.fits {
					c2.tp = ti
				}
				cands = append(cands, c2)
				o.count("verify.twoGenuineCandidates")
			}
		}
		if len(tps) > 0 && r.Chance(1, 2) {
			var front []legitCand
			for ti, u := range tps {
				if r.Bool() {
					continue
				}
				if _, dw, err := macaroon.DischargeTicket(u.p.ka, u.p.loc, u.ticket); err == nil {
					other, _ := macaroon.New(r.Bytes(4), loc, r.Bytes(32))
					if dw.Bind(mustEnc(other)) == nil {
						front = append(front, legitCand{tp: ti, enc: mustEnc(dw), dloc: u.p.loc, ka: u.p.ka})
					}
				}
				if f, err := macaroon.New(u.ticket, u.p.loc, r.Bytes(32)); err == nil && r.Bool() {
					front = append(front, legitCand{tp: ti, enc: mustEnc(f), dloc: u.p.loc, ka: u.p.ka})
				}
			}
			if len(front) > 0 {
				cands = append(front, cands...)
				o.count("verify.nonFittingCandidatesFirst")
			}
		}
		// the same discharge bytes presented twice
		if len(cands) > 0 && r.Chance(1, 6) {
			c := pick(r, cands)
			cands = append(cands, c)
			o.count("verify.sameDischargeTwice")
		}
		// things that are no discharge of this token at all, anywhere in the list
		for j, mm := 0, pick(r, []int{0, 0, 1, 1, 2, 3}); j < mm; j++ {
			var junk []byte
			switch r.Intn(6) {
			case 0:
				junk = r.Bytes(10)
				o.count("junk.bytes")
			case 1:
				junk = []byte{}
				o.count("junk.empty")
			case 2:
				junk = nil
				o.count("junk.nil")
			case 3:
				if t, err := macaroon.New(r.Bytes(8), loc, r.Bytes(32)); err == nil {
					junk = mustEnc(t)
				}
				o.count("junk.unrelatedToken")
			case 4:
				junk = final
				o.count("junk.theTokenItself")
			default:
				ka := r.Bytes(32)
				if c3, err := macaroon.NewCaveat3P(ka, "https://auth.example"); err == nil {
					if _, d, err := macaroon.DischargeTicket(ka, "https://auth.example", c3.Ticket); err == nil {
						junk = mustEnc(d)
					}
				}
				o.count("junk.dischargeOfAnotherTicket")
			}
			at := r.Intn(len(cands) + 1)
			cands = append(cands[:at], append([]legitCand{{tp: -1, enc: junk}}, cands[at:]...)...)
		}
		// presentation order: any (the result lists the discharges' caveats in CAVEAT order; per ticket the first
		// presented candidate that fits decides)
		if r.Chance(1, 2) {
			for a := len(cands) - 1; a > 0; a-- {
				b := r.Intn(a + 1)
				cands[a], cands[b] = cands[b], cands[a]
			}
			o.count("verify.dischargesShuffled")
		}
		// trusted third-party keys, looked up under the discharge's own location: the right key alone, behind and
		// in front of keys that do not open the ticket (other keys, keys of the wrong size), only such keys, none
		var trusted map[string][]macaroon.EncryptionKey
		putTrust := func(l string, ks ...[]byte) {
			if trusted == nil {
				trusted = map[string][]macaroon.EncryptionKey{}
			}
			for _, k := range ks {
				trusted[l] = append(trusted[l], k)
			}
		}
		wrongKey := func() []byte { return r.Bytes(pick(r, []int{32, 32, 32, 16, 0, 33})) }
		for _, c := range cands {
			if c.tp < 0 || !c.fits {
				continue
			}
			switch r.Intn(7) {
			case 0, 1:
				putTrust(c.dloc, c.ka)
				o.count("trust.rightKey")
			case 2:
				putTrust(c.dloc, wrongKey(), wrongKey(), c.ka, wrongKey())
				o.count("trust.rightKeyBehindOthers")
			case 3:
				putTrust(c.dloc, wrongKey(), wrongKey())
				o.count("trust.onlyOtherKeys")
			case 4:
				putTrust("https://nobody.example", c.ka)
				o.count("trust.rightKeyUnderAnotherLocation")
			}
		}
		if trusted == nil {
			if r.Bool() {
				trusted = map[string][]macaroon.EncryptionKey{}
			} else {
				o.count("trust.nilMap")
			}
		}
		ds := make([][]byte, len(cands))
		for j, c := range cands {
			ds[j] = c.enc
		}
		// what must come back
		var dischargeCavs []macaroon.Caveat
		for ti := range tps {
			for _, c := range cands {
				if c.tp != ti || !c.fits {
					continue
				}
				trustedD := legitHasKey(trusted[c.dloc], c.ka)
				for _, x := range c.cavs {
					if macaroon.IsAttestation(x) && !trustedD {
						o.count("attestation.untrusted.dropped")
						continue
					}
					if macaroon.IsAttestation(x) {
						o.count("attestation.trusted.returned")
					}
					dischargeCavs = append(dischargeCavs, x)
				}
				break
			}
		}
		dsBefore := make([][]byte, len(ds))
		for j, d := range ds {
			if d != nil {
				dsBefore[j] = append([]byte{}, d...)
			}
		}
		trBefore := sxTrust(trusted)
		obs := verifyObs(key, final, ds, trusted)
		o.emit(verifyOp(key, final, ds, trusted), obs)
		want := "ok " + sxCavs(append(append([]macaroon.Caveat{}, expected...), dischargeCavs...))
		res := "match"
		if obs != want {
			res = "legit-token-not-accepted-as-expected:" + strings.ReplaceAll(obs[:min(len(obs), 60)], " ", "_")
		} else {
			// verifying is repeatable, works on the object in hand as on its decoded bytes, and leaves the token and its
			// arguments alone
			live := guard(func() string {
				cs, err := tok.Verify(key, ds, trusted)
				if err != nil {
					return "err:" + verifyClass(err)
				}
				return "ok " + sxCavs(cs.Caveats)
			})
			switch {
			case live != obs:
				res = "object-in-hand-verifies-differently-from-its-bytes"
			case verifyObs(key, final, ds, trusted) != obs:
				res = "second-verification-differs"
			case !legitSameByteLists(ds, dsBefore) || sxTrust(trusted) != trBefore:
				res = "verify-rewrote-its-arguments"
			case !bytes.Equal(mustEnc(tok), final):
				res = "verify-changed-the-token"
			}
		}
		o.emit("(const match)", res)
		o.count(fmt.Sprintf("tps.%d", len(tps)))
		o.count(fmt.Sprintf("discharges.presented.%d", min(len(ds), 8)))
		// a FORK: two holders attenuate the same token differently (one of them from a Clone, or from the bytes);
		// neither sees the other's caveat, both tokens verify with the discharges of their common ancestor
		if r.Chance(1, 4) {
			var other *macaroon.Macaroon
			var ferr error
			if r.Bool() {
				other, ferr = tok.Clone()
				o.count("fork.clone")
			} else {
				other, ferr = macaroon.Decode(final)
				o.count("fork.decode")
			}
			if ferr != nil {
				o.emit("(const match)", "legit-token-does-not-clone-or-decode")
			} else {
				fresh := func(avoid string) (macaroon.Caveat, string) {
					for {
						c := r.legitCav(o, 1, tier)
						b, _ := encOne(c)
						if !seen[string(b)] && string(b) != avoid {
							return c, string(b)
						}
					}
				}
				ca, ea := fresh("")
				cb, _ := fresh(ea)
				// (each holder may add in one call or in two)
				if r.Bool() {
					legitAdd(o, other, []addItem{{cav: ca}})
					legitAdd(o, tok, []addItem{{cav: cb}})
				} else {
					legitAdd(o, tok, []addItem{{cav: cb}})
					legitAdd(o, other, []addItem{{cav: ca}})
				}
				for _, f := range []struct {
					t *macaroon.Macaroon
					c macaroon.Caveat
				}{{other, ca}, {tok, cb}} {
					fb := mustEnc(f.t) // (encoded after BOTH holders did their work)
					obs := verifyObs(key, fb, ds, trusted)
					o.emit(verifyOp(key, fb, ds, trusted), obs)
					want := "ok " + sxCavs(append(append(append([]macaroon.Caveat{}, expected...), f.c), dischargeCavs...))
					if obs == want {
						o.emit("(const match)", "match")
					} else {
						o.emit("(const match)", "forked-token-not-accepted-as-expected:"+strings.ReplaceAll(obs[:min(len(obs), 60)], " ", "_"))
					}
				}
			}
		}
		// values outside the modelled value space (nil key-id, nil maps and slices)
		if r.Chance(1, 10) {
			o.emit("(const match)", legitNilValues(r, o))
			o.count("nilValues")
		}
		// the SAME third-party caveat value added to a second token (Add copies the caveat "in case the caveat is
		// added to multiple macaroons"; bundle.Attenuate does exactly that): the second token is as good as the
		// first - its genuine discharge is accepted, one signed under another key is not
		if len(tps) > 0 && r.Chance(1, 2) {
			u := pick(r, tps)
			key2 := r.Bytes(32)
			tok2, err := macaroon.New(r.Bytes(6), loc, key2)
			if err == nil {
				o.emit(fmt.Sprintf("(tok.new %s %s %s %s)", hx(key2), hx(tok2.Nonce.KID), hs(loc), hx(tok2.Nonce.Rnd)), hx(mustEnc(tok2)))
				if legitAdd(o, tok2, []addItem{u.it}) == nil {
					final2 := mustEnc(tok2)
					_, d2, err := macaroon.DischargeTicket(u.p.ka, u.p.loc, u.ticket)
					if err == nil {
						good := [][]byte{mustEnc(d2)}
						o.emit(verifyOp(key2, final2, good, nil), verifyObs(key2, final2, good, nil))
						for _, badKey := range [][]byte{make([]byte, 32), nil, r.Bytes(32)} {
							if f, err := macaroon.New(u.ticket, u.p.loc, badKey); err == nil {
								bad := [][]byte{mustEnc(f)}
								obs := verifyObs(key2, final2, bad, nil)
								o.emit(verifyOp(key2, final2, bad, nil), obs)
								if strings.HasPrefix(obs, "ok") {
									o.emit("(const match)", "reused-caveat:discharge-under-another-key-accepted")
								} else {
									o.emit("(const match)", "match")
								}
							}
						}
						o.count("caveat.reusedOnSecondToken")
					}
				}
			}
		}
		// ONE caveat list applied to two tokens (what bundle.Attenuate does with its arguments), the first of which
		// already carries some of the list's elements: the second token gets - and verification of it yields - every
		// element of the list, in order, and the caller's list is left as it was
		if r.Chance(1, 2) {
			keyA, keyB := r.Bytes(32), r.Bytes(32)
			ta, _ := macaroon.New(r.Bytes(6), loc, keyA)
			tb, _ := macaroon.New(r.Bytes(6), loc, keyB)
			nl := 2 + r.Intn(3)
			list := make([]macaroon.Caveat, nl)
			for k := range list {
				list[k] = &macaroon.ValidityWindow{NotBefore: int64(k + 1), NotAfter: int64(1000 - k)}
			}
			want := sxCavs(list)
			// the first token carries a random non-empty subset of the list beforehand
			pre := 0
			for k := range list {
				if r.Bool() || (k == 0 && pre == 0) {
					ta.Add(list[k])
					pre++
				}
			}
			errA := ta.Add(list...)
			errB := tb.Add(list...)
			o.count(fmt.Sprintf("sharedList.len%d.pre%d", nl, pre))
			res := "match"
			switch {
			case errA != nil || errB != nil:
				res = "shared-list:add-refused"
			case sxCavs(list) != want:
				res = "shared-list:callers-list-rewritten"
			default:
				for _, tc := range []struct {
					t *macaroon.Macaroon
					k []byte
				}{{ta, keyA}, {tb, keyB}} {
					m2, err := macaroon.Decode(mustEnc(tc.t))
					if err != nil {
						res = "shared-list:not-decodable"
						break
					}
					cs, err := m2.Verify(tc.k, nil, nil)
					if err != nil {
						res = "shared-list:legit-token-rejected"
						break
					}
					got := map[string]bool{}
					for _, c := range cs.Caveats {
						got[sxCav(c)] = true
					}
					for _, c := range list {
						if !got[sxCav(c)] {
							res = "shared-list:caveat-missing-from-verified-set"
						}
					}
				}
			}
			o.emit("(const match)", res)
		}
	}
}

func min(a, b int) int {
	if a < b {
		return a
	}
	return b
}
