package main

// Token-level families.
//   legit (C05): mint -> attenuation steps by holders working from bytes -> discharges (proof and
//   non-proof, bound or not) -> Verify; every produced byte string must be reproduced by the model
//   from the extracted randomness, and Verify must return the expected caveat list.

import (
	"bytes"
	"crypto/sha256"
	"fmt"
	"strings"

	"github.com/superfly/macaroon"
	"github.com/superfly/macaroon/flyio"
	"github.com/superfly/macaroon/resset"
)

func init() {
	families["legit"] = famLegit
}

func isPlainKind(c macaroon.Caveat) bool {
	switch c.(type) {
	case *macaroon.Caveat3P, *macaroon.BindToParentToken:
		return false
	}
	return !macaroon.IsAttestation(c)
}

func (r *Rng) plainCav(depth int) macaroon.Caveat {
	for {
		c := r.WireCav(depth)
		if !isPlainKind(c) || containsAttestation(c) {
			continue
		}
		// a holder works from bytes: only values that survive a hop unchanged (an unregistered caveat
		// with a nil body, also inside a wrapper, decodes to something that cannot be re-encoded)
		b, err := encOne(c)
		if err != nil {
			continue
		}
		cs, err := macaroon.DecodeCaveats(b)
		if err != nil || len(cs.Caveats) != 1 {
			continue
		}
		b2, err := cs.MarshalMsgpack()
		if err != nil || string(b2) != string(b) {
			continue
		}
		if _, ok := c.(*macaroon.UnregisteredCaveat); ok {
			return cs.Caveats[0]
		}
		return c
	}
}

func containsAttestation(c macaroon.Caveat) bool {
	if macaroon.IsAttestation(c) {
		return true
	}
	if w, ok := c.(macaroon.WrapperCaveat); ok && w.Unwrap() != nil {
		for _, x := range w.Unwrap().Caveats {
			if containsAttestation(x) {
				return true
			}
			switch x.(type) {
			case *macaroon.Caveat3P, *macaroon.BindToParentToken:
				return true
			}
		}
	}
	return false
}

type tpParty struct {
	loc string
	ka  []byte
}

// oldFormatToken hand-builds a token with a two-field (version 0) nonce
func oldFormatToken(key, kid, rnd []byte, loc string) []byte {
	nonce := mpEnc(&mpNode{Kind: mpArr, Kids: []*mpNode{{Kind: mpBin, S: kid}, {Kind: mpBin, S: rnd}}})
	tail := hmacSum(key, nonce)
	out := append([]byte{0x94}, nonce...)
	out = append(out, mpEnc(mpStrNode(loc))...)
	out = append(out, 0x90)
	out = append(out, mpEnc(&mpNode{Kind: mpBin, S: tail})...)
	return out
}

func famLegit(r *Rng, o *Out, tier string) {
	n := 600
	if tier == "thorough" {
		n = 6000
	}
	for i := 0; i < n; i++ {
		key := r.Bytes(32)
		kid := r.Bytes(pick(r, []int{1, 8, 16, 0, 300})) // (also the empty, non-nil key-id: a legal value for New)
		loc := pick(r, []string{"https://api.fly.io/v1", "loc", ""})
		var tok *macaroon.Macaroon
		var err error
		if r.Chance(1, 5) {
			tb := oldFormatToken(key, kid, r.Bytes(16), loc)
			tok, err = macaroon.Decode(tb)
			o.count("nonce.v0")
		} else {
			tok, err = macaroon.New(kid, loc, key)
			if err == nil {
				o.emit(fmt.Sprintf("(tok.new %s %s %s %s)", hx(key), hx(kid), hs(loc), hx(tok.Nonce.Rnd)), hx(mustEnc(tok)))
			}
			o.count("nonce.v1")
		}
		if err != nil {
			o.count("mint.err")
			continue
		}
		parties := []tpParty{{"https://auth.example", r.Bytes(32)}, {"https://other.example", r.Bytes(32)}, {"tp3", r.Bytes(32)}}
		usedParty := map[string]bool{}
		var expected []macaroon.Caveat // first-party caveats in order of addition, duplicates collapsed
		seen := map[string]bool{}
		type tpUse struct {
			p      tpParty
			ticket []byte
			rn     []byte
			tcavs  []macaroon.Caveat
			it     addItem // the very caveat value that was passed to Add
		}
		var tps []tpUse
		ancestors := [][]byte{mustEnc(tok)}
		steps := 1 + r.Intn(4)
		dead := false
		for s := 0; s < steps; s++ {
			if r.Bool() || (i%97 == 5 && s == 1) { // a hop: the next holder works from the encoded token
				enc := mustEnc(tok)
				tok, err = macaroon.Decode(enc)
				if err != nil {
					// a token the library itself produced must decode: report it, give up this history
					o.emit("(dec.mac "+hexb(enc)+")", "err")
					o.emit("(const match)", "legit-token-does-not-decode:"+strings.ReplaceAll(err.Error(), " ", "_"))
					dead = true
					break
				}
				o.count("hop")
			}
			var items []addItem
			// once in a while a LONG attenuation step: a couple of hundred small struct-bodied caveats (and a
			// Commands caveat with many commands) - tokens may carry any number of caveats
			if i%97 == 5 && s == 0 {
				for k := 0; k < 210; k++ {
					items = append(items, addItem{cav: &flyio.Organization{ID: uint64(1000 + k), Mask: resset.ActionAll}})
				}
				cmds := make(flyio.Commands, 120)
				for k := range cmds {
					cmds[k] = flyio.Command{Args: []string{"a", fmt.Sprint(k)}}
				}
				items = append(items, addItem{cav: &cmds})
				o.count("add.long")
			}
			for k, m := 0, r.Intn(4); k < m; k++ {
				switch {
				case r.Chance(1, 5) && len(expected) > 0: // byte-identical re-add
					items = append(items, addItem{cav: pick(r, expected)})
					o.count("readd")
				case r.Chance(1, 4):
					p := pick(r, parties)
					if usedParty[p.loc] {
						continue
					}
					usedParty[p.loc] = true
					var tcavs []macaroon.Caveat
					for j, mm := 0, r.Intn(3); j < mm; j++ {
						tcavs = append(tcavs, r.plainCav(1))
					}
					it, err := newTP(p.ka, p.loc, tcavs...)
					if err != nil {
						panic(err)
					}
					items = append(items, it)
					tps = append(tps, tpUse{p, it.tp.ticket, it.tp.rn, tcavs, it})
					o.count("add3p")
				default:
					items = append(items, addItem{cav: r.plainCav(2)})
				}
			}
			if err := doAdd(o, tok, items); err != nil {
				o.count("add.err")
			}
			for _, it := range items {
				if it.tp != nil {
					continue
				}
				b, _ := encOne(it.cav)
				if !seen[string(b)] {
					seen[string(b)] = true
					expected = append(expected, it.cav)
				}
			}
			ancestors = append(ancestors, mustEnc(tok))
		}
		if dead {
			continue
		}
		final := mustEnc(tok)
		// discharges
		var ds [][]byte
		var dischargeCavs []macaroon.Caveat
		trusted := map[string][]macaroon.EncryptionKey{}
		for _, u := range tps {
			proof := r.Chance(3, 4)
			// the location a discharge carries is the third party's own choice (an argument of DischargeTicket, not
			// signed into the ticket): a discharge minted under another spelling, another name or none at all is
			// still the discharge of that ticket; trusted keys are looked up under the discharge's own location
			dloc := u.p.loc
			if r.Chance(1, 4) {
				dloc = pick(r, []string{u.p.loc + "/", strings.ToUpper(u.p.loc), "", "https://elsewhere.example", u.p.loc + "?x=1"})
				o.count("discharge.otherLocation")
			}
			var dm *macaroon.Macaroon
			var extra []macaroon.Caveat
			for j, mm := 0, r.Intn(3); j < mm; j++ {
				extra = append(extra, r.plainCav(1))
			}
			if proof {
				tcs, d, err := macaroon.DischargeTicket(u.p.ka, dloc, u.ticket)
				if err != nil {
					panic(err)
				}
				o.count("discharge.proof")
				if len(tcs) != len(u.tcavs) {
					o.emit("(const match)", "ticket-caveat-count-mismatch")
				}
				dm = d
				ops := []string{}
				outs := []string{}
				for _, c := range extra {
					err := dm.Add(c)
					ops = append(ops, "(add "+sxCav(c)+")")
					if err != nil {
						outs = append(outs, "add:"+addClass(err))
					} else {
						outs = append(outs, "add:ok")
					}
				}
				// a binding caveat is "a prefix of the SHA-256 of the parent's tail": Bind writes 16 bytes, any other
				// length (shorter, longer, the whole digest) is just as legitimate when written by hand
				if r.Chance(1, 4) {
					fm, _ := macaroon.Decode(final)
					dg := sha256.Sum256(fm.Tail)
					bc := macaroon.BindToParentToken(dg[:pick(r, []int{1, 2, 8, 15, 17, 20, 31, 32})])
					err := dm.Add(&bc)
					ops = append(ops, "(add "+sxCav(&bc)+")")
					if err != nil {
						outs = append(outs, "add:"+addClass(err))
					} else {
						outs = append(outs, "add:ok")
					}
					o.count(fmt.Sprintf("bound.byhand.len%d", len(bc)))
				}
				if r.Bool() {
					parent := pick(r, ancestors)
					if r.Bool() {
						parent = final
					}
					// only bind to the final token or its ancestors' descendants: final descends from all
					err := dm.Bind(final)
					_ = parent
					ops = append(ops, "(bind "+hx(final)+")")
					if err != nil {
						outs = append(outs, "bind:"+addClass(err))
					} else {
						outs = append(outs, "bind:ok")
					}
					o.count("bound")
				}
				// the third party may hand out a CLONE taken before the proof was ever encoded: it is as good
				var cloneEnc []byte
				if r.Chance(1, 3) {
					ops = append(ops, "clone")
					if cl, err := dm.Clone(); err != nil {
						outs = append(outs, "clone:err")
					} else {
						cloneEnc = mustEnc(cl)
						outs = append(outs, "clone:"+hx(cloneEnc))
					}
					o.count("discharge.clonedBeforeEncode")
				}
				enc := mustEnc(dm)
				ops = append(ops, "encode")
				outs = append(outs, "enc:"+hx(enc))
				if cloneEnc != nil {
					enc = cloneEnc
				}
				o.emit(fmt.Sprintf("(proof.run %s %s %s %s %s (%s))", hx(u.p.ka), hs(dloc), hx(u.ticket), hx(dm.Nonce.Rnd), hx(u.rn), strings.Join(ops, " ")), strings.Join(outs, " "))
				ds = append(ds, enc)
				if r.Bool() {
					trusted[dloc] = append(trusted[dloc], u.p.ka)
				}
			} else {
				// old style: a non-proof discharge is just a macaroon keyed by rn whose key-id is the ticket
				d, err := macaroon.New(u.ticket, dloc, u.rn)
				if err != nil {
					panic(err)
				}
				o.count("discharge.nonproof")
				o.emit(fmt.Sprintf("(tok.new %s %s %s %s)", hx(u.rn), hx(u.ticket), hs(dloc), hx(d.Nonce.Rnd)), hx(mustEnc(d)))
				its := make([]addItem, len(extra))
				for j, c := range extra {
					its[j] = addItem{cav: c}
				}
				doAdd(o, d, its)
				if r.Bool() {
					before := mustEnc(d)
					err := d.Bind(final)
					res := "ok " + hx(mustEnc(d))
					if err != nil {
						res = "err:" + addClass(err) + " " + hx(mustEnc(d))
					}
					o.emit(fmt.Sprintf("(tok.bind %s %s)", hx(before), hx(final)), res)
					o.count("bound")
				}
				dm = d
				ds = append(ds, mustEnc(d))
			}
			seenD := map[string]bool{}
			for _, c := range dm.UnsafeCaveats.Caveats {
				if _, isBind := c.(*macaroon.BindToParentToken); isBind {
					continue
				}
				b, _ := encOne(c)
				if !seenD[string(b)] {
					seenD[string(b)] = true
					dischargeCavs = append(dischargeCavs, c)
				}
			}
		}
		// candidates that do NOT fit, presented BEFORE the fitting discharge of the same ticket (a discharge of the
		// same ticket bound to another token, one signed under another key): verification takes the first that
		// fits, the failures of the others do not matter
		if len(tps) > 0 && r.Chance(1, 2) {
			var front [][]byte
			for _, u := range tps {
				if r.Bool() {
					continue
				}
				if _, dw, err := macaroon.DischargeTicket(u.p.ka, u.p.loc, u.ticket); err == nil {
					other, _ := macaroon.New(r.Bytes(4), loc, r.Bytes(32))
					if dw.Bind(mustEnc(other)) == nil {
						front = append(front, mustEnc(dw))
					}
				}
				if f, err := macaroon.New(u.ticket, u.p.loc, r.Bytes(32)); err == nil && r.Bool() {
					front = append(front, mustEnc(f))
				}
			}
			if len(front) > 0 {
				ds = append(front, ds...)
				o.count("verify.nonFittingCandidatesFirst")
			}
		}
		// shuffle the discharges: presentation order must not matter for which caveats come back... (they
		// are returned in caveat order), and add junk
		if r.Chance(1, 3) {
			ds = append(ds, r.Bytes(10))
		}
		obs := verifyObs(key, final, ds, trusted)
		o.emit(verifyOp(key, final, ds, trusted), obs)
		want := "ok " + sxCavs(append(append([]macaroon.Caveat{}, expected...), dischargeCavs...))
		if obs == want {
			o.emit("(const match)", "match")
		} else {
			o.emit("(const match)", "legit-token-not-accepted-as-expected:"+strings.ReplaceAll(obs[:min(len(obs), 60)], " ", "_"))
		}
		o.count(fmt.Sprintf("tps.%d", len(tps)))
		// the SAME third-party caveat value added to a second token (Add copies the caveat "in case the caveat is
		// added to multiple macaroons"; bundle.Attenuate does exactly that): the second token is as good as the
		// first - its genuine discharge is accepted, one signed under another key is not
		if len(tps) > 0 && r.Chance(1, 2) {
			u := tps[0]
			key2 := r.Bytes(32)
			tok2, err := macaroon.New(r.Bytes(6), loc, key2)
			if err == nil {
				o.emit(fmt.Sprintf("(tok.new %s %s %s %s)", hx(key2), hx(tok2.Nonce.KID), hs(loc), hx(tok2.Nonce.Rnd)), hx(mustEnc(tok2)))
				if doAdd(o, tok2, []addItem{u.it}) == nil {
					final2 := mustEnc(tok2)
					_, d2, err := macaroon.DischargeTicket(u.p.ka, u.p.loc, u.ticket)
					if err == nil {
						good := [][]byte{mustEnc(d2)}
						o.emit(verifyOp(key2, final2, good, nil), verifyObs(key2, final2, good, nil))
						for _, badKey := range [][]byte{make([]byte, 32), nil, r.Bytes(32)} {
							if f, err := macaroon.New(u.ticket, u.p.loc, badKey); err == nil {
								bad := [][]byte{mustEnc(f)}
								obs := verifyObs(key2, final2, bad, nil)
								o.emit(verifyOp(key2, final2, bad, nil), obs)
								if strings.HasPrefix(obs, "ok") {
									o.emit("(const match)", "reused-caveat:discharge-under-another-key-accepted")
								} else {
									o.emit("(const match)", "match")
								}
							}
						}
						o.count("caveat.reusedOnSecondToken")
					}
				}
			}
		}
		// ONE caveat list applied to two tokens (what bundle.Attenuate does with its arguments), the first of which
		// already carries some of the list's elements: the second token gets - and verification of it yields - every
		// element of the list, in order, and the caller's list is left as it was
		if r.Chance(1, 2) {
			keyA, keyB := r.Bytes(32), r.Bytes(32)
			ta, _ := macaroon.New(r.Bytes(6), loc, keyA)
			tb, _ := macaroon.New(r.Bytes(6), loc, keyB)
			nl := 2 + r.Intn(3)
			list := make([]macaroon.Caveat, nl)
			for k := range list {
				list[k] = &macaroon.ValidityWindow{NotBefore: int64(k + 1), NotAfter: int64(1000 - k)}
			}
			want := sxCavs(list)
			// the first token carries a random non-empty subset of the list beforehand
			pre := 0
			for k := range list {
				if r.Bool() || (k == 0 && pre == 0) {
					ta.Add(list[k])
					pre++
				}
			}
			errA := ta.Add(list...)
			errB := tb.Add(list...)
			o.count(fmt.Sprintf("sharedList.len%d.pre%d", nl, pre))
			res := "match"
			switch {
			case errA != nil || errB != nil:
				res = "shared-list:add-refused"
			case sxCavs(list) != want:
				res = "shared-list:callers-list-rewritten"
			default:
				for _, tc := range []struct {
					t *macaroon.Macaroon
					k []byte
				}{{ta, keyA}, {tb, keyB}} {
					m2, err := macaroon.Decode(mustEnc(tc.t))
					if err != nil {
						res = "shared-list:not-decodable"
						break
					}
					cs, err := m2.Verify(tc.k, nil, nil)
					if err != nil {
						res = "shared-list:legit-token-rejected"
						break
					}
					got := map[string]bool{}
					for _, c := range cs.Caveats {
						got[sxCav(c)] = true
					}
					for _, c := range list {
						if !got[sxCav(c)] {
							res = "shared-list:caveat-missing-from-verified-set"
						}
					}
				}
			}
			o.emit("(const match)", res)
		}
		_ = bytes.Equal
	}
}

func min(a, b int) int {
	if a < b {
		return a
	}
	return b
}
