package main

// Family json (JSON half of C11): caveat sets of every registered kind with valid-UTF-8 text fields
// are rendered with json.Marshal and read back with json.Unmarshal.
//
//   (json.rt (C…))         impl: ok (C'…) | err:unregistered | err:tooLong (a GoogleUserID of more than 128
//                          characters is refused by the reader) | err:marshal-other | err:unmarshal
//   (const same)           declarative oracle: the set read back clears ~10 requests (actions within
//                          the five defined bits) exactly as the original: same | differs:<request>
//   (const deterministic)  json.Marshal of the same value (maps rebuilt in fresh insertion orders)
//                          gives identical text every time
//   (const stable)         marshalling the set that was read back gives the same text again
//   (json.names) (json.typeof x<name>) (json.nameof n)   the type-name tables (names, aliases, decimals,
//                          letter-case variants and blank-padded forms of every name)
//   (json.rt (C…)) again   a third of the sets: rendered / read along another legal route (jsonVia: set by value,
//                          MarshalIndent, Encoder without HTML escaping, as the "caveats" member of a Macaroon,
//                          decimal type numbers, the registered aliases, members reordered with an unknown
//                          member, into a CaveatSet that already holds caveats) - same answer as the plain route
//   (const same)           also: Nonce's own JSON form gives back the same nonce (famJSONNonces)
//
// Not generated: a nil flyio.Commands and a nil BindToParentToken — both render as "body":null, which
// on the unrepaired tree reads back as a nil Caveat (open finding F4); flip jsonF4Repaired once it is
// repaired.  Text fields, map keys: valid UTF-8 only (the property's hypothesis; encoding/json
// replaces invalid bytes by U+FFFD); []byte fields (base64) are unrestricted.

import (
	"bytes"
	"encoding/json"
	"fmt"
	"math/big"
	"sort"
	"strconv"
	"strings"
	"time"
	"unicode/utf8"

	"github.com/superfly/macaroon"
	"github.com/superfly/macaroon/auth"
	"github.com/superfly/macaroon/flyio"
	"github.com/superfly/macaroon/resset"
)

func init() { families["json"] = famJSON }

// the nil Commands / nil BindToParentToken values ("body":null) are generated only when true
const jsonF4Repaired = true

var jRunes = []rune{0, 1, '\t', '\n', ' ', '"', '\\', '/', '<', '>', '&', '\'', 'a', 'b', 'Z', '0', '*', 'r', 'w', 0x7f,
	0x80, 0xe9, 0x7ff, 0x800, 0x2028, 0x2029, 0x20ac, 0xd7ff, 0xe000, 0xfffd, 0xfffe, 0xffff, 0x10000, 0x1f600, 0x10ffff}

// utf8Str: a valid UTF-8 string (possibly with control characters, characters JSON escapes, multi-byte
// and astral code points)
// jWideStrs: valid UTF-8 the narrower cases never produced as WHOLE values: letter-case variants of one
// word (also the code points that only case FOLDING equates: U+212A, U+017F, dotted/dotless i), leading /
// trailing blanks, composed vs decomposed accents, a byte-order mark, separators, ids that are prefixes
// of each other, NUL, and a long string
var jWideStrs = []string{"a", "A", "ab", "Ab", "aB", "AB", " a", "a ", "\ta", "a\n", " ", "\u00e9", "e\u0301", "\u00c9", "E\u0301",
	"k", "K", "\u212a", "s", "S", "\u017f", "\u00df", "SS", "ss", "i", "I", "\u0130", "\u0131", "\ufeffa", "\ufeff",
	"a/", "a/b", "a/b/", "/", "a\x00", "a\x00b", "\x00", "example.com", "Example.COM", "example.com.",
	"https://auth.example", "https://auth.example/", "https://Auth.Example", strings.Repeat("k", 300)}

func (r *Rng) utf8Str() string {
	switch r.Intn(8) {
	case 6, 7:
		return pick(r, jWideStrs)
	case 0:
		return ""
	case 1, 2:
		return pick(r, smallStrs)
	case 3:
		n := r.Intn(6)
		rs := make([]rune, n)
		for i := range rs {
			rs[i] = pick(r, jRunes)
		}
		return string(rs)
	case 4:
		// random scalar values
		n := 1 + r.Intn(4)
		rs := make([]rune, n)
		for i := range rs {
			c := rune(r.U64() % 0x110000)
			if c >= 0xd800 && c <= 0xdfff {
				c = 0xe9
			}
			rs[i] = c
		}
		return string(rs)
	default:
		// looks like a number / a mask / a type name
		return pick(r, []string{"0", "123", "-1", "18446744073709551615", "rwcdC", "*", "null", "Organization", "{}", "[]"})
	}
}

var jMaskPool = []resset.Action{0, 1, 2, 3, 4, 8, 16, 31, 30, 5, 32, 33, 63, 64, 0x8000, 0x801f, 0xffe0, 0xffff}

func (r *Rng) jMask() resset.Action {
	if r.Chance(1, 6) {
		return resset.Action(r.U64())
	}
	return pick(r, jMaskPool)
}

func (r *Rng) jU64() uint64 {
	switch r.Intn(4) {
	case 0:
		return pick(r, smallIDs)
	case 1:
		return pick(r, []uint64{1<<53 - 1, 1 << 53, 1<<53 + 1, 1<<63 - 1, 1 << 63, 1<<63 + 1, 1<<64 - 2, 1<<64 - 1, 1e15, 1e16 + 1, 1e19})
	case 2:
		return r.U64() >> uint(r.Intn(64))
	default:
		return pick(r, boundaryU64)
	}
}

func (r *Rng) jStrSet(o *Out) resset.ResourceSet[string, resset.Action] {
	switch r.Intn(8) {
	case 0:
		o.count("map.nil")
		return nil
	case 1:
		o.count("map.empty")
		return resset.ResourceSet[string, resset.Action]{}
	}
	n := pick(r, []int{1, 1, 2, 3, 5, 9})
	m := resset.ResourceSet[string, resset.Action]{}
	for i := 0; i < n; i++ {
		m[r.utf8Str()] = r.jMask()
	}
	return m
}

const nJSONKinds = 30

func (r *Rng) jCav(o *Out, depth int) macaroon.Caveat {
	return r.jCavKind(o, r.Intn(nJSONKinds), depth)
}

func (r *Rng) jCavKind(o *Out, k int, depth int) macaroon.Caveat {
	switch k {
	case 0:
		return &flyio.Organization{ID: r.jU64(), Mask: r.jMask()}
	case 1:
		switch r.Intn(8) {
		case 0:
			o.count("map.nil")
			return &flyio.Apps{}
		case 1:
			o.count("map.empty")
			return &flyio.Apps{Apps: resset.ResourceSet[uint64, resset.Action]{}}
		}
		n := pick(r, []int{1, 1, 2, 3, 6})
		m := resset.ResourceSet[uint64, resset.Action]{}
		for i := 0; i < n; i++ {
			m[r.jU64()] = r.jMask()
		}
		return &flyio.Apps{Apps: m}
	case 2:
		return &flyio.Volumes{Volumes: r.jStrSet(o)}
	case 3:
		return &flyio.Machines{Machines: r.jStrSet(o)}
	case 4:
		return &flyio.FeatureSet{Features: r.jStrSet(o)}
	case 5:
		return &flyio.MachineFeatureSet{Features: r.jStrSet(o)}
	case 6:
		return &flyio.AppFeatureSet{Features: r.jStrSet(o)}
	case 7:
		return &flyio.Clusters{Clusters: r.jStrSet(o)}
	case 8:
		s := r.jStrSet(o)
		if s == nil {
			return &flyio.StorageObjects{}
		}
		m := resset.ResourceSet[resset.Prefix, resset.Action]{}
		for k, v := range s {
			m[resset.Prefix(k)] = v
		}
		return &flyio.StorageObjects{Prefixes: m}
	case 9:
		return &macaroon.ValidityWindow{NotBefore: r.jI64(), NotAfter: r.jI64()}
	case 10:
		switch r.Intn(4) {
		case 0:
			o.count("slice.nil")
			return &flyio.Mutations{}
		case 1:
			o.count("slice.empty")
			return &flyio.Mutations{Mutations: []string{}}
		}
		ms := make([]string, 1+r.Intn(3))
		for i := range ms {
			ms[i] = r.utf8Str()
		}
		return &flyio.Mutations{Mutations: ms}
	case 11:
		return &auth.ConfineUser{ID: r.jU64()}
	case 12:
		return &auth.ConfineOrganization{ID: r.jU64()}
	case 13:
		return &flyio.IsUser{ID: r.jU64()}
	case 14:
		c := &macaroon.Caveat3P{Location: r.utf8Str()}
		// nil and empty []byte both print as the empty byte string; bytes are arbitrary (base64)
		if !r.Chance(1, 5) {
			c.VerifierKey = r.Bytes(pick(r, []int{0, 1, 2, 3, 60}))
		}
		if !r.Chance(1, 5) {
			c.Ticket = r.Bytes(pick(r, []int{0, 1, 2, 3, 100}))
		}
		return c
	case 15:
		if jsonF4Repaired && r.Chance(1, 6) {
			o.count("f4.bind-nil")
			var b macaroon.BindToParentToken
			return &b
		}
		b := macaroon.BindToParentToken(r.Bytes(pick(r, []int{0, 1, 2, 3, 16, 32})))
		return &b
	case 16:
		if depth <= 0 {
			a := r.jMask()
			return &a
		}
		if r.Chance(1, 8) {
			o.count("ifs.nilptr")
			return &resset.IfPresent{Else: r.jMask()}
		}
		n := pick(r, []int{0, 1, 1, 2, 3, 5})
		cs := make([]macaroon.Caveat, n)
		for i := range cs {
			cs[i] = r.jCav(o, depth-1)
		}
		set := macaroon.NewCaveatSet(cs...)
		if n == 0 && r.Bool() {
			set = &macaroon.CaveatSet{} // nil slice
		}
		o.count(fmt.Sprintf("ifs.depth%d", depth))
		return &resset.IfPresent{Ifs: set, Else: r.jMask()}
	case 17:
		return &flyio.FromMachine{ID: r.utf8Str()}
	case 18:
		h := auth.ConfineGoogleHD(r.utf8Str())
		return &h
	case 19:
		v := auth.ConfineGitHubOrg(r.jU64())
		return &v
	case 20:
		v := auth.MaxValidity(pick(r, []uint64{0, 1, 60, 3600, 1 << 31, 9223372036, 9223372037, 1<<53 + 1, 1 << 63, 1<<64 - 1, 18446744073}))
		return &v
	case 21:
		return &flyio.IsMember{}
	case 22:
		u := auth.FlyioUserID(r.jU64())
		return &u
	case 23:
		u := auth.GitHubUserID(r.jU64())
		return &u
	case 24:
		z := new(big.Int).SetBytes(r.Bytes(pick(r, []int{0, 1, 7, 8, 9, 21})))
		if r.Chance(1, 4) {
			// around the reader's limit of 128 characters; half of them as the MessagePack decoder delivers them
			u := auth.GoogleUserID(*r.jGoogleBoundary(o))
			if r.Bool() {
				o.count("google.msgpack-born")
				return msgpackBorn(&u)
			}
			return &u
		}
		if r.Chance(1, 5) {
			// a negative big.Int is a legal Go value: JSON keeps the sign, the model (like the wire) sees the magnitude
			z.Neg(z)
			o.count("google.negative")
		}
		u := auth.GoogleUserID(*z)
		return &u
	case 25:
		a := r.jMask()
		return &a
	case 26:
		switch r.Intn(5) {
		case 0:
			if jsonF4Repaired {
				o.count("f4.commands-nil")
				var c flyio.Commands
				return &c
			}
			o.count("f4.skipped")
			fallthrough
		case 1:
			o.count("slice.empty")
			c := flyio.Commands{}
			return &c
		}
		cs := make(flyio.Commands, 1+r.Intn(3))
		for i := range cs {
			switch r.Intn(3) {
			case 0:
				o.count("slice.nil")
				cs[i] = flyio.Command{Exact: r.Bool()}
			case 1:
				o.count("slice.empty")
				cs[i] = flyio.Command{Args: []string{}, Exact: r.Bool()}
			default:
				args := make([]string, 1+r.Intn(3))
				for j := range args {
					if r.Bool() {
						args[j] = pick(r, []string{"a", "b", "ls", ""})
					} else {
						args[j] = r.utf8Str()
					}
				}
				cs[i] = flyio.Command{Args: args, Exact: r.Bool()}
			}
		}
		return &cs
	case 27:
		ar := flyio.AllowedRoles(pick(r, []uint32{0, 1, 2, 3, 5, 0x7fffffff, 0x80000000, 0xFFFFFFFE, 0xFFFFFFFF, uint32(r.U64())}))
		return &ar
	case 28:
		return &flyio.FlySrc{Organization: r.utf8Str(), App: r.utf8Str(), Instance: r.utf8Str()}
	default:
		// unregistered, as decoded from MessagePack: no RawJSON
		typ := pick(r, []uint64{1, 17, 18, 32, 127, 1000, 1 << 16, 1 << 32, 1 << 48, 1<<64 - 2, 1<<64 - 1})
		body := pick(r, [][]byte{{0xc0}, {0x01}, {0x90}, {0x91, 0x05}, {0xa1, 0x61}, {0x80}, {0x81, 0xa1, 0x61, 0x02}, {0xc4, 0x01, 0xff}})
		set := macaroon.NewCaveatSet(&macaroon.UnregisteredCaveat{Type: macaroon.CaveatType(typ), RawMsgpack: append([]byte{}, body...)})
		if r.Bool() {
			// through the real decoder (fills Body)
			if b, err := set.MarshalMsgpack(); err == nil {
				if dec, err := macaroon.DecodeCaveats(b); err == nil && len(dec.Caveats) == 1 {
					o.count("unreg.decoded")
					return dec.Caveats[0]
				}
			}
		}
		return set.Caveats[0]
	}
}

func (r *Rng) jI64() int64 {
	switch r.Intn(3) {
	case 0:
		return r.timeBound()
	case 1:
		return pick(r, []int64{0, 1, -1, -1 << 63, 1<<63 - 1, 1<<53 + 1, -(1<<53 + 1), 1 << 31, -1 << 31})
	default:
		return int64(r.U64()) >> uint(r.Intn(64))
	}
}

// jReq: a request as in the clearing families, its action within the five defined bits
func (r *Rng) jReq() req {
	switch k := r.Intn(10); {
	case k < 6:
		d := r.Dyn()
		d.Action &= resset.ActionAll
		kind := pick(r, dynKinds)
		return req{d.As(kind), d.Sx(kind), "dyn." + kind}
	case k < 8:
		d := r.Dyn()
		d.Action &= resset.ActionAll
		now := time.Now()
		return req{d.FlyioAccess(), d.SxFlyio(now.Unix(), int64(now.Nanosecond())), "flyio"}
	default:
		dr := r.DischargeRequest()
		now := time.Now()
		dr.Expiry = now.Add(pick(r, []time.Duration{-time.Hour, 30 * time.Second, 90 * time.Minute, 200 * 365 * 24 * time.Hour}))
		return req{dr, sxDR(dr, now.Unix(), int64(now.Nanosecond())), "dr"}
	}
}

// aimedReq: a request aimed at the caveat (so that resource-set entries, masks and conditionals are
// actually consulted): the resource named by one of the caveat's own keys, a defined action
func (r *Rng) aimedReq(cavs []macaroon.Caveat) req {
	d := r.Dyn()
	d.WF = ""
	d.Action = pick(r, []resset.Action{0, 1, 2, 3, 4, 8, 16, 31, 30, 17})
	var visit func(cs []macaroon.Caveat)
	visit = func(cs []macaroon.Caveat) {
		for _, c := range cs {
			switch v := c.(type) {
			case *flyio.Organization:
				if r.Bool() {
					d.Org = p64(v.ID)
				}
			case *flyio.Apps:
				for k := range v.Apps {
					if r.Bool() {
						d.App = p64(k)
					}
				}
			case *flyio.Volumes:
				for k := range v.Volumes {
					if r.Bool() {
						d.Volume = pstr(k)
					}
				}
			case *flyio.Machines:
				for k := range v.Machines {
					if r.Bool() {
						d.Machine = pstr(k)
					}
				}
			case *flyio.FeatureSet:
				for k := range v.Features {
					if r.Bool() {
						d.Feature = pstr(k)
					}
				}
			case *flyio.MachineFeatureSet:
				for k := range v.Features {
					if r.Bool() {
						d.MachFeat = pstr(k)
					}
				}
			case *flyio.AppFeatureSet:
				for k := range v.Features {
					if r.Bool() {
						d.AppFeat = pstr(k)
					}
				}
			case *flyio.Clusters:
				for k := range v.Clusters {
					if r.Bool() {
						d.Cluster = pstr(k)
					}
				}
			case *flyio.StorageObjects:
				for k := range v.Prefixes {
					if r.Bool() {
						p := resset.Prefix(string(k) + pick(r, []string{"", "x"}))
						d.Storage = &p
					}
				}
			case *flyio.Mutations:
				for _, m := range v.Mutations {
					if r.Bool() {
						d.Mutation = pstr(m)
					}
				}
			case *flyio.FromMachine:
				d.SrcMach = pstr(v.ID)
			case *flyio.FlySrc:
				d.SrcMach, d.SrcApp, d.SrcOrg = pstr(v.Instance), pstr(v.App), pstr(v.Organization)
			case *flyio.Commands:
				for _, cmd := range *v {
					if r.Bool() {
						d.HasCmd = true
						d.Command = append([]string{}, cmd.Args...)
					}
				}
			case *resset.IfPresent:
				if v.Ifs != nil {
					visit(v.Ifs.Caveats)
				}
			}
		}
	}
	visit(cavs)
	return req{d.As("full"), d.Sx("full"), "aimed"}
}

func hasUnregistered(cs []macaroon.Caveat) bool {
	for _, c := range cs {
		switch v := c.(type) {
		case *macaroon.UnregisteredCaveat:
			return true
		case *resset.IfPresent:
			if v.Ifs != nil && hasUnregistered(v.Ifs.Caveats) {
				return true
			}
		}
	}
	return false
}

func jShuf[K resset.ID](r *Rng, m resset.ResourceSet[K, resset.Action]) resset.ResourceSet[K, resset.Action] {
	if m == nil {
		return nil
	}
	keys := make([]K, 0, len(m))
	for k := range m {
		keys = append(keys, k)
	}
	sort.Slice(keys, func(i, j int) bool { return keys[i] < keys[j] })
	for i := len(keys) - 1; i > 0; i-- {
		j := r.Intn(i + 1)
		keys[i], keys[j] = keys[j], keys[i]
	}
	out := make(resset.ResourceSet[K, resset.Action], r.Intn(3)*len(keys))
	for _, k := range keys {
		out[k] = m[k]
	}
	return out
}

// jRebuildOne: the same caveat value with its map re-built in a fresh random insertion order
// (nil stays nil)
func (r *Rng) jRebuildOne(c macaroon.Caveat) macaroon.Caveat {
	switch v := c.(type) {
	case *flyio.Apps:
		return &flyio.Apps{Apps: jShuf(r, v.Apps)}
	case *flyio.Volumes:
		return &flyio.Volumes{Volumes: jShuf(r, v.Volumes)}
	case *flyio.Machines:
		return &flyio.Machines{Machines: jShuf(r, v.Machines)}
	case *flyio.FeatureSet:
		return &flyio.FeatureSet{Features: jShuf(r, v.Features)}
	case *flyio.MachineFeatureSet:
		return &flyio.MachineFeatureSet{Features: jShuf(r, v.Features)}
	case *flyio.AppFeatureSet:
		return &flyio.AppFeatureSet{Features: jShuf(r, v.Features)}
	case *flyio.Clusters:
		return &flyio.Clusters{Clusters: jShuf(r, v.Clusters)}
	case *flyio.StorageObjects:
		return &flyio.StorageObjects{Prefixes: jShuf(r, v.Prefixes)}
	}
	return c
}

// jRebuild: the same set with every map rebuilt in a fresh random insertion order (deep)
func (r *Rng) jRebuild(cs []macaroon.Caveat) []macaroon.Caveat {
	out := make([]macaroon.Caveat, len(cs))
	for i, c := range cs {
		if ip, ok := c.(*resset.IfPresent); ok && ip.Ifs != nil {
			out[i] = &resset.IfPresent{Ifs: &macaroon.CaveatSet{Caveats: r.jRebuild(ip.Ifs.Caveats)}, Else: ip.Else}
			if ip.Ifs.Caveats == nil {
				out[i].(*resset.IfPresent).Ifs.Caveats = nil
			}
			continue
		}
		out[i] = r.jRebuildOne(c)
	}
	return out
}

func famJSON(r *Rng, o *Out, tier string) {
	n := 3000
	if tier == "thorough" {
		n = 60000
	}

	// --- the type-name tables ---
	famJSONNames(r, o)
	// --- nonces ---
	famJSONNonces(r, o)

	one := func(cavs []macaroon.Caveat) {
		for _, c := range cavs {
			o.count(fmt.Sprintf("cav.%T", c))
		}
		cs := &macaroon.CaveatSet{Caveats: cavs}
		var text []byte
		var cs2 macaroon.CaveatSet
		res := guard(func() string {
			b, err := json.Marshal(cs)
			if err != nil {
				if hasUnregistered(cavs) {
					return "err:unregistered"
				}
				return "err:marshal-other"
			}
			text = b
			if err := json.Unmarshal(b, &cs2); err != nil {
				return jsonReadClass(err)
			}
			return "ok " + sxCavs(cs2.Caveats)
		})
		switch {
		case strings.HasPrefix(res, "ok"):
			o.count("rt.ok")
		case strings.HasPrefix(res, "panic"):
			o.count("rt.panic")
		default:
			o.count("rt." + res)
		}
		if !utf8.Valid(text) {
			o.count("text.invalid-utf8")
		}
		o.emit("(json.rt "+sxCavs(cavs)+")", res)
		if !strings.HasPrefix(res, "ok") {
			// the error must not depend on map order either
			if text == nil && !strings.HasPrefix(res, "panic") {
				_, err := json.Marshal(&macaroon.CaveatSet{Caveats: r.jRebuild(cavs)})
				if err == nil {
					o.emit("(const deterministic)", "error-then-success")
				} else {
					o.emit("(const deterministic)", "deterministic")
				}
			}
			return
		}
		if sxCavs(cs2.Caveats) != sxCavs(cavs) {
			o.count("rt.value-differs")
		} else {
			o.count("rt.value-same")
		}
		m1, e1 := cs.MarshalMsgpack()
		m2, e2 := cs2.MarshalMsgpack()
		if e1 == nil && e2 == nil && !bytes.Equal(m1, m2) {
			o.count("rt.msgpack-differs")
		}

		// clears the same: generic requests and requests aimed at the set's own resources
		verdict := "same"
		for i := 0; i < 10 && verdict == "same"; i++ {
			var q req
			if i < 5 {
				q = r.jReq()
			} else {
				q = r.aimedReq(cavs)
			}
			o.count("req." + q.tag)
			before := guard(func() string { return sxErr(cs.Validate(q.acc)) })
			after := guard(func() string { return sxErr(cs2.Validate(q.acc)) })
			if before == "ok" {
				o.count("clear.permit")
			} else if strings.HasPrefix(before, "panic") {
				o.count("clear.panic")
			} else {
				o.count("clear.deny")
			}
			if before != after {
				verdict = "differs:" + q.sx + ":" + before + ":" + after
			}
		}
		o.emit("(const same)", verdict)

		// determinism: the same value, maps rebuilt in fresh insertion orders, several times
		det := "deterministic"
		for i := 0; i < 4; i++ {
			b, err := json.Marshal(&macaroon.CaveatSet{Caveats: r.jRebuild(cavs)})
			if err != nil || !bytes.Equal(b, text) {
				det = "nondeterministic"
			}
		}
		o.emit("(const deterministic)", det)

		// the set that came back renders to the same text, and the model agrees it is a fixed point
		b2, err := json.Marshal(&cs2)
		if err != nil || !bytes.Equal(b2, text) {
			o.emit("(const stable)", "unstable")
		} else {
			o.emit("(const stable)", "stable")
		}
		// the same set rendered and read along other legal routes gives the same set (the model line again,
		// the implementation's answer taken along the other route)
		if r.Chance(1, 3) {
			route := pick(r, jsonRoutes)
			o.count("route." + route)
			o.emit("(json.rt "+sxCavs(cavs)+")", jsonVia(r, route, cs, text))
		}
		if r.Chance(1, 4) {
			o.count("rt.second-hop")
			res2 := guard(func() string {
				var cs3 macaroon.CaveatSet
				if err := json.Unmarshal(b2, &cs3); err != nil {
					return jsonReadClass(err)
				}
				return "ok " + sxCavs(cs3.Caveats)
			})
			o.emit("(json.rt "+sxCavs(cs2.Caveats)+")", res2)
		}
	}

	// every kind on its own, several values each
	reps := 20
	if tier == "thorough" {
		reps = 300
	}
	for k := 0; k < nJSONKinds; k++ {
		for i := 0; i < reps; i++ {
			one([]macaroon.Caveat{r.jCavKind(o, k, 2)})
		}
	}
	// every kind nested in a conditional (an unregistered one makes the whole marshal fail)
	for k := 0; k < nJSONKinds; k++ {
		for i := 0; i < reps/4+1; i++ {
			inner := macaroon.NewCaveatSet(r.jCavKind(o, k, 1))
			outer := &resset.IfPresent{Ifs: macaroon.NewCaveatSet(&resset.IfPresent{Ifs: inner, Else: r.jMask()}, r.jCav(o, 0)), Else: r.jMask()}
			one([]macaroon.Caveat{outer})
		}
	}
	// Google ids around the reader's 128-character limit
	famJSONGoogleBoundary(r, o, one, reps*4)
	// random sets
	for i := 0; i < n; i++ {
		nc := r.Intn(6)
		if r.Chance(1, 20) {
			nc = 8 + r.Intn(5)
		}
		cavs := make([]macaroon.Caveat, 0, nc)
		for j := 0; j < nc; j++ {
			k := r.Intn(nJSONKinds)
			// keep unregistered caveats rare enough that most sets round-trip
			if k == nJSONKinds-1 && !r.Chance(1, 3) {
				k = 16
			}
			cavs = append(cavs, r.jCavKind(o, k, 3))
		}
		if nc > 0 && r.Chance(1, 8) {
			// one caveat value (one pointer) at two places of the set
			j := r.Intn(len(cavs))
			at := r.Intn(len(cavs) + 1)
			cavs = append(cavs[:at], append([]macaroon.Caveat{cavs[j]}, cavs[at:]...)...)
			o.count("set.same-pointer-twice")
		}
		if nc > 8 {
			o.count("set.len9+")
		} else {
			o.count(fmt.Sprintf("set.len%d", nc))
		}
		one(cavs)
	}

	// JSON-born unregistered caveats (RawJSON kept): outside the value model; only the declared
	// behaviour "kept verbatim, same numeric type" is checked
	for _, src := range []string{
		`[{"type":"17","body":{"x":[1,2,"é"]}}]`,
		`[{"type":"no such name","body":"x"}]`,
		`[{"type":"281474976710656","body":"s"}]`,
		`[{"type":"IfPresent","body":{"ifs":[{"type":"1000","body":[1,{"a":null}]}],"else":"r"}}]`,
		`[ { "body" : { "k" : [ 1 , 2 ] , "K" : "\u00e9\ud83d\ude00" } , "type" : "33" } ]`,
		`[{"type":"4294967296","body":18446744073709551616},{"type":"4294967296","body":18446744073709551616}]`,
		`[{"type":"65536","body":null}]`,
		`[{"type":"18446744073709551615","body":{"a":1,"a":2}}]`,
		`[{"type":"Unregistered","body":"<&>"}]`,
		`[{"type":"organization","body":{"id":1,"mask":"r"}}]`,
		`[{"type":" 4","body":{"not_before":1,"not_after":2}}]`,
	} {
		res := guard(func() string {
			var a, b macaroon.CaveatSet
			if err := json.Unmarshal([]byte(src), &a); err != nil {
				return "err:unmarshal"
			}
			t1, err := json.Marshal(&a)
			if err != nil {
				return "err:marshal"
			}
			if err := json.Unmarshal(t1, &b); err != nil {
				return "err:unmarshal2"
			}
			t2, err := json.Marshal(&b)
			if err != nil || !bytes.Equal(t1, t2) {
				return "unstable"
			}
			return "stable"
		})
		o.count("unreg.json-born")
		o.emit("(const stable)", res)
	}
	// LAST (a registration that goes through stays): the name <-> type tables must stay inverses of each other - a
	// second caveat type under a name (or a JSON alias) that is taken is refused (the library panics), whatever its
	// type number; else a set written under that name comes back as the OTHER type
	{
		verdict := "stable"
		for i, name := range []string{"Organization", "ValidityWindow", "Apps", "DeprecatedOrganization"} {
			name := name
			typ := macaroon.CaveatType(uint64(macaroon.CavMinUserDefined) + 0x5151 + uint64(i))
			refused := func() (refused bool) {
				defer func() {
					if recover() != nil {
						refused = true
					}
				}()
				macaroon.RegisterCaveatType(&dupNameCav{typ: typ, name: name})
				return false
			}()
			o.count("registry.duplicate-name")
			if !refused && verdict == "stable" {
				verdict = "second-caveat-type-registered-under-the-taken-name:" + name
			}
		}
		o.emit("(const stable)", verdict)
	}
}

// dupNameCav: a caveat type of the harness that asks for a name another type already has
type dupNameCav struct {
	typ  macaroon.CaveatType
	name string
}

func (c *dupNameCav) CaveatType() macaroon.CaveatType   { return c.typ }
func (c *dupNameCav) Name() string                      { return c.name }
func (c *dupNameCav) Prohibits(a macaroon.Access) error { return nil }

// jsonReadClass: the class of a json.Unmarshal error.  The one the model predicts is the refusal of a
// GoogleUserID whose text has more than 128 characters ("bad bigint: too long"); anything else is
// err:unmarshal, which the model never answers.
func jsonReadClass(err error) string {
	if strings.Contains(err.Error(), "bad bigint: too long") {
		return "err:tooLong"
	}
	return "err:unmarshal"
}

func pow10(k int) *big.Int { return new(big.Int).Exp(big.NewInt(10), big.NewInt(int64(k)), nil) }

// digitsN: a random number of exactly k decimal digits
func (r *Rng) digitsN(k int) *big.Int {
	var sb strings.Builder
	sb.WriteByte(byte('1' + r.Intn(9)))
	for i := 1; i < k; i++ {
		sb.WriteByte(byte('0' + r.Intn(10)))
	}
	z, _ := new(big.Int).SetString(sb.String(), 10)
	return z
}

// jGoogleBoundary: magnitudes around the reader's limit of 128 characters (10^128)
func (r *Rng) jGoogleBoundary(o *Out) *big.Int {
	one := big.NewInt(1)
	var z *big.Int
	var tag string
	switch r.Intn(10) {
	case 0:
		z, tag = pow10(126), "127digits.min"
	case 1:
		z, tag = new(big.Int).Sub(pow10(127), one), "127digits.max"
	case 2:
		z, tag = pow10(127), "128digits.min"
	case 3:
		z, tag = r.digitsN(128), "128digits.random"
	case 4:
		z, tag = new(big.Int).Sub(pow10(128), one), "128digits.max"
	case 5:
		z, tag = pow10(128), "129digits.min"
	case 6:
		z, tag = new(big.Int).Add(pow10(128), one), "129digits.min+1"
	case 7:
		z, tag = r.digitsN(129), "129digits.random"
	case 8:
		z, tag = r.digitsN(127), "127digits.random"
	default:
		z, tag = r.digitsN(300), "300digits"
	}
	o.count("google." + tag)
	return z
}

// msgpackBorn: the caveat as it comes out of the MessagePack decoder (that door has no length limit)
func msgpackBorn(c macaroon.Caveat) macaroon.Caveat {
	if b, err := macaroon.NewCaveatSet(c).MarshalMsgpack(); err == nil {
		if d, err := macaroon.DecodeCaveats(b); err == nil && len(d.Caveats) == 1 {
			return d.Caveats[0]
		}
	}
	panic("harness: a Google id did not survive MessagePack")
}

// famJSONGoogleBoundary: Google ids around 10^128 - Go-built and MessagePack-born through the whole round
// trip (alone, inside a set, inside conditionals, next to an unregistered caveat in either order: the
// marshalling error wins), JSON-born as text handed to the reader (by name, by number, inside a
// conditional).  Negative ids: the model holds the magnitude (what the wire carries); the reader counts the
// minus sign, so for 10^127 <= |n| < 10^128 it refuses what the model accepts - those are judged by the
// (const explicit) line alone: an explicit error, never a different value.
func famJSONGoogleBoundary(r *Rng, o *Out, one func([]macaroon.Caveat), rounds int) {
	for i := 0; i < rounds; i++ {
		z := r.jGoogleBoundary(o)
		u := auth.GoogleUserID(*z)
		var g macaroon.Caveat = &u
		if r.Bool() {
			g = msgpackBorn(g)
			o.count("google.msgpack-born")
		} else {
			o.count("google.go-built")
		}
		unreg := func() macaroon.Caveat {
			return &macaroon.UnregisteredCaveat{Type: 1 << 40, RawMsgpack: []byte{0xa1, 'x'}}
		}
		switch ctx := r.Intn(8); ctx {
		case 0, 1:
			o.count("google.ctx.alone")
			one([]macaroon.Caveat{g})
		case 2:
			o.count("google.ctx.in-set")
			one([]macaroon.Caveat{r.jCavKind(o, r.Intn(nJSONKinds-1), 1), g, r.jCavKind(o, r.Intn(nJSONKinds-1), 1)})
		case 3:
			o.count("google.ctx.nested1")
			one([]macaroon.Caveat{&resset.IfPresent{Ifs: macaroon.NewCaveatSet(r.jCavKind(o, 25, 0), g), Else: r.jMask()}})
		case 4:
			o.count("google.ctx.nested2")
			in := &resset.IfPresent{Ifs: macaroon.NewCaveatSet(g), Else: r.jMask()}
			one([]macaroon.Caveat{&flyio.IsMember{}, &resset.IfPresent{Ifs: macaroon.NewCaveatSet(in, r.jCavKind(o, 0, 0)), Else: r.jMask()}})
		case 5:
			o.count("google.ctx.unregistered-after")
			one([]macaroon.Caveat{g, unreg()})
		case 6:
			o.count("google.ctx.unregistered-before")
			one([]macaroon.Caveat{unreg(), g})
		default:
			o.count("google.ctx.unregistered-nested")
			one([]macaroon.Caveat{&resset.IfPresent{Ifs: macaroon.NewCaveatSet(g), Else: 1}, &resset.IfPresent{Ifs: macaroon.NewCaveatSet(unreg()), Else: 1}})
		}
	}
	// JSON-born: the decimal text handed to the reader (the second half of the round trip on its own)
	for i := 0; i < rounds; i++ {
		z := r.jGoogleBoundary(o)
		u := auth.GoogleUserID(*z)
		var text, op string
		switch r.Intn(4) {
		case 0:
			o.count("google.json-born.by-number")
			text = `[{"type":"25","body":` + z.String() + `}]`
			op = "(json.rt " + sxCavs([]macaroon.Caveat{&u}) + ")"
		case 1:
			o.count("google.json-born.nested")
			text = `[{"type":"IfPresent","body":{"ifs":[{"type":"GoogleUserID","body":` + z.String() + `}],"else":"r"}}]`
			op = "(json.rt " + sxCavs([]macaroon.Caveat{&resset.IfPresent{Ifs: macaroon.NewCaveatSet(&u), Else: 1}}) + ")"
		case 2:
			o.count("google.json-born.spaced")
			text = " [ {\"body\" :\n\t" + z.String() + " , \"type\" : \"GoogleUserID\" } ] "
			op = "(json.rt " + sxCavs([]macaroon.Caveat{&u}) + ")"
		default:
			o.count("google.json-born.by-name")
			text = `[{"type":"GoogleUserID","body":` + z.String() + `}]`
			op = "(json.rt " + sxCavs([]macaroon.Caveat{&u}) + ")"
		}
		o.emit(op, guard(func() string {
			var cs macaroon.CaveatSet
			if err := json.Unmarshal([]byte(text), &cs); err != nil {
				return jsonReadClass(err)
			}
			return "ok " + sxCavs(cs.Caveats)
		}))
	}
	// negative ids
	oneB := big.NewInt(1)
	for _, neg := range []struct {
		tag  string
		mag  *big.Int
		band bool // the minus sign is the 129th character: refused by the reader, accepted by the magnitude-only model
	}{
		{"-5", big.NewInt(5), false},
		{"-(10^126)", pow10(126), false},
		{"-(10^127-1)", new(big.Int).Sub(pow10(127), oneB), false},
		{"-(10^127)", pow10(127), true},
		{"-128digits", r.digitsN(128), true},
		{"-(10^128-1)", new(big.Int).Sub(pow10(128), oneB), true},
		{"-(10^128)", pow10(128), false},
		{"-300digits", r.digitsN(300), false},
	} {
		z := new(big.Int).Neg(neg.mag)
		u := auth.GoogleUserID(*z)
		o.count("google.negative." + neg.tag)
		if !neg.band {
			one([]macaroon.Caveat{&u})
			one([]macaroon.Caveat{&resset.IfPresent{Ifs: macaroon.NewCaveatSet(&u), Else: 1}})
			continue
		}
		for _, cavs := range [][]macaroon.Caveat{{&u}, {&flyio.IsMember{}, &resset.IfPresent{Ifs: macaroon.NewCaveatSet(&u), Else: 1}}} {
			o.emit("(const explicit)", guard(func() string {
				b, err := json.Marshal(&macaroon.CaveatSet{Caveats: cavs})
				if err != nil {
					return "err:marshal"
				}
				var back macaroon.CaveatSet
				if err := json.Unmarshal(b, &back); err != nil {
					if jsonReadClass(err) == "err:tooLong" {
						return "explicit"
					}
					return "err:unmarshal"
				}
				// (accepting it would be fine too, as long as the value is the same one - sign included)
				if b2, err := json.Marshal(&back); err == nil && bytes.Equal(b, b2) {
					return "explicit"
				}
				return "silently-different:" + sxCavs(back.Caveats)
			}))
		}
	}
}

type jsonCavT struct {
	Type string          `json:"type"`
	Body json.RawMessage `json:"body"`
}

var jsonRoutes = []string{"value", "indent", "nohtml", "macaroon", "numeric", "alias", "reordered", "reuse"}

// jsonVia: marshal / unmarshal the set along another legal route; the observable has the format of
// the plain round trip.  text is the compact text json.Marshal gave for the set.
//
//	value     json.Marshal of the CaveatSet VALUE (the plain route marshals a pointer)
//	indent    json.MarshalIndent (white space inside and between the members)
//	nohtml    an Encoder with SetEscapeHTML(false) (<, >, & stay literal)
//	macaroon  as the "caveats" member of a Macaroon, read back into a Macaroon
//	numeric   every top-level "type" rewritten to the DECIMAL type number ("4" for "ValidityWindow")
//	alias     the registered aliases in place of the names (DeprecatedOrganization, DeprecatedApps, NoAdminFeatures)
//	reordered members in the order body, type, with a member the reader does not know
//	reuse     read into a CaveatSet value that already holds caveats
func jsonVia(r *Rng, route string, cs *macaroon.CaveatSet, text []byte) string {
	return guard(func() string {
		var b []byte
		var err error
		rewrite := func(f func(i int, jc *jsonCavT)) ([]byte, error) {
			var js []jsonCavT
			if err := json.Unmarshal(text, &js); err != nil {
				return nil, err
			}
			for i := range js {
				f(i, &js[i])
			}
			return json.Marshal(js)
		}
		switch route {
		case "value":
			b, err = json.Marshal(*cs)
		case "indent":
			b, err = json.MarshalIndent(cs, pick(r, []string{"", " ", "\t"}), pick(r, []string{" ", "\t", "\n  "}))
		case "nohtml":
			var buf bytes.Buffer
			e := json.NewEncoder(&buf)
			e.SetEscapeHTML(false)
			err = e.Encode(cs)
			b = buf.Bytes()
		case "macaroon":
			b, err = json.Marshal(&macaroon.Macaroon{Location: "https://wire.example", UnsafeCaveats: *cs})
			if err != nil {
				return "err:marshal-other"
			}
			var m macaroon.Macaroon
			if err := json.Unmarshal(b, &m); err != nil {
				return jsonReadClass(err)
			}
			if m.Location != "https://wire.example" {
				return "err:location-lost"
			}
			return "ok " + sxCavs(m.UnsafeCaveats.Caveats)
		case "numeric":
			b, err = rewrite(func(i int, jc *jsonCavT) { jc.Type = strconv.FormatUint(uint64(cs.Caveats[i].CaveatType()), 10) })
		case "alias":
			b, err = rewrite(func(i int, jc *jsonCavT) {
				switch jc.Type {
				case "Organization":
					jc.Type = "DeprecatedOrganization"
				case "Apps":
					jc.Type = "DeprecatedApps"
				case "IsMember":
					jc.Type = "NoAdminFeatures"
				}
			})
		case "reordered":
			var js []jsonCavT
			if err := json.Unmarshal(text, &js); err != nil {
				return "err:unmarshal"
			}
			var sb strings.Builder
			sb.WriteString(" [")
			for i, jc := range js {
				if i > 0 {
					sb.WriteString(" ,\n")
				}
				tn, _ := json.Marshal(jc.Type)
				sb.WriteString(`{"x-note":{"type":"Organization","body":[1]}, "body" : ` + string(jc.Body) + ` , "type":` + string(tn) + `}`)
			}
			sb.WriteString("]\n")
			b = []byte(sb.String())
		case "reuse":
			b = text
		}
		if err != nil {
			return "err:marshal-other"
		}
		var back macaroon.CaveatSet
		if route == "reuse" {
			a := resset.Action(7)
			back.Caveats = []macaroon.Caveat{&a, &flyio.IsMember{}, nil}
		}
		if err := json.Unmarshal(b, &back); err != nil {
			return jsonReadClass(err)
		}
		return "ok " + sxCavs(back.Caveats)
	})
}

// famJSONNonces: Nonce has its own JSON form (the MessagePack encoding as a base64 string).  Judged
// without the model: a nonce of either format comes back with the same key-id, random part, format
// version and proof flag, and encodes to the same bytes.
func famJSONNonces(r *Rng, o *Out) {
	for i := 0; i < 120; i++ {
		kid, rnd := r.Bytes(pick(r, []int{0, 1, 16, 255, 256, 300})), r.Bytes(pick(r, []int{0, 15, 16, 17}))
		kids := []*mpNode{{Kind: mpBin, S: kid}, {Kind: mpBin, S: rnd}}
		ver := "v0"
		if r.Bool() {
			kids = append(kids, &mpNode{Kind: mpBool, B: r.Bool()})
			ver = "v1"
		}
		tokb := append([]byte{0x94}, mpEnc(&mpNode{Kind: mpArr, Kids: kids})...)
		tokb = append(tokb, 0xa1, 'l', 0x90, 0xc4, 0x01, 0x00)
		o.count("nonce." + ver)
		o.emit("(const same)", guard(func() string {
			m, err := macaroon.Decode(tokb)
			if err != nil {
				return "harness:token-refused"
			}
			n := m.Nonce
			t1, err := json.Marshal(n)
			if err != nil {
				return "err:marshal"
			}
			t1p, err := json.Marshal(&n)
			if err != nil || !bytes.Equal(t1, t1p) {
				return "pointer-and-value-render-differently"
			}
			var back macaroon.Nonce
			if r.Bool() {
				back = m.Nonce // read into a used value of the same format
				back.Proof = !back.Proof
			}
			if err := json.Unmarshal(t1, &back); err != nil {
				return "err:unmarshal"
			}
			if sxNonce(back) != sxNonce(n) {
				return "differs:" + sxNonce(n) + ":" + sxNonce(back)
			}
			if !bytes.Equal(back.MustEncode(), n.MustEncode()) {
				return "differs:encoding"
			}
			if back.UUID() != n.UUID() {
				return "differs:uuid"
			}
			return "same"
		}))
	}
}

// famJSONNames: what name each registered type is written under, and what type each name, alias,
// decimal string and junk string is read as.
func famJSONNames(r *Rng, o *Out) {
	type jc struct {
		Type string          `json:"type"`
		Body json.RawMessage `json:"body"`
	}
	names := map[uint64]string{}
	for k := 0; k < nJSONKinds-1; k++ {
		c := r.jCavKind(o, k, 1)
		if k == 16 {
			c = &resset.IfPresent{Ifs: macaroon.NewCaveatSet()} // nothing inside that could fail to marshal
		}
		b, err := json.Marshal(macaroon.NewCaveatSet(c))
		if err != nil {
			continue
		}
		var js []jc
		if json.Unmarshal(b, &js) == nil && len(js) == 1 {
			names[uint64(c.CaveatType())] = js[0].Type
		}
	}
	typs := make([]uint64, 0, len(names))
	for t := range names {
		typs = append(typs, t)
	}
	sort.Slice(typs, func(i, j int) bool { return typs[i] < typs[j] })
	parts := make([]string, len(typs))
	for i, t := range typs {
		parts[i] = fmt.Sprintf("%d:%s", t, names[t])
	}
	o.emit("(json.names)", strings.Join(parts, ","))

	// typeof: the type a name is read as = the CaveatType of the value UnmarshalJSON allocates for
	// it; the body is null, which fits every type and leaves its zero value (since the repair of F4
	// the value is stored only after its body was read)
	typeOf := func(name string) string {
		return guard(func() string {
			nb, _ := json.Marshal(name)
			// (a type with its own UnmarshalJSON may refuse null: try a few bodies)
			for _, body := range []string{"null", "{}", `"0"`, "0", "[]"} {
				var cs macaroon.CaveatSet
				_ = json.Unmarshal([]byte(`[{"type":`+string(nb)+`,"body":`+body+`}]`), &cs)
				if len(cs.Caveats) == 1 && cs.Caveats[0] != nil {
					return fmt.Sprint(uint64(cs.Caveats[0].CaveatType()))
				}
			}
			return "none"
		})
	}
	probe := []string{"", " ", "abc", "organization", "Organization ", "0", "00", "012", "12", "+5", "-1", "1_0", "1e3", "0x10", "٣",
		"17", "18", "32", "4294967296", "281474976710655", "281474976710656", "18446744073709551614", "18446744073709551615",
		"18446744073709551616", "99999999999999999999999", "Unregistered", "DeprecatedOrganization", "DeprecatedApps", "NoAdminFeatures",
		"DeprecatedVolumes", "3p", "3P"}
	probe = append(probe, "-0", "1e0", "1.0", "0x", "0b1", "0o7", " 4", "4 ", "4\n", "\t4", "\uff14", "\u0661\u0662", "4\x00", "1,000", "--1",
		"0000000000000000000000004", "00018446744073709551615", "18446744073709551615 ", "deprecatedorganization", "NOADMINFEATURES", "Deprecatedapps")
	for _, t := range typs {
		probe = append(probe, names[t], fmt.Sprint(t))
		// a name is looked up exactly: its letter-case variants and blank-padded forms are no names
		probe = append(probe, strings.ToLower(names[t]), strings.ToUpper(names[t]), " "+names[t], names[t]+"\n", "0"+fmt.Sprint(t))
	}
	for _, p := range probe {
		o.count("names.typeof")
		o.emit("(json.typeof "+hs(p)+")", typeOf(p))
	}
	// nameof: what a numeric type is written as (observable for unregistered numbers only through an
	// error, so only the registered ones are compared: they are the json.names line)
	for _, t := range typs {
		o.emit(fmt.Sprintf("(json.nameof %d)", t), hs(names[t]))
	}
}
