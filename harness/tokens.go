package main

// Helpers for the token-level families: minting, attenuation and discharging through the real
// library, with the randomness the library drew extracted from what it produced, so that the
// model can be asked to reproduce the same bytes.

import (
	"crypto/hmac"
	"crypto/sha256"
	"fmt"
	"reflect"
	"strings"

	"github.com/superfly/macaroon"
	"golang.org/x/crypto/chacha20poly1305"
)

// aeadOpen opens nonce||ct with the key (the library's seal format)
func aeadOpen(key, buf []byte) ([]byte, bool) {
	if len(buf) < 13 || len(key) != 32 {
		return nil, false
	}
	a, err := chacha20poly1305.New(key)
	if err != nil {
		return nil, false
	}
	pt, err := a.Open(nil, buf[:12], buf[12:], nil)
	return pt, err == nil
}

func aeadSeal(key, nonce, pt []byte) []byte {
	a, err := chacha20poly1305.New(key)
	if err != nil {
		panic(err)
	}
	return append(append([]byte{}, nonce...), a.Seal(nil, nonce, pt, nil)...)
}

// ticketKey opens a ticket with the third-party key and returns the discharge key rn
func ticketKey(ka, ticket []byte) ([]byte, bool) {
	pt, ok := aeadOpen(ka, ticket)
	if !ok {
		return nil, false
	}
	if len(pt) < 2 || pt[0] != 0x92 {
		return nil, false
	}
	dk, _, err := mpParse(pt[1:]) // only the first field; the caveat set may hold anything
	if err != nil || (dk.Kind != mpBin && dk.Kind != mpStr) {
		return nil, false
	}
	return dk.S, true
}

func hmacSum(key, msg []byte) []byte {
	h := hmac.New(sha256.New, key)
	h.Write(msg)
	return h.Sum(nil)
}

func mustEnc(m *macaroon.Macaroon) []byte {
	b, err := m.Encode()
	if err != nil {
		panic(err)
	}
	return b
}

// trust map printing: (trust (x<loc> x<ka>...)...)
func sxTrust(t map[string][]macaroon.EncryptionKey) string {
	locs := make([]string, 0, len(t))
	for l := range t {
		locs = append(locs, l)
	}
	sortStrings(locs)
	parts := []string{"trust"}
	for _, l := range locs {
		p := []string{hs(l)}
		for _, k := range t[l] {
			p = append(p, hx(k))
		}
		parts = append(parts, "("+strings.Join(p, " ")+")")
	}
	return "(" + strings.Join(parts, " ") + ")"
}

func sortStrings(s []string) {
	for i := 1; i < len(s); i++ {
		for j := i; j > 0 && s[j] < s[j-1]; j-- {
			s[j], s[j-1] = s[j-1], s[j]
		}
	}
}

func sxHexList(bs [][]byte) string {
	p := make([]string, len(bs))
	for i, b := range bs {
		p[i] = hx(b)
	}
	return "(" + strings.Join(p, " ") + ")"
}

// verifyClass maps the library's verification error to the model's error class (fidelity observable)
func verifyClass(err error) string {
	if err == nil {
		return ""
	}
	s := err.Error()
	switch {
	case strings.HasPrefix(s, "macaroon verify: verify discharge"), strings.HasPrefix(s, "bad ticket in discharge"),
		strings.HasPrefix(s, "discharge key from ticket"):
		return "dischargeFailed"
	case strings.Contains(s, "can't verify unfinalized proof"):
		return "unfinalized"
	case strings.HasPrefix(s, "no matching discharge token"):
		return "noDischarge"
	case strings.HasPrefix(s, "macaroon verify: unseal VerifierKey"):
		return "unsealVK"
	case strings.HasPrefix(s, "discharge bound to different parent token"):
		return "boundElsewhere"
	case strings.HasPrefix(s, "attestation in non-proof macaroon"):
		return "attestationInNonProof"
	case strings.HasPrefix(s, "attestation inside wrapper caveat"):
		return "wrappedAttestation"
	case strings.HasPrefix(s, "macaroon verify: invalid"):
		return "invalid"
	case strings.Contains(s, "cannot convert unregistered caveats"):
		return "encodeErr"
	}
	return "other(" + strings.ReplaceAll(s, " ", "_") + ")"
}

// verifyObs: the observable of Decode + Verify on token bytes
func verifyObs(key []byte, tok []byte, ds [][]byte, trusted map[string][]macaroon.EncryptionKey) string {
	return guard(func() string {
		m, err := macaroon.Decode(tok)
		if err != nil {
			return "err:decode"
		}
		cs, err := m.Verify(key, ds, trusted)
		if err != nil {
			return "err:" + verifyClass(err)
		}
		return "ok " + sxCavs(cs.Caveats)
	})
}

func verifyOp(key []byte, tok []byte, ds [][]byte, trusted map[string][]macaroon.EncryptionKey) string {
	return fmt.Sprintf("(verify %s %s %s %s)", hx(key), hx(tok), sxHexList(ds), sxTrust(trusted))
}

func addClass(err error) string {
	if err == nil {
		return ""
	}
	s := err.Error()
	switch {
	case strings.Contains(s, "can't add caveats to finalized proof"):
		return "finalizedProof"
	case strings.Contains(s, "cannot add attestations to non-proof"):
		return "attestationOnNonProof"
	case strings.Contains(s, "cannot add attestations inside wrapper"):
		return "wrappedAttestation"
	case strings.Contains(s, "attempting to add multiple 3ps"):
		return "duplicate3P"
	case strings.Contains(s, "deduplicating caveats"), strings.Contains(s, "encode caveat"):
		return "encodeErr"
	}
	return "other"
}

// a caveat to add, in both worlds
type addItem struct {
	cav macaroon.Caveat // plain caveat, or the *Caveat3P returned by NewCaveat3P
	tp  *tpInfo
}
type tpInfo struct {
	ka     []byte
	loc    string
	cavs   []macaroon.Caveat
	ticket []byte
	rn     []byte
}

func newTP(ka []byte, loc string, cavs ...macaroon.Caveat) (addItem, error) {
	c, err := macaroon.NewCaveat3P(ka, loc, cavs...)
	if err != nil {
		return addItem{}, err
	}
	rn, ok := ticketKey(ka, c.Ticket)
	if !ok {
		return addItem{}, fmt.Errorf("cannot reopen own ticket")
	}
	return addItem{cav: c, tp: &tpInfo{ka, loc, cavs, c.Ticket, rn}}, nil
}

// doAdd runs m.Add(items...) on the real token and emits the model operations that must
// reproduce it: the ticket of every new 3P caveat and the token bytes afterwards.
func doAdd(o *Out, m *macaroon.Macaroon, items []addItem) error {
	before := mustEnc(m)
	nBefore := len(m.UnsafeCaveats.Caveats)
	cavs := make([]macaroon.Caveat, len(items))
	for i, it := range items {
		cavs[i] = it.cav
	}
	err := m.Add(cavs...)
	after, eerr := m.Encode()
	afterS := "err-encode"
	if eerr == nil {
		afterS = hx(after)
	}
	// the VerifierKey nonces of the 3P caveats that were appended, in order
	var vkNonces [][]byte
	for _, c := range m.UnsafeCaveats.Caveats[nBefore:] {
		if c3, ok := c.(*macaroon.Caveat3P); ok && len(c3.VerifierKey) >= 12 {
			vkNonces = append(vkNonces, c3.VerifierKey[:12])
		}
	}
	parts := make([]string, len(items))
	k := 0
	for i, it := range items {
		if it.tp == nil {
			parts[i] = "(c " + sxCav(it.cav) + ")"
			continue
		}
		o.emit(fmt.Sprintf("(tok.ticket %s %s %s %s)", hx(it.tp.ka), sxCavs(it.tp.cavs), hx(it.tp.rn), hx(it.tp.ticket[:12])), hx(it.tp.ticket))
		n := make([]byte, 12)
		if k < len(vkNonces) {
			n = vkNonces[k]
			k++
		}
		parts[i] = fmt.Sprintf("(new3p %s %s %s %s)", hs(it.tp.loc), hx(it.tp.ticket), hx(it.tp.rn), hx(n))
	}
	res := "ok " + afterS
	if err != nil {
		res = "err:" + addClass(err) + " " + afterS
	}
	o.emit(fmt.Sprintf("(tok.add %s (%s))", hx(before), strings.Join(parts, " ")), res)
	return err
}

// unmodelledNil: the decoded token holds a nil map or nil []byte where the wire said nil (or left a
// field out).  The library re-encodes those as nil (0xc0), the model reads them as empty and
// re-encodes an empty map / empty bin, so the MACs differ: such inputs are outside the modelled
// domain (DESIGN.md, C11 note) and are skipped and counted, never compared.
func unmodelledNil(m *macaroon.Macaroon) bool {
	if m.Nonce.KID == nil || m.Nonce.Rnd == nil || m.Tail == nil {
		return true
	}
	return cavsHaveNil(m.UnsafeCaveats.Caveats)
}

func cavsHaveNil(cs []macaroon.Caveat) bool {
	for _, c := range cs {
		if c == nil {
			return true
		}
		switch v := c.(type) {
		case *macaroon.Caveat3P:
			if v.VerifierKey == nil || v.Ticket == nil {
				return true
			}
		case *macaroon.BindToParentToken:
			if *v == nil {
				return true
			}
		case macaroon.WrapperCaveat:
			if u := v.Unwrap(); u != nil && cavsHaveNil(u.Caveats) {
				return true
			}
		default:
			rv := reflect.ValueOf(c)
			if rv.Kind() == reflect.Pointer && rv.Elem().Kind() == reflect.Struct {
				for i := 0; i < rv.Elem().NumField(); i++ {
					f := rv.Elem().Field(i)
					if f.Kind() == reflect.Map && f.IsNil() {
						return true
					}
				}
			}
		}
	}
	return false
}

// comparable: every token involved is inside the modelled domain
func comparable(tok []byte, ds [][]byte) (ok bool) {
	defer func() {
		if recover() != nil {
			ok = true // a panicking Decode is an observable in its own right: let the caller record it
		}
	}()
	if m, err := macaroon.Decode(tok); err == nil && unmodelledNil(m) {
		return false
	}
	for _, d := range ds {
		if m, err := macaroon.Decode(d); err == nil && unmodelledNil(m) {
			return false
		}
	}
	return true
}
