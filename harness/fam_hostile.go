package main

// Family hostile (C12): untrusted bytes never crash or balloon the process.
//
//   (hostile.cavs x<msgpack> <tag>)                      macaroon.DecodeCaveats, then every read/attenuate op
//   (hostile.mac  x<msgpack> <tag>)                      macaroon.Decode / DecodeNonce, then every op
//   (hostile.json x<utf8>    <tag>)                      CaveatSet.UnmarshalJSON (+ Macaroon / Nonce JSON), then every op
//   (hostile.hdr  x<utf8>    <tag>)                      macaroon.Parse, ParsePermissionAndDischargeTokens, bundle.ParseBundle, ...
//   (hostile.ticket x<msgpack> <tag>)                    the PLAINTEXT of a third-party ticket: sealed for hKA by the worker, then
//                                                        macaroon.DischargeTicket, every op on the caveats and the discharge it
//                                                        returns, and verification of a token that carries the ticket
//   (hostile.depth x<msgpack> <tag>)                     nesting depth measured by the harness's own scanner (the one that
//                                                        tags inputs `.over200`) against the model's decoder; no library call
//   (hostile.rep.cavs x<prefix> x<unit> <n> x<suffix> <tag>)   the input prefix ++ unit^n ++ suffix, run ALONE in a
//   (hostile.rep.mac  ...)                               dedicated child process (inputs that can take the process down)
//
// observable:  <ok|err|panic|?> <nopanic | panic:<op>+<op>...:<first line of the first panic>> alloc:<fine|balloon:<MiB>> [child:...]
//   field 1   decode verdict (fidelity; `?` where the model has no layer: JSON, header strings)
//   field 2   P: which of the public operations panicked (each runs isolated under recover, on a fresh decode)
//   field 3   P: bytes allocated by the DECODE step (runtime.MemStats.TotalAlloc delta + stack growth of the
//             decoding goroutine) : fine if <= 64*len(input) + 8 MiB, else balloon:<MiB rounded down to a power of two>
//   field 4   P: only on rep lines and on inputs that killed their process: child:ok | child:crashed(<how>;<fatal line>)
// For msgpack inputs on which decoding succeeds (and that are small) a second line `(dec.cavs ..)` / `(dec.mac ..)`
// compares the decoded VALUE with the model's (fidelity; same ops as family wire).
//
// Every input is executed in a worker process: the harness binary re-executes itself with the hidden family
// `hostile.child` (debug.SetMaxStack(64 MiB), debug.SetMemoryLimit, RLIMIT_AS); the worker handles inputs in
// order and appends one result line per input; when it dies (fatal error: stack overflow, out of memory - not
// recoverable) the input it was working on is recorded as `child:crashed(...)` and a new worker continues
// with the next input.  A crash therefore never hides the other inputs.

import (
	"bufio"
	"bytes"
	"context"
	"encoding/base64"
	"encoding/hex"
	"encoding/json"
	"errors"
	"fmt"
	"os"
	"os/exec"
	"runtime"
	"runtime/debug"
	"runtime/metrics"
	"strconv"
	"strings"
	"syscall"
	"time"

	"github.com/superfly/macaroon"
	"github.com/superfly/macaroon/auth"
	"github.com/superfly/macaroon/bundle"
	"github.com/superfly/macaroon/flyio"
	"github.com/superfly/macaroon/resset"
)

func init() {
	families["hostile"] = famHostile
	families["hostile.child"] = famHostileChild // hidden sub-command: the worker process
}

// ------------------------------------------------------------------------------------------------
// inputs
// ------------------------------------------------------------------------------------------------

type hIn struct {
	kind string // cavs | mac | json | hdr
	tag  string // generator class (ignored by the model; keys known findings and the distribution)
	data []byte
	// rep form: data = prefix ++ unit^n ++ suffix, expanded on both sides; always run alone in its own child
	rep                  bool
	prefix, unit, suffix []byte
	n                    int
}

func (h *hIn) bytes() []byte {
	if !h.rep {
		return h.data
	}
	out := make([]byte, 0, len(h.prefix)+len(h.unit)*h.n+len(h.suffix))
	out = append(out, h.prefix...)
	for i := 0; i < h.n; i++ {
		out = append(out, h.unit...)
	}
	return append(out, h.suffix...)
}

func (h *hIn) opLine() string {
	if h.rep {
		return fmt.Sprintf("(hostile.rep.%s %s %s %d %s %s)", h.kind, hx(h.prefix), hx(h.unit), h.n, hx(h.suffix), h.tag)
	}
	return fmt.Sprintf("(hostile.%s %s %s)", h.kind, hx(h.data), h.tag)
}

// one line of the worker's input file
func (h *hIn) fileLine() string {
	if h.rep {
		return fmt.Sprintf("rep %s %s %s %s %d %s", h.kind, h.tag, hx(h.prefix), hx(h.unit), h.n, hx(h.suffix))
	}
	return fmt.Sprintf("one %s %s %s", h.kind, h.tag, hx(h.data))
}

func unhx(s string) []byte {
	b, err := hex.DecodeString(strings.TrimPrefix(s, "x"))
	if err != nil {
		panic(err)
	}
	return b
}

func parseFileLine(l string) *hIn {
	f := strings.Fields(l)
	switch f[0] {
	case "one":
		return &hIn{kind: f[1], tag: f[2], data: unhx(f[3])}
	case "rep":
		n, _ := strconv.Atoi(f[5])
		return &hIn{kind: f[1], tag: f[2], rep: true, prefix: unhx(f[3]), unit: unhx(f[4]), n: n, suffix: unhx(f[6])}
	}
	panic("bad input line")
}

// ------------------------------------------------------------------------------------------------
// the worker: all operations on one input
// ------------------------------------------------------------------------------------------------

var (
	hKey  = bytes.Repeat([]byte{0x11}, 32)
	hKA   = bytes.Repeat([]byte{0x22}, 32)
	hLoc  = "https://perm.example"
	hLoc3 = "https://tp.example"
)

type hCtx struct {
	panics     []string
	first      string
	items      int    // caveats in the decoded value (all nesting levels), 0 if nothing decoded
	maxOpAlloc uint64 // the most any single operation allocated (beyond 4 KiB per item), and which
	maxOpName  string
	lite       bool // inputs of the container-kind sweeps (tags kinds.*, sibling.*: ~2700 inputs that differ only in msgpack
	// header kinds around one deep chain): the operations added by the generator audit are skipped for them (time)
	segStart uint64 // allocation counter at the start of the running segment, and the largest segment so far (op, step)
	segMax   uint64
	nops     int  // operations executed (distribution only)
	verified bool // the post-verification round ran (a token with a valid tail verified)
}

func panicLine(p any) string {
	msg := fmt.Sprint(p)
	if i := strings.IndexByte(msg, '\n'); i >= 0 {
		msg = msg[:i]
	}
	if len(msg) > 120 {
		msg = msg[:120]
	}
	return strings.Map(func(r rune) rune {
		if r <= ' ' || r == '(' || r == ')' || r > '~' {
			return '_'
		}
		return r
	}, msg)
}

// op runs one library operation isolated under recover
var heapAllocSample = []metrics.Sample{{Name: "/gc/heap/allocs:bytes"}}

// cumulative bytes allocated on the heap by this process (cheap: no stop-the-world)
func heapAllocs() uint64 {
	metrics.Read(heapAllocSample)
	if heapAllocSample[0].Value.Kind() == metrics.KindUint64 {
		return heapAllocSample[0].Value.Uint64()
	}
	return 0
}

// op runs one library operation isolated under recover and charges what it allocated.
//
// An operation that by construction makes several library calls which each work through the whole input (two
// bundles parsed from one header, verification under six keys, ...) marks the boundaries with c.step(): the
// figure held against the bound is that of its most expensive SEGMENT, so every single library call stays under
// the bound of a single call.  Operations without step() are charged as a whole.
//
// Error values the operation hands to errUse are rendered after it, each on its own and each under the same
// bound (a caller logs the error it got: rendering is an operation on the result like any other).
func (c *hCtx) op(name string, f func()) {
	c.nops++
	hErrs = hErrs[:0]
	c.segMax, c.segStart = 0, heapAllocs()
	func() {
		defer func() {
			if p := recover(); p != nil {
				c.panics = append(c.panics, name)
				if c.first == "" {
					c.first = panicLine(p)
				}
			}
		}()
		f()
	}()
	c.step()
	c.charge(name, c.segMax)
	if len(hErrs) == 0 {
		return
	}
	errs := append([]error(nil), hErrs...)
	hErrs = hErrs[:0]
	tname := name + "!errtext"
	func() {
		defer func() {
			if p := recover(); p != nil {
				c.panics = append(c.panics, tname)
				if c.first == "" {
					c.first = panicLine(p)
				}
			}
		}()
		for _, err := range errs {
			a0 := heapAllocs()
			_ = err.Error()
			_ = errors.Is(err, macaroon.ErrUnauthorized)
			_ = errors.Is(err, resset.ErrResourceUnspecified)
			c.charge(tname, heapAllocs()-a0)
		}
	}()
}

// step closes a segment of the running operation (see op)
func (c *hCtx) step() {
	now := heapAllocs()
	if d := now - c.segStart; d > c.segMax {
		c.segMax = d
	}
	c.segStart = now
}

func (c *hCtx) charge(name string, d uint64) {
	// operations that walk the caveats pay a fixed price per CAVEAT whatever its wire size (an HMAC state and
	// an encoder per caveat in Verify, reflection and small objects in the JSON rendering: 1-4 KB for a
	// two-byte caveat): linear in the number of items, which the per-byte part of the bound does not cover
	if per := uint64(c.items) * 4096; d > per {
		d -= per
	} else {
		d = 0
	}
	if d > c.maxOpAlloc {
		c.maxOpAlloc, c.maxOpName = d, name
	}
}

// hErrs: the error values of the running operation (the worker handles one operation at a time)
var hErrs []error

// field: the first panicking operation (in the fixed operation order), how many further ones, the first message
func (c *hCtx) field() string {
	if len(c.panics) == 0 {
		return "nopanic"
	}
	return fmt.Sprintf("panic:%s+%d:%s", c.panics[0], len(c.panics)-1, c.first)
}

func (c *hCtx) opList() string {
	if len(c.panics) == 0 {
		return "-"
	}
	return strings.Join(c.panics, "+")
}

// measured runs the decode step in a fresh goroutine (so that its stack starts small) and returns the
// bytes it allocated: heap (TotalAlloc delta) plus the growth of goroutine stacks still held at the end
func measured(f func()) (alloc uint64, pan any) {
	// no collection during the measurement (a grown stack is otherwise freed late, and sync.Pool'd decoders
	// come and go): finish any cycle first, then switch the collector off for the duration of the decode
	old := debug.SetGCPercent(-1)
	defer debug.SetGCPercent(old)
	runtime.GC()
	done := make(chan struct{})
	go func() {
		defer close(done)
		var m0, m1 runtime.MemStats
		runtime.ReadMemStats(&m0)
		func() {
			defer func() { pan = recover() }()
			f()
		}()
		runtime.ReadMemStats(&m1)
		alloc = m1.TotalAlloc - m0.TotalAlloc
		if m1.StackInuse > m0.StackInuse {
			alloc += m1.StackInuse - m0.StackInuse
		}
	}()
	<-done
	return
}

// allocConst: the constant of the bound.  The msgpack library reads str/bin payloads in chunks of 1e6 bytes
// (bytesAllocLimit) whatever the input holds, and grows once: 2 MB for a 7-byte input is its fixed clamp, not
// an amplification.  measured maximum of these fixed clamps over the generators: 3.9 MB; 8 MiB leaves a factor two.
const allocConst = 8 << 20

func allocBucket(alloc uint64, inputLen int) string {
	if alloc <= 64*uint64(inputLen)+allocConst {
		return "alloc:fine"
	}
	mib := alloc >> 20
	p := uint64(1)
	for p*2 <= mib {
		p *= 2
	}
	return fmt.Sprintf("alloc:balloon:%d", p)
}

// fixed requests (derived from a fixed seed: the worker has no randomness of its own)
type hReqs struct {
	accs  map[string]macaroon.Access
	order []string
}

var hostileReqs = func() *hReqs {
	r := NewRng(0xC12)
	q := &hReqs{accs: map[string]macaroon.Access{}}
	add := func(n string, a macaroon.Access) { q.accs[n] = a; q.order = append(q.order, n) }
	d1, d2 := r.Dyn(), r.Dyn()
	d1.WF, d2.WF = "", ""
	add("full", d1.As("full"))
	add("bare", d2.As("bare"))
	add("action", d2.As("action"))
	add("fullNoAction", d1.As("fullNoAction"))
	one, two := uint64(1), uint64(2)
	mach, cmdFeat := "m", "x"
	add("flyio", &flyio.Access{OrgID: &one, AppID: &two, Action: resset.ActionRead})
	add("flyio.cmd", &flyio.Access{OrgID: &one, AppID: &two, Machine: &mach, Command: []string{"ls"}, Action: resset.ActionAll})
	add("flyio.feat", &flyio.Access{OrgID: &one, Feature: &cmdFeat, Action: resset.ActionWrite})
	add("flyio.zero", &flyio.Access{})
	add("dr", r.DischargeRequest())
	add("dr.empty", &auth.DischargeRequest{})
	// audit: requests that reach the branches of every caveat kind (each resource field set once, the list-valued
	// command of length 0 / 3, ids at the ends of their range, action bits no constant names), requests that are
	// not well-formed, discharge requests with many identities / empty identities / extreme expiries
	vol, af, mf, mut, lfsc, cl, sm, sa, so := "vol_1", "images", "metadata", "addApp", flyio.FeatureLFSC, "c1", "m1", "a1", "o1"
	zero, max64 := uint64(0), ^uint64(0)
	pfx := resset.Prefix("https://storage.fly/bucket/obj")
	add("flyio.vol", &flyio.Access{OrgID: &one, AppID: &two, Volume: &vol, Action: resset.ActionWrite})
	add("flyio.appfeat", &flyio.Access{OrgID: &one, AppID: &two, AppFeature: &af, Action: resset.ActionRead})
	add("flyio.machfeat", &flyio.Access{OrgID: &one, AppID: &two, Machine: &mach, MachineFeature: &mf, Action: resset.ActionControl})
	add("flyio.mut", &flyio.Access{OrgID: &one, Mutation: &mut, Action: resset.ActionCreate})
	add("flyio.src", &flyio.Access{OrgID: &one, SourceMachine: &sm, SourceApp: &sa, SourceOrganization: &so, Action: resset.ActionRead})
	add("flyio.cluster", &flyio.Access{OrgID: &one, Feature: &lfsc, Cluster: &cl, Action: resset.ActionDelete})
	add("flyio.cmd0", &flyio.Access{OrgID: &one, AppID: &two, Machine: &mach, Command: []string{}, Action: resset.ActionAll})
	add("flyio.cmd3", &flyio.Access{OrgID: &one, AppID: &two, Machine: &mach, Command: []string{"a", "", "c"}, Action: resset.ActionAll})
	add("flyio.storage", &flyio.Access{OrgID: &one, StorageObject: &pfx, Action: resset.ActionRead})
	pfx1 := resset.Prefix("k") // shorter than any prefix a caveat is likely to carry
	add("flyio.storage.short", &flyio.Access{OrgID: &one, StorageObject: &pfx1, Action: resset.ActionWrite})
	add("flyio.ids0", &flyio.Access{OrgID: &zero, AppID: &zero, Action: resset.ActionNone})
	add("flyio.idsmax", &flyio.Access{OrgID: &max64, AppID: &max64, Action: resset.Action(0xffff)})
	add("flyio.illformed", &flyio.Access{AppID: &two, Machine: &mach, Volume: &vol, Cluster: &cl, Command: []string{"x"}, MachineFeature: &mf})
	g1 := auth.GoogleUserID{}
	add("dr.many", &auth.DischargeRequest{
		Flyio:  []*auth.FlyioAuth{{}, {UserID: max64, OrganizationIDs: []uint64{0, 1, 1, max64}}, {UserID: 1, OrganizationIDs: []uint64{}}},
		Google: []*auth.GoogleAuth{{}, {HD: "", UserID: &g1, Email: "@"}, {HD: "\xff\x00"}},
		GitHub: []*auth.GitHubAuth{{}, {OrgIDs: []uint64{0, max64}}},
		Expiry: time.Date(9999, 12, 31, 23, 59, 59, 0, time.UTC),
	})
	add("dr.minexpiry", &auth.DischargeRequest{Flyio: []*auth.FlyioAuth{{UserID: 1}}, Expiry: time.Unix(-1<<62, 0)})
	return q
}()

// hOrigReqs: the requests in front of the ones the audit added
const hOrigReqs = 10

// hFlyioAccs: the typed requests, for the generic macaroon.Validate[A]
var hFlyioAccs = func() []*flyio.Access {
	var out []*flyio.Access
	for _, n := range hostileReqs.order {
		if a, ok := hostileReqs.accs[n].(*flyio.Access); ok {
			out = append(out, a)
		}
	}
	return out
}()

// errUse: what a caller does with an error the library hands back: it keeps it, renders it (log line) and asks what
// it is.  The value is queued; op renders every queued error after the operation, each under the allocation bound.
func errUse(err error) {
	if err != nil {
		hErrs = append(hErrs, err)
	}
}

// walk every caveat at every depth without trusting the library's traversal
func hWalk(cs []macaroon.Caveat, f func(macaroon.Caveat)) {
	for _, c := range cs {
		f(c)
		if ip, ok := c.(*resset.IfPresent); ok && ip != nil && ip.Ifs != nil {
			hWalk(ip.Ifs.Caveats, f)
		}
	}
}

// hTop: the top-level caveats only (an operation that handles each caveat together with what it wraps would be
// quadratic in the nesting depth if it were applied at every level)
func hTop(cs []macaroon.Caveat, f func(macaroon.Caveat)) {
	for _, c := range cs {
		f(c)
	}
}

// csOps: every read operation on a caveat set.  get returns a fresh value per call.
func csOps(c *hCtx, p string, get func() *macaroon.CaveatSet) {
	// the operations added by the audit run on the set as decoded and on the set as verified; the round in between
	// (the same caveats read off the unverified token: prefix t.u.) keeps the original list
	full := !c.lite && !strings.HasSuffix(p, "t.u.")
	op := c.op
	aud := func(name string, f func()) {
		if full {
			c.op(name, f)
		}
	}
	// the per-caveat operations of the audit run once per input (on the set as decoded); the requests it added
	// are put to the verified set as well
	first := full && !strings.HasSuffix(p, "v.")
	aud1 := func(name string, f func()) {
		if first {
			c.op(name, f)
		}
	}
	_ = op
	c.op(p+"print", func() { _ = sxCavs(get().Caveats) })
	c.op(p+"meta", func() {
		hWalk(get().Caveats, func(cv macaroon.Caveat) {
			_ = cv.CaveatType()
			_ = cv.Name()
			_ = macaroon.IsAttestation(cv)
			if w, ok := cv.(macaroon.WrapperCaveat); ok {
				_ = w.Unwrap()
			}
		})
	})
	// audit: printing proper - the fmt verbs on every decoded caveat and on the set, the caveats that are
	// themselves errors (auth.Confine*) and the values with a String method
	aud1(p+"fmt", func() {
		cs := get()
		hWalk(cs.Caveats, func(cv macaroon.Caveat) {
			_ = fmt.Sprintf("%v|%+v|%s", cv, cv, cv)
			if e, ok := cv.(error); ok {
				_ = e.Error()
			}
			if st, ok := cv.(fmt.Stringer); ok {
				_ = st.String()
			}
			if a, ok := cv.(*resset.Action); ok && a != nil {
				_ = a.String()
			}
			if ar, ok := cv.(*flyio.AllowedRoles); ok && ar != nil {
				_ = flyio.Role(*ar).String()
			}
		})
		_ = fmt.Sprintf("%v|%+v", cs, *cs)
	})
	c.op(p+"get.3p", func() { _ = macaroon.GetCaveats[*macaroon.Caveat3P](get()) })
	c.op(p+"get.vw", func() { _ = macaroon.GetCaveats[*macaroon.ValidityWindow](get()) })
	c.op(p+"get.org", func() { _ = macaroon.GetCaveats[*flyio.Organization](get()) })
	c.op(p+"get.apps", func() { _ = macaroon.GetCaveats[*flyio.Apps](get()) })
	c.op(p+"get.ifp", func() { _ = macaroon.GetCaveats[*resset.IfPresent](get()) })
	c.op(p+"get.uid", func() { _ = macaroon.GetCaveats[*auth.FlyioUserID](get()) })
	c.op(p+"get.unreg", func() { _ = macaroon.GetCaveats[*macaroon.UnregisteredCaveat](get()) })
	c.op(p+"get.any", func() { _ = macaroon.GetCaveats[macaroon.Caveat](get()) })
	aud(p+"get.more", func() {
		cs := get()
		_ = macaroon.GetCaveats[macaroon.Attestation](cs)
		_ = macaroon.GetCaveats[*flyio.Commands](cs)
		_ = macaroon.GetCaveats[*flyio.Clusters](cs)
		_ = macaroon.GetCaveats[*auth.GoogleUserID](cs)
		_ = macaroon.GetCaveats[*auth.MaxValidity](cs)
		_ = macaroon.GetCaveats[*macaroon.BindToParentToken](cs)
	})
	for _, n := range hostileReqs.order[:hOrigReqs] {
		a := hostileReqs.accs[n]
		c.op(p+"validate."+n, func() { errUse(get().Validate(a)) })
	}
	// audit: the requests added to the pool, five to an operation (one decoded value, one segment per request)
	for i := hOrigReqs; i < len(hostileReqs.order) && full; i += 5 {
		names := hostileReqs.order[i:min(i+5, len(hostileReqs.order))]
		c.op(p+"validate."+names[0]+"+", func() {
			cs := get()
			c.step()
			for _, n := range names {
				errUse(cs.Validate(hostileReqs.accs[n]))
				c.step()
			}
		})
	}
	c.op(p+"validate.multi", func() {
		errUse(get().Validate(hostileReqs.accs["full"], hostileReqs.accs["flyio"], hostileReqs.accs["dr"]))
	})
	aud(p+"validate.all", func() {
		all := make([]macaroon.Access, 0, len(hostileReqs.order))
		for i, n := range hostileReqs.order {
			if c.items > 200 && i >= 3 {
				break // the bound has no term for the number of requests: long sets see three
			}
			all = append(all, hostileReqs.accs[n])
		}
		errUse(get().Validate(all...))
	})
	aud(p+"validate.generic", func() {
		accs := hFlyioAccs
		if c.items > 200 {
			accs = accs[:3]
		}
		errUse(macaroon.Validate(get(), accs...))
	})
	c.op(p+"validate.none", func() { errUse(get().Validate()) })
	// each caveat on its own, so that one crashing member does not hide the others
	prohibitsOver := func(names []string, stepPerRequest bool) {
		var first any
		cs := get().Caveats
		for _, n := range names {
			hWalk(cs, func(cv macaroon.Caveat) {
				func() {
					defer func() {
						if x := recover(); x != nil && first == nil {
							first = x
						}
					}()
					errUse(cv.Prohibits(hostileReqs.accs[n]))
				}()
			})
			if stepPerRequest {
				c.step()
			}
		}
		if first != nil {
			panic(first)
		}
	}
	c.op(p+"prohibits", func() { prohibitsOver([]string{"full", "bare", "flyio", "dr"}, false) })
	// audit: and against every other request of the pool
	aud1(p+"prohibits.more", func() {
		if c.items > 500 {
			return // the long sets of generator manyRefusing: time
		}
		prohibitsOver(hostileReqs.order[4:], true)
	})
	c.op(p+"msgpack", func() { _, err := get().MarshalMsgpack(); errUse(err) })
	c.op(p+"clone", func() { _, err := get().Clone(); errUse(err) })
	c.op(p+"json", func() { _, err := get().MarshalJSON(); errUse(err) })
	// audit: every caveat encoded on its own (the set's encoders stop at the first member that fails)
	aud1(p+"each.encode", func() {
		var first any
		hTop(get().Caveats, func(cv macaroon.Caveat) {
			func() {
				defer func() {
					if x := recover(); x != nil && first == nil {
						first = x
					}
				}()
				one := macaroon.NewCaveatSet(cv)
				if b, err := one.MarshalMsgpack(); err == nil {
					_, err = macaroon.DecodeCaveats(b)
					errUse(err)
				} else {
					errUse(err)
				}
				_, err := json.Marshal(cv)
				errUse(err)
				if jb, err := one.MarshalJSON(); err == nil {
					var back macaroon.CaveatSet
					errUse(json.Unmarshal(jb, &back))
				}
			}()
			c.step()
		})
		if first != nil {
			panic(first)
		}
	})
	c.op(p+"json.rt", func() {
		b, err := json.Marshal(get())
		if err != nil {
			return
		}
		var back macaroon.CaveatSet
		if json.Unmarshal(b, &back) != nil {
			return
		}
		_, _ = back.MarshalJSON()
		errUse(back.Validate(hostileReqs.accs["full"], hostileReqs.accs["flyio"]))
		_ = macaroon.GetCaveats[*macaroon.ValidityWindow](&back)
		_, _ = back.MarshalMsgpack()
	})
	c.op(p+"scope.org", func() { _, err := flyio.OrganizationScope(get()); errUse(err) })
	c.op(p+"scope.app", func() { _ = flyio.AppScope(get()) })
	c.op(p+"scope.cluster", func() { _ = flyio.ClusterScope(get()) })
	c.op(p+"scope.appsAllowing", func() {
		cs := get()
		for _, a := range []resset.Action{resset.ActionRead, resset.ActionNone, resset.ActionAll, resset.Action(0xffff)} {
			_, _, err := flyio.AppsAllowing(cs, a)
			errUse(err)
			c.step()
		}
	})
	c.op(p+"scope.userid", func() { _, err := flyio.DangerousUserID(get()); errUse(err) })
	c.op(p+"maxvalidity", func() { _, _ = auth.GetMaxValidity(get()) })
	// audit: the decoded caveats handed to the attenuating entry points of ANOTHER, legitimate token (aliasing:
	// the same caveat values then sit in two tokens) and to the third-party constructor; then the usual round
	aud1(p+"add.to.legit", func() {
		cs := get()
		m, _ := macaroon.Decode(hLegit)
		c.step()
		errUse(m.Add(cs.Caveats...))
		c.step()
		errUse(m.Add(cs.Caveats...)) // once more: everything is a duplicate now
		c.step()
		if b, err := m.Encode(); err == nil {
			c.step()
			if m2, err := macaroon.Decode(b); err == nil {
				c.step()
				_, err = m2.Verify(hKey, nil, nil)
				errUse(err)
			} else {
				errUse(err)
			}
		}
	})
	aud1(p+"add3p.with", func() {
		cs := get()
		m, _ := macaroon.Decode(hLegit)
		c.step()
		if err := m.Add3P(hKA, "https://other.example", cs.Caveats...); err != nil {
			errUse(err)
			return
		}
		c.step()
		for _, tk := range m.TicketsForThirdParty("https://other.example") {
			tcavs, dm, err := macaroon.DischargeTicket(hKA, "https://other.example", tk)
			errUse(err)
			c.step()
			if err == nil {
				errUse(macaroon.NewCaveatSet(tcavs...).Validate(hostileReqs.accs["dr"], hostileReqs.accs["dr.many"]))
				c.step()
				errUse(dm.Add(tcavs...))
				c.step()
				_, _ = dm.Encode()
			}
		}
	})
	// audit: one value used again and again (no fresh decode in between), also after calls that failed
	aud1(p+"reuse", func() {
		cs := get()
		c.step()
		errUse(cs.Validate(hostileReqs.accs["flyio.cmd3"]))
		c.step()
		cl, err := cs.Clone()
		errUse(err)
		c.step()
		_, _ = cs.MarshalJSON()
		c.step()
		_ = macaroon.GetCaveats[*resset.IfPresent](cs)
		errUse(cs.Validate(hostileReqs.accs["dr.many"]))
		c.step()
		errUse(cs.Validate(hostileReqs.accs["full"]))
		c.step()
		if cl != nil && c.items <= 500 {
			cs.Caveats = append(cs.Caveats, cl.Caveats...) // the set and its clone spliced together (twice the items)
			errUse(cs.Validate(hostileReqs.accs["flyio"]))
			c.step()
			_, _ = cs.MarshalMsgpack()
		}
	})
}

// the tail a holder of key would compute for this nonce and these caveats (what Verify recomputes)
func chainTail(key []byte, m *macaroon.Macaroon) []byte {
	cur := hmacSum(key, m.Nonce.MustEncode())
	for _, cv := range m.UnsafeCaveats.Caveats {
		opc, err := macaroon.NewCaveatSet(cv).MarshalMsgpack()
		if err != nil {
			return cur
		}
		cur = hmacSum(cur, opc)
	}
	if m.Nonce.Proof {
		cur = hmacSum([]byte("proof-signature-finalization"), cur)
	}
	return cur
}

// detToken: a token with a valid tail under hKey, built without the library and without randomness
// (the library's New/Add3P draw from crypto/rand; inputs must be functions of the seed alone)
func detToken(kid string, rndByte byte, loc string, with3P bool) []byte {
	nonce := mpA(mpBn([]byte(kid)), mpBn(bytes.Repeat([]byte{rndByte}, 16)), mpB(false))
	tail := hmacSum(hKey, mpEnc(nonce))
	var pairs []*mpNode
	addCav := func(t uint64, body *mpNode) {
		pairs = append(pairs, mpU(t), body)
		tail = hmacSum(tail, mpEnc(mpA(mpU(t), body)))
	}
	addCav(26, mpU(31))
	addCav(4, mpA(mpU(0), mpU(1<<40)))
	if with3P {
		rn := bytes.Repeat([]byte{0x33}, 32)
		ticket := aeadSeal(hKA, bytes.Repeat([]byte{rndByte}, 12), append(append([]byte{0x92}, mpEnc(mpBn(rn))...), 0x90))
		vk := aeadSeal(tail, bytes.Repeat([]byte{rndByte + 1}, 12), rn)
		addCav(11, mpA(mpS(hLoc3), mpBn(vk), mpBn(ticket)))
	}
	return mpEnc(mpA(nonce, mpS(loc), mpA(pairs...), mpBn(tail)))
}

var hLegit = func() []byte {
	b := detToken("legit-kid", 7, hLoc, true)
	m, err := macaroon.Decode(b)
	if err != nil {
		panic(err)
	}
	if _, err := m.Verify(hKey, nil, nil); err == nil || !strings.Contains(err.Error(), "no matching discharge") {
		panic(fmt.Sprint("harness: hand-built legit token is not what the library expects: ", err))
	}
	return b
}()

func detPool() [][]byte {
	var pool [][]byte
	for i, loc := range []string{hLoc, hLoc3, flyio.LocationPermission, flyio.LocationAuthentication, "", "root"} {
		pool = append(pool, detToken(fmt.Sprintf("kid-%d", i), byte(0x40+i), loc, i%2 == 0))
	}
	return pool
}

func hdrOf(toks ...[]byte) string {
	parts := make([]string, len(toks))
	for i, t := range toks {
		parts[i] = "fm2_" + base64.StdEncoding.EncodeToString(t)
	}
	return "FlyV1 " + strings.Join(parts, ",")
}

func hKeysFor(kid []byte) map[string]macaroon.SigningKey {
	return map[string]macaroon.SigningKey{"": hKey, "legit-kid": hKey, "kid": hKA, string(kid): hKey}
}

// bunOps: every bundle operation on a header; a fresh bundle per operation
func bunOps(c *hCtx, p string, hdr string, loc string, kid []byte) {
	parse := func() *bundle.Bundle {
		b, _ := bundle.ParseBundleWithFilter(loc, hdr, bundle.KeepAll)
		return b
	}
	trusted := map[string][]macaroon.EncryptionKey{hLoc3: {hKA}}
	ver := bundle.WithKey(kid, hKey, trusted)
	ctx := context.Background()
	// (t.sbun.: the token built around a decoded caveat set already has a valid tail, so its re-signed twin repeats
	// the round t.bun.; the operations added by the audit run once)
	audit := !c.lite && !strings.HasSuffix(p, "t.sbun.")
	aud := func(name string, f func()) {
		if audit {
			c.op(name, f)
		}
	}
	c.op(p+"parse", func() { _, err := bundle.ParseBundle(loc, hdr); errUse(err) })
	c.op(p+"parse.flyio", func() { _, err := flyio.ParseBundle(hdr); errUse(err) })
	aud(p+"parse.flyio.filter", func() {
		b, err := flyio.ParseBundleWithFilter(hdr, bundle.KeepAll)
		errUse(err)
		c.step()
		_ = b.Count(flyio.IsForOrgUnverified(1))
		c.step()
		_ = flyio.UUIDs(b).String()
		_ = flyio.NonceEmails(b).String()
	})
	// audit: the bundle as ParseBundle itself returns it (default filter), through the usual round
	aud(p+"parse.default", func() {
		b, err := bundle.ParseBundle(loc, hdr)
		errUse(err)
		c.step()
		_ = b.Header()
		c.step()
		_, err = b.Verify(ctx, ver)
		errUse(err)
		c.step()
		errUse(b.Error())
		errUse(b.Validate(hostileReqs.accs["flyio"]))
		_ = b.Len()
	})
	c.op(p+"header", func() {
		b := parse()
		_ = b.Header()
		_ = b.String()
		_ = b.Len()
		_ = b.IsEmpty()
		errUse(b.Error())
	})
	c.op(p+"tickets", func() {
		b := parse()
		_ = b.UndischargedThirdPartyTickets()
		_ = b.UndischargedTicketsForThirdParty(hLoc3)
	})
	c.op(p+"verify", func() { _, err := parse().Verify(ctx, ver); errUse(err) })
	c.op(p+"verify.validate", func() {
		b := parse()
		_, err := b.Verify(ctx, ver)
		errUse(err)
		errUse(b.Validate(hostileReqs.accs["full"], hostileReqs.accs["flyio"]))
		errUse(b.Validate(hostileReqs.accs["dr"]))
		errUse(b.Validate())
		_ = b.Header()
		errUse(b.Error())
	})
	c.op(p+"verify.expiration", func() {
		b := parse()
		_, _ = b.Verify(ctx, ver)
		bundle.ForEach(b, func(t *bundle.VerifiedMacaroon) { _ = t.Expiration() })
		_ = b.Count(flyio.IsForOrg(1))
		_ = b.Any(bundle.AllowsAccess(hostileReqs.accs["flyio"]))
	})
	// audit: other verifiers - several keys (also under the empty key-id), the caching verifier asked twice (the
	// second bundle is served from the cache), a verifier function of the caller
	aud(p+"verify.withkeys", func() {
		b := parse()
		c.step()
		_, err := b.Verify(ctx, bundle.WithKeys(hKeysFor(kid), trusted))
		errUse(err)
		c.step()
		errUse(b.Validate(hostileReqs.accs["flyio"]))
	})
	aud(p+"verify.cache", func() {
		vc := bundle.NewVerificationCache(bundle.WithKeys(hKeysFor(kid), trusted), time.Hour, 4)
		for i := 0; i < 2; i++ {
			b := parse()
			c.step()
			_, err := b.Verify(ctx, vc)
			errUse(err)
			c.step()
			_, err = b.Verify(ctx, vc) // again on the same bundle: its tokens are verification results now
			errUse(err)
			c.step()
			errUse(b.Validate(hostileReqs.accs["flyio"]))
			c.step()
			errUse(b.Attenuate(&macaroon.ValidityWindow{NotBefore: 1, NotAfter: 2}))
			c.step()
			_ = b.Header()
			c.step()
		}
		vc.Purge()
	})
	aud(p+"verify.func", func() {
		b := parse()
		c.step()
		_, err := b.Verify(ctx, bundle.VerifierFunc(func(_ context.Context, perm bundle.Macaroon, diss []bundle.Macaroon) bundle.VerificationResult {
			return ver.VerifyOne(ctx, perm, diss)
		}))
		errUse(err)
		_ = b.Header()
	})
	c.op(p+"attenuate", func() {
		b := parse()
		a := resset.ActionRead
		errUse(b.Attenuate(&a, &macaroon.ValidityWindow{NotBefore: 1, NotAfter: 2}))
		_ = b.Header()
	})
	c.op(p+"verify.attenuate", func() {
		b := parse()
		_, _ = b.Verify(ctx, ver)
		a := resset.ActionRead
		errUse(b.Attenuate(&a))
		errUse(b.Validate(hostileReqs.accs["full"]))
		_ = b.Header()
	})
	// audit: attenuation with the caveats of the bundle's own (unverified) tokens - the same values end up in
	// several tokens -, a fresh third-party caveat, and nothing at all
	aud(p+"attenuate.own", func() {
		b := parse()
		var own []macaroon.Caveat
		bundle.ForEach(b, func(m bundle.Macaroon) {
			if len(own) < 4 {
				own = append(own, m.UnsafeCaveats().Caveats...)
			}
		})
		if len(own) > 4 {
			own = own[:4] // the bound has no term for (tokens in the bundle) x (caveats added)
		}
		c.step()
		errUse(b.Attenuate(own...))
		c.step()
		_ = b.Header()
		c.step()
		errUse(b.Attenuate())
		c.step()
		if c3, err := macaroon.NewCaveat3P(hKA, "https://other.example"); err == nil {
			errUse(b.Attenuate(c3))
		}
		c.step()
		_, err := b.Verify(ctx, ver)
		errUse(err)
		c.step()
		_ = b.Header()
	})
	c.op(p+"clone", func() { cl := parse().Clone(); _ = cl.Header() })
	c.op(p+"discharge", func() {
		b := parse()
		errUse(b.Discharge(hLoc3, hKA, func(cs []macaroon.Caveat) ([]macaroon.Caveat, error) {
			errUse(macaroon.NewCaveatSet(cs...).Validate(hostileReqs.accs["dr"]))
			return nil, nil
		}))
		_ = b.Header()
	})
	// audit: a third party that copies the ticket's caveats onto the discharge, one that refuses, one under the
	// wrong key; then verification with the discharges just made
	aud(p+"discharge.more", func() {
		b := parse()
		c.step()
		errUse(b.Discharge(hLoc3, hKA, func(cs []macaroon.Caveat) ([]macaroon.Caveat, error) { return cs, nil }))
		c.step()
		_, err := b.Verify(ctx, ver)
		errUse(err)
		c.step()
		_ = b.Header()
	})
	aud(p+"discharge.refused", func() {
		b := parse()
		errUse(b.Discharge(hLoc3, hKA, func(cs []macaroon.Caveat) ([]macaroon.Caveat, error) {
			return nil, fmt.Errorf("refused: %w", macaroon.ErrUnauthorized)
		}))
		c.step()
		errUse(b.Discharge(hLoc3, hKey, func(cs []macaroon.Caveat) ([]macaroon.Caveat, error) { return nil, nil }))
		c.step()
		errUse(b.Discharge("", nil, func(cs []macaroon.Caveat) ([]macaroon.Caveat, error) { return nil, nil }))
		c.step()
		_ = b.Header()
	})
	c.op(p+"select", func() {
		b := parse()
		_ = b.Count(bundle.Predicate(bundle.HasCaveat[*macaroon.ValidityWindow]))
		_ = b.Count(bundle.Predicate(bundle.HasCaveat[*macaroon.Caveat3P]))
		_ = b.Any(flyio.IsForOrgUnverified(1))
		_ = b.Select(b.IsMissingDischarge(hLoc3)).Len()
		_ = b.Select(b.WithDischarges(bundle.KeepAll)).Len()
		_ = flyio.UUIDs(b)
		_ = flyio.NonceEmails(b)
		bundle.ForEach(b, func(m bundle.Macaroon) {
			_ = m.Location()
			_ = m.Nonce().UUID()
			_ = m.ThirdPartyTickets()
			_ = m.TicketsForThirdParty(hLoc3)
			_ = m.UnsafeCaveats()
		})
	})
	// audit: the header presented a second time to a live bundle, to a bundle of a legitimate token, in-place
	// filtering with every stock filter and combinator, the generic helpers, and what the bad tokens say
	aud(p+"addtokens", func() {
		b := parse()
		c.step()
		errUse(b.AddTokens(hdr))
		c.step()
		_, err := b.Verify(ctx, ver)
		errUse(err)
		c.step()
		_ = b.Header()
	})
	aud(p+"addtokens.legit", func() {
		lb, _ := bundle.ParseBundle(hLoc, hdrOf(hLegit))
		errUse(lb.AddTokens(hdr))
		c.step()
		_, err := lb.Verify(ctx, bundle.WithKey([]byte("legit-kid"), hKey, trusted))
		errUse(err)
		c.step()
		_ = lb.UndischargedThirdPartyTickets()
		c.step()
		_ = lb.Header()
	})
	aud(p+"filter", func() {
		b := parse()
		c.step()
		_ = b.Select(bundle.DefaultFilter(b.IsPermissionToken)).Len()
		c.step()
		_ = b.Select(bundle.LocationFilter(loc)).Len()
		c.step()
		_ = b.Select(bundle.LocationFilter("")).Len()
		c.step()
		_ = b.Select(bundle.And(bundle.IsWellFormedMacaroon, bundle.Not(b.IsPermissionToken))).Len()
		c.step()
		_ = b.Select(bundle.Or(bundle.IsMalformedMacaroon, bundle.IsNonMacaroon, bundle.IsFailedMacaroon)).Len()
		c.step()
		_ = b.Select(b.WithDischarges(b.IsMissingDischarge(hLoc3))).Len()
		c.step()
		_ = b.Count(bundle.KeepNone)
		c.step()
		// the read-only questions with every kind of filter VALUE (a Predicate and the filters that are not one),
		// each followed by the operations that touch every token: asking must leave the bundle as it was
		for _, f := range []bundle.Filter{b.IsMissingDischarge(hLoc3), b.IsMissingDischarge(loc), b.WithDischarges(b.IsPermissionToken),
			bundle.DefaultFilter(b.IsPermissionToken), bundle.LocationFilter(loc), bundle.LocationFilter(""), bundle.KeepNone, bundle.IsMalformedMacaroon} {
			_ = b.Count(f)
			_ = b.Any(f)
			_ = b.Header()
			_ = b.Len()
			_ = b.Clone().String()
			c.step()
		}
		_, _ = b.Verify(ctx, ver)
		c.step()
		_ = b.Select(bundle.IsVerificationResult).Header()
		c.step()
		b.Filter(bundle.Not(bundle.IsMalformedMacaroon))
		c.step()
		_ = b.Header()
		c.step()
		b.Filter(bundle.DefaultFilter(b.IsPermissionToken))
		c.step()
		_ = b.Header()
		c.step()
		errUse(b.Error())
		c.step()
		b.Filter(bundle.KeepNone) // the empty bundle
		c.step()
		_ = b.Header()
		c.step()
		_ = b.String()
		c.step()
		_ = b.IsEmpty()
		c.step()
		_ = b.Clone().String()
		c.step()
		_ = bundle.String[bundle.Token]()
		c.step()
		_ = bundle.Header[bundle.Token]()
		c.step()
		_, err := b.Verify(ctx, ver)
		c.step()
		errUse(err)
		c.step()
		errUse(b.Attenuate(&macaroon.ValidityWindow{NotAfter: 1}))
		c.step()
		errUse(b.Discharge(hLoc3, hKA, func(cs []macaroon.Caveat) ([]macaroon.Caveat, error) { return nil, nil }))
		c.step()
		errUse(b.Validate(hostileReqs.accs["flyio"]))
		c.step()
	})
	aud(p+"generic", func() {
		b := parse()
		c.step()
		_, _ = b.Verify(ctx, ver)
		c.step()
		strs := bundle.Map(b, func(t bundle.Token) string { return t.String() })
		_ = bundle.Reduce(b, func(n int, t bundle.Token) int { return n + len(t.String()) })
		toks := bundle.Map(b, func(t bundle.Token) bundle.Token { return t })
		c.step()
		_ = bundle.Header(toks...)
		c.step()
		_ = bundle.String(toks...)
		c.step()
		_ = len(strs)
		bundle.ForEach(b, func(t *bundle.MalformedMacaroon) { errUse(t.Error()); _ = t.String() })
		bundle.ForEach(b, func(t *bundle.FailedMacaroon) {
			errUse(t.Error())
			_ = t.String()
			_ = t.Unverified()
			_ = t.UnsafeMacaroon().Expiration()
		})
		bundle.ForEach(b, func(t bundle.NonMacaroon) { _ = t.String() })
		bundle.ForEach(b, func(t bundle.VerificationResult) { _ = t.Nonce().UUID() })
	})
}

// byteOps: operations that take raw token bytes (whether or not they decode)
func byteOps(c *hCtx, p string, b []byte) {
	c.op(p+"nonce", func() {
		n, err := macaroon.DecodeNonce(b)
		errUse(err)
		if err == nil {
			_ = n.UUID()
			_ = n.MustEncode()
			_ = flyio.NonceEmail(n)
			_ = fmt.Sprintf("%v|%+v", n, n)
			c.step()
			// audit: the nonce through its JSON form and back, and re-decoded from its own encoding
			if jb, err := json.Marshal(n); err == nil {
				var back macaroon.Nonce
				errUse(json.Unmarshal(jb, &back))
				_ = back.UUID()
				_ = back.MustEncode()
			}
			c.step()
			_, err = macaroon.DecodeNonce(append([]byte{0x91}, n.MustEncode()...))
			errUse(err)
		}
	})
	c.op(p+"pkg.tickets", func() {
		_, err := macaroon.TicketsForThirdParty(b, hLoc3)
		errUse(err)
		_, err = macaroon.ThirdPartyTicket(b, hLoc3)
		errUse(err)
	})
	c.op(p+"pkg.tickets.noloc", func() { _, err := macaroon.TicketsForThirdParty(b, ""); errUse(err) })
	c.op(p+"find", func() {
		_, _, _, _, err := macaroon.FindPermissionAndDischargeTokens([][]byte{b, hLegit}, hLoc)
		errUse(err)
	})
	// audit: the input several times over and on both sides of the legitimate token, under the empty location
	c.op(p+"find.many", func() {
		_, _, _, _, _ = macaroon.FindPermissionAndDischargeTokens([][]byte{b, hLegit, b, nil}, "")
	})
	// the input in the role of a discharge / an existing discharge / a bind parent of a legitimate token
	c.op(p+"as.discharge", func() {
		m, _ := macaroon.Decode(hLegit)
		_, err := m.Verify(hKey, [][]byte{b}, map[string][]macaroon.EncryptionKey{hLoc3: {hKA}})
		errUse(err)
		_ = m.AllThirdPartyTickets(b)
	})
	c.op(p+"as.existing", func() {
		m, _ := macaroon.Decode(hLegit)
		_ = m.TicketsForThirdParty(hLoc3, nil, b, hLegit)
	})
	c.op(p+"as.existing.one", func() {
		m, _ := macaroon.Decode(hLegit)
		_, err := m.ThirdPartyTicket(hLoc3, b)
		errUse(err)
	})
	c.op(p+"as.parent", func() {
		m, _ := macaroon.Decode(hLegit)
		errUse(m.Bind(b))
		_, _ = m.Encode()
	})
	hdr := hdrOf(b)
	c.op(p+"hdr.parse", func() {
		toks, err := macaroon.Parse(hdr)
		errUse(err)
		_, _, err = macaroon.ParsePermissionAndDischargeTokens(hdr, hLoc)
		errUse(err)
		_, _, err = flyio.ParsePermissionAndDischargeTokens(hdr)
		errUse(err)
		_ = toks
	})
	// audit: the other way round - the bytes rendered as a header by the library, and read back
	c.op(p+"hdr.render", func() {
		h2 := macaroon.ToAuthorizationHeader(b, hLegit)
		c.step()
		_, err := macaroon.Parse(h2)
		errUse(err)
		c.step()
		_, _, err = macaroon.ParsePermissionAndDischargeTokens(h2, hLoc)
		errUse(err)
	})
}

// macOps: every operation on a decoded token; b decodes (checked by the caller)
func macOps(c *hCtx, p string, b []byte, deep bool) {
	fresh := func() *macaroon.Macaroon {
		m, err := macaroon.Decode(b)
		if err != nil {
			panic("harness: re-decode failed: " + err.Error())
		}
		return m
	}
	signed := func() *macaroon.Macaroon {
		m := fresh()
		m.Tail = chainTail(hKey, m)
		return m
	}
	trusted := map[string][]macaroon.EncryptionKey{hLoc3: {hKA}}
	c.op(p+"verify.wrongkey", func() { _, err := fresh().Verify(hKA, nil, nil); errUse(err) })
	c.op(p+"verify.selfdischarge", func() { _, err := fresh().Verify(hKey, [][]byte{b, hLegit}, trusted); errUse(err) })
	c.op(p+"verify.signed", func() { _, err := signed().Verify(hKey, [][]byte{b}, trusted); errUse(err) })
	// audit: keys of every length (HMAC takes them all), nil and empty discharge entries, the parsed entry point
	// with the token as its own discharge, trusted-key maps with empty lists and with the token's own location
	c.op(p+"verify.keys", func() {
		for _, k := range [][]byte{nil, {}, {1}, bytes.Repeat([]byte{2}, 31), bytes.Repeat([]byte{3}, 33), bytes.Repeat([]byte{4}, 200)} {
			_, err := fresh().Verify(k, [][]byte{nil, {}, b}, nil)
			errUse(err)
			c.step()
		}
		m := signed()
		c.step()
		tr := map[string][]macaroon.EncryptionKey{hLoc3: {}, m.Location: {hKA, nil}, "": {hKA}}
		others := []*macaroon.Macaroon{fresh(), signed()}
		c.step()
		_, err := m.VerifyParsed(hKey, others, tr)
		errUse(err)
		c.step()
		_, err = m.VerifyParsed(hKey, nil, nil)
		errUse(err)
	})
	c.op(p+"add", func() {
		m := fresh()
		a := resset.ActionRead
		errUse(m.Add(&a, &macaroon.ValidityWindow{NotBefore: 1, NotAfter: 2}))
		_, _ = m.Encode()
	})
	c.op(p+"add.dup", func() {
		m := fresh()
		errUse(m.Add(m.UnsafeCaveats.Caveats...))
		errUse(m.Add())
	})
	c.op(p+"add3p", func() {
		m := fresh()
		errUse(m.Add3P(hKA, "https://other.example", &macaroon.ValidityWindow{NotAfter: 5}))
		_, _ = m.Encode()
	})
	// audit: ONE object through a whole life, calls that fail included (verification under the wrong key, a second
	// third-party caveat for a location it already has, binding, re-encoding, re-decoding, cloning)
	c.op(p+"life", func() {
		m := fresh()
		c.step()
		_, err := m.Verify(hKA, nil, nil)
		errUse(err)
		c.step()
		errUse(m.Add3P(hKA, hLoc3))
		c.step()
		errUse(m.Add3P(hKA, hLoc3, m.UnsafeCaveats.Caveats...))
		c.step()
		a := resset.ActionRead
		errUse(m.Add(&a))
		c.step()
		errUse(m.Bind(hLegit))
		c.step()
		errUse(m.BindToParentMacaroon(m))
		_ = m.Expiration()
		c.step()
		enc, err := m.Encode()
		errUse(err)
		c.step()
		if m2, err := macaroon.Decode(enc); err == nil {
			c.step()
			_, err = m2.Verify(hKey, [][]byte{enc}, trusted)
			errUse(err)
			c.step()
			_ = m2.AllThirdPartyTickets(enc)
		} else {
			errUse(err)
		}
		c.step()
		cl, err := m.Clone()
		errUse(err)
		c.step()
		if cl != nil {
			errUse(cl.Add(m.UnsafeCaveats.Caveats...))
			c.step()
			_, _ = cl.String()
			c.step()
		}
		_, err = m.Verify(hKey, nil, trusted)
		errUse(err)
		c.step()
		_, _ = m.String()
	})
	c.op(p+"encode", func() { _, err := fresh().Encode(); errUse(err) })
	c.op(p+"string", func() {
		m := fresh()
		c.step()
		str, err := m.String()
		errUse(err)
		c.step()
		_, _ = macaroon.Parse(str)
		c.step()
		_ = fmt.Sprintf("%v|%+v", m, *m)
	})
	c.op(p+"clone", func() { _, err := fresh().Clone(); errUse(err) })
	c.op(p+"expiration", func() { _ = fresh().Expiration() })
	c.op(p+"tickets", func() {
		m := fresh()
		_, _ = m.ThirdPartyTickets()
		_ = m.AllThirdPartyTickets()
		_ = m.AllThirdPartyTickets(b, hLegit)
		_ = m.TicketsForThirdParty(hLoc3)
		_, _ = m.ThirdPartyTicket(hLoc3)
	})
	// every third-party caveat of the token (found by the harness's own walk): a discharge whose key-id IS the
	// ticket, at a location with a trusted key - verification then unseals VerifierKey and the key-id,
	// whatever their lengths; and the third party's side: DischargeTicket on the ticket as it is
	c.op(p+"verify.matching", func() {
		m := signed()
		var dis [][]byte
		tr := map[string][]macaroon.EncryptionKey{hLoc3: {hKA}}
		hWalk(m.UnsafeCaveats.Caveats, func(cv macaroon.Caveat) {
			if c3, ok := cv.(*macaroon.Caveat3P); ok && c3 != nil {
				for _, proof := range []bool{false, true} {
					dis = append(dis, mpEnc(mpA(mpA(mpBn(c3.Ticket), mpBn(bytes.Repeat([]byte{5}, 16)), mpB(proof)),
						mpS(c3.Location), mpA(), mpBn(bytes.Repeat([]byte{6}, 32)))))
				}
				tr[c3.Location] = []macaroon.EncryptionKey{hKA, macaroon.EncryptionKey{}, macaroon.EncryptionKey("short")}
			}
		})
		_, err := m.Verify(hKey, dis, tr)
		errUse(err)
		_, err = fresh().Verify(hKey, dis, tr)
		errUse(err)
	})
	c.op(p+"tickets.discharge", func() {
		hWalk(fresh().UnsafeCaveats.Caveats, func(cv macaroon.Caveat) {
			if c3, ok := cv.(*macaroon.Caveat3P); ok && c3 != nil {
				tcavs, dm, err := macaroon.DischargeTicket(hKA, c3.Location, c3.Ticket)
				errUse(err)
				if err == nil {
					_, _ = dm.Encode()
					// audit: what the third party does next - checks the ticket's caveats against its request,
					// attenuates, binds and hands out the discharge
					c.step()
					errUse(macaroon.NewCaveatSet(tcavs...).Validate(hostileReqs.accs["dr"], hostileReqs.accs["dr.many"]))
					c.step()
					errUse(dm.Add(tcavs...))
					c.step()
					errUse(dm.Bind(b))
					c.step()
					_, _ = dm.String()
					c.step()
				}
				_, _, err = macaroon.DischargeTicket(macaroon.EncryptionKey("short"), c3.Location, c3.Ticket)
				errUse(err)
				_, _, err = macaroon.DischargeTicket(nil, "", c3.Ticket)
				errUse(err)
			}
		})
	})
	c.op(p+"bind", func() { errUse(fresh().Bind(hLegit)) })
	c.op(p+"bind.self", func() {
		m := fresh()
		errUse(m.BindToParentMacaroon(fresh()))
		c.step()
		errUse(m.Bind(b)) // audit: through the byte entry point, and with nothing
		errUse(m.Bind(nil))
	})
	c.op(p+"mac.json", func() {
		jb, err := json.Marshal(fresh())
		errUse(err)
		c.step()
		// audit: and back (the JSON form carries location and caveats only)
		var back macaroon.Macaroon
		if err == nil && json.Unmarshal(jb, &back) == nil {
			c.step()
			_ = back.Expiration()
			errUse(back.UnsafeCaveats.Validate(hostileReqs.accs["flyio"]))
			c.step()
			_, _ = back.Encode()
		}
	})
	c.op(p+"nonce.uuid", func() { m := fresh(); _ = m.Nonce.UUID(); _ = m.Nonce.MustEncode(); _ = flyio.NonceEmail(m.Nonce) })
	csOps(c, p+"u.", func() *macaroon.CaveatSet { return &fresh().UnsafeCaveats })
	// after signature verification: the caveats returned for a token whose tail is right
	var verr error
	c.op(p+"sign", func() { _, verr = signed().Verify(hKey, nil, nil); errUse(verr) })
	if verr == nil && !contains(c.panics, p+"sign") {
		c.verified = true
		csOps(c, p+"v.", func() *macaroon.CaveatSet {
			cs, err := signed().Verify(hKey, nil, nil)
			if err != nil {
				panic("harness: signed token no longer verifies")
			}
			return cs
		})
	}
	if deep {
		var loc string
		var kid []byte
		c.op(p+"loc", func() { m := fresh(); loc, kid = m.Location, m.Nonce.KID })
		bunOps(c, p+"bun.", hdrOf(b, hLegit), loc, kid)
		var sb []byte
		c.op(p+"signed.encode", func() { sb, _ = signed().Encode() })
		if sb != nil {
			bunOps(c, p+"sbun.", hdrOf(sb), loc, kid)
		}
	}
}

func contains(xs []string, s string) bool {
	for _, x := range xs {
		if x == s {
			return true
		}
	}
	return false
}

// a ticket whose plaintext carries the raw caveat-set bytes, sealed for hKA
func hostileTicket(rawCavs []byte) []byte {
	pt := append([]byte{0x92}, mpEnc(&mpNode{Kind: mpBin, S: bytes.Repeat([]byte{0x33}, 32)})...)
	pt = append(pt, rawCavs...)
	return aeadSeal(hKA, make([]byte, 12), pt)
}

// hRN: the discharge key the harness's well-formed tickets carry
var hRN = bytes.Repeat([]byte{0x33}, 32)

// ticketToken: a token with a valid tail under hKey whose one third-party caveat (location hLoc3) carries the given
// ticket and a VerifierKey that seals hRN, and a discharge for it: key-id = the ticket, signed with hRN
func ticketToken(ticket []byte) (tok, dis []byte) {
	nonce := mpA(mpBn([]byte("legit-kid")), mpBn(bytes.Repeat([]byte{8}, 16)), mpB(false))
	t0 := hmacSum(hKey, mpEnc(nonce))
	body := mpA(mpS(hLoc3), mpBn(aeadSeal(t0, bytes.Repeat([]byte{2}, 12), hRN)), mpBn(ticket))
	tok = mpEnc(mpA(nonce, mpS(hLoc), mpA(mpU(11), body), mpBn(hmacSum(t0, mpEnc(mpA(mpU(11), body))))))
	dn := mpA(mpBn(ticket), mpBn(bytes.Repeat([]byte{5}, 16)), mpB(false))
	dis = mpEnc(mpA(dn, mpS(hLoc3), mpA(), mpBn(hmacSum(hRN, mpEnc(dn)))))
	return
}

// ticketVerify: verification of such a token with its discharge, the third party trusted (its key opens the
// key-id of the discharge, i.e. the ticket, and the plaintext is decoded) and not trusted
func ticketVerify(ticket []byte, mode int) {
	tok, dis := ticketToken(ticket)
	m, err := macaroon.Decode(tok)
	if err != nil {
		panic("harness: ticket token does not decode: " + err.Error())
	}
	switch mode {
	case 0:
		cs, err := m.Verify(hKey, [][]byte{dis}, map[string][]macaroon.EncryptionKey{hLoc3: {hKA}})
		errUse(err)
		if err == nil {
			errUse(cs.Validate(hostileReqs.accs["flyio"]))
		}
	case 1: // a key that does not open the ticket in front of the one that does
		_, err = m.Verify(hKey, [][]byte{dis}, map[string][]macaroon.EncryptionKey{hLoc3: {hKey, nil, hKA}})
		errUse(err)
	default:
		_, err = m.Verify(hKey, [][]byte{dis}, nil)
		errUse(err)
		_ = m.AllThirdPartyTickets(dis)
	}
}

// bunOpsTicket: the same token in a bundle; the bundle's own third-party side opens the ticket
func bunOpsTicket(c *hCtx, tok, dis []byte) {
	ctx := context.Background()
	trusted := map[string][]macaroon.EncryptionKey{hLoc3: {hKA}}
	ver := bundle.WithKey([]byte("legit-kid"), hKey, trusted)
	if dis == nil {
		// the bundle's own third-party side opens the ticket (one decode of the plaintext); the discharge it makes
		// is not trusted by the verifier below, so verification does not open it again
		b, err := bundle.ParseBundle(hLoc, hdrOf(tok))
		errUse(err)
		_ = b.UndischargedTicketsForThirdParty(hLoc3)
		c.step()
		errUse(b.Discharge(hLoc3, hKA, func(cs []macaroon.Caveat) ([]macaroon.Caveat, error) {
			errUse(macaroon.NewCaveatSet(cs...).Validate(hostileReqs.accs["dr"]))
			return cs, nil
		}))
		c.step()
		_, err = b.Verify(ctx, bundle.WithKey([]byte("legit-kid"), hKey, nil))
		errUse(err)
		c.step()
		errUse(b.Validate(hostileReqs.accs["flyio"]))
		_ = b.Header()
		return
	}
	b2, err := bundle.ParseBundle(hLoc, hdrOf(tok, dis))
	errUse(err)
	c.step()
	_, err = b2.Verify(ctx, ver)
	errUse(err)
	c.step()
	errUse(b2.Validate(hostileReqs.accs["flyio"]))
	_ = b2.UndischargedThirdPartyTickets()
}

const valueLineMax = 2048

// inputs larger than this skip the bundle round (the same operations, reached through a header)
const bigInput = 8192

// runHostile: the result line of one input (+ optionally the decoded value for the fidelity line; the full
// list of panicking operations and the raw allocation figure, for the distribution only)
func runHostile(in *hIn) (res string, value string, ops string, allocBytes uint64, info string) {
	b := in.bytes()
	c := &hCtx{lite: strings.HasPrefix(in.tag, "kinds.") || strings.HasPrefix(in.tag, "sibling.")}
	// everything the operations on the decoded value allocate, all of them together (cumulative heap allocation:
	// garbage counts - the property bounds what is allocated, not what is retained)
	var ms0 runtime.MemStats
	runtime.ReadMemStats(&ms0)
	dec := "err"
	var alloc uint64
	switch in.kind {
	case "cavs":
		var cs *macaroon.CaveatSet
		var err error
		var pan any
		alloc, pan = measured(func() { cs, err = macaroon.DecodeCaveats(b) })
		if pan != nil {
			dec = "panic"
			c.panics = append(c.panics, "decode")
			c.first = panicLine(pan)
			break
		}
		c.op("ticket", func() { _, _, err := macaroon.DischargeTicket(hKA, hLoc3, hostileTicket(b)); errUse(err) })
		// audit: the same ticket inside a token that is presented with a discharge for it - verification then opens
		// and decodes the ticket itself (trusted third party), whether or not the caveat set in it decodes
		c.op("ticket.verify", func() { ticketVerify(hostileTicket(b), 0) })
		c.op("ticket.verify.keys", func() { ticketVerify(hostileTicket(b), 1) })
		if err != nil {
			c.op("decode.err", func() { errUse(err) })
			break
		}
		dec = "ok"
		hWalk(cs.Caveats, func(macaroon.Caveat) { c.items++ })
		// (a top-level wire nil is an empty set for the library; the model's decodeCavs has no such case: no value line)
		if len(b) <= valueLineMax && b[0] != 0xc0 && !strings.HasSuffix(in.tag, ".over200") {
			c.op("value", func() { value = "ok " + sxCavs(cs.Caveats) })
		}
		csOps(c, "", func() *macaroon.CaveatSet {
			x, err := macaroon.DecodeCaveats(b)
			if err != nil {
				panic("harness: re-decode failed")
			}
			return x
		})
		// the same caveats carried by a token with a valid tail
		var tb []byte
		c.op("t.build", func() {
			m, _ := macaroon.Decode(hLegit)
			m.UnsafeCaveats = *cs
			m.Tail = chainTail(hKey, m)
			tb, _ = m.Encode()
			if tb != nil {
				if _, err := macaroon.Decode(tb); err != nil {
					tb = nil
				}
			}
		})
		if tb != nil {
			byteOps(c, "t.", tb)
			macOps(c, "t.", tb, len(b) <= bigInput)
		}
	case "mac":
		var m *macaroon.Macaroon
		var err error
		var pan any
		alloc, pan = measured(func() { m, err = macaroon.Decode(b) })
		if pan != nil {
			dec = "panic"
			c.panics = append(c.panics, "decode")
			c.first = panicLine(pan)
		} else if err == nil {
			dec = "ok"
			hWalk(m.UnsafeCaveats.Caveats, func(macaroon.Caveat) { c.items++ })
			if len(b) <= valueLineMax && !strings.HasSuffix(in.tag, ".over200") {
				c.op("value", func() { value = "ok " + sxMac(m) })
			}
		}
		c.op("decode.err", func() { errUse(err) })
		byteOps(c, "", b)
		if dec == "ok" {
			macOps(c, "", b, len(b) <= bigInput)
		} else {
			bunOps(c, "bun.", hdrOf(b, hLegit), hLoc, []byte("legit-kid"))
		}
	case "json":
		dec = "?"
		var cs macaroon.CaveatSet
		var err error
		var pan any
		alloc, pan = measured(func() { err = json.Unmarshal(b, &cs) })
		if pan != nil {
			c.panics = append(c.panics, "decode")
			c.first = panicLine(pan)
		}
		c.op("mac.unjson", func() {
			var m macaroon.Macaroon
			doc := append(append([]byte(`{"location":"l","caveats":`), b...), '}')
			if json.Unmarshal(doc, &m) == nil {
				_, _ = json.Marshal(&m)
				_ = m.Expiration()
			}
		})
		c.op("nonce.unjson", func() {
			var n macaroon.Nonce
			uerr := json.Unmarshal(b, &n)
			errUse(uerr)
			c.step()
			if uerr == nil {
				_ = n.UUID()
				_ = n.MustEncode()
				_ = flyio.NonceEmail(n)
				if jb, err := json.Marshal(n); err == nil {
					var back macaroon.Nonce
					errUse(json.Unmarshal(jb, &back))
				}
			}
		})
		// audit: the document as a whole token (JSON form: location + caveats), as one caveat body of every
		// JSON-capable leaf type, and as a request
		c.op("mac.unjson.direct", func() {
			var m macaroon.Macaroon
			uerr := json.Unmarshal(b, &m)
			errUse(uerr)
			c.step()
			if uerr == nil {
				_, _ = json.Marshal(&m)
				c.step()
				_ = m.Expiration()
				errUse(m.UnsafeCaveats.Validate(hostileReqs.accs["flyio"]))
				c.step()
				errUse(m.Add(&macaroon.ValidityWindow{NotAfter: 1}))
				c.step()
				_, _ = m.Encode()
			}
		})
		c.op("leaf.unjson", func() {
			var a resset.Action
			errUse(json.Unmarshal(b, &a))
			_ = a.String()
			c.step()
			var ip resset.IfPresent
			if json.Unmarshal(b, &ip) == nil {
				errUse(ip.Prohibits(hostileReqs.accs["flyio"]))
				_ = ip.Unwrap()
				_, _ = json.Marshal(&ip)
			}
			c.step()
			var un macaroon.UnregisteredCaveat
			if json.Unmarshal(b, &un) == nil {
				_, _ = json.Marshal(&un)
				_, _ = macaroon.NewCaveatSet(&un).MarshalMsgpack()
			}
			c.step()
			var g auth.GoogleUserID
			if json.Unmarshal(b, &g) == nil {
				_, _ = json.Marshal(&g)
			}
			c.step()
			var acc flyio.Access
			if json.Unmarshal(b, &acc) == nil {
				errUse(acc.Validate())
			}
		})
		c.op("decode.err", func() { errUse(err) })
		if pan != nil || err != nil {
			break
		}
		csOps(c, "", func() *macaroon.CaveatSet {
			var x macaroon.CaveatSet
			if json.Unmarshal(b, &x) != nil {
				panic("harness: re-decode failed")
			}
			return &x
		})
		var tb []byte
		c.op("t.build", func() {
			m, _ := macaroon.Decode(hLegit)
			m.UnsafeCaveats = cs
			m.Tail = chainTail(hKey, m)
			tb, _ = m.Encode()
			if tb != nil {
				if _, err := macaroon.Decode(tb); err != nil {
					tb = nil
				}
			}
		})
		if tb != nil {
			macOps(c, "t.", tb, len(b) <= bigInput)
		}
	case "ticket":
		// the plaintext of a third-party ticket, sealed for hKA with a fixed nonce
		tk := aeadSeal(hKA, make([]byte, 12), b)
		var tcavs []macaroon.Caveat
		var dm *macaroon.Macaroon
		var err error
		var pan any
		alloc, pan = measured(func() { tcavs, dm, err = macaroon.DischargeTicket(hKA, hLoc3, tk) })
		if pan != nil {
			dec = "panic"
			c.panics = append(c.panics, "decode")
			c.first = panicLine(pan)
			break
		}
		c.op("ticket.verify", func() { ticketVerify(tk, 0) })
		c.op("ticket.verify.keys", func() { ticketVerify(tk, 1) })
		c.op("ticket.verify.untrusted", func() { ticketVerify(tk, 2) })
		c.op("ticket.bundle", func() {
			tokb, _ := ticketToken(tk)
			bunOpsTicket(c, tokb, nil)
		})
		c.op("ticket.bundle.discharged", func() {
			tokb, disb := ticketToken(tk)
			bunOpsTicket(c, tokb, disb)
		})
		if err != nil {
			c.op("decode.err", func() { errUse(err) })
			break
		}
		dec = "ok"
		hWalk(tcavs, func(macaroon.Caveat) { c.items++ })
		_ = dm
		redo := func() ([]macaroon.Caveat, *macaroon.Macaroon) {
			cs, d, err := macaroon.DischargeTicket(hKA, hLoc3, tk)
			if err != nil {
				panic("harness: ticket no longer opens")
			}
			return cs, d
		}
		c.op("dm", func() {
			cs, d := redo()
			c.step()
			errUse(macaroon.NewCaveatSet(cs...).Validate(hostileReqs.accs["dr"], hostileReqs.accs["dr.many"], hostileReqs.accs["dr.empty"]))
			c.step()
			errUse(d.Add(cs...))
			c.step()
			errUse(d.Add(&macaroon.ValidityWindow{NotBefore: 1, NotAfter: 2}))
			c.step()
			errUse(d.Add3P(hKA, "https://other.example", cs...))
			c.step()
			errUse(d.Bind(hLegit))
			c.step()
			enc, eerr := d.Encode()
			errUse(eerr)
			c.step()
			if m2, derr := macaroon.Decode(enc); derr == nil {
				c.step()
				_, verr := m2.Verify(hKey, nil, nil)
				errUse(verr)
				_ = m2.Expiration()
			} else {
				errUse(derr)
			}
			c.step()
			_, _ = d.String()
		})
		csOps(c, "tc.", func() *macaroon.CaveatSet { cs, _ := redo(); return macaroon.NewCaveatSet(cs...) })
	case "builtin":
		// cryptographically CONSISTENT hostile constructions (byte mutation never reaches them), built with the
		// public API; each runs alone in its own worker
		dec = "?"
		var pan any
		alloc, pan = measured(func() { hostileBuiltin(in.tag) })
		if pan != nil {
			c.panics = append(c.panics, "builtin")
			c.first = panicLine(pan)
		}
	case "hdr":
		dec = "?"
		hdr := string(b)
		if strings.HasPrefix(in.tag, "hdr.many.") {
			// the many-entry headers of the audit: every ENTRY costs the bundle layer a fixed price whatever its size (a
			// token object, its error, its strings: ~0.5 KB per pass, for entries of five bytes), like the price per
			// caveat above; allowance 2 KiB per entry (= 4 KiB per two), for these inputs only
			c.items = (strings.Count(hdr, ",") + 1) / 2
		}
		var toks [][]byte
		var pan any
		alloc, pan = measured(func() { toks, _ = macaroon.Parse(hdr) })
		if pan != nil {
			c.panics = append(c.panics, "decode")
			c.first = panicLine(pan)
		}
		c.op("ppd", func() {
			_, _, perr := macaroon.ParsePermissionAndDischargeTokens(hdr, hLoc)
			errUse(perr)
			_, _, perr = flyio.ParsePermissionAndDischargeTokens(hdr)
			errUse(perr)
			_, _ = macaroon.StripAuthorizationScheme(hdr)
		})
		c.op("ppd.more", func() {
			_, perr := macaroon.Parse(hdr)
			errUse(perr)
			c.step()
			_, _, perr = macaroon.ParsePermissionAndDischargeTokens(hdr, "")
			errUse(perr)
		})
		// audit: what a caller does with the parsed list - sorts it into permission and discharge tokens, verifies
		// the permission tokens with the rest as discharges, and renders the list as a header again
		c.op("find.verify", func() {
			perms, _, _, diss, ferr := macaroon.FindPermissionAndDischargeTokens(toks, hLoc)
			errUse(ferr)
			c.step()
			for i, pm := range perms {
				if i >= 4 {
					break
				}
				_, verr := pm.Verify(hKey, diss, map[string][]macaroon.EncryptionKey{hLoc3: {hKA}})
				errUse(verr)
				c.step()
				_ = pm.AllThirdPartyTickets(diss...)
				c.step()
			}
		})
		c.op("reencode", func() {
			h2 := macaroon.ToAuthorizationHeader(toks...)
			c.step()
			t2, rerr := macaroon.Parse(h2)
			errUse(rerr)
			_ = len(t2)
		})
		bunOps(c, "bun.", hdr, hLoc, []byte("legit-kid"))
		for i, t := range toks {
			if i >= 2 {
				break
			}
			p := fmt.Sprintf("tok%d.", i)
			byteOps(c, p, t)
			ok := false
			c.op(p+"decode", func() { _, err := macaroon.Decode(t); ok = err == nil })
			if ok {
				macOps(c, p, t, false)
			}
		}
	default:
		panic("bad kind " + in.kind)
	}
	v := 0
	if c.verified {
		v = 1
	}
	if (strings.Contains(in.tag, ".extmap") || strings.Contains(in.tag, ".dupfield")) && dec != "panic" {
		dec, value = "?", "" // outside the modelled wire domain: the accept/refuse verdict is not compared
	}
	var ms1 runtime.MemStats
	runtime.ReadMemStats(&ms1)
	opsAlloc := ms1.TotalAlloc - ms0.TotalAlloc
	bucket := allocBucket(alloc, len(b))
	if bucket == "alloc:fine" {
		// every single operation on the decoded value obeys the same bound as the decode step
		if ob := allocBucket(c.maxOpAlloc, len(b)); ob != "alloc:fine" {
			bucket = strings.Replace(ob, "alloc:balloon:", "alloc:balloon-op("+c.maxOpName+"):", 1)
		}
	}
	return dec + " " + c.field() + " " + bucket, value, c.opList(), alloc, fmt.Sprintf("%d,%d,%d", c.nops, v, opsAlloc)
}

// famHostileChild: the worker.  HOSTILE_IN = input file, HOSTILE_OUT = result file (appended, one line per
// input, written unbuffered so that it survives a fatal error), HOSTILE_FROM = first index, HOSTILE_SOLO=1: only that one.
func famHostileChild(r *Rng, o *Out, tier string) {
	// one P: sync.Pool (the msgpack library pools its decoders) is per P, so with several Ps what a call finds in
	// the pool - and with it what it allocates - would depend on where the goroutine happens to be scheduled
	runtime.GOMAXPROCS(1)
	debug.SetMaxStack(64 << 20)
	debug.SetMemoryLimit(3 << 30)
	if v := os.Getenv("HOSTILE_AS"); v != "" {
		if n, err := strconv.ParseUint(v, 10, 64); err == nil && n > 0 {
			lim := syscall.Rlimit{Cur: n, Max: n}
			_ = syscall.Setrlimit(syscall.RLIMIT_AS, &lim)
		}
	}
	from, _ := strconv.Atoi(os.Getenv("HOSTILE_FROM"))
	solo := os.Getenv("HOSTILE_SOLO") == "1"
	fin, err := os.Open(os.Getenv("HOSTILE_IN"))
	if err != nil {
		panic(err)
	}
	defer fin.Close()
	fout, err := os.OpenFile(os.Getenv("HOSTILE_OUT"), os.O_APPEND|os.O_WRONLY|os.O_CREATE, 0o644)
	if err != nil {
		panic(err)
	}
	defer fout.Close()
	// warm up one-time initialisation (reflection caches of the msgpack library) outside the measurements
	if m, err := macaroon.Decode(hLegit); err == nil {
		_, _ = m.Verify(hKey, nil, nil)
	}
	wr := NewRng(1)
	for k := 0; k < nCavKinds; k++ {
		if bb, err := encOne(wr.CavKind(k, 1)); err == nil {
			_, _ = macaroon.DecodeCaveats(bb)
		}
	}
	sc := bufio.NewScanner(fin)
	sc.Buffer(make([]byte, 1<<20), 1<<30)
	for i := 0; sc.Scan(); i++ {
		if i < from {
			continue
		}
		in := parseFileLine(sc.Text())
		if in.rep && !solo {
			return // rep inputs run alone: hand back to the parent
		}
		t0 := time.Now()
		res, val, ops, ab, info := runHostile(in)
		if val == "" {
			val = "-"
		}
		if _, err := fout.WriteString(fmt.Sprintf("%d\t%s\t%s\t%d\t%s\t%d\t%s\n", i, res, val, time.Since(t0).Milliseconds(), ops, ab, info)); err != nil {
			panic(err)
		}
		if solo {
			return
		}
	}
}

// hostileBuiltin: discharges that name themselves (or each other) as the discharge of their own third-party
// caveat.  A holder can build them without any issuer secret.  Verification must end (with an error).
func hostileBuiltin(tag string) {
	root, err := macaroon.New([]byte("kid"), hLoc, hKey)
	if err != nil {
		panic(err)
	}
	switch {
	case strings.HasPrefix(tag, "selfref.discharge"):
		c3, _ := macaroon.NewCaveat3P(hKA, hLoc3)
		_ = root.Add(c3)
		_, dis, err := macaroon.DischargeTicket(hKA, hLoc3, c3.Ticket)
		if err != nil {
			panic(err)
		}
		_ = dis.Add(c3) // the discharge demands ... itself
		db, _ := dis.Encode()
		rb, _ := root.Encode()
		m, _ := macaroon.Decode(rb)
		_, _ = m.Verify(hKey, [][]byte{db}, nil)
		_, _ = m.Verify(hKey, [][]byte{db, db}, map[string][]macaroon.EncryptionKey{hLoc3: {hKA}})
	case strings.HasPrefix(tag, "mutual.discharges"):
		ca, _ := macaroon.NewCaveat3P(hKA, hLoc3)
		cb, _ := macaroon.NewCaveat3P(hKA, "https://tp-b.example")
		_ = root.Add(ca)
		_, da, _ := macaroon.DischargeTicket(hKA, hLoc3, ca.Ticket)
		_, dbm, _ := macaroon.DischargeTicket(hKA, "https://tp-b.example", cb.Ticket)
		_ = da.Add(cb)  // A's discharge demands B's
		_ = dbm.Add(ca) // B's discharge demands A's
		ab, _ := da.Encode()
		bb, _ := dbm.Encode()
		rb, _ := root.Encode()
		m, _ := macaroon.Decode(rb)
		_, _ = m.Verify(hKey, [][]byte{ab, bb}, nil)
		_, _ = m.Verify(hKey, [][]byte{bb, ab}, nil)
	default:
		panic("unknown builtin " + tag)
	}
}

// ------------------------------------------------------------------------------------------------
// the parent: run all inputs through workers
// ------------------------------------------------------------------------------------------------

type hRes struct {
	res, val string
	crashed  bool
	ms       int
	ops      string
	alloc    uint64
	nops     int
	verified bool
	opsAlloc uint64
}

func fatalLine(stderr string) string {
	for _, l := range strings.Split(stderr, "\n") {
		if strings.HasPrefix(l, "fatal error:") || strings.HasPrefix(l, "runtime: goroutine stack exceeds") ||
			strings.HasPrefix(l, "runtime: out of memory") || strings.HasPrefix(l, "panic:") {
			if i := strings.Index(l, " ("); i >= 0 {
				l = l[:i] // drop "(N in use)"
			}
			return panicLine(l)
		}
	}
	return "no-message"
}

func runWorkers(dir string, ins []*hIn) []hRes {
	inPath, outPath := dir+"/hostile.in", dir+"/hostile.res"
	f, err := os.Create(inPath)
	if err != nil {
		panic(err)
	}
	w := bufio.NewWriterSize(f, 1<<20)
	for _, in := range ins {
		fmt.Fprintln(w, in.fileLine())
	}
	w.Flush()
	f.Close()
	os.Remove(outPath)
	results := make([]hRes, len(ins))
	done := 0
	readNew := func() {
		b, _ := os.ReadFile(outPath)
		for _, l := range strings.Split(string(b), "\n") {
			p := strings.SplitN(l, "\t", 7)
			if len(p) != 7 {
				continue
			}
			i, err := strconv.Atoi(p[0])
			if err != nil || i < 0 || i >= len(ins) {
				continue
			}
			ms, _ := strconv.Atoi(p[3])
			ab, _ := strconv.ParseUint(p[5], 10, 64)
			results[i] = hRes{res: p[1], val: p[2], ms: ms, ops: p[4], alloc: ab}
			if q := strings.Split(p[6], ","); len(q) >= 2 {
				results[i].nops, _ = strconv.Atoi(q[0])
				results[i].verified = q[1] == "1"
				if len(q) > 2 {
					results[i].opsAlloc, _ = strconv.ParseUint(q[2], 10, 64)
				}
			}
			if i+1 > done {
				done = i + 1
			}
		}
	}
	for done < len(ins) {
		solo := ins[done].rep
		cmd := exec.Command(os.Args[0], "hostile.child", "-out", dir+"/child")
		cmd.Env = append(os.Environ(), "HOSTILE_IN="+inPath, "HOSTILE_OUT="+outPath, fmt.Sprint("HOSTILE_FROM=", done),
			"HOSTILE_AS="+fmt.Sprint(uint64(8)<<30), "GOTRACEBACK=none")
		if solo {
			cmd.Env = append(cmd.Env, "HOSTILE_SOLO=1")
		}
		var stderr bytes.Buffer
		cmd.Stderr = &stderr
		if err := cmd.Start(); err != nil {
			panic(err)
		}
		waitc := make(chan error, 1)
		go func() { waitc <- cmd.Wait() }()
		var werr error
		timedOut := false
		lastSize, idle := int64(-1), 0
	wait:
		for {
			select {
			case werr = <-waitc:
				break wait
			case <-time.After(time.Second):
				st, _ := os.Stat(outPath)
				var sz int64
				if st != nil {
					sz = st.Size()
				}
				if sz == lastSize {
					idle++
				} else {
					lastSize, idle = sz, 0
				}
				if idle > 120 {
					timedOut = true
					_ = cmd.Process.Kill()
				}
			}
		}
		before := done
		readNew()
		if done >= len(ins) {
			break
		}
		if werr == nil && !timedOut && done > before {
			continue // worker stopped in front of a rep input (or finished its solo job)
		}
		if werr == nil && !timedOut && ins[done].rep && !solo {
			continue // nothing done yet, next is a rep input: run it solo
		}
		// the worker died on input `done`
		how := "exit0"
		if timedOut {
			how = "timeout"
		} else if ee, ok := werr.(*exec.ExitError); ok {
			if ws, ok := ee.Sys().(syscall.WaitStatus); ok && ws.Signaled() {
				how = "signal:" + strings.ReplaceAll(ws.Signal().String(), " ", "_")
			} else {
				how = fmt.Sprint("exit", ee.ExitCode())
			}
		} else if werr != nil {
			how = "error"
		}
		results[done] = hRes{res: fmt.Sprintf("crashed fatal alloc:unknown child:crashed(%s;%s)", how, fatalLine(stderr.String())), val: "-", crashed: true}
		done++
	}
	os.RemoveAll(dir + "/child")
	os.Remove(inPath)
	os.Remove(outPath)
	return results
}

// ------------------------------------------------------------------------------------------------
// generators
// ------------------------------------------------------------------------------------------------

type hGen struct {
	r          *Rng
	o          *Out
	depthLines [][2]string // (hostile.depth ..) op and the scanner's answer, emitted after the inputs
	ins        []*hIn
	pool       [][]byte // hostile token bytes, for embedding in headers
}

// modelBudget: the nesting budget of the model's decoders (Caveat/Codec.lean: defaultFuel)
const modelBudget = 200

// mpMaxDepth: deepest nesting of arrays/maps in the first msgpack value of b (iterative; independent of the
// library under test).  A container header met with d containers open counts as depth d+1; truncated or
// malformed input ends the scan.
func mpMaxDepth(b []byte) int {
	var open []uint64
	pos, max := 0, 0
	be := func(n int) (uint64, bool) {
		if len(b)-pos < n {
			return 0, false
		}
		v := beUint(b[pos : pos+n])
		pos += n
		return v, true
	}
	for pos < len(b) {
		c := b[pos]
		pos++
		var skip, items uint64
		container, ok := false, true
		switch {
		case c <= 0x7f, c >= 0xe0, c == 0xc0, c == 0xc2, c == 0xc3:
		case c >= 0xa0 && c <= 0xbf:
			skip = uint64(c & 0x1f)
		case c >= 0x90 && c <= 0x9f:
			container, items = true, uint64(c&0x0f)
		case c >= 0x80 && c <= 0x8f:
			container, items = true, 2*uint64(c&0x0f)
		case c == 0xc4, c == 0xd9:
			skip, ok = be(1)
		case c == 0xc5, c == 0xda:
			skip, ok = be(2)
		case c == 0xc6, c == 0xdb:
			skip, ok = be(4)
		case c == 0xc7, c == 0xc8, c == 0xc9:
			skip, ok = be(1 << (c - 0xc7))
			skip++
		case c == 0xca, c == 0xce, c == 0xd2:
			skip = 4
		case c == 0xcb, c == 0xcf, c == 0xd3:
			skip = 8
		case c == 0xcc, c == 0xd0:
			skip = 1
		case c == 0xcd, c == 0xd1:
			skip = 2
		case c >= 0xd4 && c <= 0xd8:
			skip = 1 + uint64(1)<<(c-0xd4)
		case c == 0xdc, c == 0xde:
			container = true
			items, ok = be(2)
		case c == 0xdd, c == 0xdf:
			container = true
			items, ok = be(4)
		default:
			return max
		}
		if c == 0xde || c == 0xdf {
			items *= 2
		}
		if !ok || skip > uint64(len(b)-pos) {
			return max
		}
		pos += int(skip)
		if container {
			open = append(open, items)
			if len(open) > max {
				max = len(open)
			}
		} else if len(open) == 0 {
			return max
		} else {
			open[len(open)-1]--
		}
		for len(open) > 0 && open[len(open)-1] == 0 {
			open = open[:len(open)-1]
			if len(open) == 0 {
				return max
			}
			open[len(open)-1]--
		}
	}
	return max
}

// mpExtBeforeMap: some value position of b holds an ext header that is directly followed by a map header.
// vmihailenco's DecodeMapLen skips an ext HEADER (not its payload) in front of a map length, so where a map is
// expected the library reads such bytes as a map; the model's decoder is a plain msgpack parser and has no such
// case (documented as outside the modelled wire domain, C11).  Such inputs keep their P-observable (no panic, no
// balloon) but their accept/refuse verdict is not compared.
func mpExtBeforeMap(b []byte) bool {
	isMap := func(i int) bool {
		return i < len(b) && (b[i]&0xf0 == 0x80 || b[i] == 0xde || b[i] == 0xdf)
	}
	var open []uint64
	pos := 0
	be := func(n int) (uint64, bool) {
		if len(b)-pos < n {
			return 0, false
		}
		v := beUint(b[pos : pos+n])
		pos += n
		return v, true
	}
	for pos < len(b) {
		c := b[pos]
		pos++
		var skip, items uint64
		container, ok := false, true
		switch {
		case c <= 0x7f, c >= 0xe0, c == 0xc0, c == 0xc2, c == 0xc3:
		case c >= 0xa0 && c <= 0xbf:
			skip = uint64(c & 0x1f)
		case c >= 0x90 && c <= 0x9f:
			container, items = true, uint64(c&0x0f)
		case c >= 0x80 && c <= 0x8f:
			container, items = true, 2*uint64(c&0x0f)
		case c == 0xc4, c == 0xd9:
			skip, ok = be(1)
		case c == 0xc5, c == 0xda:
			skip, ok = be(2)
		case c == 0xc6, c == 0xdb:
			skip, ok = be(4)
		case c == 0xc7, c == 0xc8, c == 0xc9:
			skip, ok = be(1 << (c - 0xc7))
			if ok && isMap(pos+1) {
				return true
			}
			skip++
		case c == 0xca, c == 0xce, c == 0xd2:
			skip = 4
		case c == 0xcb, c == 0xcf, c == 0xd3:
			skip = 8
		case c == 0xcc, c == 0xd0:
			skip = 1
		case c == 0xcd, c == 0xd1:
			skip = 2
		case c >= 0xd4 && c <= 0xd8:
			if isMap(pos + 1) {
				return true
			}
			skip = 1 + uint64(1)<<(c-0xd4)
		case c == 0xdc, c == 0xde:
			container = true
			items, ok = be(2)
		case c == 0xdd, c == 0xdf:
			container = true
			items, ok = be(4)
		default:
			return false
		}
		if c == 0xde || c == 0xdf {
			items *= 2
		}
		if !ok || skip > uint64(len(b)-pos) {
			return false
		}
		pos += int(skip)
		if container {
			open = append(open, items)
		} else if len(open) == 0 {
			return false
		} else {
			open[len(open)-1]--
		}
		for len(open) > 0 && open[len(open)-1] == 0 {
			open = open[:len(open)-1]
			if len(open) == 0 {
				return false
			}
			open[len(open)-1]--
		}
	}
	return false
}

func (g *hGen) add(kind, tag string, data []byte) {
	// inputs nested beyond the model's budget are marked: the model refuses them by construction, the
	// library has no budget (F12) - the mark keys that finding
	if (kind == "cavs" || kind == "mac" || kind == "ticket") && mpMaxDepth(data) > modelBudget {
		tag += ".over200"
	}
	if (kind == "cavs" || kind == "mac" || kind == "ticket") && mpExtBeforeMap(data) {
		tag += ".extmap"
		g.o.count("gen.extmap")
	}
	g.ins = append(g.ins, &hIn{kind: kind, tag: tag, data: append([]byte(nil), data...)})
	g.o.count("gen." + kind + "." + tag)
	if kind == "mac" && len(g.pool) < 400 && len(data) < 600 {
		g.pool = append(g.pool, append([]byte(nil), data...))
	}
}

func (g *hGen) addRep(kind, tag string, prefix, unit []byte, n int, suffix []byte) {
	g.ins = append(g.ins, &hIn{kind: kind, tag: tag, rep: true, prefix: prefix, unit: unit, n: n, suffix: suffix})
	g.o.count("gen." + kind + "." + tag)
}

func mpU(u uint64) *mpNode           { return &mpNode{Kind: mpInt, U: u, I: int64(u)} }
func mpI(i int64) *mpNode            { return &mpNode{Kind: mpInt, Neg: i < 0, I: i, U: uint64(i)} }
func mpNilNode() *mpNode             { return &mpNode{Kind: mpNil} }
func mpB(b bool) *mpNode             { return &mpNode{Kind: mpBool, B: b} }
func mpS(s string) *mpNode           { return &mpNode{Kind: mpStr, S: []byte(s)} }
func mpBn(b []byte) *mpNode          { return &mpNode{Kind: mpBin, S: b} }
func mpA(kids ...*mpNode) *mpNode    { return &mpNode{Kind: mpArr, Kids: kids} }
func mpM(kids ...*mpNode) *mpNode    { return &mpNode{Kind: mpMap, Kids: kids} }
func mpR(raw ...byte) *mpNode        { return &mpNode{Kind: mpRaw, Raw: raw} }
func mpCavs(pairs ...*mpNode) []byte { return mpEnc(mpA(pairs...)) }
func mpNest(k int, inner *mpNode) *mpNode {
	for i := 0; i < k; i++ {
		inner = mpA(inner)
	}
	return inner
}

// shapes a field can be replaced with
func (g *hGen) shapeMenu() []*mpNode {
	return []*mpNode{
		mpNilNode(), mpB(false), mpB(true), mpU(0), mpU(1), mpU(127), {Kind: mpInt, U: 255, Code: 0xcc}, mpU(65536),
		mpU(1<<64 - 1), mpI(-1), mpI(-33), mpI(-1 << 63), mpR(0xca, 0x3f, 0x80, 0, 0), mpR(0xcb, 0x3f, 0xf0, 0, 0, 0, 0, 0, 0),
		mpS(""), mpS("a"), {Kind: mpStr, S: []byte("abc"), Code: 0xd9}, mpBn(nil), mpBn([]byte("ab")),
		mpA(), mpA(mpNilNode()), mpA(mpNilNode(), mpNilNode()), mpA(mpNilNode(), mpNilNode(), mpNilNode()),
		mpA(mpNilNode(), mpNilNode(), mpNilNode(), mpNilNode()), mpA(mpU(0)), mpA(mpU(0), mpU(0)), mpA(mpS("a")),
		mpA(mpA()), mpA(mpM()), mpA(mpA(), mpU(0)), mpA(mpNilNode(), mpU(0)), mpA(mpU(1), mpNilNode()),
		mpM(), mpM(mpS("ID"), mpU(1)), mpM(mpS("Ifs"), mpNilNode()), mpM(mpS("Ifs"), mpA(), mpS("Else"), mpU(1)),
		mpM(mpS("Else"), mpU(1)), mpM(mpU(1), mpU(1)), mpM(mpS("a"), mpU(1)), mpM(mpA(), mpU(1)), mpM(mpM(), mpU(1)),
		mpM(mpBn([]byte("k")), mpU(1)), mpM(mpNilNode(), mpU(1)), mpM(mpB(true), mpU(1)),
		mpR(0xd6, 0xff, 0, 0, 0, 1), mpR(0xd4, 0x00, 0x00), mpR(0xc7, 0x00, 0x01), mpR(0xc7, 0x01, 0x05, 0xaa),
		mpA(mpM(mpS("a"), mpU(1))), mpA(mpM(mpS(""), mpU(31))), mpA(mpM(mpU(0), mpU(31))), mpA(mpM(mpS("a"), mpS("b"))),
		mpA(mpM(mpA(), mpU(1))), mpA(mpM(mpS("a"), mpU(1), mpS("a"), mpU(2))), mpA(mpA(mpS("a")), mpB(true)),
		mpA(mpA(mpA(mpS("a")), mpB(true))), mpA(mpA(mpNilNode(), mpNilNode())), mpA(mpS("l"), mpBn(nil), mpBn(nil)),
		mpA(mpA(mpU(4), mpA(mpU(1), mpU(2))), mpU(31)), mpA(mpA(mpU(13), mpA(mpNilNode(), mpU(0))), mpU(0)),
		mpA(mpA(mpU(13)), mpU(0)), mpA(mpA(mpNilNode(), mpNilNode()), mpU(0)), mpA(mpU(5), mpU(0)),
		// audit: strings that are not UTF-8, payloads behind 16- and 32-bit length prefixes that are really there,
		// validity windows at the ends of the int64 range and around time.Time's last second, command lists with
		// more arguments than any request has / without arguments / nil, containers behind 16-bit headers
		mpS("\xff\xfe\x00\xc0"), {Kind: mpStr, S: bytes.Repeat([]byte("A"), 300), Code: 0xda}, {Kind: mpBin, S: bytes.Repeat([]byte{0x91}, 20000), Code: 0xc6},
		mpA(mpU(0), mpU(1<<63-1)), mpA(mpI(-1<<63), mpI(-1)), mpA(mpU(1<<63-1), mpU(0)),
		mpA(mpU(0), mpU(9223371974719179007)), mpA(mpU(0), mpU(9223371974719179006)),
		mpA(mpA(mpA(mpS("a"), mpS("b"), mpS("c"), mpS("d")), mpB(true)), mpA(mpA(), mpB(false)), mpA(mpNilNode(), mpNilNode())),
		hManyMap(17), hManyArr(16), mpA(hManyMap(40)),
	}
}

// hRawNest: inner inside k one-element arrays, as verbatim bytes (mpNest + mpEnc copy the encoding once per level)
func hRawNest(k int, inner *mpNode) *mpNode {
	return &mpNode{Kind: mpRaw, Raw: append(bytes.Repeat([]byte{0x91}, k), mpEnc(inner)...)}
}

// hManyMap / hManyArr: containers that need a 16-bit header
func hManyMap(n int) *mpNode {
	var kids []*mpNode
	for i := 0; i < n; i++ {
		kids = append(kids, mpS(fmt.Sprintf("k%02d", i)), mpU(uint64(i%32)))
	}
	return mpM(kids...)
}

func hManyArr(n int) *mpNode {
	var kids []*mpNode
	for i := 0; i < n; i++ {
		kids = append(kids, mpU(uint64(i)))
	}
	return mpA(kids...)
}

var hRegistered = []uint64{0, 2, 3, 4, 5, 6, 7, 8, 9, 10, 11, 12, 13, 14, 15, 16, 19, 20, 21, 22, 23, 24, 25, 26, 27, 28, 29, 30, 31}
var hUnallocated = []uint64{1, 17, 18, 32, 33, 127, 128, 255, 256, 1000, 1 << 16, 1<<16 + 7, 1 << 17, 1 << 32, 1 << 48, 1<<63 - 1, 1 << 63, 1<<64 - 2, 1<<64 - 1}

// the crashers of DESIGN section 4, verbatim
func (g *hGen) known() {
	raw := func(s string) []byte { return unhx(strings.ReplaceAll(s, " ", "")) }
	g.add("cavs", "known.f2", raw("92 0d 92 c0 00"))
	g.add("cavs", "known.f2", raw("92 0d 90"))
	g.add("cavs", "known.f2", raw("92 0d c0"))
	g.add("cavs", "known.f2", raw("92 0d 80"))
	g.add("cavs", "known.f2", mpCavs(mpU(13), mpM(mpS("Else"), mpU(31))))
	g.add("cavs", "known.f2", mpCavs(mpU(13), mpA(mpA(mpU(13), mpA(mpNilNode(), mpU(1))), mpU(0))))
	g.add("cavs", "known.f3", raw("92 11 81 90 01"))
	g.add("cavs", "known.f3", raw("92 20 81 c4 00 01"))
	g.add("cavs", "known.f3", raw("92 11 81 80 01"))
	g.add("cavs", "known.f3", raw("92 11 91 81 91 01 02"))
	g.add("cavs", "known.f3", mpCavs(mpU(13), mpA(mpA(mpU(17), mpM(mpA(), mpU(1))), mpU(0))))
	g.add("cavs", "known.f5", raw("dd 7f ff ff fe"))
	g.add("cavs", "known.f5", raw("dd 10 00 00 00"))
	g.add("cavs", "known.f5", raw("dd 00 40 00 00"))
	g.add("cavs", "known.f5", raw("dc ff fe"))
	g.add("json", "known.f2", []byte(`[{"type":"IfPresent","body":{}}]`))
	g.add("json", "known.f2", []byte(`[{"type":"IfPresent","body":{"ifs":null,"else":"r"}}]`))
	g.add("json", "known.f4", []byte(`[{"type":"ValidityWindow","body":null}]`))
	g.add("json", "known.f4", []byte(`[{"type":"Commands","body":null}]`))
	var nilCmds flyio.Commands
	if b, err := macaroon.NewCaveatSet(&nilCmds).MarshalJSON(); err == nil {
		g.add("json", "known.f4.legit", b)
	}
}

// third-party shapes: VerifierKey and Ticket of every awkward length (nil, empty, shorter than an AEAD nonce,
// nonce only, ...) in a token whose tail is valid under hKey, and tails of every awkward length (Add3P seals
// the new VerifierKey under the tail)
func (g *hGen) thirdParty() {
	lens := []int{-1, 0, 1, 11, 12, 13, 28, 29, 60}
	bin := func(n int, fill byte) *mpNode {
		if n < 0 {
			return mpNilNode()
		}
		return mpBn(bytes.Repeat([]byte{fill}, n))
	}
	nonce := mpA(mpBn([]byte("kid")), mpBn(bytes.Repeat([]byte{7}, 16)), mpB(false))
	for _, vl := range lens {
		for _, tl := range lens {
			body := mpA(mpS(hLoc3), bin(vl, 0xaa), bin(tl, 0xbb))
			tail := hmacSum(hmacSum(hKey, mpEnc(nonce)), mpEnc(mpA(mpU(11), body)))
			g.add("mac", "tp.lengths", mpEnc(mpA(nonce, mpS(hLoc), mpA(mpU(11), body), mpBn(tail))))
		}
	}
	// a real ticket (sealed for hKA) behind a VerifierKey of the wrong length, and a real VerifierKey
	rn := bytes.Repeat([]byte{0x33}, 32)
	ticket := aeadSeal(hKA, bytes.Repeat([]byte{1}, 12), append(append([]byte{0x92}, mpEnc(mpBn(rn))...), 0x90))
	t0 := hmacSum(hKey, mpEnc(nonce))
	for _, vl := range lens {
		body := mpA(mpS(hLoc3), bin(vl, 0xaa), mpBn(ticket))
		g.add("mac", "tp.realticket", mpEnc(mpA(nonce, mpS(hLoc), mpA(mpU(11), body), mpBn(hmacSum(t0, mpEnc(mpA(mpU(11), body)))))))
	}
	body := mpA(mpS(hLoc3), mpBn(aeadSeal(t0, bytes.Repeat([]byte{2}, 12), rn)), mpBn(ticket))
	g.add("mac", "tp.real", mpEnc(mpA(nonce, mpS(hLoc), mpA(mpU(11), body), mpBn(hmacSum(t0, mpEnc(mpA(mpU(11), body)))))))
	// tails of every length on an otherwise ordinary token
	for _, tl := range []int{-1, 0, 1, 16, 31, 32, 33, 64, 1000} {
		g.add("mac", "tp.tail", mpEnc(mpA(nonce, mpS(hLoc), mpA(mpU(26), mpU(31)), bin(tl, 0x09))))
	}
	// tickets as DischargeTicket sees them: plaintexts of every shape sealed for hKA are covered by op `ticket`
	// (every cavs input); here the ciphertext side: tickets shorter than nonce+tag, in a cavs-kind 3P caveat
	for _, tl := range lens {
		g.add("cavs", "tp.ticket", mpCavs(mpU(11), mpA(mpS(hLoc3), mpBn(nil), bin(tl, 0xbb))))
	}
}

// every type number x every body shape
func (g *hGen) matrix() {
	menu := g.shapeMenu()
	types := append(append([]uint64{}, hRegistered...), 1, 17, 32, 1<<32, 1<<64-1)
	for _, t := range types {
		for _, body := range menu {
			g.add("cavs", "matrix", mpCavs(mpU(t), body))
		}
	}
	// the type-number position
	for _, tn := range menu {
		g.add("cavs", "matrix.type", mpCavs(tn, mpA(mpU(1), mpU(1))))
	}
	// the container itself
	for _, sh := range menu {
		g.add("cavs", "matrix.top", mpEnc(sh))
	}
}

// valid encodings produced by the library, as trees
func (g *hGen) validToken() (*mpNode, []byte) {
	r := g.r
	for {
		tok, err := macaroon.New(r.Bytes(pick(r, []int{0, 1, 16, 40})), r.wStr(), hKey)
		if err != nil {
			continue
		}
		n := r.Intn(5)
		ok := true
		for i := 0; i < n && ok; i++ {
			c := r.WireCav(2)
			if containsAttestation(c) {
				continue
			}
			if tok.Add(c) != nil {
				ok = false
			}
		}
		if r.Chance(1, 3) {
			_ = tok.Add3P(hKA, hLoc3, r.WireCav(1))
		}
		if !ok {
			continue
		}
		b, err := tok.Encode()
		if err != nil {
			continue
		}
		tree, rest, err := mpParse(b)
		if err != nil || len(rest) != 0 || len(tree.Kids) != 4 {
			continue
		}
		// the library drew the nonce, the discharge key and two AEAD nonces from crypto/rand: overwrite what
		// depends on them with bytes from the seeded generator, so that a seed reproduces the same input
		// (hostile tokens need no valid tail: the worker computes one where it wants verification to pass)
		if n := tree.Kids[0]; n.Kind == mpArr && len(n.Kids) >= 2 {
			n.Kids[1].S = r.Bytes(len(n.Kids[1].S))
		}
		if cs := tree.Kids[2]; cs.Kind == mpArr {
			for i := 0; i+1 < len(cs.Kids); i += 2 {
				if t, body := cs.Kids[i], cs.Kids[i+1]; t.Kind == mpInt && t.U == 11 && body.Kind == mpArr && len(body.Kids) == 3 {
					body.Kids[1].S = r.Bytes(len(body.Kids[1].S))
					body.Kids[2].S = r.Bytes(len(body.Kids[2].S))
				}
			}
		}
		tree.Kids[3].S = r.Bytes(len(tree.Kids[3].S))
		return tree, mpEnc(tree)
	}
}

func (g *hGen) validCavs() (*mpNode, []byte) {
	r := g.r
	for {
		n := r.Intn(4)
		cs := make([]macaroon.Caveat, n)
		for i := range cs {
			cs[i] = r.WireCav(2)
		}
		b, err := macaroon.NewCaveatSet(cs...).MarshalMsgpack()
		if err != nil {
			continue
		}
		tree, rest, err := mpParse(b)
		if err != nil || len(rest) != 0 {
			continue
		}
		return tree, b
	}
}

// all nodes of a tree with the slot that holds them
type mpSlot struct {
	parent *mpNode
	idx    int
}

func mpSlots(n *mpNode, out *[]mpSlot) {
	for i, k := range n.Kids {
		*out = append(*out, mpSlot{n, i})
		mpSlots(k, out)
	}
}

// header of a container / string with an announced length larger than what follows
func oversizeHeader(n *mpNode, announce uint64) *mpNode {
	var hdr []byte
	switch n.Kind {
	case mpArr:
		hdr = append([]byte{0xdd}, bePut(4, announce)...)
	case mpMap:
		hdr = append([]byte{0xdf}, bePut(4, announce)...)
	case mpStr:
		hdr = append([]byte{0xdb}, bePut(4, announce)...)
	case mpBin:
		hdr = append([]byte{0xc6}, bePut(4, announce)...)
	default:
		return nil
	}
	var body []byte
	if n.Kind == mpArr || n.Kind == mpMap {
		for _, k := range n.Kids {
			body = append(body, mpEnc(k)...)
		}
	} else {
		body = n.S
	}
	return &mpNode{Kind: mpRaw, Raw: append(hdr, body...)}
}

var hAnnounce = []uint64{1, 2, 3, 16, 255, 256, 10001, 65535, 65536, 1000001, 1 << 20, 1<<24 + 2}

// one structural mutation of a valid tree: a field becomes nil / another type / oversized / deeply nested / duplicated / dropped
func (g *hGen) mutateTree(tree *mpNode) (string, bool) {
	r := g.r
	var slots []mpSlot
	mpSlots(tree, &slots)
	if len(slots) == 0 {
		return "", false
	}
	s := pick(r, slots)
	old := s.parent.Kids[s.idx]
	switch r.Intn(8) {
	case 0:
		s.parent.Kids[s.idx] = mpNilNode()
		return "field.nil", true
	case 1, 2:
		s.parent.Kids[s.idx] = pick(r, g.shapeMenu())
		return "field.wrongtype", true
	case 3:
		o := oversizeHeader(old, pick(r, hAnnounce))
		if o == nil {
			return "", false
		}
		s.parent.Kids[s.idx] = o
		return "field.oversize", true
	case 4:
		s.parent.Kids[s.idx] = mpNest(pick(r, []int{1, 2, 3, 50, 150, 197, 198, 199, 200, 201, 300}), old)
		return "field.nested", true
	case 5:
		s.parent.Kids = append(s.parent.Kids[:s.idx+1], s.parent.Kids[s.idx:]...)
		return "field.dup", true
	case 6:
		s.parent.Kids = append(s.parent.Kids[:s.idx:s.idx], s.parent.Kids[s.idx+1:]...)
		return "field.drop", true
	default:
		s.parent.Kids[s.idx] = r.mpTree(2, true)
		return "field.random", true
	}
}

// dupFieldOversize: a token (or a conditional caveat's body) written as a map that names one field TWICE; the second
// value - decoded on top of the first - announces far more elements or bytes than the input holds. Whatever the
// library does with the second value, the memory it takes stays bounded by the input. (No accept/refuse verdict
// from the model: fields named twice are outside its wire domain.)
func (g *hGen) dupFieldOversize() {
	r := g.r
	names := []string{"Nonce", "Location", "UnsafeCaveats", "Tail"}
	for i := 0; i < 60; i++ {
		tree, _ := g.validToken()
		fi := r.Intn(4)
		first := tree.Kids[fi]
		if r.Chance(1, 3) && (first.Kind == mpArr || first.Kind == mpMap) {
			first = &mpNode{Kind: first.Kind} // an empty first value: the second one decodes onto an allocated, empty field
		}
		second := oversizeHeader(tree.Kids[fi], pick(r, []uint64{1 << 16, 1 << 20, 1 << 24, 1<<28 + 3, 1<<32 - 2}))
		if second == nil {
			continue
		}
		var kids []*mpNode
		for k, nm := range names {
			if k == fi {
				kids = append(kids, mpS(nm), first)
			} else {
				kids = append(kids, mpS(nm), tree.Kids[k])
			}
		}
		// the repeated field last (the input ends inside it) or right after the first mention
		if r.Bool() {
			kids = append(kids, mpS(names[fi]), second)
		} else {
			at := 2 * (fi + 1)
			kids = append(kids[:at:at], append([]*mpNode{mpS(names[fi]), second}, kids[at:]...)...)
		}
		g.add("mac", "dupfield.oversize."+names[fi]+".dupfield", mpEnc(mpM(kids...)))
	}
	// the same inside a caveat: a conditional caveat (type 13) whose body is a map naming Ifs twice
	for i := 0; i < 20; i++ {
		inner, _ := g.validCavs()
		second := oversizeHeader(inner, pick(r, []uint64{1 << 16, 1 << 24, 1<<32 - 2}))
		if second == nil {
			continue
		}
		body := mpM(mpS("Ifs"), inner, mpS("Ifs"), second, mpS("Else"), mpU(31))
		g.add("cavs", "dupfield.oversize.Ifs.dupfield", mpCavs(mpU(13), body))
	}
}

func (g *hGen) skeletons(n int) {
	for i := 0; i < n; i++ {
		if g.r.Chance(2, 3) {
			tree, _ := g.validToken()
			if tag, ok := g.mutateTree(tree); ok {
				if g.r.Chance(1, 4) {
					g.mutateTree(tree)
				}
				g.add("mac", tag, mpEnc(tree))
			}
		} else {
			tree, _ := g.validCavs()
			if tag, ok := g.mutateTree(tree); ok {
				g.add("cavs", tag, mpEnc(tree))
			}
		}
	}
}

// explicit nesting family: every container position, depths around the model's budget and far beyond
func (g *hGen) deep(maxDepth int) {
	depths := []int{1, 2, 10, 100, 196, 197, 198, 199, 200, 201, 202, 255, 256, 257, 1000, 5000, 20000, 50000}
	nonce := mpA(mpBn([]byte("kid")), mpBn(bytes.Repeat([]byte{7}, 16)), mpB(false))
	tokOf := func(cavs *mpNode) []byte {
		return mpEnc(mpA(nonce, mpS(hLoc), cavs, mpBn(bytes.Repeat([]byte{9}, 32))))
	}
	for _, k := range depths {
		if k > maxDepth {
			continue
		}
		// arrays inside an unregistered body
		g.add("cavs", "deep.unreg.arr", mpCavs(mpU(99999), mpNest(k, mpNilNode())))
		// maps (string keys) inside an unregistered body
		inner := mpNilNode()
		for i := 0; i < k; i++ {
			inner = mpM(mpS("a"), inner)
		}
		g.add("cavs", "deep.unreg.map", mpCavs(mpU(17), inner))
		// nested conditionals (the library's encoder is quadratic in their depth: kept <= 1000 here, the dedicated
		// children go further)
		ifs := mpA()
		if k <= 1000 {
			for i := 0; i < k; i++ {
				ifs = mpA(mpU(13), mpA(ifs, mpU(31)))
			}
			g.add("cavs", "deep.ifpresent", mpEnc(ifs))
			g.add("mac", "deep.tok.ifpresent", tokOf(ifs))
			// conditionals with a nil Ifs at the bottom
			ifn := mpA(mpU(13), mpA(mpNilNode(), mpU(1)))
			for i := 0; i < k; i++ {
				ifn = mpA(mpU(13), mpA(ifn, mpU(31)))
			}
			g.add("cavs", "deep.ifpresent.nil", mpEnc(ifn))
		}
		// a skipped value: unknown key of a map-encoded struct
		g.add("cavs", "deep.skipped", mpCavs(mpU(0), mpM(mpS("Junk"), mpNest(k, mpU(1)), mpS("ID"), mpU(1))))
		// a typed body of the wrong, deep shape
		g.add("cavs", "deep.typed", mpCavs(mpU(4), mpNest(k, mpU(1))))
		// the container itself
		g.add("cavs", "deep.top", mpEnc(mpNest(k, mpA())))
		// token level: in the caveats, in the nonce, in the location, as a skipped unknown key
		g.add("mac", "deep.tok.cavs", tokOf(mpA(mpU(99999), mpNest(k, mpNilNode()))))
		g.add("mac", "deep.tok.nonce", mpEnc(mpA(mpNest(k, nonce), mpS(hLoc), mpA(), mpBn(nil))))
		g.add("mac", "deep.tok.loc", mpEnc(mpA(nonce, mpNest(k, mpS("l")), mpA(), mpBn(nil))))
		g.add("mac", "deep.tok.skipped", mpEnc(mpM(mpS("Junk"), mpNest(k, mpU(1)), mpS("Nonce"), nonce, mpS("Location"), mpS(hLoc))))
	}
}

// ---- nesting through every container header kind --------------------------------------------------------
//
// The nesting check of the library (depth.go: checkDepth) and the scanner of this harness (mpMaxDepth) both
// walk msgpack by header kind.  A kind walked with the wrong item count or a sibling skipped by the wrong
// width makes the walk lose its place, close the enclosing containers early and never see the deep part.
// This generator therefore puts the deep part behind every kind of thing: each of the six container headers
// as ENCLOSING container (deep part first / middle / last; for maps in key and in value position of the
// first, middle and last pair) and as NESTING container (maps nested through their value or through their
// key), with scalar siblings of every header width in front of it, inside unknown-type bodies, skipped
// values of known-type bodies, conditionals, token caveats and skipped token fields - at depths on both
// sides of the budget (exact accept/refuse agreement with the model) and far beyond it (the stack shows).
// Every well-formed input of moderate depth also yields a line (hostile.depth x<bytes> <tag>): the depth the
// harness's scanner measures against the depth of the tree the model's `dec` returns.

type hCont struct {
	name  string
	isMap bool
	code  byte
}

var hContKinds = []hCont{{"fixarr", false, 0}, {"arr16", false, 0xdc}, {"arr32", false, 0xdd},
	{"fixmap", true, 0}, {"map16", true, 0xde}, {"map32", true, 0xdf}}

func (k hCont) mk(kids ...*mpNode) *mpNode {
	kind := mpArr
	if k.isMap {
		kind = mpMap
	}
	return &mpNode{Kind: kind, Code: k.code, Kids: kids}
}

// a nesting scheme: container kind + (for maps) whether the chain goes down through the key or the value
type hNest struct {
	k     hCont
	inKey bool
}

func (n hNest) name() string {
	if !n.k.isMap {
		return n.k.name
	}
	if n.inKey {
		return n.k.name + "key"
	}
	return n.k.name + "val"
}

// wrap: `levels` one-element containers around a nil, as verbatim bytes (built iteratively: prefix^levels ++
// c0 ++ suffix^levels)
func (n hNest) wrap(levels int) *mpNode {
	var pre, suf []byte
	switch n.k.code {
	case 0:
		if n.k.isMap {
			pre = []byte{0x81}
		} else {
			pre = []byte{0x91}
		}
	case 0xdc, 0xde:
		pre = []byte{n.k.code, 0, 1}
	default:
		pre = []byte{n.k.code, 0, 0, 0, 1}
	}
	if n.k.isMap {
		if n.inKey {
			suf = []byte{0xc0} // the value of the one pair
		} else {
			pre = append(pre, 0xa1, 0x61) // the key "a"
		}
	}
	out := make([]byte, 0, levels*(len(pre)+len(suf))+1)
	for i := 0; i < levels; i++ {
		out = append(out, pre...)
	}
	out = append(out, 0xc0)
	for i := 0; i < levels; i++ {
		out = append(out, suf...)
	}
	return &mpNode{Kind: mpRaw, Raw: out}
}

func hNestings() []hNest {
	var out []hNest
	for _, k := range hContKinds {
		if k.isMap {
			out = append(out, hNest{k, false}, hNest{k, true})
		} else {
			out = append(out, hNest{k, false})
		}
	}
	return out
}

// positions of the deep part in an enclosing container of three elements / three pairs
type hPos struct {
	name string
	idx  int // index into the flat child list (maps: key0 val0 key1 val1 key2 val2)
}

func hPositions(k hCont) []hPos {
	if !k.isMap {
		return []hPos{{"first", 0}, {"middle", 1}, {"last", 2}}
	}
	return []hPos{{"key0", 0}, {"val0", 1}, {"key1", 2}, {"val1", 3}, {"key2", 4}, {"val2", 5}}
}

// enclosing container with `deep` at position pos and `sib` (or short scalars) elsewhere
func hEnclose(k hCont, pos hPos, deep *mpNode, sib *mpNode) *mpNode {
	var kids []*mpNode
	if k.isMap {
		kids = []*mpNode{mpS("k0"), mpU(1), mpS("k1"), mpS("v"), mpS("k2"), mpNilNode()}
	} else {
		kids = []*mpNode{mpS("s"), mpU(1), mpNilNode()}
	}
	if sib != nil {
		// the sibling goes right in front of the deep part (or right behind it when the deep part is first)
		at := pos.idx - 1
		if at < 0 {
			at = 1
		}
		kids[at] = sib
	}
	kids[pos.idx] = deep
	return k.mk(kids...)
}

// where the enclosing container sits
type hPlace struct {
	name string
	kind string
	mk   func(e *mpNode) []byte
}

func hPlaces() []hPlace {
	nonce := mpA(mpBn([]byte("kid")), mpBn(bytes.Repeat([]byte{7}, 16)), mpB(false))
	tail := mpBn(bytes.Repeat([]byte{9}, 32))
	unk := uint64(1<<48 + 7)
	return []hPlace{
		{"unreg", "cavs", func(e *mpNode) []byte { return mpCavs(mpU(unk), e) }},
		{"skipped", "cavs", func(e *mpNode) []byte { return mpCavs(mpU(0), mpM(mpS("Junk"), e, mpS("ID"), mpU(1))) }},
		{"ifs", "cavs", func(e *mpNode) []byte { return mpCavs(mpU(13), mpA(mpA(mpU(17), e), mpU(31))) }},
		{"tok.cavs", "mac", func(e *mpNode) []byte { return mpEnc(mpA(nonce, mpS(hLoc), mpA(mpU(unk), e), tail)) }},
		{"tok.skipped", "mac", func(e *mpNode) []byte {
			return mpEnc(mpM(mpS("Junk"), e, mpS("Nonce"), nonce, mpS("Location"), mpS(hLoc)))
		}},
	}
}

// scalar siblings of every header width; payloads are full of bytes that read as container headers, so that a
// walk that skips the wrong width lands in them
func hSiblings() []struct {
	name string
	n    *mpNode
} {
	pay := func(n int) []byte {
		return bytes.Repeat([]byte{0x91, 0xdc, 0x00, 0x91, 0xde, 0x00, 0x01, 0x81}, n/8+1)[:n]
	}
	raw := func(b ...[]byte) *mpNode { return &mpNode{Kind: mpRaw, Raw: bytes.Join(b, nil)} }
	return []struct {
		name string
		n    *mpNode
	}{
		{"nil", mpNilNode()}, {"true", mpB(true)}, {"posfix", mpU(0x7f)}, {"negfix", mpI(-32)},
		{"u8", &mpNode{Kind: mpInt, U: 0x91, Code: 0xcc}}, {"u16", &mpNode{Kind: mpInt, U: 0x9191, Code: 0xcd}},
		{"u32", &mpNode{Kind: mpInt, U: 0x91dc0091, Code: 0xce}}, {"u64", &mpNode{Kind: mpInt, U: 0x91dc009191dc0091, Code: 0xcf}},
		{"i8", &mpNode{Kind: mpInt, Neg: true, I: -111, U: uint64(0xffffffffffffff91), Code: 0xd0}},
		{"i16", &mpNode{Kind: mpInt, Neg: true, I: -28271, Code: 0xd1}},
		{"i32", &mpNode{Kind: mpInt, Neg: true, I: -1847820143, Code: 0xd2}},
		{"i64", &mpNode{Kind: mpInt, Neg: true, I: -7936424364840132207, Code: 0xd3}},
		{"f32", raw([]byte{0xca}, pay(4))}, {"f64", raw([]byte{0xcb}, pay(8))},
		{"fixstr", &mpNode{Kind: mpStr, S: pay(31)}}, {"str8", &mpNode{Kind: mpStr, S: pay(40), Code: 0xd9}},
		{"str16", &mpNode{Kind: mpStr, S: pay(300), Code: 0xda}}, {"str32", &mpNode{Kind: mpStr, S: pay(5), Code: 0xdb}},
		{"bin8", &mpNode{Kind: mpBin, S: pay(40), Code: 0xc4}}, {"bin16", &mpNode{Kind: mpBin, S: pay(300), Code: 0xc5}},
		{"bin32", &mpNode{Kind: mpBin, S: pay(5), Code: 0xc6}},
		{"fixext1", raw([]byte{0xd4, 0x05}, pay(1))}, {"fixext2", raw([]byte{0xd5, 0x05}, pay(2))},
		{"fixext4.ts", raw([]byte{0xd6, 0xff}, pay(4))}, {"fixext8.ts", raw([]byte{0xd7, 0xff}, pay(8))},
		{"fixext16", raw([]byte{0xd8, 0x05}, pay(16))},
		{"ext8.ts", raw([]byte{0xc7, 12, 0xff}, make([]byte, 12))}, {"ext8", raw([]byte{0xc7, 40, 0x05}, pay(40))},
		{"ext16", raw([]byte{0xc8, 0x01, 0x2c, 0x05}, pay(300))}, {"ext32", raw([]byte{0xc9, 0, 0, 0, 5, 0x05}, pay(5))},
		{"emptyarr16", &mpNode{Kind: mpArr, Code: 0xdc}}, {"emptymap32", &mpNode{Kind: mpMap, Code: 0xdf}},
		{"map16.1", &mpNode{Kind: mpMap, Code: 0xde, Kids: []*mpNode{mpS("x"), mpA(mpNilNode())}}},
	}
}

// addDeepKind builds the input whose total nesting is exactly `total` and registers it, with its depth line
func (g *hGen) addDeepKind(tag string, pl hPlace, enc hCont, pos hPos, nest hNest, sib *mpNode, total int) {
	build := func(levels int) []byte { return pl.mk(hEnclose(enc, pos, nest.wrap(levels), sib)) }
	// nesting of the position the deep part goes to (a container sibling may nest deeper than an empty chain)
	base := mpMaxDepth(build(500)) - 500
	if total < base+1 {
		return
	}
	b := build(total - base)
	if d := mpMaxDepth(b); d != total {
		panic(fmt.Sprintf("harness: scanner measures %d on an input built to nest %d levels (%s)", d, total, tag))
	}
	g.add(pl.kind, tag, b)
	if total <= 1000 && (pl.name == "unreg" || pl.name == "tok.skipped") {
		g.depthLines = append(g.depthLines, [2]string{fmt.Sprintf("(hostile.depth %s %s)", hx(b), tag), fmt.Sprintf("depth:%d", total)})
	}
}

// farDepth: one-byte array headers nested this deep in an unknown-type body cost the library about 460 bytes
// of stack each: 13.8 MB against a bound of 64*30 KB + 8 MiB = 10.3 MB
const farDepth = 30000

func (g *hGen) deepKinds(thorough bool) {
	places := hPlaces()
	for _, enc := range hContKinds {
		for _, pos := range hPositions(enc) {
			for _, nest := range hNestings() {
				tag := fmt.Sprintf("kinds.%s.%s.%s", enc.name, pos.name, nest.name())
				for pi, pl := range places {
					// the quick tier keeps the full product for unknown-type bodies and token caveats; the other
					// places get the nestings through the enclosing kind itself and through fixarray
					if !thorough && pi != 0 && pi != 3 && nest.k.name != enc.name && nest.k.name != "fixarr" {
						continue
					}
					depths := []int{modelBudget, modelBudget + 1}
					if pi == 0 || pi == 3 {
						depths = []int{modelBudget - 1, modelBudget, modelBudget + 1, modelBudget + 2}
					}
					if thorough || (pi == 0 && enc.name == nest.k.name) {
						depths = []int{196, 197, 198, 199, 200, 201, 202, 203, 204}
					}
					for _, d := range depths {
						g.addDeepKind(tag+"."+pl.name, pl, enc, pos, nest, nil, d)
					}
				}
				// far beyond the budget, nested through the one-byte header so that the stack outweighs the
				// input: every enclosing kind and position, in an unknown-type body and in a token
				if nest.k.name == "fixarr" {
					g.addDeepKind(tag+".unreg.far", places[0], enc, pos, nest, nil, farDepth)
					if thorough {
						g.addDeepKind(tag+".tok.cavs.far", places[3], enc, pos, nest, nil, 2*farDepth)
					}
				}
			}
		}
	}
	// siblings of every header width in front of the deep part
	fix := hNest{hContKinds[0], false}
	for _, sb := range hSiblings() {
		for _, enc := range []hCont{hContKinds[0], hContKinds[1], hContKinds[4], hContKinds[5]} {
			var poss []hPos
			if enc.isMap {
				poss = []hPos{{"val0", 1}, {"key1", 2}, {"val2", 5}} // sibling as key0 / as val0 / as key2
			} else {
				poss = []hPos{{"middle", 1}, {"last", 2}}
			}
			for _, pos := range poss {
				tag := fmt.Sprintf("sibling.%s.%s.%s", sb.name, enc.name, pos.name)
				for _, pi := range []int{0, 4} {
					for _, d := range []int{modelBudget, modelBudget + 1} {
						g.addDeepKind(tag+"."+places[pi].name, places[pi], enc, pos, fix, sb.n, d)
					}
				}
				if (pos.name == "last" && enc.name == "arr16") || (thorough && pos.name == "val2") {
					g.addDeepKind(tag+".unreg.far", places[0], enc, pos, fix, sb.n, farDepth)
				}
			}
		}
	}
}

// unknown caveat types with arbitrary bodies (array / map / bin map keys included)
func (g *hGen) unknown(n int) {
	r := g.r
	for i := 0; i < n; i++ {
		t := pick(r, hUnallocated)
		var tn *mpNode
		switch r.Intn(6) {
		case 0:
			tn = mpI(-int64(r.Intn(40)) - 1) // negative: reinterpreted as a huge uint64
		case 1:
			tn = &mpNode{Kind: mpInt, U: t, I: int64(t), Code: 0xcf}
		default:
			tn = mpU(t)
		}
		body := r.mpTree(3, true)
		if r.Chance(1, 5) {
			g.add("cavs", "unknown.wrapped", mpCavs(mpU(13), mpA(mpA(tn, body), mpU(31))))
		} else {
			g.add("cavs", "unknown", mpCavs(tn, body))
		}
	}
}

// every leniency of the wire family on valid values: must decode and survive every operation
func (g *hGen) lenient(n int) {
	r := g.r
	for i := 0; i < n; i++ {
		if r.Bool() {
			tree, _ := g.validToken()
			mpLoosen(r, tree.Kids[0])
			mpLoosen(r, tree.Kids[1])
			mpLoosen(r, tree.Kids[3])
			if r.Chance(1, 3) {
				tree = mpM(mpS("Tail"), tree.Kids[3], mpS("Nonce"), tree.Kids[0], mpS("junk"), mpNilNode(),
					mpS("UnsafeCaveats"), tree.Kids[2], mpS("Location"), tree.Kids[1])
			}
			g.add("mac", "lenient", mpEnc(tree))
		} else {
			c := r.WireCav(2)
			b, err := encOne(c)
			if err != nil {
				continue
			}
			tree, rest, perr := mpParse(b)
			if perr != nil || len(rest) != 0 {
				continue
			}
			if r.Chance(1, 3) && len(tree.Kids) == 2 {
				tree.Kids[1] = structToMap(r, c, tree.Kids[1])
			}
			if _, isUnreg := c.(*macaroon.UnregisteredCaveat); isUnreg {
				mpLoosen(r, tree.Kids[0])
			} else {
				mpLoosen(r, tree)
			}
			g.add("cavs", "lenient", mpEnc(tree))
		}
	}
}

var hInteresting = []byte{0xc0, 0xc1, 0xc2, 0xc4, 0xc6, 0xc7, 0xc9, 0xca, 0xcf, 0xd3, 0xd4, 0xd8, 0xd9, 0xdb, 0xdc, 0xdd, 0xde, 0xdf, 0x80, 0x8f, 0x90, 0x9f, 0xa0, 0xbf, 0xe0, 0xff, 0x00, 0x7f, 0x0d, 0x0b, 0x11}

// byte-level mutations of valid tokens / caveat sets
func (g *hGen) mutateBytes(n int) {
	r := g.r
	for i := 0; i < n; i++ {
		var b []byte
		kind := "mac"
		if r.Chance(1, 3) {
			_, b = g.validCavs()
			kind = "cavs"
		} else {
			_, b = g.validToken()
		}
		b = append([]byte(nil), b...)
		if len(b) == 0 {
			continue
		}
		m := 1 + r.Intn(3)
		tag := ""
		for j := 0; j < m; j++ {
			pos := r.Intn(len(b))
			switch r.Intn(7) {
			case 0:
				b[pos] ^= 1 << uint(r.Intn(8))
				tag = "bytes.bitflip"
			case 1:
				b[pos] = pick(r, hInteresting)
				tag = "bytes.code"
			case 2:
				b = b[:pos+1]
				tag = "bytes.truncate"
			case 3:
				ins := []byte{pick(r, hInteresting)}
				if r.Bool() {
					ins = append(ins, r.Bytes(1+r.Intn(4))...)
				}
				b = append(b[:pos:pos], append(ins, b[pos:]...)...)
				tag = "bytes.insert"
			case 4:
				b = append(b[:pos:pos], b[pos+1:]...)
				tag = "bytes.delete"
				if len(b) == 0 {
					b = []byte{0xc0}
				}
			case 5:
				end := pos + 1 + r.Intn(8)
				if end > len(b) {
					end = len(b)
				}
				b = append(b[:end:end], b[pos:]...)
				tag = "bytes.dupslice"
			default:
				b[pos] = byte(r.U64())
				tag = "bytes.random"
			}
		}
		g.add(kind, tag, b)
	}
}

// nonce skeletons
func (g *hGen) nonces() {
	menu := g.shapeMenu()
	tokOf := func(n *mpNode) []byte { return mpEnc(mpA(n, mpS(hLoc), mpA(), mpBn(bytes.Repeat([]byte{9}, 32)))) }
	kid, rnd := mpBn([]byte("kid")), mpBn(bytes.Repeat([]byte{7}, 16))
	for _, sh := range menu {
		g.add("mac", "nonce.whole", tokOf(sh))
		g.add("mac", "nonce.kid", tokOf(mpA(sh, rnd, mpB(false))))
		g.add("mac", "nonce.rnd", tokOf(mpA(kid, sh)))
		g.add("mac", "nonce.proof", tokOf(mpA(kid, rnd, sh)))
		g.add("mac", "tok.loc", mpEnc(mpA(mpA(kid, rnd), sh, mpA(), mpBn(nil))))
		g.add("mac", "tok.tail", mpEnc(mpA(mpA(kid, rnd), mpS(hLoc), mpA(), sh)))
		g.add("mac", "tok.cavs", mpEnc(mpA(mpA(kid, rnd), mpS(hLoc), sh, mpBn(nil))))
		g.add("mac", "tok.whole", mpEnc(sh))
	}
	for n := 0; n <= 5; n++ {
		kids := []*mpNode{}
		for i := 0; i < n; i++ {
			kids = append(kids, mpBn([]byte{byte(i)}))
		}
		g.add("mac", "nonce.arity", tokOf(mpA(kids...)))
		g.add("mac", "tok.arity", mpEnc(mpA(kids...)))
	}
	// proofs: attestations allowed, finalised tails
	proofNonce := mpA(kid, rnd, mpB(true))
	for _, t := range []uint64{23, 24, 25, 13, 17} {
		for _, body := range []*mpNode{mpU(7), mpNilNode(), mpA(mpNilNode(), mpU(0)), mpBn([]byte{1, 2}), mpA(mpA(mpU(23), mpU(7)), mpU(0))} {
			g.add("mac", "tok.proof", mpEnc(mpA(proofNonce, mpS(hLoc), mpA(mpU(t), body), mpBn(bytes.Repeat([]byte{9}, 32)))))
		}
	}
}

// announced lengths far beyond the input, at every length-prefixed position
func (g *hGen) oversize(big bool) {
	sizes := []uint64{17, 65536, 1 << 20, 1<<24 + 2}
	if big {
		sizes = append(sizes, 1<<26, 1<<28, 1<<31-2, 1<<32-2)
	}
	kid, rnd := mpBn([]byte("kid")), mpBn(bytes.Repeat([]byte{7}, 16))
	hdr := func(code byte, n uint64) *mpNode { return mpR(append([]byte{code}, bePut(4, n)...)...) }
	for _, n := range sizes {
		tag := "oversize"
		if n >= 1<<26 {
			tag = "oversize.huge"
		}
		g.add("cavs", tag+".cavs", mpEnc(hdr(0xdd, n)))
		g.add("cavs", tag+".cavs", append(mpEnc(hdr(0xdd, n)), 0x1a, 0x01))
		g.add("cavs", tag+".body.arr", append([]byte{0x92, 0x00}, mpEnc(hdr(0xdd, n))...))
		g.add("cavs", tag+".body.map", append([]byte{0x92, 0x02, 0x91}, mpEnc(hdr(0xdf, n))...))
		g.add("cavs", tag+".body.str", append([]byte{0x92, 0x13}, mpEnc(hdr(0xdb, n))...))
		g.add("cavs", tag+".body.bin", append([]byte{0x92, 0x0c}, mpEnc(hdr(0xc6, n))...))
		g.add("cavs", tag+".unreg.arr", append([]byte{0x92, 0x11}, mpEnc(hdr(0xdd, n))...))
		g.add("cavs", tag+".unreg.map", append([]byte{0x92, 0x11}, mpEnc(hdr(0xdf, n))...))
		g.add("cavs", tag+".unreg.bin", append([]byte{0x92, 0x11}, mpEnc(hdr(0xc6, n))...))
		g.add("cavs", tag+".unreg.ext", append([]byte{0x92, 0x11, 0xc9}, append(bePut(4, n), 0xff)...))
		g.add("cavs", tag+".ifs", append([]byte{0x92, 0x0d, 0x92}, mpEnc(hdr(0xdd, n))...))
		g.add("cavs", tag+".slice", append([]byte{0x92, 0x06, 0x91}, mpEnc(hdr(0xdd, n))...))
		g.add("cavs", tag+".commands", append([]byte{0x92, 0x1b}, mpEnc(hdr(0xdd, n))...))
		g.add("mac", tag+".tok", mpEnc(hdr(0xdd, n)))
		g.add("mac", tag+".tok.map", mpEnc(hdr(0xdf, n)))
		g.add("mac", tag+".nonce", append([]byte{0x94}, mpEnc(hdr(0xdd, n))...))
		g.add("mac", tag+".kid", append([]byte{0x94, 0x92}, mpEnc(hdr(0xc6, n))...))
		g.add("mac", tag+".loc", append(append([]byte{0x94}, mpEnc(mpA(kid, rnd))...), mpEnc(hdr(0xdb, n))...))
		g.add("mac", tag+".tok.cavs", append(append(append([]byte{0x94}, mpEnc(mpA(kid, rnd))...), 0xa0), mpEnc(hdr(0xdd, n))...))
		g.add("mac", tag+".tail", append(append(append([]byte{0x94}, mpEnc(mpA(kid, rnd))...), 0xa0, 0x90), mpEnc(hdr(0xc6, n))...))
	}
}

// the same few bytes presented again and again: what ONE call allocates must not depend on what earlier calls
// were fed (the msgpack library keeps decoders, and their internal read buffers, in a pool between calls)
func (g *hGen) repeated() {
	hdr := func(code byte, n uint64) []byte { return append([]byte{code}, bePut(4, n)...) }
	ins := map[string][]byte{
		"unreg.str": append([]byte{0x92, 0xce, 0x00, 0x01, 0x86, 0x9f}, hdr(0xdb, 1<<30)...),
		"unreg.bin": append([]byte{0x92, 0xce, 0x00, 0x01, 0x86, 0x9f}, hdr(0xc6, 1<<32-2)...),
		"body.bin":  append([]byte{0x92, 0x0c}, hdr(0xc6, 1<<31)...),
	}
	for _, name := range []string{"unreg.str", "unreg.bin", "body.bin"} {
		for k := 0; k < 24; k++ {
			g.add("cavs", fmt.Sprintf("oversize.repeat.%s.%02d", name, k), ins[name])
		}
	}
	tok := append(append([]byte{0x94, 0x92}, hdr(0xc6, 1<<30)...))
	for k := 0; k < 24; k++ {
		g.add("mac", fmt.Sprintf("oversize.repeat.tok.kid.%02d", k), tok)
	}
}

// many small caveats that ALL refuse a request: clearing reports every refusal - what that costs must stay
// proportional to the input (an error value that embeds the text of all earlier ones is quadratic)
func (g *hGen) manyRefusing(thorough bool) {
	one := func(c macaroon.Caveat) []byte {
		b, err := encOne(c)
		if err != nil {
			panic(err)
		}
		return b[1:] // without the one-element array header
	}
	a0 := resset.Action(0)
	units := map[string][]byte{
		"action0":       one(&a0),
		"org9":          one(&flyio.Organization{ID: 9, Mask: 0}),
		"window.ended":  one(&macaroon.ValidityWindow{NotBefore: 0, NotAfter: 1}),
		"unregistered":  {0xce, 0x00, 0x01, 0x86, 0x9f, 0xc0},
		"apps.mismatch": one(&flyio.Apps{Apps: resset.ResourceSet[uint64, resset.Action]{77: resset.ActionAll}}),
	}
	for _, name := range []string{"action0", "org9", "window.ended", "unregistered", "apps.mismatch"} {
		for _, n := range []int{300, 1500, 4000} {
			if n == 4000 && !thorough && name != "org9" && name != "unregistered" {
				continue // quick tier: time (the operation list doubled with the audit); 1500 is far beyond where a quadratic cost shows
			}
			b := append([]byte{0xdd}, bePut(4, uint64(2*n))...)
			for i := 0; i < n; i++ {
				b = append(b, units[name]...)
			}
			g.add("cavs", fmt.Sprintf("manyrefusing.%s.%d", name, n), b)
		}
	}
}

func (g *hGen) random(n int) {
	r := g.r
	for i := 0; i < n; i++ {
		switch r.Intn(4) {
		case 0:
			g.add(pick(r, []string{"cavs", "mac"}), "random.bytes", r.Bytes(r.Intn(40)))
		case 1:
			b := r.Bytes(1 + r.Intn(40))
			b[0] = pick(r, []byte{0x90, 0x92, 0x94, 0x9f, 0xdc, 0x80, 0x84, 0xde})
			g.add(pick(r, []string{"cavs", "mac"}), "random.container", b)
		default:
			g.add(pick(r, []string{"cavs", "mac"}), "random.tree", mpEnc(r.mpTree(4, true)))
		}
	}
	g.add("cavs", "random.bytes", nil)
	g.add("mac", "random.bytes", nil)
}

// ---- JSON ----

func (g *hGen) jsonNames() []string {
	seen := map[string]bool{}
	var names []string
	r := NewRng(99)
	for k := 0; k < nCavKinds-1; k++ {
		n := r.CavKind(k, 1).Name()
		if !seen[n] {
			seen[n] = true
			names = append(names, n)
		}
	}
	return append(names, "Unregistered", "4", "13", "17", "1", "18446744073709551615", "18446744073709551616", "-1", "", "Nope", "ifpresent", "4.0", "0x4")
}

var hJSONBodies = []string{
	`null`, `true`, `0`, `1`, `-1`, `1e400`, `1e19`, `18446744073709551616`, `9223372036854775808`, `1.5`, `""`, `"x"`, `"rwcdC"`, `[]`, `[null]`, `[1,2]`, `["a"]`,
	`{}`, `{"ifs":null}`, `{"ifs":[]}`, `{"ifs":null,"else":"r"}`, `{"ifs":[{"type":"IfPresent","body":{}}],"else":""}`, `{"ifs":[null]}`,
	`{"ifs":[{"type":"ValidityWindow","body":null}]}`, `{"ifs":{}}`, `{"ifs":1}`, `{"ifs":[{"type":"Nope","body":{"a":[1]}}]}`,
	`{"unknown":1}`, `{"id":null}`, `{"id":-1}`, `{"id":1e30}`, `{"id":"1"}`, `{"not_before":null,"not_after":1e99}`, `{"apps":null}`, `{"apps":{"1":"r"}}`,
	`{"apps":{"x":"r"}}`, `{"apps":{"1":5}}`, `{"apps":[]}`, `{"volumes":{"":null}}`, `{"features":{"a":"zzz"}}`, `{"mutations":null}`, `{"mutations":[null]}`,
	`[{"args":null,"exact":null}]`, `[{"args":[null]}]`, `[null]`, `{"Location":null,"VerifierKey":"!!","Ticket":1}`, `{"Location":"l","VerifierKey":"AA==","Ticket":"AA=="}`,
	`"AA=="`, `"!!"`, `123456789012345678901234567890`, `-5`, `{"organization":1,"app":[],"instance":{}}`,
}

func (g *hGen) jsonMatrix() {
	for _, n := range g.jsonNames() {
		nb, _ := json.Marshal(n)
		for _, b := range hJSONBodies {
			g.add("json", "json.matrix", []byte(fmt.Sprintf(`[{"type":%s,"body":%s}]`, nb, b)))
		}
		g.add("json", "json.nobody", []byte(fmt.Sprintf(`[{"type":%s}]`, nb)))
	}
	for _, doc := range []string{`null`, `{}`, `[]`, `[null]`, `[[]]`, `[1]`, `"str"`, `1`, `[{}]`, `[{"body":{}}]`, `[{"type":null,"body":null}]`,
		`[{"type":4,"body":{}}]`, `[{"type":["IfPresent"],"body":{}}]`, `[{"type":"IfPresent","body":{}},null]`, `[{"type":"ValidityWindow","body":{"not_before":1}},{"type":"ValidityWindow"}]`,
		``, ` `, `[`, `[{"type":"Action","body":"r"}`, `[{"type":"Action","body":"r"}]x`, "\xff\xfe", `[{"type":"Action","body":"\ud800"}]`,
		`[{"type":"IfPresent","body":{"ifs":[{"type":"IfPresent","body":{"ifs":[{"type":"IfPresent","body":{"ifs":null}}]}}]}}]`} {
		g.add("json", "json.doc", []byte(doc))
	}
	for _, k := range []int{10, 1000, 9999, 10001, 50000} {
		g.add("json", "json.deep", []byte(strings.Repeat("[", k)+strings.Repeat("]", k)))
		g.add("json", "json.deep", []byte(`[{"type":"17","body":`+strings.Repeat(`{"a":`, k)+`1`+strings.Repeat(`}`, k)+`}]`))
		s := `{"ifs":null}`
		for i := 0; i < k && i < 150; i++ {
			s = `{"ifs":[{"type":"IfPresent","body":` + s + `}],"else":"r"}`
		}
		g.add("json", "json.deep", []byte(`[{"type":"IfPresent","body":`+s+`}]`))
	}
}

// JSON renderings of legitimate values, verbatim (must round trip or fail cleanly) and with one value replaced
func (g *hGen) jsonLegit(n int) {
	r := g.r
	repl := []string{`null`, `[]`, `{}`, `0`, `-1`, `1e400`, `"x"`, `true`, `[null]`, `18446744073709551616`}
	for i := 0; i < n; i++ {
		m := 1 + r.Intn(3)
		cs := make([]macaroon.Caveat, m)
		for j := range cs {
			cs[j] = r.Cav(2)
			if _, un := cs[j].(*macaroon.UnregisteredCaveat); un {
				cs[j] = r.CavKind(9, 0)
			}
		}
		b := []byte(guard(func() string {
			out, err := macaroon.NewCaveatSet(cs...).MarshalJSON()
			if err != nil {
				return ""
			}
			return string(out)
		}))
		if len(b) == 0 || bytes.HasPrefix(b, []byte("panic:")) {
			g.o.count("gen.json.legit.unrenderable")
			continue
		}
		g.add("json", "json.legit", b)
		// replace one JSON value (a number, a string or a bracketed group) by something else
		var v any
		if json.Unmarshal(b, &v) != nil {
			continue
		}
		var paths [][]any
		var walk func(x any, p []any)
		walk = func(x any, p []any) {
			paths = append(paths, append([]any(nil), p...))
			switch t := x.(type) {
			case []any:
				for i, e := range t {
					walk(e, append(p, i))
				}
			case map[string]any:
				for _, k := range sortedKeys(t) {
					walk(t[k], append(p, k))
				}
			}
		}
		walk(v, nil)
		p := pick(r, paths)
		var rv any
		_ = json.Unmarshal([]byte(pick(r, repl)), &rv)
		if strings.HasPrefix(fmt.Sprint(rv), "1e+400") {
			rv = nil
		}
		v = jsonSet(v, p, rv)
		if nb, err := json.Marshal(v); err == nil {
			g.add("json", "json.mutated", nb)
		}
	}
}

func sortedKeys(m map[string]any) []string {
	ks := make([]string, 0, len(m))
	for k := range m {
		ks = append(ks, k)
	}
	sortStrings(ks)
	return ks
}

func jsonSet(v any, path []any, nv any) any {
	if len(path) == 0 {
		return nv
	}
	switch t := v.(type) {
	case []any:
		i := path[0].(int)
		t[i] = jsonSet(t[i], path[1:], nv)
		return t
	case map[string]any:
		k := path[0].(string)
		t[k] = jsonSet(t[k], path[1:], nv)
		return t
	}
	return v
}

// ---- headers ----

func (g *hGen) headers(n int) {
	r := g.r
	pool := detPool()
	for i := 0; i < n; i++ {
		var toks [][]byte
		nTok := pick(r, []int{1, 1, 2, 2, 3, 3, 5, 8, 12})
		g.o.count(fmt.Sprintf("hdr.tokens.%d", nTok))
		for j, m := 0, nTok; j < m; j++ {
			switch r.Intn(3) {
			case 0:
				toks = append(toks, pick(r, pool))
			case 1:
				toks = append(toks, hLegit)
			default:
				if len(g.pool) > 0 {
					toks = append(toks, pick(r, g.pool))
				} else {
					toks = append(toks, hLegit)
				}
			}
		}
		switch r.Intn(3) {
		case 0:
			g.add("hdr", "hdr.hostile-tokens", []byte(hdrOf(toks...)))
		case 1:
			h, kind := r.corrupt(g.o, toks)
			_ = kind
			g.add("hdr", "hdr.corrupt", []byte(h))
		default:
			g.add("hdr", "hdr.soup", []byte(r.schemeSoup(g.o)+pick(r, []string{"", " ", ","})+strings.TrimPrefix(hdrOf(toks...), "FlyV1 ")))
		}
	}
	for _, h := range []string{"", " ", ",", ",,,", "_", "fm2_", "fm2_,fm2_", "FlyV1", "FlyV1 ", "Bearer FlyV1 Bearer", "fm2_" + strings.Repeat("A", 4097),
		"fm2_wA==", "fm2_kA==", "fm2_lMDAwMA=", "fo1_x", "fo1_x,fm2_wA==", strings.Repeat("fm2_wA==,", 2000), strings.Repeat("FlyV1 ", 5000) + "fm2_wA=="} {
		g.add("hdr", "hdr.edge", []byte(h))
	}
}

// ---- audit: third-party tickets (the plaintext; the worker seals it) ----

func (g *hGen) tickets(n int) {
	menu := g.shapeMenu()
	key := mpBn(hRN)
	for _, sh := range menu {
		g.add("ticket", "ticket.whole", mpEnc(sh))
		g.add("ticket", "ticket.key", mpEnc(mpA(sh, mpA())))
		g.add("ticket", "ticket.cavs", mpEnc(mpA(key, sh)))
		g.add("ticket", "ticket.cavs.body", mpEnc(mpA(key, mpA(mpU(13), sh))))
	}
	for k := 0; k <= 4; k++ {
		kids := []*mpNode{}
		for i := 0; i < k; i++ {
			kids = append(kids, mpBn([]byte{byte(i)}))
		}
		g.add("ticket", "ticket.arity", mpEnc(mpA(kids...)))
	}
	// discharge keys of every length (the discharge is signed with whatever the ticket says)
	for _, kl := range []int{0, 1, 16, 31, 33, 64, 65, 1000} {
		g.add("ticket", "ticket.keylen", mpEnc(mpA(mpBn(bytes.Repeat([]byte{7}, kl)), mpA(mpU(26), mpU(31)))))
	}
	// map-encoded, with unknown fields, fields in the other order, a field named twice (second value oversized)
	g.add("ticket", "ticket.map", mpEnc(mpM(mpS("Caveats"), mpA(mpU(26), mpU(1)), mpS("Junk"), mpA(mpNilNode()), mpS("DischargeKey"), key)))
	g.add("ticket", "ticket.map", mpEnc(mpM(mpS("DischargeKey"), key)))
	g.add("ticket", "ticket.map", mpEnc(mpM(mpS("dischargekey"), key, mpS("caveats"), mpA())))
	for _, big := range []uint64{1 << 16, 1 << 24, 1<<32 - 2} {
		g.add("ticket", "ticket.dupfield.oversize.Caveats.dupfield", mpEnc(mpM(mpS("DischargeKey"), key, mpS("Caveats"), mpA(mpU(26), mpU(1)),
			mpS("Caveats"), oversizeHeader(mpA(mpU(26), mpU(1)), big))))
		g.add("ticket", "ticket.dupfield.oversize.DischargeKey.dupfield", mpEnc(mpM(mpS("DischargeKey"), key, mpS("Caveats"), mpA(),
			mpS("DischargeKey"), oversizeHeader(key, big))))
	}
	// announced lengths far beyond the plaintext, at every length-prefixed position
	hdr := func(code byte, n uint64) []byte { return append([]byte{code}, bePut(4, n)...) }
	for _, n := range []uint64{17, 65536, 1 << 20, 1<<24 + 2, 1 << 28, 1<<32 - 2} {
		g.add("ticket", "ticket.oversize.whole", hdr(0xdd, n))
		g.add("ticket", "ticket.oversize.whole.map", hdr(0xdf, n))
		g.add("ticket", "ticket.oversize.key", append([]byte{0x92}, hdr(0xc6, n)...))
		g.add("ticket", "ticket.oversize.key.str", append([]byte{0x92}, hdr(0xdb, n)...))
		g.add("ticket", "ticket.oversize.cavs", append(append([]byte{0x92}, mpEnc(key)...), hdr(0xdd, n)...))
		g.add("ticket", "ticket.oversize.cavs.body", append(append([]byte{0x92}, mpEnc(key)...), append([]byte{0x92, 0x11}, hdr(0xc6, n)...)...))
	}
	// nesting on both sides of the budget and far beyond, in each field and around the whole
	for _, k := range []int{1, 100, 196, 197, 198, 199, 200, 201, 202, 1000, 50000} {
		g.add("ticket", "ticket.deep.whole", mpEnc(hRawNest(k, mpA(key, mpA()))))
		g.add("ticket", "ticket.deep.key", mpEnc(mpA(hRawNest(k, key), mpA())))
		g.add("ticket", "ticket.deep.cavs", mpEnc(mpA(key, mpA(mpU(99999), hRawNest(k, mpNilNode())))))
		g.add("ticket", "ticket.deep.skipped", mpEnc(mpM(mpS("Junk"), hRawNest(k, mpU(1)), mpS("DischargeKey"), key)))
		if k <= 1000 {
			ifs := mpA()
			for i := 0; i < k; i++ {
				ifs = mpA(mpU(13), mpA(ifs, mpU(31)))
			}
			g.add("ticket", "ticket.deep.ifpresent", mpEnc(mpA(key, ifs)))
		}
	}
	// valid tickets, and one structural mutation of them
	for i := 0; i < n; i++ {
		cavs, _ := g.validCavs()
		tree := mpA(key, cavs)
		if i%4 == 0 {
			g.add("ticket", "ticket.valid", mpEnc(tree))
			continue
		}
		if tag, ok := g.mutateTree(tree); ok {
			g.add("ticket", "ticket."+tag, mpEnc(tree))
		}
	}
	g.add("ticket", "ticket.empty", nil)
}

// ---- audit: nonces in their JSON form (a JSON string holding the base64 of the msgpack nonce) ----

func (g *hGen) jsonNonces() {
	doc := func(raw []byte) []byte {
		b, _ := json.Marshal(raw)
		return b
	}
	kid, rnd := mpBn([]byte("kid")), mpBn(bytes.Repeat([]byte{7}, 16))
	for _, sh := range g.shapeMenu() {
		if sh.Kind == mpBin && len(sh.S) > 10000 {
			continue
		}
		g.add("json", "json.nonce.whole", doc(mpEnc(sh)))
		g.add("json", "json.nonce.kid", doc(mpEnc(mpA(sh, rnd, mpB(false)))))
		g.add("json", "json.nonce.rnd", doc(mpEnc(mpA(kid, sh))))
		g.add("json", "json.nonce.proof", doc(mpEnc(mpA(kid, rnd, sh))))
	}
	for k := 0; k <= 5; k++ {
		kids := []*mpNode{}
		for i := 0; i < k; i++ {
			kids = append(kids, mpBn([]byte{byte(i)}))
		}
		g.add("json", "json.nonce.arity", doc(mpEnc(mpA(kids...))))
	}
	// over-announced lengths, the same document again and again (what one call allocates must not depend on
	// the calls before it), and far too deep
	hdr := func(code byte, n uint64) []byte { return append([]byte{code}, bePut(4, n)...) }
	for _, n := range []uint64{65536, 1 << 24, 1<<32 - 2} {
		g.add("json", "json.nonce.oversize", doc(hdr(0xdd, n)))
		g.add("json", "json.nonce.oversize", doc(append([]byte{0x93}, hdr(0xc6, n)...)))
		g.add("json", "json.nonce.oversize", doc(append([]byte{0x93, 0xc4, 0x00}, hdr(0xdb, n)...)))
	}
	for k := 0; k < 24; k++ {
		g.add("json", fmt.Sprintf("json.nonce.repeat.kid.%02d", k), doc(append([]byte{0x93}, hdr(0xc6, 1<<30)...)))
	}
	for k := 0; k < 24; k++ {
		g.add("json", fmt.Sprintf("json.nonce.repeat.rnd.%02d", k), doc(append([]byte{0x92, 0xc4, 0x01, 0x6b}, hdr(0xdb, 1<<32-2)...)))
	}
	for _, k := range []int{199, 200, 201, 50000} {
		g.add("json", "json.nonce.deep", doc(mpEnc(hRawNest(k, mpA(kid, rnd)))))
		g.add("json", "json.nonce.deep", doc(mpEnc(mpA(hRawNest(k, kid), rnd))))
	}
	// other spellings of the base64 text
	valid := mpEnc(mpA(kid, rnd, mpB(true)))
	std := base64.StdEncoding.EncodeToString(valid)
	for _, t := range []string{std, strings.TrimRight(std, "="), base64.URLEncoding.EncodeToString(valid), std[:len(std)/2] + "\\n" + std[len(std)/2:],
		" " + std, std + "=", std + std, "", "=", "A"} {
		g.add("json", "json.nonce.text", []byte(`"`+t+`"`))
	}
}

// ---- audit: whole-token documents, request documents ----

func (g *hGen) jsonDocs(thorough bool) {
	// numbers of very many digits where a caveat body (or a field of it) is a number
	lens := []int{200, 20000, 150000}
	if thorough {
		lens = append(lens, 700000)
	}
	for _, n := range lens {
		digits := strings.Repeat("1234567890", n/10)
		for _, t := range []string{"GoogleUserID", "FlyioUserID", "MaxValidity", "17"} {
			g.add("json", fmt.Sprintf("json.digits.%s.%d", t, n), []byte(`[{"type":"`+t+`","body":`+digits+`}]`))
		}
		g.add("json", fmt.Sprintf("json.digits.neg.%d", n), []byte(`[{"type":"GoogleUserID","body":-`+digits+`}]`))
		g.add("json", fmt.Sprintf("json.digits.window.%d", n), []byte(`[{"type":"ValidityWindow","body":{"not_before":`+digits+`,"not_after":1e`+digits[:6]+`}}]`))
		g.add("json", fmt.Sprintf("json.digits.orgid.%d", n), []byte(`[{"type":"Organization","body":{"id":`+digits+`,"mask":"r"}}]`))
		g.add("json", fmt.Sprintf("json.digits.key.%d", n), []byte(`[{"type":"Apps","body":{"apps":{"`+digits+`":"r"}}}]`))
	}
	for _, d := range []string{
		`{"location":"l","caveats":[]}`, `{"location":1,"caveats":[]}`, `{"location":null,"caveats":null}`, `{"location":"l"}`, `{"caveats":{}}`,
		`{"location":"l","caveats":[{"type":"IfPresent","body":{}}],"caveats":[{"type":"Action","body":"r"}]}`,
		`{"location":"l","caveats":[{"type":"Action","body":"r"}],"caveats":null}`,
		`{"LOCATION":"x","CAVEATS":[{"TYPE":"ValidityWindow","BODY":{"NOT_BEFORE":1,"not_after":9223372036854775807}}]}`,
		`{"location":"l","caveats":[],"Nonce":"AA==","Tail":"AA==","nonce":{"kid":"AA=="},"newProof":true}`,
		`{"location":"\ud800","caveats":[{"type":"Clusters","body":{"clusters":{"\u0000":"r"}}}]}`,
		`{"location":"l","caveats":[{"type":"IfPresent","body":{"ifs":[{"type":"3P","body":{"Location":"l","VerifierKey":"","Ticket":""}}],"else":"rwcdC"}}]}`,
		`{"location":"l","caveats":[{"type":"BindToParentToken","body":""},{"type":"BindToParentToken","body":null},{"type":"GoogleUserID","body":-0}]}`,
	} {
		g.add("json", "json.macdoc", []byte(d))
	}
	for _, d := range []string{
		`{"orgid":1,"appid":2,"action":"r"}`, `{"orgid":null,"command":[null,"a"]}`, `{"orgid":1,"command":[]}`, `{"action":"zzz"}`, `{"action":5}`,
		`{"orgid":-1}`, `{"orgid":1e30}`, `{"orgid":1,"storage_object":1}`, `{"orgid":1,"storage_object":"\ud800"}`, `{"orgid":1,"feature":null,"cluster":"c"}`,
		`{"ORGID":18446744073709551615,"Machine":"m","machine_feature":"x","command":["a"]}`,
	} {
		g.add("json", "json.access", []byte(d))
	}
}

// ---- audit: headers with very many entries ----
//
// What any operation on the parsed result allocates must stay proportional to the header: rendering the list as a
// header again, the text of the error that names every bad entry, verification that tries every candidate
// discharge, the text of the error that names every failed token.
func (g *hGen) headersMany(ns []int) {
	tiny := "fm2_" + base64.StdEncoding.EncodeToString(detToken("k", 1, "", false))
	tokL, disL := ticketToken(hostileTicket([]byte{0x90}))
	_ = disL
	// a discharge for that token's ticket signed with the wrong key (each one is tried, each one fails)
	tk := hostileTicket([]byte{0x90})
	dn := mpA(mpBn(tk), mpBn(bytes.Repeat([]byte{5}, 16)), mpB(false))
	badDis := "fm2_" + base64.StdEncoding.EncodeToString(mpEnc(mpA(dn, mpS(hLoc3), mpA(), mpBn(bytes.Repeat([]byte{1}, 32)))))
	wrongTail := "fm2_" + base64.StdEncoding.EncodeToString(mpEnc(mpA(mpA(mpBn([]byte("legit-kid")), mpBn(bytes.Repeat([]byte{9}, 16)), mpB(false)),
		mpS(hLoc), mpA(mpU(26), mpU(31)), mpBn(bytes.Repeat([]byte{1}, 32)))))
	for _, n := range ns {
		rep := func(unit string) string { return strings.TrimSuffix(strings.Repeat(unit+",", n), ",") }
		g.add("hdr", fmt.Sprintf("hdr.many.nil-tokens.%d", n), []byte("FlyV1 "+rep("fm2_wA==")))
		g.add("hdr", fmt.Sprintf("hdr.many.valid.%d", n), []byte("FlyV1 "+rep(tiny)))
		g.add("hdr", fmt.Sprintf("hdr.many.badbase64.%d", n), []byte("FlyV1 "+rep("fm2_!")))
		g.add("hdr", fmt.Sprintf("hdr.many.badmacaroon.%d", n), []byte("FlyV1 "+rep("fm1r_wQ==")))
		g.add("hdr", fmt.Sprintf("hdr.many.nonmacaroon.%d", n), []byte("FlyV1 "+rep("x")))
		g.add("hdr", fmt.Sprintf("hdr.many.oauth.%d", n), []byte("FlyV1 "+rep("fo1_x")+","+tiny))
		g.add("hdr", fmt.Sprintf("hdr.many.empty.%d", n), []byte("FlyV1 "+rep("")))
		g.add("hdr", fmt.Sprintf("hdr.many.pairs.selfdischarged.%d", n/4+1), []byte(strings.TrimSuffix(strings.Repeat(strings.TrimPrefix(hdrOf(hLegit), "FlyV1 ")+",", n/4+1), ",")))
		g.add("hdr", fmt.Sprintf("hdr.many.candidates.%d", n/2), []byte(hdrOf(tokL)+","+strings.TrimSuffix(strings.Repeat(badDis+",", n/2), ",")))
		g.add("hdr", fmt.Sprintf("hdr.many.failing.%d", n/2), []byte("FlyV1 "+strings.TrimSuffix(strings.Repeat(wrongTail+",", n/2), ",")))
	}
	// k permission tokens that share one ticket x k candidate discharges for that ticket: as k copies of one token
	// string, and as k different attenuations of it
	for _, n := range ns {
		k := 120
		if n > 3000 {
			k = 500
		}
		perm, _ := macaroon.Decode(hLegit)
		tkL, _ := perm.ThirdPartyTicket(hLoc3)
		var junk, atts []string
		for i := 0; i < k; i++ {
			jn := mpA(mpBn(tkL), mpBn(append(make([]byte, 8), bePut(8, uint64(i))...)), mpB(false))
			junk = append(junk, "fm2_"+base64.StdEncoding.EncodeToString(mpEnc(mpA(jn, mpS(hLoc3), mpA(), mpBn(bytes.Repeat([]byte{1}, 32))))))
			am, _ := macaroon.Decode(hLegit)
			_ = am.Add(&macaroon.ValidityWindow{NotBefore: int64(i), NotAfter: 1 << 40})
			ab, _ := am.Encode()
			atts = append(atts, "fm2_"+base64.StdEncoding.EncodeToString(ab))
		}
		copies := strings.TrimSuffix(strings.Repeat(strings.TrimPrefix(hdrOf(hLegit), "FlyV1 ")+",", k), ",")
		g.add("hdr", fmt.Sprintf("hdr.many.pairs.copies.%d", k), []byte("FlyV1 "+copies+","+strings.Join(junk, ",")))
		g.add("hdr", fmt.Sprintf("hdr.many.pairs.attenuations.%d", k), []byte("FlyV1 "+strings.Join(atts, ",")+","+strings.Join(junk, ",")))
	}
	// schemes over and over (the scheme stripper calls itself once per scheme word)
	g.add("hdr", "hdr.many.schemes.170000", []byte(strings.Repeat("FlyV1 ", 85000)+strings.Repeat("Bearer ", 85000)+tiny))
	g.add("hdr", "hdr.many.blanks", []byte("FlyV1"+strings.Repeat(" ", 300000)+tiny+strings.Repeat("\t", 100000)))
}

// ---- one ticket under many third-party caveats (F23) ----
//
// A permission token whose k third-party caveats all carry THE SAME ticket (a holder can add them: one
// NewCaveat3P, the value copied k times under k location strings - the harness recomputes each VerifierKey and
// the tail by hand), presented with discharges for that ticket that carry c first-party caveats each:
//
//	samekey : every VerifierKey seals the one discharge key; ONE genuine discharge.  Verification verifies that
//	          discharge once per third-party caveat and returns its c caveats k times (k*c results)
//	diffkeys: the i-th VerifierKey seals its own key; k discharges, the i-th signed with the i-th key, all under the
//	          one ticket.  Every caveat tries the candidates in order until its own verifies: k*k/2 MAC chains of c
//	onedis  : (thorough tier) as diffkeys, with the ONE discharge that fits the last caveat only.  Plain verification
//	          stops at the first caveat without a discharge (0.4 MiB); the bundle layer hands the verifier that
//	          discharge once per (location, ticket) pair, i.e. k times, and each copy costs a MAC chain of c
//
// Entries: `FlyV1 <token>,<discharge>...` - read by macaroon.Parse + Verify (op find.verify) and by the bundle layer.
func (g *hGen) many3P(ks []int, thorough bool) {
	ticket := hostileTicket([]byte{0x90})
	tok := func(k int, keyOf func(i int) []byte) []byte {
		nonce := mpA(mpBn([]byte("legit-kid")), mpBn(bytes.Repeat([]byte{0x3b}, 16)), mpB(false))
		tail := hmacSum(hKey, mpEnc(nonce))
		var pairs []*mpNode
		for i := 0; i < k; i++ {
			vk := aeadSeal(tail, append(bePut(4, uint64(i)), make([]byte, 8)...), keyOf(i))
			body := mpA(mpS(fmt.Sprintf("https://tp/%d", i)), mpBn(vk), mpBn(ticket))
			pairs = append(pairs, mpU(11), body)
			tail = hmacSum(tail, mpEnc(mpA(mpU(11), body)))
		}
		return mpEnc(mpA(nonce, mpS(hLoc), mpA(pairs...), mpBn(tail)))
	}
	dis := func(c int, key []byte, rnd byte, loc string) []byte {
		dn := mpA(mpBn(ticket), mpBn(bytes.Repeat([]byte{rnd}, 16)), mpB(false))
		tail := hmacSum(key, mpEnc(dn))
		var pairs []*mpNode
		for j := 0; j < c; j++ {
			body := mpA(mpU(uint64(j)), mpU(1<<40))
			pairs = append(pairs, mpU(4), body)
			tail = hmacSum(tail, mpEnc(mpA(mpU(4), body)))
		}
		return mpEnc(mpA(dn, mpS(loc), mpA(pairs...), mpBn(tail)))
	}
	// the discharges of the keyed variants name a location for which the verifier holds no third-party key: with
	// such a key the ticket is opened first and a candidate whose key is not the ticket's is dropped before its chain
	// is computed (measured: 0.7 MiB); a discharge chooses its own location string
	const otherLoc = "https://tp-unknown.example"
	keyI := func(i int) []byte { return hmacSum(hRN, bePut(4, uint64(i))) }
	for _, k := range ks {
		c := k
		g.add("hdr", fmt.Sprintf("tok.many3p.sameticket.samekey.%d", k), []byte(hdrOf(tok(k, func(int) []byte { return hRN }), dis(c, hRN, 1, hLoc3))))
		// fewer candidates, each as long: k candidates x k caveats x c is cubic in k
		kd := k / 8
		ds := [][]byte{tok(kd, keyI)}
		for i := 0; i < kd; i++ {
			ds = append(ds, dis(c, keyI(i), byte(i), otherLoc))
		}
		g.add("hdr", fmt.Sprintf("tok.many3p.sameticket.diffkeys.%d", kd), []byte(hdrOf(ds...)))
		if thorough {
			g.add("hdr", fmt.Sprintf("tok.many3p.sameticket.onedis.%d", k), []byte(hdrOf(tok(k, keyI), dis(c, keyI(k-1), 2, otherLoc))))
		}
	}
}

// ---- a long token x many refused candidates ----
//
// A GENUINE permission token with one third-party caveat (its VerifierKey opens), attenuated by its holder with n
// first-party caveats (no key needed, 14 bytes each), presented with m candidate discharges that name its ticket and
// are all refused - each for one reason:
//
//	wrongbound : the candidate's first caveat binds it to some other parent (checked before any signature)
//	wrongkey   : signed with a key of the candidate's own; its location has no trusted key: the MAC chain fails
//	keymismatch: the same at the trusted third party's location: its key opens the ticket, the keys differ
//	nested3p   : the candidate demands a discharge of its own
//	attestation: an attestation in a candidate that is not a proof
//
// Verification keeps one refusal per candidate and joins them; what a refusal says (and costs) must not depend on
// how long the presented token is - a message that quotes something proportional to the token (its binding ids, one
// per caveat) makes memory (caveats of the token) x (refused candidates), each factor alone staying linear.
// Entry order: two candidates, the token, the other candidates - the per-token operations of kind hdr look at
// the first two entries, the list operations (find.verify, the bundle) at all of them.
func (g *hGen) manyCavs(sizes [][2]int) {
	ticket := hostileTicket([]byte{0x90})
	const otherLoc = "https://tp-unknown.example"
	for _, sz := range sizes {
		n, m := sz[0], sz[1]
		nonce := mpA(mpBn([]byte("legit-kid")), mpBn(bytes.Repeat([]byte{0x4c}, 16)), mpB(false))
		tail := hmacSum(hKey, mpEnc(nonce))
		body := mpA(mpS(hLoc3), mpBn(aeadSeal(tail, bytes.Repeat([]byte{3}, 12), hRN)), mpBn(ticket))
		pairs := []*mpNode{mpU(11), body}
		tail = hmacSum(tail, mpEnc(mpA(mpU(11), body)))
		for i := 0; i < n; i++ {
			w := mpA(mpU(uint64(i)), mpU(1<<40))
			pairs = append(pairs, mpU(4), w)
			tail = hmacSum(tail, mpEnc(mpA(mpU(4), w)))
		}
		tok := mpEnc(mpA(nonce, mpS(hLoc), mpA(pairs...), mpBn(tail)))
		cand := func(kind string, i int) []byte {
			dn := mpA(mpBn(ticket), mpBn(append(make([]byte, 12), bePut(4, uint64(i))...)), mpB(false))
			key := hmacSum([]byte("candidate"), bePut(4, uint64(i)))
			loc := otherLoc
			var cavs []*mpNode
			switch kind {
			case "wrongbound":
				key, loc = hRN, hLoc3 // everything about it is right but the parent it is bound to
				cavs = []*mpNode{mpU(12), mpBn(hmacSum([]byte("other parent"), bePut(4, uint64(i)))[:16])}
			case "wrongkey":
			case "keymismatch":
				loc = hLoc3
			case "nested3p":
				key = hRN
				cavs = []*mpNode{mpU(11), mpA(mpS("https://tp/nested"), mpBn(bytes.Repeat([]byte{7}, 60)), mpBn(bytes.Repeat([]byte{8}, 60)))}
			case "attestation":
				key = hRN
				cavs = []*mpNode{mpU(23), mpU(uint64(i))}
			}
			t := hmacSum(key, mpEnc(dn))
			for j := 0; j+1 < len(cavs); j += 2 {
				t = hmacSum(t, mpEnc(mpA(cavs[j], cavs[j+1])))
			}
			return mpEnc(mpA(dn, mpS(loc), mpA(cavs...), mpBn(t)))
		}
		for _, kind := range []string{"wrongbound", "wrongkey", "keymismatch", "nested3p", "attestation"} {
			entries := [][]byte{cand(kind, 0), cand(kind, 1), tok}
			for i := 2; i < m; i++ {
				entries = append(entries, cand(kind, i))
			}
			g.add("hdr", fmt.Sprintf("tok.manycavs.%s.%dx%d", kind, n, m), []byte(hdrOf(entries...)))
		}
	}
}

// ------------------------------------------------------------------------------------------------

func famHostile(r *Rng, o *Out, tier string) {
	g := &hGen{r: r, o: o}
	scale := 1
	maxDepth := 50000
	if tier == "thorough" {
		scale = 8
	}
	g.known()
	g.thirdParty()
	g.matrix()
	g.nonces()
	g.deep(maxDepth)
	g.deepKinds(tier == "thorough")
	g.oversize(true)
	g.repeated()
	g.manyRefusing(tier == "thorough")
	g.dupFieldOversize()
	g.skeletons(1200 * scale)
	g.unknown(500 * scale)
	g.lenient(250 * scale)
	g.mutateBytes(1200 * scale)
	g.random(300 * scale)
	g.jsonMatrix()
	g.jsonLegit(250 * scale)
	g.jsonNonces()
	g.jsonDocs(tier == "thorough")
	g.tickets(300 * scale)
	g.headers(300 * scale)
	if tier == "thorough" {
		g.headersMany([]int{3000, 20000})
		g.many3P([]int{200, 400}, true)
		g.manyCavs([][2]int{{2000, 200}, {6000, 600}})
	} else {
		g.headersMany([]int{3000})
		g.many3P([]int{200}, false)
		g.manyCavs([][2]int{{2000, 200}})
	}
	// dedicated children: inputs whose nesting is proportional to their length (a fatal stack overflow cannot be recovered)
	t99999 := []byte{0x92, 0xce, 0x00, 0x01, 0x86, 0x9f}
	g.addRep("cavs", "deepfatal.unreg.arr.over200", t99999, []byte{0x91}, 1000000, []byte{0xc0})
	g.addRep("cavs", "deepfatal.ifpresent.over200", nil, []byte{0x92, 0x0d, 0x92}, 300000, append([]byte{0x90}, bytes.Repeat([]byte{0x00}, 300000)...))
	// the deep part in the second half of a map16 / as a key of a map32 / as the last element of an array32
	g.addRep("cavs", "deepfatal.map16.val1.over200", unhx("92cf0001000000000007de0002a161c0a162"), []byte{0x91}, 1000000, []byte{0xc0})
	g.addRep("cavs", "deepfatal.map32.key1.over200", unhx("9211df00000002a161c0"), []byte{0x91}, 1000000, []byte{0xc0, 0xc0})
	g.addRep("mac", "deepfatal.tok.skipped.arr32.last.over200", unhx("81a14add00000003c0c0"), []byte{0x91}, 1000000, []byte{0xc0})
	g.addRep("builtin", "selfref.discharge", nil, nil, 0, nil)
	g.addRep("builtin", "mutual.discharges", nil, nil, 0, nil)
	if tier == "thorough" {
		g.addRep("cavs", "deepfatal.unreg.arr.over200", t99999, []byte{0x91}, 4000000, []byte{0xc0})
		g.addRep("cavs", "deepfatal.unreg.map.over200", []byte{0x92, 0x11}, []byte{0x81, 0xa1, 0x61}, 1000000, []byte{0xc0})
		g.addRep("mac", "deepfatal.tok.skipped.over200", []byte{0x81, 0xa1, 0x4a}, []byte{0x91}, 1000000, []byte{0xc0})
		g.addRep("cavs", "deepfatal.skipped.over200", []byte{0x92, 0x00, 0x81, 0xa1, 0x4a}, []byte{0x91}, 1000000, []byte{0xc0})
	}

	dir, err := os.MkdirTemp("", "hostile")
	if err != nil {
		panic(err)
	}
	defer os.RemoveAll(dir)
	results := runWorkers(dir, g.ins)
	for i, in := range g.ins {
		res := results[i]
		line := res.res
		if in.rep && !res.crashed {
			line += " child:ok"
		}
		o.emit(in.opLine(), line)
		f := strings.Fields(line)
		o.count("dec." + in.kind + "." + f[0])
		o.stats["ms."+in.tag] += res.ms
		o.stats["library-operations-executed"] += res.nops
		if res.verified {
			o.count("post-verification-round." + in.kind)
		}
		if !res.crashed && res.nops > 0 {
			// bytes allocated by the operations per input byte and operation (distribution only)
			per := int(res.opsAlloc / (uint64(len(in.bytes())+1) * uint64(res.nops)))
			if per > o.stats["opsalloc.perByteAndOp.max."+in.kind] {
				o.stats["opsalloc.perByteAndOp.max."+in.kind] = per
			}
			if int(res.opsAlloc>>20) > o.stats["opsalloc.MiB.max."+in.kind] {
				o.stats["opsalloc.MiB.max."+in.kind] = int(res.opsAlloc >> 20)
			}
		}
		if !res.crashed {
			// how close the decode step came to the bound, in permille (distribution only)
			if int(res.alloc) > o.stats["alloc.max."+in.tag] {
				o.stats["alloc.max."+in.tag] = int(res.alloc)
			}
			pm := int(res.alloc * 1000 / (64*uint64(len(in.bytes())) + allocConst))
			if pm > o.stats["alloc.permille.max."+in.kind] {
				o.stats["alloc.permille.max."+in.kind] = pm
			}
			if len(f) > 2 && f[2] == "alloc:fine" && pm > o.stats["alloc.permille.maxfine"] {
				o.stats["alloc.permille.maxfine"] = pm
			}
		}
		if len(f) > 1 && f[1] != "nopanic" {
			o.count("P.panic")
			o.count("P.panic." + in.tag)
			if p := strings.SplitN(f[1], ":", 3); len(p) == 3 {
				o.count("panic.msg." + p[2])
			}
			if res.ops != "" && res.ops != "-" {
				for _, op := range strings.Split(res.ops, "+") {
					o.count("panic.op." + op)
				}
			}
		}
		if len(f) > 2 && f[2] != "alloc:fine" {
			o.count("P." + f[2])
			o.count("P.balloon." + in.tag)
		}
		if res.crashed {
			o.count("P.child.crashed")
			o.count("P.child.crashed." + in.tag)
		}
		if res.val != "" && res.val != "-" && !in.rep {
			o.emit(fmt.Sprintf("(dec.%s %s)", in.kind, hx(in.data)), res.val)
			o.count("value-line")
		}
	}
	// the harness's scanner against the model's decoder (no library code involved)
	for _, dl := range g.depthLines {
		o.emit(dl[0], dl[1])
		o.count("depth-line")
	}
}
