package main

// Family client (C20): the discharge client of tp/client.go against an in-process scripted
// third party.
//
// One line = one call of (*tp.Client).FetchDischargeTokens on a client built from one
// permutation of an option list (WithHTTP / WithAuthentication / WithBearerAuthentication /
// WithIgnoredThirdParties / WithUserURLCallback; WithPollingBackoff(1ms) always last).
// Tokens are real (macaroon.New + Add3P), the scripted third party answers with real
// discharges (macaroon.DischargeTicket).  The recording http.RoundTripper plays, per ticket,
// the scripted answers in order and records every request (URL, Authorization, which
// transport and which http.Client carried it).  Observable: per flow the request list
// (P-observable: which configured credential each URL received), the returned header
// (kept tokens in order, collected discharges as a multiset), the error bit.
//
// url.host / url.key lines send URL strings through net/url and through the model's parser.
//
// Generator audit (round 17): the value and shape pools were widened to what the quantifier ranges
// over — init requests on look-alike hosts (a ticket's location may be a look-alike or another spelling
// of a configured host), sub-domain labels other than "evil", degenerate locations ("", "https://",
// "host:443", "//host", leading blank, double slash), credentials that are blank / contain blanks /
// non-ASCII / long, zero configured pairs, one option value applied twice, one *http.Client handed over
// twice, one transport under two clients, two callbacks, shuffled / duplicated / empty / case-variant
// ignore lists, redirect statuses 301/302/303/308, header separators and scheme spellings, duplicated
// and early existing discharges, degenerate headers, what the third party puts into "discharge"
// (scheme prefix, blanks, two tokens, a foreign discharge, a non-macaroon, a malformed macaroon).
// Option construction variants (the op line always describes the LOGICAL configuration of the client under
// test at construction time): ignore lists handed over as `xs...` from a slice with spare capacity; option
// VALUES (ignore / authentication / http) built once and handed to one more client before and up to two more
// clients after the client under test, each with further options of its own kinds (an ignore entry, credentials
// for every pool host, an http client of its own); the caller overwriting and appending to its own ignore
// slices after NewClient and before FetchDischargeTokens.  None of this may change what the client does.
//
// Model-independent oracles inside the observable (never produced by the model, hence a P-difference
// when they appear): REUSE-DIFF (a second FetchDischargeTokens on the same client answers differently),
// CALLER-CLIENT-MODIFIED (an option wrote into the caller's *http.Client), CHECKREDIRECT-LOST (redirects followed without the caller's CheckRedirect), CBURL-WRONG (the
// callback got a URL the third party did not give as user_url).
//
// Lines whose URL strings are outside the modelled shapes (invalid UTF-8, '%' in the
// authority zone) are emitted with the observable "unmodelled" and counted, not compared.

import (
	"context"
	"encoding/base64"
	"encoding/json"
	"errors"
	"fmt"
	"io"
	"net/http"
	"net/url"
	"sort"
	"strings"
	"sync"
	"time"
	"unicode/utf8"

	"github.com/superfly/macaroon"
	"github.com/superfly/macaroon/tp"
)

func init() { families["client"] = famClient }

const cliFP = "https://fp.example"

// same rule as Macaroon.TP.pctInAuthorityZone (+ UTF-8 validity)
func cliUnmodelled(s string) bool {
	if !utf8.ValidString(s) {
		return true
	}
	slashes := 0
	for i := 0; i < len(s); i++ {
		c := s[i]
		if c == '?' || c == '#' {
			break
		}
		if c == '/' {
			if slashes >= 2 {
				break
			}
			slashes++
			continue
		}
		if c == '%' {
			return true
		}
	}
	return false
}

// ---------- scripted third party ----------

type cliResp struct {
	kind   string // fail acc redir json jsonui
	loc    string
	errS   string
	dis    bool
	poll   string
	uiPoll string
	uiUser string
	status int  // json kinds: status of the answer (0 = 200); redir: 301 302 303 307 308 (0 = 307)
	junk   bool // fail as a non-JSON body instead of a transport error
}

func (c cliResp) urls() []string {
	var us []string
	for _, s := range []string{c.loc, c.poll, c.uiPoll} {
		if s != "" {
			us = append(us, s)
		}
	}
	return us
}

// alias = what the flow's third party writes into "discharge", at alias level (cliFlow.disSx)
func (c cliResp) sx(alias string) string {
	d := ""
	if c.dis {
		d = alias
	}
	switch c.kind {
	case "fail":
		return "(fail)"
	case "acc":
		return "(acc)"
	case "redir":
		return "(redir " + hs(c.loc) + ")"
	case "json":
		return fmt.Sprintf("(json %s %s %s)", hs(c.errS), hs(d), hs(c.poll))
	default:
		return fmt.Sprintf("(jsonui %s %s %s %s %s)", hs(c.errS), hs(d), hs(c.poll), hs(c.uiPoll), hs(c.uiUser))
	}
}

type cliFlow struct {
	n      int
	loc    string
	ticket []byte
	dis    string   // what the third party writes into "discharge" (real token strings)
	disSx  string   // the same at alias level, as the op line carries it
	adds   []string // aliases AddTokens appends for it (nil: it refuses the string)
	script []cliResp
	next   int
	reqs   []string
	orig   map[string]string // canonical URL (as net/http prints it) → the string the script used
}

func (f *cliFlow) alias() string { return fmt.Sprintf("d%d", f.n) }

type cliWorld struct {
	mu       sync.Mutex
	byTicket map[string]*cliFlow
	byURL    map[string]*cliFlow
	orig     map[string]string
	via      map[int]bool
	jars     map[int]bool
	stray    []string
	userURLs int
	cbURLs   []string
	chk      map[int]bool // CheckRedirect functions called, by http.Client id
	anyHop   bool
	trs      map[int]*cliTransport
	clients  map[int]*http.Client
	tidOf    map[int]int // client id → the transport id it was created with
	spare    bool        // ignore lists are handed over from slices with spare capacity
	ignLists [][]string  // the caller's own slices behind the ignore options of this run
}

func cliCanonForms(s string) []string {
	var out []string
	if u, err := url.Parse(s); err == nil {
		out = append(out, u.String())
	}
	if r, err := http.NewRequest("GET", s, nil); err == nil {
		out = append(out, r.URL.String())
	}
	if b, err := url.Parse("https://base.invalid/b"); err == nil {
		if u, err := b.Parse(s); err == nil {
			out = append(out, u.String())
		}
	}
	return out
}

func (w *cliWorld) register(f *cliFlow, s string, get bool) {
	for _, c := range cliCanonForms(s) {
		if _, ok := w.orig[c]; !ok {
			w.orig[c] = s
		}
		if _, ok := f.orig[c]; !ok {
			f.orig[c] = s
		}
		if get {
			if _, ok := w.byURL[c]; !ok {
				w.byURL[c] = f
			}
		}
	}
}

func cliInitURL(loc string) string {
	if strings.HasSuffix(loc, "/") {
		return loc + ".well-known/macfly/3p"
	}
	return loc + "/.well-known/macfly/3p"
}

type cliTransport struct {
	id int
	w  *cliWorld
}

func cliAuthClass(r *http.Request) string {
	h := r.Header.Get("Authorization")
	if h == "" {
		return "none"
	}
	if u := r.URL.User; u != nil {
		pw, _ := u.Password()
		if h == "Basic "+base64.StdEncoding.EncodeToString([]byte(u.Username()+":"+pw)) {
			return "basic"
		}
	}
	return "cred:" + hs(h)
}

func (t *cliTransport) RoundTrip(r *http.Request) (*http.Response, error) {
	w := t.w
	var body []byte
	if r.Body != nil {
		body, _ = io.ReadAll(r.Body)
		r.Body.Close()
	}
	w.mu.Lock()
	defer w.mu.Unlock()
	w.via[t.id] = true
	canon := r.URL.String()
	var f *cliFlow
	// which Do the request belongs to: the method of the request the library built (301/302/303 turn the
	// init POST into a GET on the next hop)
	root := r
	for p, n := r.Response, 0; p != nil && p.Request != nil && n < 20; p, n = p.Request.Response, n+1 {
		root = p.Request
	}
	kind := "P"
	if root.Method == http.MethodPost {
		kind = "I"
	}
	if r.Method == http.MethodPost {
		var jr struct {
			Ticket []byte `json:"ticket"`
		}
		json.Unmarshal(body, &jr)
		f = w.byTicket[string(jr.Ticket)]
	} else {
		f = w.byURL[canon]
	}
	orig, ok := w.orig[canon]
	if f != nil {
		if o2, ok2 := f.orig[canon]; ok2 {
			orig, ok = o2, true
		}
	}
	if !ok {
		orig = "?" + canon
	}
	hop := 0
	for p := r.Response; p != nil && p.Request != nil && hop < 20; p = p.Request.Response {
		hop++
	}
	if hop > 0 {
		w.anyHop = true
	}
	rec := fmt.Sprintf("%s%d %s %s", kind, hop, hs(orig), cliAuthClass(r))
	if f == nil {
		w.stray = append(w.stray, rec)
		return nil, errors.New("stray request")
	}
	f.reqs = append(f.reqs, rec)
	idx := f.next
	f.next++
	if idx >= len(f.script) {
		return nil, errors.New("script exhausted")
	}
	c := f.script[idx]
	mk := func(code int, hdr http.Header, body string) *http.Response {
		if hdr == nil {
			hdr = http.Header{}
		}
		return &http.Response{StatusCode: code, Status: fmt.Sprintf("%d x", code), Proto: "HTTP/1.1", ProtoMajor: 1, ProtoMinor: 1,
			Header: hdr, Body: io.NopCloser(strings.NewReader(body)), ContentLength: int64(len(body)), Request: r}
	}
	switch c.kind {
	case "fail":
		if c.junk {
			return mk(200, nil, "<html>not json</html>"), nil
		}
		return nil, errors.New("scripted transport failure")
	case "acc":
		return mk(http.StatusAccepted, nil, ""), nil
	case "redir":
		st := c.status
		if st == 0 {
			st = http.StatusTemporaryRedirect
		}
		return mk(st, http.Header{"Location": []string{c.loc}}, ""), nil
	}
	jr := map[string]any{}
	if c.errS != "" {
		jr["error"] = c.errS
	}
	if c.dis {
		jr["discharge"] = f.dis
	}
	if c.poll != "" {
		jr["poll_url"] = c.poll
	}
	if c.kind == "jsonui" {
		ui := map[string]any{}
		if c.uiPoll != "" {
			ui["poll_url"] = c.uiPoll
		}
		if c.uiUser != "" {
			ui["user_url"] = c.uiUser
		}
		jr["user_interactive"] = ui
	}
	b, _ := json.Marshal(jr)
	st := c.status
	if st == 0 {
		st = 200
	}
	return mk(st, http.Header{"Content-Type": []string{"application/json"}}, string(b)), nil
}

type cliJar struct {
	id int
	w  *cliWorld
}

func (j *cliJar) SetCookies(u *url.URL, cookies []*http.Cookie) {}
func (j *cliJar) Cookies(u *url.URL) []*http.Cookie {
	j.w.mu.Lock()
	j.w.jars[j.id] = true
	j.w.mu.Unlock()
	return nil
}

// ---------- options ----------

type cliOpt struct {
	kind string // http auth bearer ign cb other
	id   int
	tid  int
	loc  string
	cred string
	locs []string
	ok   bool
	// sameAs-1 = index (in the scenario's option list) of the option whose VALUE this entry re-uses: the same
	// closure applied twice to one client (0 = a value of its own)
	sameAs int
}

func (w *cliWorld) transport(tid int) *cliTransport {
	if t, ok := w.trs[tid]; ok {
		return t
	}
	t := &cliTransport{tid, w}
	w.trs[tid] = t
	return t
}

func (o cliOpt) sx() string {
	switch o.kind {
	case "http":
		if o.tid < 0 {
			return fmt.Sprintf("(http %d nil)", o.id)
		}
		return fmt.Sprintf("(http %d %d)", o.id, o.tid)
	case "auth":
		return fmt.Sprintf("(auth %s %s)", hs(o.loc), hs(o.cred))
	case "bearer":
		return fmt.Sprintf("(auth %s %s)", hs(o.loc), hs("Bearer "+o.cred))
	case "ign":
		parts := []string{"(ign"}
		for _, l := range o.locs {
			parts = append(parts, hs(l))
		}
		return strings.Join(parts, " ") + ")"
	case "cb":
		if o.ok {
			return "(cb 1)"
		}
		return "(cb 0)"
	}
	return "(other)"
}

func (o cliOpt) build(w *cliWorld) tp.ClientOption {
	switch o.kind {
	case "http":
		// one *http.Client per id (two options with one id hand over the SAME client twice), one RoundTripper
		// per transport id (two clients may share it)
		if h, ok := w.clients[o.id]; ok {
			return tp.WithHTTP(h)
		}
		h := &http.Client{Jar: &cliJar{o.id, w}}
		id := o.id
		// the caller's redirect policy travels with the client (same limit as the default policy)
		h.CheckRedirect = func(req *http.Request, via []*http.Request) error {
			w.mu.Lock()
			w.chk[id] = true
			w.mu.Unlock()
			if len(via) >= 10 {
				return errors.New("stopped after 10 redirects")
			}
			return nil
		}
		if o.tid < 0 {
			// an http.Client WITHOUT a transport of its own (say, only a timeout or a jar set): requests then go
			// through http.DefaultTransport, which this scenario replaces by a recording one
			http.DefaultTransport = w.transport(-1)
		} else {
			h.Transport = w.transport(o.tid)
		}
		w.clients[o.id] = h
		w.tidOf[o.id] = o.tid
		// the caller's *http.Client is shared: another discharge client was built on it before, with its
		// own credentials for every host of the pool, options in the order auth -> http.  A client must
		// never pick up credentials configured on another client (nor write into the caller's http.Client).
		var decoy []tp.ClientOption
		for _, host := range cliHostPool {
			decoy = append(decoy, tp.WithAuthentication("https://"+host, "Bearer DECOY-OTHER-CLIENT"))
		}
		decoy = append(decoy, tp.WithHTTP(h))
		_ = tp.NewClient(cliFP, decoy...)
		return tp.WithHTTP(h)
	case "auth":
		return tp.WithAuthentication(o.loc, o.cred)
	case "bearer":
		return tp.WithBearerAuthentication(o.loc, o.cred)
	case "ign":
		// the caller's own slice (never the scenario's: the caller may scribble on it later), optionally one that
		// was grown with append and has room left
		xs := make([]string, len(o.locs), len(o.locs)+map[bool]int{false: 0, true: 4}[w.spare])
		copy(xs, o.locs)
		w.ignLists = append(w.ignLists, xs)
		return tp.WithIgnoredThirdParties(xs...)
	case "cb":
		ok := o.ok
		return tp.WithUserURLCallback(func(ctx context.Context, u string) error {
			w.mu.Lock()
			w.userURLs++
			w.cbURLs = append(w.cbURLs, u)
			w.mu.Unlock()
			if ok {
				return nil
			}
			return errors.New("user declined")
		})
	}
	return tp.WithPollingBackoff(func(time.Duration) time.Duration { return time.Millisecond })
}

// ---------- URL variants ----------

var cliHostPool = []string{"tp.example", "auth.fly.io", "api.tp.example", "localhost", "127.0.0.1", "[::1]", "TP.Example", "xn--tp-example.test",
	"www.tp.example", "t\u00e9st.example", "a"}

const cliNVariants = 32

// labels a look-alike puts in front of the trusted name (a comparison that forgives "www." must not pass)
var cliSubLabels = []string{"evil", "evil", "www", "api", "m", "xn--80ak6aa92e", "WWW"}

// cliVariant builds the k-th look-alike of trusted host t; tag makes the URL unique.
// redirect: the URL is used as a Location (relative forms are outside the model).
func cliVariant(r *Rng, t string, k int, tag string, redirect bool) (string, string) {
	ip6 := strings.HasPrefix(t, "[")
	bare := strings.Trim(t, "[]")
	evil := "evil.org"
	switch k {
	case 0:
		return "https://" + t + "/" + tag, "same"
	case 1:
		return "https://" + t + ":8443/" + tag, "port"
	case 2:
		return "https://" + t + ":/" + tag, "emptyport"
	case 3:
		return "http://" + t + "/" + tag, "http"
	case 4:
		return "HTTPS://" + t + "/" + tag, "upperscheme"
	case 5:
		if ip6 {
			return "https://[::2]/" + tag, "ip6.other"
		}
		l := pick(r, cliSubLabels)
		return "https://" + l + "." + t + "/" + tag, "sub." + l
	case 6:
		if i := strings.IndexByte(t, '.'); i >= 0 && !ip6 {
			return "https://" + t[i+1:] + "/" + tag, "super"
		}
		return "https://example/" + tag, "super"
	case 7:
		if ip6 {
			return "https://[::1%25eth0]/" + tag, "ip6.zone"
		}
		return "https://" + t + "." + evil + "/" + tag, "suffix"
	case 8:
		if ip6 {
			return "https://[0:0:0:0:0:0:0:1]/" + tag, "ip6.long"
		}
		return "https://evil-" + t + "/" + tag, "dash"
	case 9:
		return "https://" + bare + "@" + evil + "/" + tag, "userinfo"
	case 10:
		return "https://user:" + bare + "@" + evil + "/" + tag, "userinfo.pw"
	case 11:
		return "https://" + evil + "/" + tag + "/" + t, "path"
	case 12:
		return "https://" + evil + "/" + tag + "?h=" + t, "query"
	case 13:
		return "https://" + evil + "?" + tag + "&u=https://" + t + "/", "query.nopath"
	case 14:
		return "https://" + evil + "/" + tag + "#" + t, "frag"
	case 15:
		return "https://" + evil + "/" + tag + "#@" + t + "/", "frag.at"
	case 16:
		return "https://" + strings.ToUpper(t) + "/" + tag, "upper"
	case 17:
		mixed := []byte(t)
		for i := range mixed {
			if i%2 == 0 && mixed[i] >= 'a' && mixed[i] <= 'z' {
				mixed[i] -= 32
			} else if i%2 == 1 && mixed[i] >= 'A' && mixed[i] <= 'Z' {
				mixed[i] += 32
			}
		}
		return "https://" + string(mixed) + "/" + tag, "mixedcase"
	case 18:
		if ip6 {
			return "https://[::1]./" + tag, "ip6.dot"
		}
		return "https://" + t + "./" + tag, "trailingdot"
	case 19:
		return "https://user:pw@" + t + "/" + tag, "userinfo.trusted"
	case 20:
		return "https://" + evil + "\\@" + t + "/" + tag, "backslash"
	case 21:
		return "https://" + t + " /" + tag, "space"
	case 22:
		return "https:///" + t + "/" + tag, "emptyhost"
	case 23:
		return "https://" + t + "?" + tag, "nopath.query"
	case 24:
		return "https://" + t + "#" + tag, "nopath.frag"
	case 25:
		return "https://" + bare + ":pw@" + evil + ":8443/" + tag, "userinfo.port"
	case 26:
		if redirect {
			return "https://" + t + ":80/" + tag, "port80"
		}
		return t + "/" + tag, "noscheme"
	case 27:
		if redirect {
			return "ftp://" + t + "/" + tag, "ftp"
		}
		return "//" + t + "/" + tag, "schemerel"
	case 28:
		if redirect {
			return "https://" + evil + "/" + tag + "/@" + t, "path.at"
		}
		// Cyrillic а in place of the first a (or appended)
		if i := strings.IndexByte(t, 'a'); i >= 0 && !ip6 {
			return "https://" + t[:i] + "\u0430" + t[i+1:] + "/" + tag, "idn"
		}
		return "https://" + bare + "\u0430.test/" + tag, "idn"
	case 29:
		if r.Chance(1, 3) {
			return "https://" + strings.Replace(bare, ".", "%2e", 1) + "/" + tag, "pcthost"
		}
		return "https://" + evil + ":443@" + t + ":/" + tag, "userinfo.looks.like.port"
	case 30:
		// a dot that is one only after IDNA mapping (ideographic full stop): net/url maps nothing
		return "https://" + bare + "\u3002" + evil + "/" + tag, "idn.dot"
	default:
		switch t {
		case "127.0.0.1": // other spellings of the same address are other host strings
			return "https://" + pick(r, []string{"127.1", "2130706433", "0x7f.0.0.1", "127.0.0.01", "127.0.0.1."}) + "/" + tag, "ip4.alt"
		case "[::1]":
			return "https://" + pick(r, []string{"[::0001]", "[0::1]", "[::ffff:127.0.0.1]"}) + "/" + tag, "ip6.alt"
		}
		return "https://" + t + "/../" + tag + "//x/./", "dotseg"
	}
}

// ---------- scenario ----------

type cliScenario struct {
	opts     []cliOpt
	hosts    []string // trusted host texts (of the configured pairs)
	scheme   string
	stripped bool // the header carries a scheme StripAuthorizationScheme removes
	reuse    bool // call FetchDischargeTokens a second time on the same client
	// construction variants (invisible to the model)
	coBefore    int  // further clients built from the same option values before the client under test (0..1)
	coAfter     int  // ... and after it, before the fetch (0..2)
	spareCap    bool // ignore lists come from slices with spare capacity
	mutateAfter bool // the caller overwrites / appends to its ignore slices after NewClient
	thorough    bool
	plain       bool // the fixed "202 then 307 to evil.<host>" scenarios keep their exact historical shape
	header      string
	kept        []string // aliases, in order
	alias       map[string]string
	flows       []*cliFlow
	hasCB       bool
	anyUnmod    bool
}

func (sc *cliScenario) opLine(perm []int) string {
	var sb strings.Builder
	sb.WriteString("(client.flow (opts")
	for _, i := range perm {
		sb.WriteString(" " + sc.opts[i].sx())
	}
	sb.WriteString(" (other)) (hdr ")
	if sc.stripped {
		sb.WriteString("1")
	} else {
		sb.WriteString("0")
	}
	for _, k := range sc.kept {
		sb.WriteString(" " + hs(k))
	}
	sb.WriteString(") (tickets")
	for _, f := range sc.flows {
		fmt.Fprintf(&sb, " (t %s %d (", hs(f.loc), f.n)
		for i, c := range f.script {
			if i > 0 {
				sb.WriteString(" ")
			}
			sb.WriteString(c.sx(f.disSx))
		}
		sb.WriteString("))")
	}
	sb.WriteString("))")
	return sb.String()
}

func (sc *cliScenario) run(o *Out, perm []int) string {
	w := &cliWorld{spare: sc.spareCap, byTicket: map[string]*cliFlow{}, byURL: map[string]*cliFlow{}, orig: map[string]string{}, via: map[int]bool{}, jars: map[int]bool{},
		chk: map[int]bool{}, trs: map[int]*cliTransport{}, clients: map[int]*http.Client{}, tidOf: map[int]int{}}
	flows := make([]*cliFlow, len(sc.flows))
	userURLs := map[string]bool{}
	for i, f := range sc.flows {
		cp := *f
		cp.next, cp.reqs, cp.orig = 0, nil, map[string]string{}
		flows[i] = &cp
		w.byTicket[string(cp.ticket)] = &cp
		w.register(&cp, cliInitURL(cp.loc), false)
		for _, c := range cp.script {
			for _, u := range c.urls() {
				w.register(&cp, u, true)
			}
			if c.uiUser != "" {
				userURLs[c.uiUser] = true
			}
		}
	}
	// one value per option of the scenario; an entry marked sameAs re-uses the value of another entry
	built := make([]tp.ClientOption, len(sc.opts))
	for i, op := range sc.opts {
		if op.sameAs == 0 {
			built[i] = op.build(w)
		}
	}
	for i, op := range sc.opts {
		if op.sameAs != 0 {
			built[i] = built[op.sameAs-1]
		}
	}
	var opts []tp.ClientOption
	for _, i := range perm {
		opts = append(opts, built[i])
	}
	opts = append(opts, cliOpt{kind: "other"}.build(w))
	// the same option VALUES were applied to another client before (a shared base-options slice for per-user
	// clients), followed there by that client's own credentials for every host of the pool: nothing configured on
	// the other client may reach this one
	{
		sibling := []tp.ClientOption{tp.WithHTTP(&http.Client{Transport: &cliTransport{0, w}})}
		for k, i := range perm {
			if sc.opts[i].kind == "auth" || sc.opts[i].kind == "bearer" {
				sibling = append(sibling, opts[k])
			}
		}
		for _, host := range cliHostPool {
			sibling = append(sibling, tp.WithBearerAuthentication("https://"+host, "SIBLING-CLIENT-SECRET"))
		}
		sibling = append(sibling, tp.WithAuthentication("", "SIBLING-CLIENT-SECRET"), tp.WithAuthentication("https://", "SIBLING-CLIENT-SECRET"))
		_ = tp.NewClient(cliFP, sibling...)
	}
	// one more client built from option VALUES of the client under test (a shared defaults slice) plus options of
	// its own: co-client j shares the first ignore option in application order (the "common" list — not the later
	// ones, which are the other client's own), every authentication value (j = 0) or every second one, the http
	// value (j = 0) or an http client of its own; then its own ignore entry and its own credentials for every host
	coClient := func(j int) {
		var co []tp.ClientOption
		firstIgn := true
		for k, i := range perm {
			switch sc.opts[i].kind {
			case "ign":
				if firstIgn {
					co = append(co, opts[k])
					o.count("build.shared-value.ign")
				}
				firstIgn = false
			case "auth", "bearer":
				if j == 0 || (i+j)%2 == 0 {
					co = append(co, opts[k])
					o.count("build.shared-value.auth")
				}
			case "http":
				if j == 0 {
					co = append(co, opts[k])
					o.count("build.shared-value.http")
				} else {
					co = append(co, tp.WithHTTP(&http.Client{Transport: &cliTransport{0, w}}))
				}
			}
		}
		own := make([]string, 0, 4)
		own = append(own, fmt.Sprintf("https://co-client-%d-own.example", j))
		co = append(co, tp.WithIgnoredThirdParties(own...))
		for _, host := range cliHostPool {
			co = append(co, tp.WithBearerAuthentication("https://"+host, "CO-CLIENT-SECRET"))
		}
		co = append(co, tp.WithAuthentication("", "CO-CLIENT-SECRET"))
		_ = tp.NewClient(cliFP, co...)
	}
	for j := 0; j < sc.coBefore; j++ {
		coClient(2 + j)
	}
	// what one FetchDischargeTokens call shows
	observe := func(c *tp.Client) string {
		ctx, cancel := context.WithTimeout(context.Background(), 10*time.Second)
		defer cancel()
		out, err := c.FetchDischargeTokens(ctx, sc.header)
		w.mu.Lock()
		defer w.mu.Unlock()
		if len(w.stray) > 0 {
			return "STRAY " + strings.Join(w.stray, ";")
		}
		flag, body := "0", out
		if strings.HasPrefix(out, "FlyV1 ") {
			flag, body = "1", out[6:]
		}
		var toks []string
		if body != "" {
			for _, t := range strings.Split(body, ",") {
				if a, ok := sc.alias[t]; ok {
					toks = append(toks, a)
				} else {
					toks = append(toks, "?"+hs(t))
				}
			}
		}
		nk := len(sc.kept)
		if nk > len(toks) {
			nk = len(toks)
		}
		rest := append([]string(nil), toks[nk:]...)
		sort.Strings(rest)
		got := map[string]int{}
		for _, t := range rest {
			got[t]++
		}
		var parts []string
		anyReq := false
		for _, f := range flows {
			// the flow delivered: everything AddTokens makes of its third party's "discharge" string is in the result
			delivered := len(f.adds) > 0
			need := map[string]int{}
			for _, a := range f.adds {
				need[a]++
			}
			for a, n := range need {
				delivered = delivered && got[a] >= n
			}
			if len(f.reqs) == 0 && !delivered && cliIgnored(sc, perm, f.loc) {
				continue // never started: the model lists only started flows
			}
			o := "failed"
			if delivered {
				o = "dis"
			}
			if len(f.reqs) > 0 {
				anyReq = true
			}
			parts = append(parts, fmt.Sprintf("f%d:%s[%s]", f.n, o, strings.Join(f.reqs, ";")))
		}
		parts = append(parts, fmt.Sprintf("hdr:%s:%s|%s", flag, strings.Join(toks[:nk], ","), strings.Join(rest, ",")))
		if err != nil {
			parts = append(parts, "err:1")
		} else {
			parts = append(parts, "err:0")
		}
		if anyReq {
			parts = append(parts, "via:"+cliIDs("t", w.via), "client:"+cliIDs("h", w.jars))
		} else {
			parts = append(parts, "via:-", "client:-")
		}
		// model-independent oracles
		if w.anyHop && cliIDs("h", w.chk) != cliIDs("h", w.jars) {
			parts = append(parts, "CHECKREDIRECT-LOST:"+cliIDs("h", w.chk))
		}
		for _, u := range w.cbURLs {
			if !userURLs[u] {
				parts = append(parts, "CBURL-WRONG:"+hs(u))
			}
		}
		return strings.Join(parts, " ")
	}
	return guard(func() string {
		c := tp.NewClient(cliFP, opts...)
		for j := 0; j < sc.coAfter; j++ {
			coClient(j)
		}
		if sc.mutateAfter {
			// the caller goes on using its own slices: every entry overwritten, one more appended (into the spare room
			// when there is some)
			for _, xs := range w.ignLists {
				for i := range xs {
					xs[i] = "https://overwritten-by-caller.example"
				}
				_ = append(xs, "https://appended-by-caller.example")
			}
		}
		// model-independent: the caller's *http.Client values are the caller's — configuring a discharge client (this
		// one, the decoys, the sibling, the co-clients) must not have written into them (checked before any request is made)
		mod := map[int]bool{}
		for id, h := range w.clients {
			if tid := w.tidOf[id]; (tid < 0 && h.Transport != nil) || (tid >= 0 && h.Transport != http.RoundTripper(w.trs[tid])) {
				mod[id] = true
			}
		}
		if len(mod) > 0 {
			return "CALLER-CLIENT-MODIFIED:" + cliIDs("h", mod)
		}
		first := observe(c)
		if !sc.reuse {
			return first
		}
		// the same client once more, same header, same third parties: a client keeps nothing from one call to the next
		w.mu.Lock()
		for _, f := range flows {
			f.next, f.reqs = 0, nil
		}
		w.via, w.jars, w.chk, w.stray, w.cbURLs, w.anyHop = map[int]bool{}, map[int]bool{}, map[int]bool{}, nil, nil, false
		w.mu.Unlock()
		if second := observe(c); second != first {
			return first + " REUSE-DIFF:" + strings.ReplaceAll(second, " ", "_")
		}
		return first
	})
}

// a flow with no request may be an ignored one (not listed by the model) or one whose init
// URL does not parse (listed, empty); the harness knows which locations it asked to ignore
func cliIgnored(sc *cliScenario, perm []int, loc string) bool {
	for _, i := range perm {
		if sc.opts[i].kind == "ign" {
			for _, l := range sc.opts[i].locs {
				if l == loc {
					return true
				}
			}
		}
	}
	return false
}

func cliIDs(p string, m map[int]bool) string {
	var ids []int
	for k := range m {
		ids = append(ids, k)
	}
	sort.Ints(ids)
	var ss []string
	for _, i := range ids {
		if i < 0 {
			ss = append(ss, "default")
			continue
		}
		ss = append(ss, fmt.Sprintf("%s%d", p, i))
	}
	if len(ss) == 0 {
		return "-"
	}
	return strings.Join(ss, "+")
}

func cliPerms(n int) [][]int {
	var out [][]int
	a := make([]int, n)
	for i := range a {
		a[i] = i
	}
	var rec func(k int)
	rec = func(k int) {
		if k == n {
			out = append(out, append([]int(nil), a...))
			return
		}
		for i := k; i < n; i++ {
			a[k], a[i] = a[i], a[k]
			rec(k + 1)
			a[k], a[i] = a[i], a[k]
		}
	}
	rec(0)
	return out
}

// %s = the host text; the first three are the plain forms
var cliLocForms = []string{"https://%s", "https://%s/", "https://%s:8443", "http://%s/base/", "%s", "https://user@%s", "HTTPS://%s", "https://%s/p?q=1", "https://%s:", "https://%s./",
	// not absolute (the raw string is the key), or absolute without the host where one expects it
	"//%s", "%s:443", " https://%s", "", "https://", "ftp://%s",
	// the init path lands in another URL component, or after a doubled slash
	"https://%s//", "https://%s?x=1", "https://%s#frag", "https://u:p@%s", "https://%s/?u=https://evil.org/", "https://%s:8443/base?next=https://evil.org"}
var cliCreds = []string{"Bearer tokA", "FlyV1 fm2_abc", "secretB", "", "Bearer tokC",
	" ", "Bearer ", "tok with  blanks ", "Bearer t\u00f6k-\u00fc", "L" + strings.Repeat("o", 300) + "ng"}

func cliHostOfLocForm(form, h string) string { return strings.ReplaceAll(form, "%s", h) }

type cliTicketSpec struct {
	loc    string
	ka     macaroon.EncryptionKey
	preDis bool // already discharged in the caller's header
}

// what the third party of a flow writes into "discharge"
var cliDisForms = []string{"scheme", "bearer", "blanks", "twice", "wrong", "junk", "malformed", "mixed"}

func (sc *cliScenario) setDischargeForm(o *Out, f *cliFlow, own, form string, wrong func() string) {
	a := f.alias()
	sc.alias[own] = a
	o.count("tp-discharge." + form)
	switch form {
	case "scheme":
		f.dis, f.disSx, f.adds = "FlyV1 "+own, "FlyV1 "+a, []string{a}
	case "bearer":
		f.dis, f.disSx, f.adds = "Bearer "+own, "Bearer "+a, []string{a}
	case "blanks":
		f.dis, f.disSx, f.adds = "  "+own+" ", "  "+a+" ", []string{a}
	case "twice":
		f.dis, f.disSx, f.adds = own+", "+own, a+", "+a, []string{a, a}
	case "wrong": // a well-formed discharge of a ticket nobody asked about: nothing checks it
		wa := fmt.Sprintf("w%d", f.n)
		ws := wrong()
		sc.alias[ws] = wa
		f.dis, f.disSx, f.adds = ws, wa, []string{wa}
	case "junk": // not a macaroon at all: AddTokens takes it as an opaque token
		j := fmt.Sprintf("opaque-from-tp-%d", f.n)
		ja := fmt.Sprintf("j%d", f.n)
		sc.alias[j] = ja
		f.dis, f.disSx, f.adds = j, ja, []string{ja}
	case "malformed": // macaroon label, undecodable body: AddTokens refuses, nothing is appended
		f.dis, f.disSx, f.adds = "fm2_!!!not-base64", "!bad", nil
	case "mixed": // one good and one malformed token: AddTokens refuses the whole string
		f.dis, f.disSx, f.adds = own+",fm2_!!!not-base64", a+",!bad", nil
	default:
		f.dis, f.disSx, f.adds = own, a, []string{a}
	}
}

// build the caller's header: permission tokens with third-party caveats, existing discharges (after their
// token, after later tokens, BEFORE their token, twice), an extraneous discharge, a foreign permission token,
// a non-macaroon token; scheme spelling and separators vary
func (sc *cliScenario) buildHeader(r *Rng, o *Out, specs [][]cliTicketSpec, extras bool) {
	sc.alias = map[string]string{}
	var toks []string
	key := macaroon.NewSigningKey()
	n := 0
	var late []string
	wrong := func() string {
		m, _ := macaroon.New([]byte("w"), cliFP, key)
		ka := macaroon.NewEncryptionKey()
		m.Add3P(ka, "https://wrong.example")
		cs := m.UnsafeCaveats.Caveats
		_, dm, _ := macaroon.DischargeTicket(ka, "https://wrong.example", cs[len(cs)-1].(*macaroon.Caveat3P).Ticket)
		ds, _ := dm.String()
		return ds
	}
	for pi, ts := range specs {
		m, err := macaroon.New([]byte{byte('a' + pi)}, cliFP, key)
		if err != nil {
			panic(err)
		}
		type pend struct {
			spec   cliTicketSpec
			ticket []byte
		}
		var ps []pend
		for _, s := range ts {
			if err := m.Add3P(s.ka, s.loc); err != nil {
				panic(err)
			}
			cs := m.UnsafeCaveats.Caveats
			ps = append(ps, pend{s, cs[len(cs)-1].(*macaroon.Caveat3P).Ticket})
		}
		if len(ts) == 0 {
			o.count("hdr.token-without-third-party")
		}
		tok, err := m.String()
		if err != nil {
			panic(err)
		}
		a := fmt.Sprintf("p%d", pi)
		sc.alias[tok] = a
		group := []string{tok} // this token and the existing discharges placed around it
		for _, p := range ps {
			_, dm, err := macaroon.DischargeTicket(p.spec.ka, p.spec.loc, p.ticket)
			if err != nil {
				panic(err)
			}
			ds, err := dm.String()
			if err != nil {
				panic(err)
			}
			if p.spec.preDis {
				a := fmt.Sprintf("e%d", len(sc.alias))
				sc.alias[ds] = a
				o.count("hdr.existing-discharge")
				switch r.Intn(6) {
				case 0, 1:
					group = append(group, ds)
				case 2, 3:
					late = append(late, ds) // discharge placed after later permission tokens
					o.count("hdr.existing-discharge.late")
				case 4:
					group = append([]string{ds}, group...) // ... before its own permission token
					o.count("hdr.existing-discharge.early")
				default:
					group = append(group, ds, ds) // ... twice
					o.count("hdr.existing-discharge.twice")
				}
				continue
			}
			f := &cliFlow{n: n, loc: p.spec.loc, ticket: p.ticket}
			form := "plain"
			if r.Chance(1, 4) {
				form = pick(r, cliDisForms)
			}
			sc.setDischargeForm(o, f, ds, form, wrong)
			sc.flows = append(sc.flows, f)
			n++
		}
		toks = append(toks, group...)
	}
	toks = append(toks, late...)
	if extras {
		// discharge of a ticket no permission token carries: dropped by the default filter
		m, _ := macaroon.New([]byte("z"), cliFP, key)
		ka := macaroon.NewEncryptionKey()
		m.Add3P(ka, "https://other.example")
		cs := m.UnsafeCaveats.Caveats
		_, dm, _ := macaroon.DischargeTicket(ka, "https://other.example", cs[len(cs)-1].(*macaroon.Caveat3P).Ticket)
		ds, _ := dm.String()
		sc.alias[ds] = "x0"
		// permission token of another first party: dropped
		fm, _ := macaroon.New([]byte("y"), "https://elsewhere.example", macaroon.NewSigningKey())
		fm.Add3P(ka, "https://tp.example")
		fs, _ := fm.String()
		sc.alias[fs] = "x1"
		// non-macaroon token: kept
		sc.alias["opaque-token"] = "n0"
		for _, in := range []string{ds, fs, "opaque-token"} {
			pos := r.Intn(len(toks) + 1)
			toks = append(toks[:pos:pos], append([]string{in}, toks[pos:]...)...)
		}
		o.count("hdr.extras")
	}
	// kept list: everything but what the default filter drops, in header order
	for _, t := range toks {
		if a := sc.alias[t]; a != "x0" && a != "x1" {
			sc.kept = append(sc.kept, a)
		}
	}
	sc.scheme = pick(r, []string{"FlyV1 ", "FlyV1 ", "Bearer ", "bearer ", "flyv1 ", "", "", "FLYV1 ", "BEARER ", "Bearer FlyV1 ", "  FlyV1   "})
	o.count("hdr.scheme." + strings.ReplaceAll(strings.TrimSpace(sc.scheme), " ", "+") + "-")
	sep := pick(r, []string{",", ",", ",", ", ", " , ", ",  "})
	o.count("hdr.sep." + strings.ReplaceAll(sep, " ", "_"))
	sc.header = sc.scheme + strings.Join(toks, sep)
	if r.Chance(1, 8) {
		sc.header += "  "
		o.count("hdr.trailing-blanks")
	}
	sc.stripped = sc.scheme != ""
	if len(toks) == 0 {
		// no token at all: the header is "", or a lone scheme word (which is then a token, not a scheme)
		sc.header = pick(r, []string{"", "FlyV1 ", "FlyV1", "Bearer"})
		sc.stripped = false
		w := strings.TrimSpace(sc.header)
		sc.alias[w] = "n1"
		sc.kept = []string{"n1"}
		if w == "" {
			sc.kept = []string{""}
		}
		o.count("hdr.degenerate")
	}
}

// script for one flow
func (sc *cliScenario) genScript(r *Rng, o *Out, f *cliFlow, mode string) {
	tagN := 0
	tag := func() string { tagN++; return fmt.Sprintf("f%dk%d", f.n, tagN) }
	trusted := func() string { return pick(r, sc.hosts) }
	variant := func(redirect bool) string {
		k := r.Intn(cliNVariants)
		u, name := cliVariant(r, trusted(), k, tag(), redirect)
		o.count("variant." + name)
		if redirect {
			o.count("variant-as.redirect")
		} else {
			o.count("variant-as.poll")
		}
		return u
	}
	final := func() cliResp {
		st := pick(r, []int{200, 200, 201, 400, 500, 204})
		o.count(fmt.Sprintf("final.status.%d", st))
		return cliResp{kind: "json", dis: true, status: st}
	}
	accs := func(n int) []cliResp {
		if sc.thorough && r.Chance(1, 5) {
			n += 3 + r.Intn(4)
		}
		o.count(fmt.Sprintf("poll.accepted-in-a-row.%d", n))
		var out []cliResp
		for i := 0; i < n; i++ {
			out = append(out, cliResp{kind: "acc"})
		}
		return out
	}
	// every redirect status net/http follows; 301/302/303 turn the init POST into a GET
	redir := func(loc string) cliResp {
		st := pick(r, []int{307, 307, 307, 308, 301, 302, 303})
		if sc.plain {
			st = 307
		}
		o.count(fmt.Sprintf("redir.status.%d", st))
		return cliResp{kind: "redir", loc: loc, status: st}
	}
	o.count("flow." + mode)
	switch mode {
	case "immediate":
		f.script = []cliResp{final()}
		if r.Chance(1, 4) {
			f.script[0].status = 202 // the init answer is decoded whatever its status
			o.count("init.json-with-202")
		}
	case "probe": // redirect chain over look-alikes on the init request
		n := 1 + r.Intn(8)
		for i := 0; i < n; i++ {
			f.script = append(f.script, redir(variant(true)))
		}
		f.script = append(f.script, final())
	case "poll":
		f.script = []cliResp{{kind: "json", poll: variant(false), status: 201}}
		f.script = append(f.script, accs(r.Intn(3))...)
		f.script = append(f.script, final())
	case "pollredir": // redirect in the k-th poll iteration
		f.script = []cliResp{{kind: "json", poll: variant(false)}}
		f.script = append(f.script, accs(r.Intn(3))...)
		for i, n := 0, 1+r.Intn(3); i < n; i++ {
			f.script = append(f.script, redir(variant(true)))
		}
		if r.Bool() {
			f.script = append(f.script, accs(1)...)
			f.script = append(f.script, redir(variant(true)))
		}
		f.script = append(f.script, final())
	case "ui":
		f.script = []cliResp{{kind: "jsonui", uiPoll: variant(false), uiUser: variant(false)}}
		f.script = append(f.script, accs(r.Intn(2))...)
		f.script = append(f.script, final())
	case "uibad":
		switch r.Intn(3) {
		case 0:
			f.script = []cliResp{{kind: "jsonui"}, final()}
		case 1:
			f.script = []cliResp{{kind: "jsonui", uiPoll: variant(false)}, final()}
		default:
			f.script = []cliResp{{kind: "jsonui", uiUser: variant(false)}, final()} // a user URL and nothing to poll
		}
	case "both": // discharge wins over poll_url and user_interactive
		f.script = []cliResp{{kind: "jsonui", dis: true, poll: variant(false), uiPoll: variant(false), uiUser: variant(false)}}
	case "pollwins": // poll_url wins over user_interactive
		f.script = []cliResp{{kind: "jsonui", poll: variant(false), uiPoll: variant(false), uiUser: variant(false)}, final()}
	case "error":
		f.script = []cliResp{{kind: "json", errS: "nope", dis: r.Bool(), status: 403}}
	case "pollerror":
		f.script = []cliResp{{kind: "json", poll: variant(false)}, {kind: "acc"}, {kind: "json", errS: "denied", dis: r.Bool()}}
	case "pollempty":
		f.script = []cliResp{{kind: "json", poll: variant(false)}, {kind: "json"}}
	case "fail":
		f.script = []cliResp{{kind: "fail", junk: r.Bool()}}
	case "pollfail":
		f.script = []cliResp{{kind: "json", poll: variant(false)}, {kind: "acc"}, {kind: "fail", junk: r.Bool()}}
	case "exhausted":
		f.script = nil
	case "init202":
		f.script = []cliResp{{kind: "acc"}, final()}
	case "empty":
		f.script = []cliResp{{kind: "json"}}
	case "loop": // more redirects than net/http follows
		u := variant(true)
		for i := 0; i < 12; i++ {
			f.script = append(f.script, redir(u))
		}
		f.script = append(f.script, final())
	case "leak.sub", "leak.port", "leak.other", "leak.first": // 202 then 307 away from a trusted poll host
		t := trusted()
		p := "https://" + t + "/" + tag()
		var target string
		switch mode {
		case "leak.sub", "leak.first":
			l := pick(r, cliSubLabels)
			if sc.plain {
				l = "evil"
			}
			target = "https://" + l + "." + strings.Trim(t, "[]") + "/" + tag()
		case "leak.port":
			target = "https://" + t + ":8443/" + tag()
		default:
			target = "https://unrelated.example/" + tag()
		}
		f.script = []cliResp{{kind: "json", poll: p}}
		if mode != "leak.first" {
			f.script = append(f.script, accs(1+r.Intn(2))...)
		}
		f.script = append(f.script, redir(target), final())
	}
}

var cliModes = []string{"immediate", "probe", "probe", "probe", "poll", "poll", "pollredir", "pollredir", "ui", "ui", "ui", "uibad", "both", "pollwins",
	"error", "pollerror", "pollempty", "fail", "pollfail", "exhausted", "init202", "empty", "loop", "leak.sub", "leak.port", "leak.other", "leak.first"}

func genCliScenario(r *Rng, o *Out, idx int, thorough bool) *cliScenario {
	fixedLeak := idx < 4 // the first scenarios are the fixed "202 then 307" cases
	sc := &cliScenario{thorough: thorough, plain: fixedLeak}
	maxOpts := 6
	// configured pairs
	np := 1 + r.Intn(3)
	if thorough && r.Chance(1, 10) {
		np = 4 + r.Intn(2)
		maxOpts = 7
	}
	if r.Chance(1, 14) {
		np = 0 // no credential configured at all: nothing may ever be attached
	}
	if fixedLeak {
		np = 1
	}
	type pair struct{ loc, host string }
	var pairs []pair
	for i := 0; i < np; i++ {
		h := pick(r, cliHostPool)
		if fixedLeak {
			h = "tp.example"
		}
		if i > 0 && r.Chance(1, 4) {
			h = pairs[0].host // same host configured twice: last one wins
			o.count("cfg.pair.same-host-again")
		}
		form := pick(r, cliLocForms)
		if r.Chance(1, 2) {
			form = cliLocForms[r.Intn(3)]
		}
		if fixedLeak {
			form = "https://%s"
		}
		if !strings.Contains(form, "%s") {
			o.count("cfg.loc.hostless")
		}
		o.count("cfg.locform." + form)
		loc := cliHostOfLocForm(form, h)
		pairs = append(pairs, pair{loc, h})
		cred := pick(r, cliCreds)
		if r.Chance(1, 2) || fixedLeak {
			cred = fmt.Sprintf("Bearer tok%d", i)
		}
		kind := "auth"
		if r.Chance(1, 3) && cred != "" {
			kind, cred = "bearer", fmt.Sprintf("b%d", i)
			if r.Chance(1, 8) {
				cred = "" // WithBearerAuthentication(loc, ""): the credential is "Bearer "
				o.count("cfg.cred.bearer-empty-token")
			}
		}
		sc.opts = append(sc.opts, cliOpt{kind: kind, loc: loc, cred: cred})
		sc.hosts = append(sc.hosts, h)
		o.count("cfg.cred." + map[bool]string{true: "empty", false: "nonempty"}[cred == "" && kind == "auth"])
		if strings.TrimSpace(cred) == "" && cred != "" {
			o.count("cfg.cred.blank")
		}
	}
	if np == 0 {
		sc.hosts = []string{pick(r, cliHostPool)} // look-alikes still need a name to imitate
	}
	o.count(fmt.Sprintf("cfg.pairs.%d", np))
	// the same option VALUE once more in the list (a shared base slice appended twice)
	if np > 0 && len(sc.opts) < 4 && r.Chance(1, 6) && !fixedLeak {
		j := r.Intn(np)
		d := sc.opts[j]
		d.sameAs = j + 1
		sc.opts = append(sc.opts, d)
		o.count("cfg.auth.same-value-twice")
	}
	// http clients
	nh := 1
	if len(sc.opts) <= 3 && r.Chance(1, 2) {
		nh = 2
		if thorough && r.Chance(1, 6) {
			nh = 3
		}
	}
	for i := 0; i < nh; i++ {
		tid := 10 + r.Intn(3)*10 + i
		if r.Chance(1, 4) {
			tid = -1
			o.count("cfg.http.noTransport")
		}
		op := cliOpt{kind: "http", id: i + 1, tid: tid}
		if i > 0 && !fixedLeak {
			switch r.Intn(6) {
			case 0: // the very same *http.Client handed over a second time
				op = sc.opts[len(sc.opts)-1]
				o.count("cfg.http.same-client-twice")
			case 1: // another client around the same RoundTripper
				op.tid = sc.opts[len(sc.opts)-1].tid
				o.count("cfg.http.shared-transport")
			}
		}
		sc.opts = append(sc.opts, op)
	}
	o.count(fmt.Sprintf("cfg.http.%d", nh))
	// tickets: locations mostly the configured ones
	extraLoc := "https://unconfigured.example"
	ignLoc := ""
	var locs []string
	for _, p := range pairs {
		locs = append(locs, p.loc)
	}
	if len(locs) == 0 {
		locs = []string{"https://" + sc.hosts[0]}
	}
	withIgn := len(sc.opts) < 5 && r.Chance(1, 2) && !fixedLeak
	if withIgn {
		ignLoc = pick(r, append(locs, "https://ignored.example"))
		ign := []string{ignLoc}
		if r.Chance(1, 3) {
			ign = append(ign, "https://never-seen.example")
		}
		if r.Chance(1, 4) {
			ign = append(ign, ignLoc+"/") // a different string: ignores nothing of ignLoc
		}
		if r.Chance(1, 5) {
			ign = append(ign, ignLoc) // listed twice
			o.count("cfg.ignored.duplicate")
		}
		if r.Chance(1, 5) {
			ign = append(ign, "") // the empty location
			o.count("cfg.ignored.empty-string")
		}
		if r.Chance(1, 8) {
			ign = append(ign, locs...) // every configured third party
			ign = append(ign, extraLoc)
			o.count("cfg.ignored.all-configured")
		}
		other := cliOpt{kind: "ign", locs: []string{pick(r, append(locs, "https://never-seen.example"))}}
		if r.Chance(1, 2) {
			// another SPELLING of a ticket's location (letter case, trailing slash removed or added, default
			// port): a different string, it ignores nothing
			l := pick(r, locs)
			v := pick(r, []string{strings.ToUpper(l), strings.ToUpper(l), strings.ToLower(l), strings.TrimSuffix(l, "/"), l + "/", l + ":443", strings.Replace(l, "https://", "HTTPS://", 1), " " + l, strings.TrimSuffix(l, "/") + "/.well-known/macfly/3p"})
			if v != l {
				o.count("cfg.ignored.other-spelling")
			}
			other.locs = append(other.locs, v)
		}
		if r.Chance(1, 6) {
			other.locs = nil // WithIgnoredThirdParties()
			o.count("cfg.ignored.empty-list")
		}
		// the asked-for location anywhere in its list
		two := r.Chance(1, 2)
		if !two {
			ign = append(ign, other.locs...)
		}
		for i := len(ign) - 1; i > 0; i-- {
			j := r.Intn(i + 1)
			ign[i], ign[j] = ign[j], ign[i]
		}
		if ign[0] != ignLoc {
			o.count("cfg.ignored.not-first-in-list")
		}
		if ign[len(ign)-1] != ignLoc {
			o.count("cfg.ignored.not-last-in-list")
		}
		if two {
			// two ignore options (say a shared default list and the caller's own): both lists apply,
			// whichever comes first
			if r.Bool() {
				sc.opts = append(sc.opts, cliOpt{kind: "ign", locs: ign}, other)
			} else {
				sc.opts = append(sc.opts, other, cliOpt{kind: "ign", locs: ign})
			}
			o.count("cfg.ignored.twoOptions")
		} else {
			sc.opts = append(sc.opts, cliOpt{kind: "ign", locs: ign})
		}
		o.count("cfg.ignored")
	}
	withCB := len(sc.opts) < 5 && r.Chance(2, 3) && !fixedLeak
	if withCB {
		ok := r.Chance(4, 5)
		sc.opts = append(sc.opts, cliOpt{kind: "cb", ok: ok})
		sc.hasCB = true
		o.count("cfg.callback")
		if len(sc.opts) < 5 && r.Chance(1, 3) {
			sc.opts = append(sc.opts, cliOpt{kind: "cb", ok: !ok}) // two callbacks: the later option counts
			o.count("cfg.callback.two")
		}
	}
	for len(sc.opts) > maxOpts { // (cannot happen with the guards above; keeps phase A bounded)
		sc.opts = sc.opts[:len(sc.opts)-1]
	}
	o.count(fmt.Sprintf("cfg.opts.%d", len(sc.opts)))

	kas := map[string]macaroon.EncryptionKey{}
	kaFor := func(l string) macaroon.EncryptionKey {
		if k, ok := kas[l]; ok {
			return k
		}
		kas[l] = macaroon.NewEncryptionKey()
		return kas[l]
	}
	nperm := 1 + r.Intn(2)
	if thorough && r.Chance(1, 6) {
		nperm = 3
	}
	var specs [][]cliTicketSpec
	for p := 0; p < nperm; p++ {
		var ts []cliTicketSpec
		nt := 1 + r.Intn(2)
		if thorough && r.Chance(1, 6) {
			nt = 3
		}
		if r.Chance(1, 12) {
			nt = 0 // a permission token without third-party caveat
		}
		if fixedLeak {
			nt = 1
		}
		for i := 0; i < nt; i++ {
			l := pick(r, locs)
			src := "configured"
			switch {
			case fixedLeak:
			case r.Chance(1, 6):
				l, src = extraLoc, "unconfigured"
			case r.Chance(1, 5):
				// the INIT request on a look-alike of a configured host
				var name string
				l, name = cliVariant(r, pick(r, sc.hosts), r.Intn(cliNVariants), fmt.Sprintf("t%dx%d", p, i), false)
				src = "lookalike"
				o.count("ticket.lookalike." + name)
			case r.Chance(1, 6):
				// another spelling of a configured host's location: same host, other string
				l, src = cliHostOfLocForm(pick(r, cliLocForms), pick(r, sc.hosts)), "other-form"
			}
			if ignLoc != "" && r.Chance(1, 3) {
				l, src = ignLoc, "ignored"
			}
			dup := false
			for _, t := range ts {
				dup = dup || t.loc == l // one third-party caveat per location and token (Add refuses more)
			}
			if dup {
				continue
			}
			o.count("ticket.loc." + src)
			ts = append(ts, cliTicketSpec{loc: l, ka: kaFor(l), preDis: r.Chance(1, 6) && !fixedLeak})
		}
		specs = append(specs, ts)
	}
	if fixedLeak {
		specs = specs[:1]
	}
	if r.Chance(1, 40) && !fixedLeak {
		specs = nil // a header without any token
	}
	sc.buildHeader(r, o, specs, r.Chance(1, 3) && len(specs) > 0)
	for _, f := range sc.flows {
		mode := pick(r, cliModes)
		if fixedLeak {
			mode = []string{"leak.sub", "leak.port", "leak.other", "leak.first"}[idx]
		}
		sc.genScript(r, o, f, mode)
		for _, c := range f.script {
			for _, u := range c.urls() {
				if cliUnmodelled(u) {
					sc.anyUnmod = true
				}
			}
		}
		if cliUnmodelled(f.loc) {
			sc.anyUnmod = true
		}
	}
	for _, op := range sc.opts {
		if (op.kind == "auth" || op.kind == "bearer") && cliUnmodelled(op.loc) {
			sc.anyUnmod = true
		}
	}
	sc.reuse = r.Chance(1, 4)
	if !fixedLeak {
		if r.Chance(1, 3) {
			sc.coAfter = 1 + r.Intn(2)
		}
		if r.Chance(1, 6) {
			sc.coBefore = 1
		}
		sc.spareCap = r.Bool()
		sc.mutateAfter = r.Chance(1, 4)
	}
	o.count(fmt.Sprintf("tickets.%d", len(sc.flows)))
	return sc
}

// hand-written scenarios run under every permutation in every seed: shapes the random pools reach only
// now and then (each is one "unusual but legal" configuration)
type cliFixed struct {
	name    string
	opts    []cliOpt
	hosts   []string
	tickets [][]string // per permission token: the locations of its third-party caveats
	modes   []string   // per flow
	reuse   bool
	coAfter int
	spare   bool
	mutate  bool
}

func cliFixedScenarios(r *Rng, o *Out, thorough bool) []*cliScenario {
	au := func(loc, cred string) cliOpt { return cliOpt{kind: "auth", loc: loc, cred: cred} }
	ht := func(id, tid int) cliOpt { return cliOpt{kind: "http", id: id, tid: tid} }
	const T = "https://tp.example"
	fixed := []cliFixed{
		{name: "ignored-second-in-list-and-case-variant", hosts: []string{"tp.example"}, reuse: true,
			opts:    []cliOpt{au(T, "Bearer tok0"), ht(1, 10), {kind: "ign", locs: []string{"HTTPS://TP.EXAMPLE", "https://ignored.example", ""}}},
			tickets: [][]string{{T, "https://ignored.example"}}, modes: []string{"immediate", "immediate"}},
		{name: "two-callbacks", hosts: []string{"tp.example"},
			opts:    []cliOpt{au(T, "Bearer tok0"), ht(1, 10), {kind: "cb", ok: true}, {kind: "cb", ok: false}},
			tickets: [][]string{{T}}, modes: []string{"ui"}},
		{name: "init-on-lookalikes", hosts: []string{"tp.example"}, reuse: true,
			opts:    []cliOpt{au(T, "Bearer tok0"), ht(1, -1)},
			tickets: [][]string{{"https://www.tp.example", "https://tp.example.evil.org"}, {"https://tp.example@evil.org", "https://TP.example/", "https://tp.example:8443/x"}},
			modes:   []string{"immediate", "poll", "immediate", "immediate", "probe"}},
		{name: "blank-credentials", hosts: []string{"tp.example", "auth.fly.io"},
			opts:    []cliOpt{au(T, " "), {kind: "bearer", loc: "https://auth.fly.io", cred: ""}, au("https://localhost", ""), ht(1, 10)},
			tickets: [][]string{{T, "https://auth.fly.io", "https://localhost"}}, modes: []string{"immediate", "pollredir", "immediate"}},
		{name: "hostless-locations", hosts: []string{"tp.example"},
			opts:    []cliOpt{au("", "Bearer tokE"), au("//tp.example", "Bearer tokS"), au("tp.example:443", "Bearer tokP"), ht(1, 10)},
			tickets: [][]string{{"", "//tp.example"}, {"tp.example:443", T, "https:///x"}}, modes: []string{"immediate", "immediate", "immediate", "poll", "immediate"}},
		{name: "one-client-twice-one-transport-twice", hosts: []string{"tp.example"},
			opts:    []cliOpt{au(T, "Bearer tok0"), ht(1, 10), ht(1, 10), ht(2, 10)},
			tickets: [][]string{{T}}, modes: []string{"probe"}},
		{name: "doubled-slash-location", hosts: []string{"tp.example"},
			opts:    []cliOpt{au(T+"//", "Bearer tok0"), ht(1, 10)},
			tickets: [][]string{{T + "//", T + "/"}}, modes: []string{"immediate", "immediate"}},
		{name: "one-value-twice-around-another", hosts: []string{"tp.example"},
			opts:    []cliOpt{au(T, "Bearer first"), au(T+":8443", "Bearer second"), {kind: "auth", loc: T, cred: "Bearer first", sameAs: 1}, ht(1, 10)},
			tickets: [][]string{{T}}, modes: []string{"pollredir"}},
		// a shared defaults list (grown with append) as ONE option value for several clients, each adding an entry of its own
		{name: "shared-ignore-defaults-several-clients", hosts: []string{"tp.example"}, coAfter: 2, spare: true,
			opts:    []cliOpt{au(T, "Bearer tok0"), ht(1, 10), {kind: "ign", locs: []string{"https://ignored.example", "https://never-seen.example"}}, {kind: "ign", locs: []string{"https://own-a.example"}}},
			tickets: [][]string{{T, "https://own-a.example", "https://ignored.example"}}, modes: []string{"immediate", "immediate", "immediate"}},
		// the caller re-uses its list after NewClient
		{name: "caller-overwrites-ignore-list", hosts: []string{"tp.example"}, mutate: true, reuse: true,
			opts:    []cliOpt{au(T, "Bearer tok0"), ht(1, 10), {kind: "ign", locs: []string{"https://never-seen.example", "https://ignored.example"}}},
			tickets: [][]string{{T, "https://ignored.example"}}, modes: []string{"immediate", "immediate"}},
		{name: "caller-appends-to-ignore-list", hosts: []string{"tp.example"}, mutate: true, spare: true,
			opts:    []cliOpt{au(T, "Bearer tok0"), ht(1, 10), {kind: "ign", locs: []string{"https://never-seen.example"}}, {kind: "ign", locs: []string{"https://ignored.example"}}},
			tickets: [][]string{{T, "https://ignored.example"}}, modes: []string{"immediate", "immediate"}},
	}
	var out []*cliScenario
	for _, fx := range fixed {
		sc := &cliScenario{thorough: thorough, opts: fx.opts, hosts: fx.hosts, reuse: fx.reuse, coAfter: fx.coAfter, spareCap: fx.spare, mutateAfter: fx.mutate}
		kas := map[string]macaroon.EncryptionKey{}
		var specs [][]cliTicketSpec
		for _, ls := range fx.tickets {
			var ts []cliTicketSpec
			for _, l := range ls {
				if _, ok := kas[l]; !ok {
					kas[l] = macaroon.NewEncryptionKey()
				}
				ts = append(ts, cliTicketSpec{loc: l, ka: kas[l]})
			}
			specs = append(specs, ts)
		}
		sc.buildHeader(r, o, specs, false)
		for i, f := range sc.flows {
			sc.genScript(r, o, f, fx.modes[i])
			for _, c := range f.script {
				for _, u := range c.urls() {
					sc.anyUnmod = sc.anyUnmod || cliUnmodelled(u)
				}
			}
		}
		for _, op := range sc.opts {
			sc.hasCB = sc.hasCB || op.kind == "cb"
		}
		o.count("fixed." + fx.name)
		out = append(out, sc)
	}
	return out
}

// ---------- URL parsing lines ----------

func cliURLHost(s string) string {
	if cliUnmodelled(s) {
		return "unmodelled"
	}
	u, err := url.Parse(s)
	if err != nil {
		return "err"
	}
	b := func(x bool) int {
		if x {
			return 1
		}
		return 0
	}
	return fmt.Sprintf("host:%s,abs:%d,user:%d", hs(u.Hostname()), b(u.IsAbs()), b(u.User != nil))
}

// the key WithAuthentication computes (same three stdlib calls as the library makes)
func cliURLKey(s string) string {
	if cliUnmodelled(s) {
		return "unmodelled"
	}
	if u, err := url.Parse(s); err == nil && u.IsAbs() {
		return "key:" + hs(u.Hostname())
	}
	return "key:" + hs(s)
}

var cliMutChars = []byte("@:/?#[]%. \\-+~!$&'()*,;=<>\"_0a9Z|^`{}\x7f\x01")

func cliMutate(r *Rng, s string) string {
	b := []byte(s)
	for n := 1 + r.Intn(3); n > 0; n-- {
		switch r.Intn(4) {
		case 0:
			if len(b) > 0 {
				i := r.Intn(len(b))
				b = append(b[:i], b[i+1:]...)
			}
		case 1:
			i := r.Intn(len(b) + 1)
			b = append(b[:i:i], append([]byte{pick(r, cliMutChars)}, b[i:]...)...)
		case 2:
			if len(b) > 0 {
				b[r.Intn(len(b))] = pick(r, cliMutChars)
			}
		default:
			if len(b) > 1 {
				i, j := r.Intn(len(b)), r.Intn(len(b))
				b[i], b[j] = b[j], b[i]
			}
		}
	}
	return string(b)
}

func famClientURLs(r *Rng, o *Out, n int) {
	emit := func(s string) {
		res := cliURLHost(s)
		o.count("url." + strings.SplitN(res, ":", 2)[0])
		o.emit("(url.host "+hs(s)+")", res)
		o.emit("(url.key "+hs(s)+")", cliURLKey(s))
	}
	fixed := []string{"", "*", ":", "://", "//", "///", "http:", "http:/", "http://", "https://a", "https://a/", "https://a:", "https://a:1", "https://a:x",
		"https://[::1]", "https://[::1]:", "https://[::1]:80", "https://[::1", "https://::1]", "https://[]", "https://[", "https://[]:1", "https://[::1]x", "https://[a]b]:1",
		"https://a@b@c/", "https://@/", "https://@a", "https://a@", "https://a:b:c@d:1/", "https://a:b:1", "https://a/%zz", "https://a/%4", "https://a/%41", "https://a#%zz", "https://a#%41",
		"https://a?%zz", "https://us%41er@a/", "https://us%4@a/", "https://a\x01/", "https://a#\x01", "1http://a", "h+t-t.p://a", "+http://a", "http//a:b", "a:b", "a/b:c", "/a:b",
		"mailto:user@tp.example", "https:tp.example", "https:/tp.example", "https:///tp.example", "https:////tp.example", "//tp.example:80/x", "///tp.example", "tp.example:80", "tp.example:80/x",
		"https://tp.example?", "https://tp.example??", "https://tp.example?#", "https://tp.example#?", "https://tp.example/?/@evil", "https://tp.example#/@evil", "https://tp.example?@evil", "https://tp.example/@evil",
		"https://evil?@tp.example", "https://evil#@tp.example", "https://evil/@tp.example", "https://tp.example\u00e9/", "https://\u00e9@tp.example/", "https://tp.example/\u00e9", "https://tp.example:\u0661/",
		"https://a%25b/", "https://[fe80::1%25en0]/", "https://a/b%", "\xff", "https://a\xff/", "https://tp.example./", "https://.tp.example/", "https://TP.EXAMPLE/", "https://a_b/", "https://a~!$&'()*+,;=/", "https://a<b>\"/", "https://a|b/", "https://a{b}/", "https://a^b/", "https://a`b/",
		// round 17: the degenerate location shapes and address spellings of the widened pools
		" https://a", "https://a ", "a:443", "localhost:8080", "127.0.0.1:80", "[::1]:80", "//a", "//a:1/x", "https://a//", "https://a//b", "https://a?x=1/.well-known/macfly/3p", "https://a#f/.well-known/macfly/3p",
		"https://127.1/", "https://0x7f.0.0.1/", "https://2130706433/", "https://[::ffff:127.0.0.1]/", "https://[::0001]/", "https://tp.example\u3002evil.org/", "https://www.tp.example/", "https://WWW.tp.example/",
		"ftp://a", "ftp://a:21/x", "file:///etc/passwd", "https://a/../b", "https://u:p@a", "https://u:p@a:8443/x?y#z", "https://t\u00e9st.example/", "https://T\u00c9ST.example/"}
	for _, s := range fixed {
		emit(s)
	}
	for i := 0; i < n; i++ {
		t := pick(r, cliHostPool)
		u, name := cliVariant(r, t, r.Intn(cliNVariants), fmt.Sprintf("u%d", i), r.Bool())
		o.count("urlvariant." + name)
		emit(u)
		for j := 0; j < 4; j++ {
			emit(cliMutate(r, u))
		}
		if r.Chance(1, 4) {
			emit(cliHostOfLocForm(pick(r, cliLocForms), t))
		}
	}
}

func famClient(r *Rng, o *Out, tier string) {
	// phase A: every permutation of the option list; phase B: many more scenarios (URL
	// variants, flow shapes), three sampled permutations each
	// NewRng(seed) starts at seed*gamma: the streams of neighbouring seeds are shifts of one
	// another and re-synchronise; restart from a mixed state so that seeds are independent
	r = &Rng{s: r.U64() ^ 0xC20C20C20C20C20}
	nA, nB, nurl := 22, 420, 400
	if tier == "thorough" {
		nA, nB, nurl = 200, 5000, 6000
	}
	famClientURLs(r, o, nurl)
	runOne := func(sc *cliScenario, p []int) {
		op := sc.opLine(p)
		if sc.anyUnmod {
			o.count("skipped.unmodelled")
			o.emit(op, "unmodelled")
			return
		}
		res := sc.run(o, p)
		hasIgn := false
		for _, op := range sc.opts {
			hasIgn = hasIgn || op.kind == "ign"
		}
		if sc.coBefore > 0 {
			o.count("build.co-client.before")
		}
		if sc.coAfter > 0 {
			o.count(fmt.Sprintf("build.co-client.after.%d", sc.coAfter))
		}
		if hasIgn && sc.spareCap {
			o.count("build.ign.spare-capacity")
		}
		if hasIgn && sc.mutateAfter {
			o.count("build.ign.caller-overwrites-and-appends-after-NewClient")
		}
		o.count("run")
		switch {
		case strings.HasPrefix(res, "panic"):
			o.count("res.panic")
		case strings.Contains(res, "err:1"):
			o.count("res.err")
		default:
			o.count("res.ok")
		}
		nreq := strings.Count(res, " cred:") + strings.Count(res, " none") + strings.Count(res, " basic")
		o.stats["requests.total"] += nreq
		o.stats["requests.with-credential"] += strings.Count(res, " cred:")
		o.stats["requests.basic-from-userinfo"] += strings.Count(res, " basic")
		o.emit(op, res)
	}
	for _, sc := range cliFixedScenarios(r, o, tier == "thorough") {
		for _, p := range cliPerms(len(sc.opts)) {
			runOne(sc, p)
		}
	}
	for i := 0; i < nA; i++ {
		// every permutation is spent on scenarios in which at least one flow starts (the others are in phase B)
		var sc *cliScenario
		for try := 0; ; try++ {
			tmp := &Out{stats: map[string]int{}}
			sc = genCliScenario(r, tmp, i, tier == "thorough")
			starts := false
			all := make([]int, len(sc.opts))
			for k := range all {
				all[k] = k
			}
			for _, f := range sc.flows {
				starts = starts || !cliIgnored(sc, all, f.loc)
			}
			if starts || try >= 20 {
				for k, v := range tmp.stats {
					o.stats[k] += v
				}
				break
			}
			o.count("phaseA.regenerated-no-flow-starts")
		}
		perms := cliPerms(len(sc.opts))
		o.count(fmt.Sprintf("perms.all.%d", len(perms)))
		for _, p := range perms {
			runOne(sc, p)
		}
	}
	for i := 0; i < nB; i++ {
		sc := genCliScenario(r, o, 1000+i, tier == "thorough")
		perms := cliPerms(len(sc.opts))
		for j := 0; j < 3 && j < len(perms); j++ {
			runOne(sc, perms[r.Intn(len(perms))])
		}
	}
}
