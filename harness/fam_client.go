package main

// Family client (C20): the discharge client of tp/client.go against an in-process scripted
// third party.
//
// One line = one call of (*tp.Client).FetchDischargeTokens on a client built from one
// permutation of an option list (WithHTTP / WithAuthentication / WithBearerAuthentication /
// WithIgnoredThirdParties / WithUserURLCallback; WithPollingBackoff(1ms) always last).
// Tokens are real (macaroon.New + Add3P), the scripted third party answers with real
// discharges (macaroon.DischargeTicket).  The recording http.RoundTripper plays, per ticket,
// the scripted answers in order and records every request (URL, Authorization, which
// transport and which http.Client carried it).  Observable: per flow the request list
// (P-observable: which configured credential each URL received), the returned header
// (kept tokens in order, collected discharges as a multiset), the error bit.
//
// url.host / url.key lines send URL strings through net/url and through the model's parser.
//
// Lines whose URL strings are outside the modelled shapes (invalid UTF-8, '%' in the
// authority zone) are emitted with the observable "unmodelled" and counted, not compared.

import (
	"context"
	"encoding/base64"
	"encoding/json"
	"errors"
	"fmt"
	"io"
	"net/http"
	"net/url"
	"sort"
	"strings"
	"sync"
	"time"
	"unicode/utf8"

	"github.com/superfly/macaroon"
	"github.com/superfly/macaroon/tp"
)

func init() { families["client"] = famClient }

const cliFP = "https://fp.example"

// same rule as Macaroon.TP.pctInAuthorityZone (+ UTF-8 validity)
func cliUnmodelled(s string) bool {
	if !utf8.ValidString(s) {
		return true
	}
	slashes := 0
	for i := 0; i < len(s); i++ {
		c := s[i]
		if c == '?' || c == '#' {
			break
		}
		if c == '/' {
			if slashes >= 2 {
				break
			}
			slashes++
			continue
		}
		if c == '%' {
			return true
		}
	}
	return false
}

// ---------- scripted third party ----------

type cliResp struct {
	kind   string // fail acc redir json jsonui
	loc    string
	errS   string
	dis    bool
	poll   string
	uiPoll string
	uiUser string
	status int
	junk   bool // fail as a non-JSON body instead of a transport error
}

func (c cliResp) urls() []string {
	var us []string
	for _, s := range []string{c.loc, c.poll, c.uiPoll} {
		if s != "" {
			us = append(us, s)
		}
	}
	return us
}

func (c cliResp) sx(alias string) string {
	d := ""
	if c.dis {
		d = alias
	}
	switch c.kind {
	case "fail":
		return "(fail)"
	case "acc":
		return "(acc)"
	case "redir":
		return "(redir " + hs(c.loc) + ")"
	case "json":
		return fmt.Sprintf("(json %s %s %s)", hs(c.errS), hs(d), hs(c.poll))
	default:
		return fmt.Sprintf("(jsonui %s %s %s %s %s)", hs(c.errS), hs(d), hs(c.poll), hs(c.uiPoll), hs(c.uiUser))
	}
}

type cliFlow struct {
	n      int
	loc    string
	ticket []byte
	dis    string // real discharge token string
	script []cliResp
	next   int
	reqs   []string
	orig   map[string]string // canonical URL (as net/http prints it) → the string the script used
}

func (f *cliFlow) alias() string { return fmt.Sprintf("d%d", f.n) }

type cliWorld struct {
	mu       sync.Mutex
	byTicket map[string]*cliFlow
	byURL    map[string]*cliFlow
	orig     map[string]string
	via      map[int]bool
	jars     map[int]bool
	stray    []string
	userURLs int
}

func cliCanonForms(s string) []string {
	var out []string
	if u, err := url.Parse(s); err == nil {
		out = append(out, u.String())
	}
	if r, err := http.NewRequest("GET", s, nil); err == nil {
		out = append(out, r.URL.String())
	}
	if b, err := url.Parse("https://base.invalid/b"); err == nil {
		if u, err := b.Parse(s); err == nil {
			out = append(out, u.String())
		}
	}
	return out
}

func (w *cliWorld) register(f *cliFlow, s string, get bool) {
	for _, c := range cliCanonForms(s) {
		if _, ok := w.orig[c]; !ok {
			w.orig[c] = s
		}
		if _, ok := f.orig[c]; !ok {
			f.orig[c] = s
		}
		if get {
			if _, ok := w.byURL[c]; !ok {
				w.byURL[c] = f
			}
		}
	}
}

func cliInitURL(loc string) string {
	if strings.HasSuffix(loc, "/") {
		return loc + ".well-known/macfly/3p"
	}
	return loc + "/.well-known/macfly/3p"
}

type cliTransport struct {
	id int
	w  *cliWorld
}

func cliAuthClass(r *http.Request) string {
	h := r.Header.Get("Authorization")
	if h == "" {
		return "none"
	}
	if u := r.URL.User; u != nil {
		pw, _ := u.Password()
		if h == "Basic "+base64.StdEncoding.EncodeToString([]byte(u.Username()+":"+pw)) {
			return "basic"
		}
	}
	return "cred:" + hs(h)
}

func (t *cliTransport) RoundTrip(r *http.Request) (*http.Response, error) {
	w := t.w
	var body []byte
	if r.Body != nil {
		body, _ = io.ReadAll(r.Body)
		r.Body.Close()
	}
	w.mu.Lock()
	defer w.mu.Unlock()
	w.via[t.id] = true
	canon := r.URL.String()
	var f *cliFlow
	kind := "P"
	if r.Method == http.MethodPost {
		kind = "I"
		var jr struct {
			Ticket []byte `json:"ticket"`
		}
		json.Unmarshal(body, &jr)
		f = w.byTicket[string(jr.Ticket)]
	} else {
		f = w.byURL[canon]
	}
	orig, ok := w.orig[canon]
	if f != nil {
		if o2, ok2 := f.orig[canon]; ok2 {
			orig, ok = o2, true
		}
	}
	if !ok {
		orig = "?" + canon
	}
	hop := 0
	for p := r.Response; p != nil && p.Request != nil && hop < 20; p = p.Request.Response {
		hop++
	}
	rec := fmt.Sprintf("%s%d %s %s", kind, hop, hs(orig), cliAuthClass(r))
	if f == nil {
		w.stray = append(w.stray, rec)
		return nil, errors.New("stray request")
	}
	f.reqs = append(f.reqs, rec)
	idx := f.next
	f.next++
	if idx >= len(f.script) {
		return nil, errors.New("script exhausted")
	}
	c := f.script[idx]
	mk := func(code int, hdr http.Header, body string) *http.Response {
		if hdr == nil {
			hdr = http.Header{}
		}
		return &http.Response{StatusCode: code, Status: fmt.Sprintf("%d x", code), Proto: "HTTP/1.1", ProtoMajor: 1, ProtoMinor: 1,
			Header: hdr, Body: io.NopCloser(strings.NewReader(body)), ContentLength: int64(len(body)), Request: r}
	}
	switch c.kind {
	case "fail":
		if c.junk {
			return mk(200, nil, "<html>not json</html>"), nil
		}
		return nil, errors.New("scripted transport failure")
	case "acc":
		return mk(http.StatusAccepted, nil, ""), nil
	case "redir":
		return mk(http.StatusTemporaryRedirect, http.Header{"Location": []string{c.loc}}, ""), nil
	}
	jr := map[string]any{}
	if c.errS != "" {
		jr["error"] = c.errS
	}
	if c.dis {
		jr["discharge"] = f.dis
	}
	if c.poll != "" {
		jr["poll_url"] = c.poll
	}
	if c.kind == "jsonui" {
		ui := map[string]any{}
		if c.uiPoll != "" {
			ui["poll_url"] = c.uiPoll
		}
		if c.uiUser != "" {
			ui["user_url"] = c.uiUser
		}
		jr["user_interactive"] = ui
	}
	b, _ := json.Marshal(jr)
	st := c.status
	if st == 0 {
		st = 200
	}
	return mk(st, http.Header{"Content-Type": []string{"application/json"}}, string(b)), nil
}

type cliJar struct {
	id int
	w  *cliWorld
}

func (j *cliJar) SetCookies(u *url.URL, cookies []*http.Cookie) {}
func (j *cliJar) Cookies(u *url.URL) []*http.Cookie {
	j.w.mu.Lock()
	j.w.jars[j.id] = true
	j.w.mu.Unlock()
	return nil
}

// ---------- options ----------

type cliOpt struct {
	kind string // http auth bearer ign cb other
	id   int
	tid  int
	loc  string
	cred string
	locs []string
	ok   bool
}

func (o cliOpt) sx() string {
	switch o.kind {
	case "http":
		if o.tid < 0 {
			return fmt.Sprintf("(http %d nil)", o.id)
		}
		return fmt.Sprintf("(http %d %d)", o.id, o.tid)
	case "auth":
		return fmt.Sprintf("(auth %s %s)", hs(o.loc), hs(o.cred))
	case "bearer":
		return fmt.Sprintf("(auth %s %s)", hs(o.loc), hs("Bearer "+o.cred))
	case "ign":
		parts := []string{"(ign"}
		for _, l := range o.locs {
			parts = append(parts, hs(l))
		}
		return strings.Join(parts, " ") + ")"
	case "cb":
		if o.ok {
			return "(cb 1)"
		}
		return "(cb 0)"
	}
	return "(other)"
}

func (o cliOpt) build(w *cliWorld) tp.ClientOption {
	switch o.kind {
	case "http":
		h := &http.Client{Transport: &cliTransport{o.tid, w}, Jar: &cliJar{o.id, w}}
		if o.tid < 0 {
			// an http.Client WITHOUT a transport of its own (say, only a timeout or a jar set): requests then go
			// through http.DefaultTransport, which this scenario replaces by a recording one
			h.Transport = nil
			http.DefaultTransport = &cliTransport{-1, w}
		}
		// the caller's *http.Client is shared: another discharge client was built on it before, with its
		// own credentials for every host of the pool, options in the order auth -> http.  A client must
		// never pick up credentials configured on another client (nor write into the caller's http.Client).
		var decoy []tp.ClientOption
		for _, host := range cliHostPool {
			decoy = append(decoy, tp.WithAuthentication("https://"+host, "Bearer DECOY-OTHER-CLIENT"))
		}
		decoy = append(decoy, tp.WithHTTP(h))
		_ = tp.NewClient(cliFP, decoy...)
		return tp.WithHTTP(h)
	case "auth":
		return tp.WithAuthentication(o.loc, o.cred)
	case "bearer":
		return tp.WithBearerAuthentication(o.loc, o.cred)
	case "ign":
		return tp.WithIgnoredThirdParties(o.locs...)
	case "cb":
		ok := o.ok
		return tp.WithUserURLCallback(func(ctx context.Context, u string) error {
			w.mu.Lock()
			w.userURLs++
			w.mu.Unlock()
			if ok {
				return nil
			}
			return errors.New("user declined")
		})
	}
	return tp.WithPollingBackoff(func(time.Duration) time.Duration { return time.Millisecond })
}

// ---------- URL variants ----------

var cliHostPool = []string{"tp.example", "auth.fly.io", "api.tp.example", "localhost", "127.0.0.1", "[::1]", "TP.Example", "xn--tp-example.test"}

const cliNVariants = 30

// cliVariant builds the k-th look-alike of trusted host t; tag makes the URL unique.
// redirect: the URL is used as a Location (relative forms are outside the model).
func cliVariant(r *Rng, t string, k int, tag string, redirect bool) (string, string) {
	ip6 := strings.HasPrefix(t, "[")
	bare := strings.Trim(t, "[]")
	evil := "evil.org"
	switch k {
	case 0:
		return "https://" + t + "/" + tag, "same"
	case 1:
		return "https://" + t + ":8443/" + tag, "port"
	case 2:
		return "https://" + t + ":/" + tag, "emptyport"
	case 3:
		return "http://" + t + "/" + tag, "http"
	case 4:
		return "HTTPS://" + t + "/" + tag, "upperscheme"
	case 5:
		if ip6 {
			return "https://[::2]/" + tag, "ip6.other"
		}
		return "https://evil." + t + "/" + tag, "sub"
	case 6:
		if i := strings.IndexByte(t, '.'); i >= 0 && !ip6 {
			return "https://" + t[i+1:] + "/" + tag, "super"
		}
		return "https://example/" + tag, "super"
	case 7:
		if ip6 {
			return "https://[::1%25eth0]/" + tag, "ip6.zone"
		}
		return "https://" + t + "." + evil + "/" + tag, "suffix"
	case 8:
		if ip6 {
			return "https://[0:0:0:0:0:0:0:1]/" + tag, "ip6.long"
		}
		return "https://evil-" + t + "/" + tag, "dash"
	case 9:
		return "https://" + bare + "@" + evil + "/" + tag, "userinfo"
	case 10:
		return "https://user:" + bare + "@" + evil + "/" + tag, "userinfo.pw"
	case 11:
		return "https://" + evil + "/" + tag + "/" + t, "path"
	case 12:
		return "https://" + evil + "/" + tag + "?h=" + t, "query"
	case 13:
		return "https://" + evil + "?" + tag + "&u=https://" + t + "/", "query.nopath"
	case 14:
		return "https://" + evil + "/" + tag + "#" + t, "frag"
	case 15:
		return "https://" + evil + "/" + tag + "#@" + t + "/", "frag.at"
	case 16:
		return "https://" + strings.ToUpper(t) + "/" + tag, "upper"
	case 17:
		mixed := []byte(t)
		for i := range mixed {
			if i%2 == 0 && mixed[i] >= 'a' && mixed[i] <= 'z' {
				mixed[i] -= 32
			} else if i%2 == 1 && mixed[i] >= 'A' && mixed[i] <= 'Z' {
				mixed[i] += 32
			}
		}
		return "https://" + string(mixed) + "/" + tag, "mixedcase"
	case 18:
		if ip6 {
			return "https://[::1]./" + tag, "ip6.dot"
		}
		return "https://" + t + "./" + tag, "trailingdot"
	case 19:
		return "https://user:pw@" + t + "/" + tag, "userinfo.trusted"
	case 20:
		return "https://" + evil + "\\@" + t + "/" + tag, "backslash"
	case 21:
		return "https://" + t + " /" + tag, "space"
	case 22:
		return "https:///" + t + "/" + tag, "emptyhost"
	case 23:
		return "https://" + t + "?" + tag, "nopath.query"
	case 24:
		return "https://" + t + "#" + tag, "nopath.frag"
	case 25:
		return "https://" + bare + ":pw@" + evil + ":8443/" + tag, "userinfo.port"
	case 26:
		if redirect {
			return "https://" + t + ":80/" + tag, "port80"
		}
		return t + "/" + tag, "noscheme"
	case 27:
		if redirect {
			return "ftp://" + t + "/" + tag, "ftp"
		}
		return "//" + t + "/" + tag, "schemerel"
	case 28:
		if redirect {
			return "https://" + evil + "/" + tag + "/@" + t, "path.at"
		}
		// Cyrillic а in place of the first a (or appended)
		if i := strings.IndexByte(t, 'a'); i >= 0 && !ip6 {
			return "https://" + t[:i] + "\u0430" + t[i+1:] + "/" + tag, "idn"
		}
		return "https://" + bare + "\u0430.test/" + tag, "idn"
	default:
		if r.Chance(1, 3) {
			return "https://" + strings.Replace(bare, ".", "%2e", 1) + "/" + tag, "pcthost"
		}
		return "https://" + evil + ":443@" + t + ":/" + tag, "userinfo.looks.like.port"
	}
}

// ---------- scenario ----------

type cliScenario struct {
	opts     []cliOpt
	hosts    []string // trusted host texts (of the configured pairs)
	scheme   string
	header   string
	kept     []string // aliases, in order
	alias    map[string]string
	flows    []*cliFlow
	hasCB    bool
	anyUnmod bool
}

func (sc *cliScenario) opLine(perm []int) string {
	var sb strings.Builder
	sb.WriteString("(client.flow (opts")
	for _, i := range perm {
		sb.WriteString(" " + sc.opts[i].sx())
	}
	sb.WriteString(" (other)) (hdr ")
	if sc.scheme != "" {
		sb.WriteString("1")
	} else {
		sb.WriteString("0")
	}
	for _, k := range sc.kept {
		sb.WriteString(" " + hs(k))
	}
	sb.WriteString(") (tickets")
	for _, f := range sc.flows {
		fmt.Fprintf(&sb, " (t %s %d (", hs(f.loc), f.n)
		for i, c := range f.script {
			if i > 0 {
				sb.WriteString(" ")
			}
			sb.WriteString(c.sx(f.alias()))
		}
		sb.WriteString("))")
	}
	sb.WriteString("))")
	return sb.String()
}

func (sc *cliScenario) run(perm []int) string {
	w := &cliWorld{byTicket: map[string]*cliFlow{}, byURL: map[string]*cliFlow{}, orig: map[string]string{}, via: map[int]bool{}, jars: map[int]bool{}}
	flows := make([]*cliFlow, len(sc.flows))
	for i, f := range sc.flows {
		cp := *f
		cp.next, cp.reqs, cp.orig = 0, nil, map[string]string{}
		flows[i] = &cp
		w.byTicket[string(cp.ticket)] = &cp
		w.register(&cp, cliInitURL(cp.loc), false)
		for _, c := range cp.script {
			for _, u := range c.urls() {
				w.register(&cp, u, true)
			}
		}
	}
	var opts []tp.ClientOption
	for _, i := range perm {
		opts = append(opts, sc.opts[i].build(w))
	}
	opts = append(opts, cliOpt{kind: "other"}.build(w))
	// the same option VALUES were applied to another client before (a shared base-options slice for per-user
	// clients), followed there by that client's own credentials for every host of the pool: nothing configured on
	// the other client may reach this one
	{
		sibling := []tp.ClientOption{tp.WithHTTP(&http.Client{Transport: &cliTransport{0, w}})}
		for k, i := range perm {
			if sc.opts[i].kind == "auth" || sc.opts[i].kind == "bearer" {
				sibling = append(sibling, opts[k])
			}
		}
		for _, host := range cliHostPool {
			sibling = append(sibling, tp.WithBearerAuthentication("https://"+host, "SIBLING-CLIENT-SECRET"))
		}
		_ = tp.NewClient(cliFP, sibling...)
	}
	return guard(func() string {
		c := tp.NewClient(cliFP, opts...)
		ctx, cancel := context.WithTimeout(context.Background(), 10*time.Second)
		defer cancel()
		out, err := c.FetchDischargeTokens(ctx, sc.header)
		w.mu.Lock()
		defer w.mu.Unlock()
		if len(w.stray) > 0 {
			return "STRAY " + strings.Join(w.stray, ";")
		}
		flag, body := "0", out
		if strings.HasPrefix(out, "FlyV1 ") {
			flag, body = "1", out[6:]
		}
		var toks []string
		if body != "" {
			for _, t := range strings.Split(body, ",") {
				if a, ok := sc.alias[t]; ok {
					toks = append(toks, a)
				} else {
					toks = append(toks, "?"+hs(t))
				}
			}
		}
		nk := len(sc.kept)
		if nk > len(toks) {
			nk = len(toks)
		}
		rest := append([]string(nil), toks[nk:]...)
		sort.Strings(rest)
		got := map[string]bool{}
		for _, t := range rest {
			got[t] = true
		}
		var parts []string
		anyReq := false
		for _, f := range flows {
			if len(f.reqs) == 0 && !got[f.alias()] && cliIgnored(sc, perm, f.loc) {
				continue // never started: the model lists only started flows
			}
			o := "failed"
			if got[f.alias()] {
				o = "dis"
			}
			if len(f.reqs) > 0 {
				anyReq = true
			}
			parts = append(parts, fmt.Sprintf("f%d:%s[%s]", f.n, o, strings.Join(f.reqs, ";")))
		}
		parts = append(parts, fmt.Sprintf("hdr:%s:%s|%s", flag, strings.Join(toks[:nk], ","), strings.Join(rest, ",")))
		if err != nil {
			parts = append(parts, "err:1")
		} else {
			parts = append(parts, "err:0")
		}
		if anyReq {
			parts = append(parts, "via:"+cliIDs("t", w.via), "client:"+cliIDs("h", w.jars))
		} else {
			parts = append(parts, "via:-", "client:-")
		}
		return strings.Join(parts, " ")
	})
}

// a flow with no request may be an ignored one (not listed by the model) or one whose init
// URL does not parse (listed, empty); the harness knows which locations it asked to ignore
func cliIgnored(sc *cliScenario, perm []int, loc string) bool {
	for _, i := range perm {
		if sc.opts[i].kind == "ign" {
			for _, l := range sc.opts[i].locs {
				if l == loc {
					return true
				}
			}
		}
	}
	return false
}

func cliIDs(p string, m map[int]bool) string {
	var ids []int
	for k := range m {
		ids = append(ids, k)
	}
	sort.Ints(ids)
	var ss []string
	for _, i := range ids {
		if i < 0 {
			ss = append(ss, "default")
			continue
		}
		ss = append(ss, fmt.Sprintf("%s%d", p, i))
	}
	if len(ss) == 0 {
		return "-"
	}
	return strings.Join(ss, "+")
}

func cliPerms(n int) [][]int {
	var out [][]int
	a := make([]int, n)
	for i := range a {
		a[i] = i
	}
	var rec func(k int)
	rec = func(k int) {
		if k == n {
			out = append(out, append([]int(nil), a...))
			return
		}
		for i := k; i < n; i++ {
			a[k], a[i] = a[i], a[k]
			rec(k + 1)
			a[k], a[i] = a[i], a[k]
		}
	}
	rec(0)
	return out
}

var cliLocForms = []string{"https://%s", "https://%s/", "https://%s:8443", "http://%s/base/", "%s", "https://user@%s", "HTTPS://%s", "https://%s/p?q=1", "https://%s:", "https://%s./"}
var cliCreds = []string{"Bearer tokA", "FlyV1 fm2_abc", "secretB", "", "Bearer tokC"}

type cliTicketSpec struct {
	loc    string
	ka     macaroon.EncryptionKey
	preDis bool // already discharged in the caller's header
}

// build the caller's header: permission tokens with third-party caveats, existing discharges,
// an extraneous discharge, a foreign permission token, a non-macaroon token
func (sc *cliScenario) buildHeader(r *Rng, o *Out, specs [][]cliTicketSpec, extras bool) {
	sc.alias = map[string]string{}
	var toks []string
	key := macaroon.NewSigningKey()
	n := 0
	var late []string
	for pi, ts := range specs {
		m, err := macaroon.New([]byte{byte('a' + pi)}, cliFP, key)
		if err != nil {
			panic(err)
		}
		type pend struct {
			spec   cliTicketSpec
			ticket []byte
		}
		var ps []pend
		for _, s := range ts {
			if err := m.Add3P(s.ka, s.loc); err != nil {
				panic(err)
			}
			cs := m.UnsafeCaveats.Caveats
			ps = append(ps, pend{s, cs[len(cs)-1].(*macaroon.Caveat3P).Ticket})
		}
		tok, err := m.String()
		if err != nil {
			panic(err)
		}
		a := fmt.Sprintf("p%d", pi)
		sc.alias[tok] = a
		toks = append(toks, tok)
		sc.kept = append(sc.kept, a)
		for _, p := range ps {
			_, dm, err := macaroon.DischargeTicket(p.spec.ka, p.spec.loc, p.ticket)
			if err != nil {
				panic(err)
			}
			ds, err := dm.String()
			if err != nil {
				panic(err)
			}
			if p.spec.preDis {
				a := fmt.Sprintf("e%d", len(sc.alias))
				sc.alias[ds] = a
				o.count("hdr.existing-discharge")
				if r.Bool() {
					toks = append(toks, ds)
					sc.kept = append(sc.kept, a)
				} else {
					late = append(late, ds) // discharge placed after later permission tokens
				}
				continue
			}
			f := &cliFlow{n: n, loc: p.spec.loc, ticket: p.ticket, dis: ds}
			sc.alias[ds] = f.alias()
			sc.flows = append(sc.flows, f)
			n++
		}
	}
	for _, ds := range late {
		toks = append(toks, ds)
		sc.kept = append(sc.kept, sc.alias[ds])
	}
	if extras {
		// discharge of a ticket no permission token carries: dropped by the default filter
		m, _ := macaroon.New([]byte("z"), cliFP, key)
		ka := macaroon.NewEncryptionKey()
		m.Add3P(ka, "https://other.example")
		cs := m.UnsafeCaveats.Caveats
		_, dm, _ := macaroon.DischargeTicket(ka, "https://other.example", cs[len(cs)-1].(*macaroon.Caveat3P).Ticket)
		ds, _ := dm.String()
		sc.alias[ds] = "x0"
		// permission token of another first party: dropped
		fm, _ := macaroon.New([]byte("y"), "https://elsewhere.example", macaroon.NewSigningKey())
		fm.Add3P(ka, "https://tp.example")
		fs, _ := fm.String()
		sc.alias[fs] = "x1"
		// non-macaroon token: kept
		sc.alias["opaque-token"] = "n0"
		pos := r.Intn(len(toks) + 1)
		ins := []string{ds, fs, "opaque-token"}
		toks = append(toks[:pos:pos], append(ins, toks[pos:]...)...)
		// kept list: the non-macaroon token sits where it was inserted
		var kept []string
		for _, t := range toks {
			a := sc.alias[t]
			if a == "x0" || a == "x1" {
				continue
			}
			kept = append(kept, a)
		}
		sc.kept = kept
		o.count("hdr.extras")
	}
	sc.scheme = pick(r, []string{"FlyV1 ", "FlyV1 ", "Bearer ", "bearer ", "flyv1 ", ""})
	o.count("hdr.scheme." + strings.TrimSpace(sc.scheme+"-"))
	sc.header = sc.scheme + strings.Join(toks, ",")
}

// script for one flow
func (sc *cliScenario) genScript(r *Rng, o *Out, f *cliFlow, mode string) {
	tagN := 0
	tag := func() string { tagN++; return fmt.Sprintf("f%dk%d", f.n, tagN) }
	trusted := func() string { return pick(r, sc.hosts) }
	variant := func(redirect bool) string {
		k := r.Intn(cliNVariants)
		u, name := cliVariant(r, trusted(), k, tag(), redirect)
		o.count("variant." + name)
		if redirect {
			o.count("variant-as.redirect")
		} else {
			o.count("variant-as.poll")
		}
		return u
	}
	final := func() cliResp {
		return cliResp{kind: "json", dis: true, status: pick(r, []int{200, 200, 201, 400})}
	}
	accs := func(n int) []cliResp {
		var out []cliResp
		for i := 0; i < n; i++ {
			out = append(out, cliResp{kind: "acc"})
		}
		return out
	}
	o.count("flow." + mode)
	switch mode {
	case "immediate":
		f.script = []cliResp{final()}
	case "probe": // redirect chain over look-alikes on the init request
		n := 1 + r.Intn(8)
		for i := 0; i < n; i++ {
			f.script = append(f.script, cliResp{kind: "redir", loc: variant(true)})
		}
		f.script = append(f.script, final())
	case "poll":
		f.script = []cliResp{{kind: "json", poll: variant(false), status: 201}}
		f.script = append(f.script, accs(r.Intn(3))...)
		f.script = append(f.script, final())
	case "pollredir": // redirect in the k-th poll iteration
		f.script = []cliResp{{kind: "json", poll: variant(false)}}
		f.script = append(f.script, accs(r.Intn(3))...)
		for i, n := 0, 1+r.Intn(3); i < n; i++ {
			f.script = append(f.script, cliResp{kind: "redir", loc: variant(true)})
		}
		if r.Bool() {
			f.script = append(f.script, accs(1)...)
			f.script = append(f.script, cliResp{kind: "redir", loc: variant(true)})
		}
		f.script = append(f.script, final())
	case "ui":
		f.script = []cliResp{{kind: "jsonui", uiPoll: variant(false), uiUser: variant(false)}}
		f.script = append(f.script, accs(r.Intn(2))...)
		f.script = append(f.script, final())
	case "uibad":
		f.script = []cliResp{{kind: "jsonui", uiPoll: pick(r, []string{"", variant(false)}), uiUser: ""}, final()}
	case "both": // discharge wins over poll_url and user_interactive
		f.script = []cliResp{{kind: "jsonui", dis: true, poll: variant(false), uiPoll: variant(false), uiUser: variant(false)}}
	case "pollwins": // poll_url wins over user_interactive
		f.script = []cliResp{{kind: "jsonui", poll: variant(false), uiPoll: variant(false), uiUser: variant(false)}, final()}
	case "error":
		f.script = []cliResp{{kind: "json", errS: "nope", dis: r.Bool(), status: 403}}
	case "pollerror":
		f.script = []cliResp{{kind: "json", poll: variant(false)}, {kind: "acc"}, {kind: "json", errS: "denied", dis: r.Bool()}}
	case "pollempty":
		f.script = []cliResp{{kind: "json", poll: variant(false)}, {kind: "json"}}
	case "fail":
		f.script = []cliResp{{kind: "fail", junk: r.Bool()}}
	case "pollfail":
		f.script = []cliResp{{kind: "json", poll: variant(false)}, {kind: "acc"}, {kind: "fail", junk: r.Bool()}}
	case "exhausted":
		f.script = nil
	case "init202":
		f.script = []cliResp{{kind: "acc"}, final()}
	case "empty":
		f.script = []cliResp{{kind: "json"}}
	case "loop": // more redirects than net/http follows
		u := variant(true)
		for i := 0; i < 12; i++ {
			f.script = append(f.script, cliResp{kind: "redir", loc: u})
		}
		f.script = append(f.script, final())
	case "leak.sub", "leak.port", "leak.other", "leak.first": // 202 then 307 away from a trusted poll host
		t := trusted()
		p := "https://" + t + "/" + tag()
		var target string
		switch mode {
		case "leak.sub", "leak.first":
			target = "https://evil." + strings.Trim(t, "[]") + "/" + tag()
		case "leak.port":
			target = "https://" + t + ":8443/" + tag()
		default:
			target = "https://unrelated.example/" + tag()
		}
		f.script = []cliResp{{kind: "json", poll: p}}
		if mode != "leak.first" {
			f.script = append(f.script, accs(1+r.Intn(2))...)
		}
		f.script = append(f.script, cliResp{kind: "redir", loc: target}, final())
	}
}

var cliModes = []string{"immediate", "probe", "probe", "probe", "poll", "poll", "pollredir", "pollredir", "ui", "ui", "uibad", "both", "pollwins",
	"error", "pollerror", "pollempty", "fail", "pollfail", "exhausted", "init202", "empty", "loop", "leak.sub", "leak.port", "leak.other", "leak.first"}

func cliHostOfLocForm(form, h string) string { return fmt.Sprintf(form, h) }

func genCliScenario(r *Rng, o *Out, idx int) *cliScenario {
	sc := &cliScenario{}
	fixedLeak := idx < 4 // the first scenarios are the fixed "202 then 307" cases
	// configured pairs
	np := 1 + r.Intn(3)
	if fixedLeak {
		np = 1
	}
	type pair struct{ loc, host string }
	var pairs []pair
	for i := 0; i < np; i++ {
		h := pick(r, cliHostPool)
		if fixedLeak {
			h = "tp.example"
		}
		if i > 0 && r.Chance(1, 4) {
			h = pairs[0].host // same host configured twice: last one wins
		}
		form := pick(r, cliLocForms)
		if r.Chance(1, 2) {
			form = cliLocForms[r.Intn(3)]
		}
		if fixedLeak {
			form = "https://%s"
		}
		loc := cliHostOfLocForm(form, h)
		pairs = append(pairs, pair{loc, h})
		cred := pick(r, cliCreds)
		if r.Chance(1, 2) || fixedLeak {
			cred = fmt.Sprintf("Bearer tok%d", i)
		}
		kind := "auth"
		if r.Chance(1, 3) && cred != "" {
			kind, cred = "bearer", fmt.Sprintf("b%d", i)
		}
		sc.opts = append(sc.opts, cliOpt{kind: kind, loc: loc, cred: cred})
		sc.hosts = append(sc.hosts, h)
		o.count("cfg.cred." + map[bool]string{true: "empty", false: "nonempty"}[cred == "" && kind == "auth"])
	}
	o.count(fmt.Sprintf("cfg.pairs.%d", np))
	// http clients
	nh := 1
	if len(sc.opts) <= 3 && r.Chance(1, 2) {
		nh = 2
	}
	for i := 0; i < nh; i++ {
		tid := 10 + r.Intn(3)*10 + i
		if r.Chance(1, 4) {
			tid = -1
			o.count("cfg.http.noTransport")
		}
		sc.opts = append(sc.opts, cliOpt{kind: "http", id: i + 1, tid: tid})
	}
	o.count(fmt.Sprintf("cfg.http.%d", nh))
	// tickets: locations mostly the configured ones
	extraLoc := "https://unconfigured.example"
	ignLoc := ""
	var locs []string
	for _, p := range pairs {
		locs = append(locs, p.loc)
	}
	withIgn := len(sc.opts) < 5 && r.Chance(1, 2) && !fixedLeak
	if withIgn {
		ignLoc = pick(r, append(locs, "https://ignored.example"))
		ign := []string{ignLoc}
		if r.Chance(1, 3) {
			ign = append(ign, "https://never-seen.example")
		}
		if r.Chance(1, 4) {
			ign = append(ign, ignLoc+"/") // a different string: ignores nothing of ignLoc
		}
		if r.Chance(1, 2) {
			// two ignore options (say a shared default list and the caller's own): both lists apply,
			// whichever comes first
			other := cliOpt{kind: "ign", locs: []string{pick(r, append(locs, "https://never-seen.example"))}}
			if r.Bool() {
				sc.opts = append(sc.opts, cliOpt{kind: "ign", locs: ign}, other)
			} else {
				sc.opts = append(sc.opts, other, cliOpt{kind: "ign", locs: ign})
			}
			o.count("cfg.ignored.twoOptions")
		} else {
			sc.opts = append(sc.opts, cliOpt{kind: "ign", locs: ign})
		}
		o.count("cfg.ignored")
	}
	withCB := len(sc.opts) < 5 && r.Chance(2, 3) && !fixedLeak
	if withCB {
		sc.opts = append(sc.opts, cliOpt{kind: "cb", ok: r.Chance(4, 5)})
		sc.hasCB = true
		o.count("cfg.callback")
	}
	o.count(fmt.Sprintf("cfg.opts.%d", len(sc.opts)))

	kas := map[string]macaroon.EncryptionKey{}
	kaFor := func(l string) macaroon.EncryptionKey {
		if k, ok := kas[l]; ok {
			return k
		}
		kas[l] = macaroon.NewEncryptionKey()
		return kas[l]
	}
	nperm := 1 + r.Intn(2)
	var specs [][]cliTicketSpec
	for p := 0; p < nperm; p++ {
		var ts []cliTicketSpec
		nt := 1 + r.Intn(2)
		if fixedLeak {
			nt = 1
		}
		for i := 0; i < nt; i++ {
			l := pick(r, locs)
			if r.Chance(1, 6) && !fixedLeak {
				l = extraLoc
			}
			if ignLoc != "" && r.Chance(1, 3) {
				l = ignLoc
			}
			dup := false
			for _, t := range ts {
				dup = dup || t.loc == l // one third-party caveat per location and token (Add refuses more)
			}
			if dup {
				continue
			}
			ts = append(ts, cliTicketSpec{loc: l, ka: kaFor(l), preDis: r.Chance(1, 6) && !fixedLeak})
		}
		specs = append(specs, ts)
	}
	if fixedLeak {
		specs = specs[:1]
	}
	sc.buildHeader(r, o, specs, r.Chance(1, 3))
	for _, f := range sc.flows {
		mode := pick(r, cliModes)
		if fixedLeak {
			mode = []string{"leak.sub", "leak.port", "leak.other", "leak.first"}[idx]
		}
		sc.genScript(r, o, f, mode)
		for _, c := range f.script {
			for _, u := range c.urls() {
				if cliUnmodelled(u) {
					sc.anyUnmod = true
				}
			}
		}
		if cliUnmodelled(f.loc) {
			sc.anyUnmod = true
		}
	}
	for _, op := range sc.opts {
		if (op.kind == "auth" || op.kind == "bearer") && cliUnmodelled(op.loc) {
			sc.anyUnmod = true
		}
	}
	o.count(fmt.Sprintf("tickets.%d", len(sc.flows)))
	return sc
}

// ---------- URL parsing lines ----------

func cliURLHost(s string) string {
	if cliUnmodelled(s) {
		return "unmodelled"
	}
	u, err := url.Parse(s)
	if err != nil {
		return "err"
	}
	b := func(x bool) int {
		if x {
			return 1
		}
		return 0
	}
	return fmt.Sprintf("host:%s,abs:%d,user:%d", hs(u.Hostname()), b(u.IsAbs()), b(u.User != nil))
}

// the key WithAuthentication computes (same three stdlib calls as the library makes)
func cliURLKey(s string) string {
	if cliUnmodelled(s) {
		return "unmodelled"
	}
	if u, err := url.Parse(s); err == nil && u.IsAbs() {
		return "key:" + hs(u.Hostname())
	}
	return "key:" + hs(s)
}

var cliMutChars = []byte("@:/?#[]%. \\-+~!$&'()*,;=<>\"_0a9Z|^`{}\x7f\x01")

func cliMutate(r *Rng, s string) string {
	b := []byte(s)
	for n := 1 + r.Intn(3); n > 0; n-- {
		switch r.Intn(4) {
		case 0:
			if len(b) > 0 {
				i := r.Intn(len(b))
				b = append(b[:i], b[i+1:]...)
			}
		case 1:
			i := r.Intn(len(b) + 1)
			b = append(b[:i:i], append([]byte{pick(r, cliMutChars)}, b[i:]...)...)
		case 2:
			if len(b) > 0 {
				b[r.Intn(len(b))] = pick(r, cliMutChars)
			}
		default:
			if len(b) > 1 {
				i, j := r.Intn(len(b)), r.Intn(len(b))
				b[i], b[j] = b[j], b[i]
			}
		}
	}
	return string(b)
}

func famClientURLs(r *Rng, o *Out, n int) {
	emit := func(s string) {
		res := cliURLHost(s)
		o.count("url." + strings.SplitN(res, ":", 2)[0])
		o.emit("(url.host "+hs(s)+")", res)
		o.emit("(url.key "+hs(s)+")", cliURLKey(s))
	}
	fixed := []string{"", "*", ":", "://", "//", "///", "http:", "http:/", "http://", "https://a", "https://a/", "https://a:", "https://a:1", "https://a:x",
		"https://[::1]", "https://[::1]:", "https://[::1]:80", "https://[::1", "https://::1]", "https://[]", "https://[", "https://[]:1", "https://[::1]x", "https://[a]b]:1",
		"https://a@b@c/", "https://@/", "https://@a", "https://a@", "https://a:b:c@d:1/", "https://a:b:1", "https://a/%zz", "https://a/%4", "https://a/%41", "https://a#%zz", "https://a#%41",
		"https://a?%zz", "https://us%41er@a/", "https://us%4@a/", "https://a\x01/", "https://a#\x01", "1http://a", "h+t-t.p://a", "+http://a", "http//a:b", "a:b", "a/b:c", "/a:b",
		"mailto:user@tp.example", "https:tp.example", "https:/tp.example", "https:///tp.example", "https:////tp.example", "//tp.example:80/x", "///tp.example", "tp.example:80", "tp.example:80/x",
		"https://tp.example?", "https://tp.example??", "https://tp.example?#", "https://tp.example#?", "https://tp.example/?/@evil", "https://tp.example#/@evil", "https://tp.example?@evil", "https://tp.example/@evil",
		"https://evil?@tp.example", "https://evil#@tp.example", "https://evil/@tp.example", "https://tp.example\u00e9/", "https://\u00e9@tp.example/", "https://tp.example/\u00e9", "https://tp.example:\u0661/",
		"https://a%25b/", "https://[fe80::1%25en0]/", "https://a/b%", "\xff", "https://a\xff/", "https://tp.example./", "https://.tp.example/", "https://TP.EXAMPLE/", "https://a_b/", "https://a~!$&'()*+,;=/", "https://a<b>\"/", "https://a|b/", "https://a{b}/", "https://a^b/", "https://a`b/"}
	for _, s := range fixed {
		emit(s)
	}
	for i := 0; i < n; i++ {
		t := pick(r, cliHostPool)
		u, name := cliVariant(r, t, r.Intn(cliNVariants), fmt.Sprintf("u%d", i), r.Bool())
		o.count("urlvariant." + name)
		emit(u)
		for j := 0; j < 4; j++ {
			emit(cliMutate(r, u))
		}
		if r.Chance(1, 4) {
			emit(cliHostOfLocForm(pick(r, cliLocForms), t))
		}
	}
}

func famClient(r *Rng, o *Out, tier string) {
	// phase A: every permutation of the option list; phase B: many more scenarios (URL
	// variants, flow shapes), three sampled permutations each
	// NewRng(seed) starts at seed*gamma: the streams of neighbouring seeds are shifts of one
	// another and re-synchronise; restart from a mixed state so that seeds are independent
	r = &Rng{s: r.U64() ^ 0xC20C20C20C20C20}
	nA, nB, nurl := 22, 260, 400
	if tier == "thorough" {
		nA, nB, nurl = 200, 4000, 6000
	}
	famClientURLs(r, o, nurl)
	runOne := func(sc *cliScenario, p []int) {
		op := sc.opLine(p)
		if sc.anyUnmod {
			o.count("skipped.unmodelled")
			o.emit(op, "unmodelled")
			return
		}
		res := sc.run(p)
		o.count("run")
		switch {
		case strings.HasPrefix(res, "panic"):
			o.count("res.panic")
		case strings.Contains(res, "err:1"):
			o.count("res.err")
		default:
			o.count("res.ok")
		}
		nreq := strings.Count(res, " cred:") + strings.Count(res, " none") + strings.Count(res, " basic")
		o.stats["requests.total"] += nreq
		o.stats["requests.with-credential"] += strings.Count(res, " cred:")
		o.stats["requests.basic-from-userinfo"] += strings.Count(res, " basic")
		o.emit(op, res)
	}
	for i := 0; i < nA; i++ {
		sc := genCliScenario(r, o, i)
		perms := cliPerms(len(sc.opts))
		o.count(fmt.Sprintf("perms.all.%d", len(perms)))
		for _, p := range perms {
			runOne(sc, p)
		}
	}
	for i := 0; i < nB; i++ {
		sc := genCliScenario(r, o, 1000+i)
		perms := cliPerms(len(sc.opts))
		for j := 0; j < 3 && j < len(perms); j++ {
			runOne(sc, perms[r.Intn(len(perms))])
		}
	}
}
