package main

// Family scope (C17): the scope helpers of package flyio and token expiry, against the model
// (scope.* lines) and against brute-force CaveatSet.Validate over the id universe, which is the
// declarative oracle of the soundness theorems (spec.scope.* lines: "sound" / "unsound:<clause>:<id>").

import (
	"fmt"
	"sort"
	"strings"
	"time"

	"github.com/superfly/macaroon"
	"github.com/superfly/macaroon/bundle"
	"github.com/superfly/macaroon/flyio"
	"github.com/superfly/macaroon/resset"
)

func init() { families["scope"] = famScope }

// the small universe
var (
	scMasks      = []resset.Action{0, 1, 2, 3, 31, 0xffff, 32}
	scOrgIDs     = []uint64{0, 1, 2, 3}
	scAppIDs     = []uint64{0, 1, 2, 3}
	scClusterIDs = []string{"", "a", "ab", "b"}
	scFeatures   = []string{flyio.FeatureLFSC, "wg", ""}
	scActions    = []resset.Action{0, 1, 2, 31, 0xffff}
	// actions the brute-force oracle requests (0 is the weakest demand, 31 the usual strongest)
	scOracleActions = []resset.Action{0, 31}
	// ids no generated caveat ever mentions
	scProbeOrg     = uint64(7)
	scProbeApp     = uint64(7)
	scProbeCluster = "zz"
)

const scMaxUnix = int64(1<<63 - 62135596801) // maxTime.Unix()

var scMaxTime = time.Unix(scMaxUnix, 999999999)

type scopeCtx struct {
	r    *Rng
	o    *Out
	wnow int64 // wall clock at family start; generated bounds stay >= 1h away from it
}

// ---- generators ----

func (x *scopeCtx) orgCav() macaroon.Caveat {
	id := pick(x.r, scOrgIDs)
	if x.r.Chance(1, 15) {
		id = pick(x.r, []uint64{999, 1<<64 - 1, scProbeOrg})
	}
	return &flyio.Organization{ID: id, Mask: pick(x.r, scMasks)}
}

func (x *scopeCtx) appsCav() macaroon.Caveat {
	m := resset.ResourceSet[uint64, resset.Action]{}
	for i, n := 0, x.r.Intn(4); i < n; i++ {
		id := pick(x.r, scAppIDs)
		if x.r.Chance(1, 15) {
			id = pick(x.r, []uint64{999, 1<<64 - 1})
		}
		m[id] = pick(x.r, scMasks)
	}
	return &flyio.Apps{Apps: m}
}

func (x *scopeCtx) clustersCav() macaroon.Caveat {
	m := resset.ResourceSet[string, resset.Action]{}
	for i, n := 0, x.r.Intn(4); i < n; i++ {
		id := pick(x.r, scClusterIDs)
		if x.r.Chance(1, 15) {
			id = pick(x.r, []string{"abc", "\x00", "A", "\xff"})
		}
		m[id] = pick(x.r, scMasks)
	}
	return &flyio.Clusters{Clusters: m}
}

func (x *scopeCtx) featureCav() macaroon.Caveat {
	m := resset.ResourceSet[string, resset.Action]{}
	for i, n := 0, 1+x.r.Intn(2); i < n; i++ {
		m[pick(x.r, scFeatures)] = pick(x.r, scMasks)
	}
	return &flyio.FeatureSet{Features: m}
}

func (x *scopeCtx) bound() int64 {
	switch x.r.Intn(12) {
	case 0:
		return pick(x.r, []int64{-1 << 63, 1<<63 - 1, scMaxUnix, scMaxUnix - 1, scMaxUnix + 1, 0, -62135596800})
	case 1, 2:
		return baseNow + int64(x.r.Intn(7)) - 3
	default:
		return x.wnow + pick(x.r, []int64{-86400 * 365, -86400, -7200, -3600, 3600, 7200, 86400, 86400 * 365})
	}
}

func (x *scopeCtx) windowCav() macaroon.Caveat {
	if x.r.Chance(1, 2) {
		// a window that is open now
		return &macaroon.ValidityWindow{NotBefore: x.wnow - pick(x.r, []int64{3600, 86400}), NotAfter: x.wnow + pick(x.r, []int64{3600, 7200, 86400, scMaxUnix - x.wnow, 1<<63 - 1 - x.wnow})}
	}
	return &macaroon.ValidityWindow{NotBefore: x.bound(), NotAfter: x.bound()}
}

func (x *scopeCtx) leaf() macaroon.Caveat {
	switch x.r.Intn(6) {
	case 0:
		return x.orgCav()
	case 1:
		return x.appsCav()
	case 2:
		return x.clustersCav()
	case 3:
		return x.featureCav()
	case 4:
		return x.windowCav()
	default:
		a := pick(x.r, scMasks)
		return &a
	}
}

func (x *scopeCtx) condCav(depth int) macaroon.Caveat {
	n := x.r.Intn(4)
	cs := make([]macaroon.Caveat, n)
	for i := range cs {
		if depth > 0 && x.r.Chance(1, 3) {
			cs[i] = x.condCav(depth - 1)
		} else {
			cs[i] = x.leaf()
		}
	}
	return &resset.IfPresent{Ifs: macaroon.NewCaveatSet(cs...), Else: pick(x.r, scMasks)}
}

func scWrapCond(els resset.Action, cs ...macaroon.Caveat) macaroon.Caveat {
	return &resset.IfPresent{Ifs: macaroon.NewCaveatSet(cs...), Else: els}
}

// a set mixing 0-3 caveats of each of the six kinds (plus, sometimes, noise of any other kind)
func (x *scopeCtx) mixedSet() []macaroon.Caveat {
	var cs []macaroon.Caveat
	gens := []func() macaroon.Caveat{x.orgCav, x.appsCav, x.clustersCav, x.featureCav, func() macaroon.Caveat { return x.condCav(2) }, x.windowCav}
	weights := [][]int{{0, 1, 1, 1, 2, 3}, {0, 0, 1, 1, 2, 3}, {0, 0, 0, 1, 2, 3}, {0, 0, 0, 1, 2, 3}, {0, 0, 1, 1, 2, 3}, {0, 0, 0, 1, 2, 3}}
	for k, g := range gens {
		for i, n := 0, pick(x.r, weights[k]); i < n; i++ {
			cs = append(cs, g())
		}
	}
	if x.r.Chance(1, 6) {
		cs = append(cs, x.r.Cav(1))
	}
	for i := len(cs) - 1; i > 0; i-- {
		j := x.r.Intn(i + 1)
		cs[i], cs[j] = cs[j], cs[i]
	}
	return cs
}

// ---- independent walk (not GetCaveats) ----

func scWalkCavs(cs []macaroon.Caveat, depth int, f func(c macaroon.Caveat, depth int)) {
	for _, c := range cs {
		f(c, depth)
		if ip, ok := c.(*resset.IfPresent); ok && ip.Ifs != nil {
			scWalkCavs(ip.Ifs.Caveats, depth+1, f)
		}
	}
}

// ---- request shapes for the brute-force oracle ----

type scProbe struct {
	org     *uint64
	app     *uint64
	feature *string
	cluster *string
}

// every request shape the oracle tries for the named resources, at one action and instant
func (x *scopeCtx) shapes(p scProbe, act resset.Action, sec, nsec int64) []macaroon.Access {
	var out []macaroon.Access
	if sec == x.wnow && nsec == 0 {
		// the library's own request type reads the wall clock
		out = append(out, &flyio.Access{OrgID: p.org, AppID: p.app, Feature: p.feature, Cluster: p.cluster, Action: act})
	}
	d := &Dyn{NowSec: sec, NowNsec: nsec, Action: act, Org: p.org, App: p.app, Feature: p.feature, Cluster: p.cluster}
	out = append(out, d.As("full"), d.As("orgApp"))
	switch {
	case p.cluster != nil:
		out = append(out, d.As("cluster"))
	case p.app != nil:
		out = append(out, d.As("app"))
	case p.org != nil:
		out = append(out, d.As("org"))
	default:
		out = append(out, d.As("bare"), d.As("action"))
	}
	return out
}

func scAnyClears(cs *macaroon.CaveatSet, accs []macaroon.Access) bool {
	for _, a := range accs {
		if cs.Validate(a) == nil {
			return true
		}
	}
	return false
}

// ---- the helpers: observable + typed result ----

func scIDList(ids []uint64) string {
	parts := make([]string, len(ids))
	for i, v := range ids {
		parts[i] = fmt.Sprint(v)
	}
	return strings.Join(parts, ",")
}

func scHasU64(xs []uint64, v uint64) bool {
	for _, x := range xs {
		if x == v {
			return true
		}
	}
	return false
}
func scHasStr(xs []string, v string) bool {
	for _, x := range xs {
		if x == v {
			return true
		}
	}
	return false
}

// scLeafClass reduces an error observable to the set of its distinct leaves
func scLeafClass(res string) string {
	if strings.HasPrefix(res, "panic") {
		return "panic"
	}
	seen := map[string]bool{}
	var ls []string
	for _, l := range strings.Split(strings.TrimPrefix(res, "errs:"), ",") {
		if !seen[l] {
			seen[l] = true
			ls = append(ls, l)
		}
	}
	sort.Strings(ls)
	return strings.Join(ls, "+")
}

type scSetOps struct{ org, app, cluster, allow, exp bool }

var scAllOps = scSetOps{true, true, true, true, true}

func (x *scopeCtx) stat(k string) { x.o.count(k) }

func (x *scopeCtx) spec(line, verdict string) {
	if verdict == "sound" {
		x.stat("spec.sound")
	} else {
		x.stat("spec." + strings.Join(strings.Split(verdict, ":")[:2], ":"))
	}
	x.o.emit(line, verdict)
}

func (x *scopeCtx) runSet(cavs []macaroon.Caveat, ops scSetOps, actions []resset.Action) {
	o := x.o
	C := sxCavs(cavs)
	cs := macaroon.NewCaveatSet(cavs...)

	// what is in the set, by an independent walk
	var orgs []*flyio.Organization
	var apps []*flyio.Apps
	var clusters []*flyio.Clusters
	var windows []*macaroon.ValidityWindow
	maxDepth := 0
	scWalkCavs(cavs, 0, func(c macaroon.Caveat, depth int) {
		if depth > maxDepth {
			maxDepth = depth
		}
		nested := ""
		if depth > 0 {
			nested = ".nested"
		}
		switch v := c.(type) {
		case *flyio.Organization:
			orgs = append(orgs, v)
			x.stat("kind.org" + nested)
		case *flyio.Apps:
			apps = append(apps, v)
			x.stat("kind.apps" + nested)
		case *flyio.Clusters:
			clusters = append(clusters, v)
			x.stat("kind.clusters" + nested)
		case *macaroon.ValidityWindow:
			windows = append(windows, v)
			x.stat("kind.window" + nested)
		case *flyio.FeatureSet:
			x.stat("kind.feature" + nested)
		case *resset.IfPresent:
			x.stat("kind.cond" + nested)
		default:
			x.stat("kind.other" + nested)
		}
	})
	x.stat(fmt.Sprintf("set.depth%d", maxDepth))
	x.stat("sets")

	// ---- OrganizationScope ----
	if ops.org {
		var org uint64
		var oerr error
		res := guard(func() string {
			org, oerr = flyio.OrganizationScope(cs)
			if oerr != nil {
				return sxErr(oerr)
			}
			return fmt.Sprintf("org:%d", org)
		})
		o.emit("(scope.org "+C+")", res)
		switch {
		case strings.HasPrefix(res, "org:0"):
			x.stat("org.ok.wildcard")
		case strings.HasPrefix(res, "org:"):
			x.stat("org.ok")
		default:
			x.stat("org.err." + scLeafClass(res))
		}
		verdict := guard(func() string {
			if oerr != nil || strings.HasPrefix(res, "panic") {
				return "sound" // errors claim nothing
			}
			// (a) every organization caveat anywhere in the set permits {org, action none}
			for _, c := range orgs {
				if c.Prohibits(&flyio.Access{OrgID: &org, Action: resset.ActionNone}) != nil {
					return fmt.Sprintf("unsound:org-caveat-denies:%d", org)
				}
			}
			ids := append(append([]uint64{}, scOrgIDs...), scProbeOrg, 999)
			if org == 0 {
				// (c) wildcard scope: every organization clears the organization caveats
				for _, id := range ids {
					id := id
					for _, c := range orgs {
						if c.Prohibits(&flyio.Access{OrgID: &id, Action: resset.ActionNone}) != nil {
							return fmt.Sprintf("unsound:wildcard-but-denied:%d", id)
						}
					}
				}
				return "sound"
			}
			// (b) no request naming another organization clears the whole set
			for _, id := range ids {
				if id == org {
					continue
				}
				id := id
				for _, act := range scOracleActions {
					for _, p := range []scProbe{{org: &id}, {org: &id, app: p64(1)},
						{org: &id, feature: pstr(flyio.FeatureLFSC), cluster: pstr("a")}, {org: &id, feature: pstr("wg")}} {
						if scAnyClears(cs, x.shapes(p, act, x.wnow, 0)) {
							return fmt.Sprintf("unsound:other-org-clears:%d", id)
						}
					}
				}
			}
			return "sound"
		})
		x.spec("(spec.scope.org "+C+")", verdict)
	}

	// ---- AppScope ----
	if ops.app {
		var scope []uint64
		res := guard(func() string {
			scope = flyio.AppScope(cs)
			if scope == nil {
				return "apps:nil"
			}
			return "apps:" + scIDList(scope)
		})
		o.emit("(scope.app "+C+")", res)
		switch {
		case scope == nil:
			if len(apps) == 0 {
				x.stat("app.nil.nocaveat")
			} else {
				x.stat("app.nil.wildcard")
			}
		case len(scope) == 0:
			x.stat("app.empty")
		default:
			x.stat(fmt.Sprintf("app.list%d", len(scope)))
		}
		verdict := guard(func() string {
			if strings.HasPrefix(res, "panic") {
				return "sound"
			}
			ids := append(append([]uint64{}, scAppIDs...), scProbeApp, 999)
			clearsKind := func(id uint64) bool {
				for _, c := range apps {
					if c.Prohibits(&flyio.Access{OrgID: p64(999), AppID: &id, Action: resset.ActionNone}) != nil {
						return false
					}
				}
				return true
			}
			if scope == nil {
				for _, id := range ids {
					if !clearsKind(id) {
						return fmt.Sprintf("unsound:unrestricted-but-denied:%d", id)
					}
				}
				return "sound"
			}
			for _, id := range scope {
				if !clearsKind(id) {
					return fmt.Sprintf("unsound:included-denied:%d", id)
				}
			}
			for _, id := range ids {
				if scHasU64(scope, id) {
					continue
				}
				id := id
				for _, org := range []uint64{0, 1, 999} {
					org := org
					for _, act := range scOracleActions {
						for _, p := range []scProbe{{org: &org, app: &id}, {app: &id}} {
							if scAnyClears(cs, x.shapes(p, act, x.wnow, 0)) {
								return fmt.Sprintf("unsound:left-out-clears:%d", id)
							}
						}
					}
				}
			}
			return "sound"
		})
		x.spec("(spec.scope.app "+C+")", verdict)
	}

	// ---- ClusterScope ----
	if ops.cluster {
		var scope []string
		res := guard(func() string {
			scope = flyio.ClusterScope(cs)
			if scope == nil {
				return "clusters:nil"
			}
			parts := make([]string, len(scope))
			for i, s := range scope {
				parts[i] = hs(s)
			}
			return "clusters:" + strings.Join(parts, ",")
		})
		o.emit("(scope.cluster "+C+")", res)
		switch {
		case scope == nil:
			if len(clusters) == 0 {
				x.stat("cluster.nil.nocaveat")
			} else {
				x.stat("cluster.nil.wildcard")
			}
		case len(scope) == 0:
			x.stat("cluster.empty")
		case scHasStr(scope, ""):
			x.stat("cluster.list.with-wildcard")
		default:
			x.stat(fmt.Sprintf("cluster.list%d", len(scope)))
		}
		verdict := guard(func() string {
			if strings.HasPrefix(res, "panic") {
				return "sound"
			}
			ids := append(append([]string{}, scClusterIDs...), scProbeCluster, "abc")
			clearsKind := func(id string) bool {
				for _, c := range clusters {
					if c.Prohibits(&flyio.Access{OrgID: p64(999), Feature: pstr(flyio.FeatureLFSC), Cluster: &id, Action: resset.ActionNone}) != nil {
						return false
					}
				}
				return true
			}
			if scope == nil {
				for _, id := range ids {
					if !clearsKind(id) {
						return "unsound:unrestricted-but-denied:" + hs(id)
					}
				}
				return "sound"
			}
			for _, id := range scope {
				if !clearsKind(id) {
					return "unsound:included-denied:" + hs(id)
				}
			}
			for _, id := range ids {
				if scHasStr(scope, id) {
					continue
				}
				id := id
				for _, org := range []uint64{0, 1, 999} {
					org := org
					for _, act := range scOracleActions {
						for _, p := range []scProbe{{org: &org, feature: pstr(flyio.FeatureLFSC), cluster: &id}, {cluster: &id}} {
							if scAnyClears(cs, x.shapes(p, act, x.wnow, 0)) {
								return "unsound:left-out-clears:" + hs(id)
							}
						}
					}
				}
			}
			return "sound"
		})
		x.spec("(spec.scope.cluster "+C+")", verdict)
	}

	// ---- AppsAllowing ----
	if ops.allow {
		for _, act := range actions {
			var org uint64
			var ids []uint64
			var aerr error
			res := guard(func() string {
				org, ids, aerr = flyio.AppsAllowing(cs, act)
				if aerr != nil {
					return sxErr(aerr)
				}
				if ids == nil {
					return fmt.Sprintf("allow:%d:nil", org)
				}
				return fmt.Sprintf("allow:%d:%s", org, scIDList(ids))
			})
			o.emit(fmt.Sprintf("(scope.appsAllowing %s %d %d 0)", C, uint16(act), x.wnow), res)
			switch {
			case aerr != nil:
				x.stat("allow.err." + scLeafClass(res))
			case ids == nil:
				x.stat("allow.ok.nil")
			default:
				x.stat(fmt.Sprintf("allow.ok.list%d", len(ids)))
			}
			verdict := guard(func() string {
				if aerr != nil || strings.HasPrefix(res, "panic") {
					return "sound"
				}
				universe := append(append([]uint64{}, scAppIDs...), scProbeApp, 999)
				for _, id := range universe {
					id := id
					clears := cs.Validate(&flyio.Access{OrgID: &org, AppID: &id, Action: act}) == nil
					switch {
					case ids == nil && !clears:
						return fmt.Sprintf("unsound:unrestricted-but-denied:%d", id)
					case ids != nil && scHasU64(ids, id) && !clears:
						return fmt.Sprintf("unsound:included-denied:%d", id)
					case ids != nil && !scHasU64(ids, id) && clears:
						return fmt.Sprintf("unsound:left-out-clears:%d", id)
					}
				}
				for _, id := range ids {
					if !scHasU64(universe, id) {
						id := id
						if cs.Validate(&flyio.Access{OrgID: &org, AppID: &id, Action: act}) != nil {
							return fmt.Sprintf("unsound:included-denied:%d", id)
						}
					}
				}
				return "sound"
			})
			x.spec(fmt.Sprintf("(spec.scope.appsAllowing %s %d %d 0)", C, uint16(act), x.wnow), verdict)
		}
	}

	// ---- Expiration (token and verified token) ----
	if ops.exp {
		var exp time.Time
		expObs := func(t time.Time) string { return fmt.Sprintf("exp:%d,%d", t.Unix(), t.Nanosecond()) }
		res := guard(func() string {
			m := &macaroon.Macaroon{UnsafeCaveats: *macaroon.NewCaveatSet(cavs...)}
			exp = m.Expiration()
			return expObs(exp)
		})
		o.emit("(scope.expiration "+C+")", res)
		resV := guard(func() string {
			vm := &bundle.VerifiedMacaroon{Caveats: macaroon.NewCaveatSet(cavs...)}
			return expObs(vm.Expiration())
		})
		o.emit("(scope.vexpiration "+C+")", resV)
		switch {
		case len(windows) == 0:
			x.stat("exp.max.nowindow")
		case exp.Equal(scMaxTime):
			x.stat("exp.max.unbounded-windows")
		case exp.Unix() < x.wnow:
			x.stat("exp.past")
		default:
			x.stat("exp.future")
		}
		verdict := guard(func() string {
			if strings.HasPrefix(res, "panic") {
				return "sound"
			}
			if res != resV {
				return "unsound:variants-differ:0"
			}
			if exp.Equal(scMaxTime) {
				return "sound" // no instant lies after maxTime
			}
			type inst struct{ s, n int64 }
			es := exp.Unix()
			after := []inst{{es, 1}, {es, 999999999}, {es + 1, 0}, {scMaxUnix, 999999999}}
			if es < scMaxUnix-3600 {
				after = append(after, inst{es + 3600, 0})
			}
			if es < x.wnow {
				after = append(after, inst{x.wnow, 0})
			}
			for _, t := range after {
				for _, act := range scOracleActions {
					for _, p := range []scProbe{{}, {org: p64(1), app: p64(1)},
						{org: p64(1), feature: pstr(flyio.FeatureLFSC), cluster: pstr("a")}, {org: p64(2), feature: pstr("wg")}} {
						if scAnyClears(cs, x.shapes(p, act, t.s, t.n)) {
							return fmt.Sprintf("unsound:clears-after-expiry:%d.%09d", t.s, t.n)
						}
					}
				}
			}
			return "sound"
		})
		x.spec("(spec.scope.expiration "+C+")", verdict)
	}
}

// ---- exhaustive enumerations over the small universe ----

// all ordered selections of at most two elements of pool
func scUpTo2[T any](pool []T, f func(sel []T)) {
	f(nil)
	for _, a := range pool {
		f([]T{a})
	}
	for _, a := range pool {
		for _, b := range pool {
			f([]T{a, b})
		}
	}
}

type scMk func() macaroon.Caveat

// each caveat of pool at top level, inside a conditional, and (deep) inside two conditionals
func scPlacements(pool []scMk, deep bool) []scMk {
	var out []scMk
	for _, g := range pool {
		g := g
		out = append(out, g)
		out = append(out, func() macaroon.Caveat { return scWrapCond(0, g()) })
		if deep {
			out = append(out, func() macaroon.Caveat { return scWrapCond(31, scWrapCond(0, g())) })
		}
	}
	return out
}

func scBuild(sel []scMk) []macaroon.Caveat {
	cs := make([]macaroon.Caveat, len(sel))
	for i, g := range sel {
		cs[i] = g()
	}
	return cs
}

func scU64Sets(ids []uint64, masks []resset.Action) []resset.ResourceSet[uint64, resset.Action] {
	out := []resset.ResourceSet[uint64, resset.Action]{{}}
	for i, a := range ids {
		for _, m := range masks {
			out = append(out, resset.ResourceSet[uint64, resset.Action]{a: m})
			for _, b := range ids[i+1:] {
				for _, m2 := range masks {
					out = append(out, resset.ResourceSet[uint64, resset.Action]{a: m, b: m2})
				}
			}
		}
	}
	return out
}

func scStrSets(ids []string, masks []resset.Action) []resset.ResourceSet[string, resset.Action] {
	out := []resset.ResourceSet[string, resset.Action]{{}}
	for i, a := range ids {
		for _, m := range masks {
			out = append(out, resset.ResourceSet[string, resset.Action]{a: m})
			for _, b := range ids[i+1:] {
				for _, m2 := range masks {
					out = append(out, resset.ResourceSet[string, resset.Action]{a: m, b: m2})
				}
			}
		}
	}
	return out
}

func famScope(r *Rng, o *Out, tier string) {
	x := &scopeCtx{r: r, o: o, wnow: time.Now().Unix()}
	thorough := tier == "thorough"

	// fixed cases first: the documented examples and the witness of F11 (repaired)
	fixed := [][]macaroon.Caveat{
		{},
		{&flyio.Organization{ID: 1, Mask: 31}},
		{&flyio.Organization{ID: 0, Mask: 31}, &flyio.Organization{ID: 5, Mask: 31}},
		{&flyio.Organization{ID: 5, Mask: 31}, &flyio.Organization{ID: 0, Mask: 31}},
		{&flyio.Clusters{Clusters: resset.ResourceSet[string, resset.Action]{"": 31}}},
		{&flyio.Organization{ID: 1, Mask: 31}, &flyio.Clusters{Clusters: resset.ResourceSet[string, resset.Action]{"": 1}}, &flyio.Clusters{Clusters: resset.ResourceSet[string, resset.Action]{"": 31}}},
		{&flyio.Organization{ID: 1, Mask: 31}, &flyio.Apps{Apps: resset.ResourceSet[uint64, resset.Action]{0: 31}}},
		{&flyio.Organization{ID: 1, Mask: 31}, &flyio.Apps{Apps: resset.ResourceSet[uint64, resset.Action]{}}},
		{&flyio.Organization{ID: 1, Mask: 31}, scWrapCond(0, &flyio.Apps{Apps: resset.ResourceSet[uint64, resset.Action]{1: 31, 2: 1}}), &flyio.Apps{Apps: resset.ResourceSet[uint64, resset.Action]{2: 31, 3: 31}}},
		{scWrapCond(31, &macaroon.ValidityWindow{NotBefore: 0, NotAfter: baseNow}), &macaroon.ValidityWindow{NotBefore: 0, NotAfter: 1<<63 - 1}},
		{&macaroon.ValidityWindow{NotBefore: 0, NotAfter: scMaxUnix}, &macaroon.ValidityWindow{NotBefore: 0, NotAfter: scMaxUnix - 1}},
	}
	for _, cavs := range fixed {
		x.runSet(cavs, scAllOps, []resset.Action{0, 1, 31})
		o.count("fixed")
	}

	// random mixed sets
	n := 1500
	if thorough {
		n = 25000
	}
	for i := 0; i < n; i++ {
		cavs := x.mixedSet()
		x.runSet(cavs, scAllOps, []resset.Action{pick(r, scActions), pick(r, scMasks)})
		o.count("mixed")
	}

	// exhaustive: at most two caveats of a kind, each at top level or nested in conditionals.
	// quick tier takes a pseudo-random 1/stride sample of every enumeration.
	take := func(stride int) bool { return thorough || r.Intn(stride) == 0 }
	masks3 := []resset.Action{0, 1, 31}

	// E1 organization caveats
	var orgPool []scMk
	for _, id := range []uint64{0, 1, 2} {
		for _, m := range masks3 {
			id, m := id, m
			orgPool = append(orgPool, func() macaroon.Caveat { return &flyio.Organization{ID: id, Mask: m} })
		}
	}
	scUpTo2(scPlacements(orgPool, true), func(sel []scMk) {
		if !take(6) {
			return
		}
		x.runSet(scBuild(sel), scSetOps{org: true, allow: true}, []resset.Action{0, 1})
		o.count("exh.org")
	})

	// E2 app caveats
	var appsPool []scMk
	for _, s := range scU64Sets([]uint64{0, 1, 2}, masks3) {
		s := s
		appsPool = append(appsPool, func() macaroon.Caveat { return &flyio.Apps{Apps: s} })
	}
	scUpTo2(scPlacements(appsPool, false), func(sel []scMk) {
		if !take(25) {
			return
		}
		x.runSet(scBuild(sel), scSetOps{app: true}, nil)
		o.count("exh.apps")
	})

	// E3 cluster caveats
	var clPool []scMk
	for _, s := range scStrSets([]string{"", "a", "b"}, masks3) {
		s := s
		clPool = append(clPool, func() macaroon.Caveat { return &flyio.Clusters{Clusters: s} })
	}
	scUpTo2(scPlacements(clPool, false), func(sel []scMk) {
		if !take(25) {
			return
		}
		x.runSet(scBuild(sel), scSetOps{cluster: true}, nil)
		o.count("exh.clusters")
	})

	// E4 AppsAllowing: organization x app caveats
	var orgPool2, appsPool2 []scMk
	for _, id := range []uint64{0, 1, 2} {
		for _, m := range []resset.Action{1, 31} {
			id, m := id, m
			orgPool2 = append(orgPool2, func() macaroon.Caveat { return &flyio.Organization{ID: id, Mask: m} })
		}
	}
	for _, s := range []resset.ResourceSet[uint64, resset.Action]{{0: 31}, {0: 1}, {1: 31}, {1: 1}, {2: 31}, {1: 31, 2: 1}, {1: 1, 2: 31}, {0: 31, 1: 31}, {}} {
		s := s
		appsPool2 = append(appsPool2, func() macaroon.Caveat { return &flyio.Apps{Apps: s} })
	}
	scUpTo2(scPlacements(orgPool2, false), func(osel []scMk) {
		scUpTo2(scPlacements(appsPool2, false), func(asel []scMk) {
			if !take(60) {
				return
			}
			x.runSet(append(scBuild(osel), scBuild(asel)...), scSetOps{allow: true}, []resset.Action{1, 2})
			o.count("exh.allow")
		})
	})

	// E4b AppsAllowing with the app caveat INSIDE a conditional whose else-mask differs from the app mask:
	// "unrestricted" (nil) must mean that requests NAMING an app clear, not that the org-level request does
	for _, oid := range []uint64{0, 1} {
		for _, om := range []resset.Action{3, 31} {
			for _, as := range []resset.ResourceSet[uint64, resset.Action]{{0: 1}, {0: 3}, {0: 31}, {1: 1}, {1: 31}, {1: 1, 2: 31}} {
				for _, els := range []resset.Action{0, 1, 2, 31} {
					x.runSet([]macaroon.Caveat{&flyio.Organization{ID: oid, Mask: om}, scWrapCond(els, &flyio.Apps{Apps: as})},
						scSetOps{allow: true}, []resset.Action{1, 2})
					o.count("exh.allow.cond")
				}
			}
		}
	}

	// E5 validity windows
	var vwPool []scMk
	for _, na := range []int64{x.wnow - 3600, x.wnow + 3600, baseNow, scMaxUnix - 1, scMaxUnix, 1<<63 - 1, -1 << 63, 0} {
		for _, nb := range []int64{0, x.wnow - 86400} {
			na, nb := na, nb
			vwPool = append(vwPool, func() macaroon.Caveat { return &macaroon.ValidityWindow{NotBefore: nb, NotAfter: na} })
		}
	}
	var vwPlaced []scMk
	for _, g := range vwPool {
		g := g
		vwPlaced = append(vwPlaced, g,
			func() macaroon.Caveat { return scWrapCond(0xffff, g()) },
			func() macaroon.Caveat { return scWrapCond(0xffff, scWrapCond(0xffff, g())) },
			func() macaroon.Caveat {
				return scWrapCond(0xffff, &flyio.FeatureSet{Features: resset.ResourceSet[string, resset.Action]{"wg": 31}}, g())
			})
	}
	scUpTo2(vwPlaced, func(sel []scMk) {
		if !take(20) {
			return
		}
		x.runSet(scBuild(sel), scSetOps{exp: true}, nil)
		o.count("exh.windows")
	})

	// E6 feature caveats and conditionals around a few base sets
	var condPool []scMk
	inners := []scMk{
		func() macaroon.Caveat {
			return &flyio.FeatureSet{Features: resset.ResourceSet[string, resset.Action]{"wg": 31}}
		},
		func() macaroon.Caveat { return &flyio.Apps{Apps: resset.ResourceSet[uint64, resset.Action]{1: 31}} },
		func() macaroon.Caveat { return &flyio.Apps{Apps: resset.ResourceSet[uint64, resset.Action]{0: 1}} },
		func() macaroon.Caveat { return &flyio.Organization{ID: 1, Mask: 31} },
		func() macaroon.Caveat { return &flyio.Organization{ID: 2, Mask: 1} },
		func() macaroon.Caveat {
			return &flyio.Clusters{Clusters: resset.ResourceSet[string, resset.Action]{"a": 31}}
		},
		func() macaroon.Caveat { return &macaroon.ValidityWindow{NotBefore: 0, NotAfter: x.wnow + 3600} },
		func() macaroon.Caveat { return &macaroon.ValidityWindow{NotBefore: 0, NotAfter: x.wnow - 3600} },
	}
	for _, in := range inners {
		for _, els := range masks3 {
			in, els := in, els
			condPool = append(condPool, func() macaroon.Caveat { return scWrapCond(els, in()) })
		}
	}
	for _, f := range []resset.ResourceSet[string, resset.Action]{{"wg": 31}, {"": 1}, {flyio.FeatureLFSC: 31}} {
		f := f
		condPool = append(condPool, func() macaroon.Caveat { return &flyio.FeatureSet{Features: f} })
	}
	bases := [][]scMk{
		{},
		{func() macaroon.Caveat { return &flyio.Organization{ID: 1, Mask: 31} }},
		{func() macaroon.Caveat { return &flyio.Organization{ID: 1, Mask: 31} },
			func() macaroon.Caveat {
				return &flyio.Apps{Apps: resset.ResourceSet[uint64, resset.Action]{1: 31, 2: 1}}
			}},
	}
	for _, base := range bases {
		scUpTo2(condPool, func(sel []scMk) {
			if !take(12) {
				return
			}
			x.runSet(append(scBuild(base), scBuild(sel)...), scAllOps, []resset.Action{1, 31})
			o.count("exh.cond")
		})
	}

}
