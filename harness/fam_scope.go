package main

// Family scope (C17): the scope helpers of package flyio and token expiry, against the model
// (scope.* lines) and against brute-force CaveatSet.Validate over the id universe, which is the
// declarative oracle of the soundness theorems (spec.scope.* lines: "sound" / "unsound:<clause>:<id>").
//
// Input space (widened by the generator audit after round 17; every choice is counted under gen.* / set.* / oracle.*):
//   masks and actions  the seven usual ones, plus every single bit, masks missing one bit, bits above the five
//                      named ones, random 16-bit values (E9 sweeps AppsAllowing over masks built around the action)
//   org / app ids      0-3, plus 999 (the helpers' own placeholder), word boundaries, ids equal in their low 32 bits,
//                      ids differing in bit 63, the maximum
//   cluster ids        "", a, ab, b, plus letter case, prefixes, white space, separators, NUL and high bytes, Unicode
//                      (composed / decomposed / full width / case pairs), "*", "0", percent escapes, 300-byte ids
//   resource maps      0-3 entries, sometimes 4-8 (thorough: up to 20), nil map vs empty map
//   conditionals       0-5 children, nesting 1-4 (thorough 6; chains of 3-8, thorough 20 and 60), no Ifs at all
//                      (nil), empty Ifs, children that are the very object used elsewhere, one Ifs shared by two
//   sets               0-3 of each kind, sometimes 4-6 of a kind, the same object twice, an equal copy, shuffled
//   windows            open now / any two bounds / empty and one-instant; bounds around 2^31, 2^32, year 9999, negative
//   oracle universe    the fixed ids + every id the set mentions + their folded variants (case, trimming, a byte or
//                      separator more or less; low 32 bits, bit 63, neighbours)
//   expiry             literal struct, minted token, decoded token, the set its verification returns
//   purity             every helper asked again in another order answers the same and leaves the set as it was
//                      (spec.scope.pure)

import (
	"fmt"
	"sort"
	"strings"
	"time"

	"github.com/superfly/macaroon"
	"github.com/superfly/macaroon/bundle"
	"github.com/superfly/macaroon/flyio"
	"github.com/superfly/macaroon/resset"
)

func init() { families["scope"] = famScope }

// the small universe (the bulk of every pool: small enough that caveats of one set collide and conflict)
var (
	scMasks      = []resset.Action{0, 1, 2, 3, 31, 0xffff, 32}
	scOrgIDs     = []uint64{0, 1, 2, 3}
	scAppIDs     = []uint64{0, 1, 2, 3}
	scClusterIDs = []string{"", "a", "ab", "b"}
	scFeatures   = []string{flyio.FeatureLFSC, "wg", ""}
	scActions    = []resset.Action{0, 1, 2, 31, 0xffff}
	// actions the brute-force oracle requests (0 is the weakest demand, 31 the usual strongest)
	scOracleActions = []resset.Action{0, 31}
	// ids no generated caveat ever mentions
	scProbeOrg     = uint64(12345)
	scProbeApp     = uint64(12345)
	scProbeCluster = "zz"
)

// the wide pools (generator audit after round 17): what the quantifier ranges over and the small universe lacks.
var (
	// "any masks": every single permission bit, masks that miss exactly one bit, bits above the five named ones,
	// complements (two masks of a set may intersect to nothing)
	scMasksWide = []resset.Action{4, 8, 16, 5, 10, 15, 27, 29, 30, 23, 33, 63, 0x20, 0x8000, 0x7fff, 0xffe0, 0xfffe, 0xffef}
	// ids: the helpers' own placeholder organization (999), byte/word boundaries, ids that differ only above
	// bit 31 / in bit 63 (a truncating or signed comparison conflates or reorders them), the maximum
	scIDsWide = []uint64{7, 9, 10, 999, 255, 256, 65535, 65536, 1<<31 - 1, 1 << 31, 1<<32 - 1, 1 << 32, 1<<32 | 1, 1<<32 | 2,
		1<<63 - 1, 1 << 63, 1<<63 | 1, 1<<64 - 2, 1<<64 - 1}
	// cluster ids: letter case, prefixes of one another, white space, separators, NUL / high bytes, Unicode
	// (precomposed, decomposed, full-width, case pairs without a 1:1 mapping), look-alikes of the wildcard, percent
	// escapes, the feature name, a long id
	scClusterWide = []string{"A", "B", "Ab", "aB", "AB", "aa", "abc", "abcd", "a ", " a", " ", "\ta", "a/b", "a/", "/a", "/", "a,b", "a:b",
		"a.b", "a;b", "a\x00", "\x00", "\x00a", "\xff", "a\xff", "\xc3\xa9", "\xc3\x89", "e\xcc\x81", "\xef\xbd\x81", "\xc3\x9f", "SS", "ss", "*", "0", "%61", "a%2Fb",
		flyio.FeatureLFSC, strings.Repeat("a", 300), strings.Repeat("a", 299) + "b"}
	scFeaturesWide = []string{"WG", "Wg", "wg ", "Litefs-Cloud", "LITEFS-CLOUD", "litefs-cloud/", flyio.FeatureBilling, flyio.FeatureRemoteBuilders, "app", "cluster", "*"}
	// validity bounds a 32-bit or a millisecond confusion would fold: around 2^31 and 2^32, year 9999/10000, small
	// and negative values
	scBoundsWide = []int64{1<<31 - 1, 1 << 31, 1<<32 - 1, 1 << 32, 1<<32 + 1_800_000_000, 253402300799, 253402300800, 1 << 40, 1 << 53, 1<<62 + 1,
		1, -1, -1_800_000_000, -1 << 31, -1 << 32, -62135596801, -62135596800, -1<<63 + 1}
)

var scTokenKey = []byte("0123456789abcdef0123456789abcdef") // 32 bytes

const scMaxUnix = int64(1<<63 - 62135596801) // maxTime.Unix()

var scMaxTime = time.Unix(scMaxUnix, 999999999)

type scopeCtx struct {
	r        *Rng
	o        *Out
	wnow     int64 // wall clock at family start; generated bounds stay >= 1h away from it
	thorough bool
	recent   []macaroon.Caveat // leaves made lately: the source of aliased (pointer-shared) occurrences
}

// ---- generators ----

func (x *scopeCtx) mask() resset.Action {
	switch x.r.Intn(12) {
	case 0, 1, 2:
		x.stat("gen.mask.wide")
		return pick(x.r, scMasksWide)
	case 3:
		x.stat("gen.mask.random")
		return resset.Action(x.r.U64())
	default:
		x.stat("gen.mask.small")
		return pick(x.r, scMasks)
	}
}

func (x *scopeCtx) action() resset.Action {
	switch x.r.Intn(8) {
	case 0, 1:
		x.stat("gen.action.wide")
		return pick(x.r, scMasksWide)
	case 2:
		x.stat("gen.action.random")
		return resset.Action(x.r.U64())
	case 3:
		x.stat("gen.action.maskpool")
		return pick(x.r, scMasks)
	default:
		x.stat("gen.action.small")
		return pick(x.r, scActions)
	}
}

func (x *scopeCtx) u64id(small []uint64, what string) uint64 {
	if x.r.Chance(1, 6) {
		x.stat("gen." + what + ".id.wide")
		return pick(x.r, scIDsWide)
	}
	x.stat("gen." + what + ".id.small")
	return pick(x.r, small)
}

func (x *scopeCtx) clusterID() string {
	if x.r.Chance(1, 5) {
		x.stat("gen.cluster.id.wide")
		return pick(x.r, scClusterWide)
	}
	x.stat("gen.cluster.id.small")
	return pick(x.r, scClusterIDs)
}

// how many entries a resource map gets: mostly 0-3, sometimes more (the lists the helpers sort), rarely nil
func (x *scopeCtx) mapLen(what string) int {
	n := x.r.Intn(4)
	if x.r.Chance(1, 10) {
		n = 4 + x.r.Intn(5)
		if x.thorough && x.r.Chance(1, 4) {
			n = 9 + x.r.Intn(12)
		}
	}
	switch {
	case n == 0:
		x.stat("gen." + what + ".len0")
	case n <= 3:
		x.stat("gen." + what + ".len1-3")
	default:
		x.stat("gen." + what + ".len4+")
	}
	return n
}

func (x *scopeCtx) remember(c macaroon.Caveat) macaroon.Caveat {
	if len(x.recent) < 8 {
		x.recent = append(x.recent, c)
	} else {
		x.recent[x.r.Intn(len(x.recent))] = c
	}
	return c
}

func (x *scopeCtx) orgCav() macaroon.Caveat {
	return x.remember(&flyio.Organization{ID: x.u64id(scOrgIDs, "org"), Mask: x.mask()})
}

func (x *scopeCtx) appsCav() macaroon.Caveat {
	n := x.mapLen("apps")
	if n == 0 && x.r.Chance(1, 3) {
		x.stat("gen.apps.nilmap")
		return x.remember(&flyio.Apps{})
	}
	m := resset.ResourceSet[uint64, resset.Action]{}
	for i := 0; i < n; i++ {
		id := x.u64id(scAppIDs, "apps")
		if n > 3 && x.r.Chance(1, 2) {
			// a long map draws from more ids, or it would only ever hold the four small ones
			id = pick(x.r, []uint64{4, 5, 6, 8, 9, 10, 11, 19, 20, 21, 100, 101})
		}
		m[id] = x.mask()
	}
	return x.remember(&flyio.Apps{Apps: m})
}

func (x *scopeCtx) clustersCav() macaroon.Caveat {
	n := x.mapLen("clusters")
	if n == 0 && x.r.Chance(1, 3) {
		x.stat("gen.clusters.nilmap")
		return x.remember(&flyio.Clusters{})
	}
	m := resset.ResourceSet[string, resset.Action]{}
	for i := 0; i < n; i++ {
		id := x.clusterID()
		if n > 3 && x.r.Chance(1, 2) {
			id = pick(x.r, scClusterWide)
		}
		m[id] = x.mask()
	}
	return x.remember(&flyio.Clusters{Clusters: m})
}

func (x *scopeCtx) featureCav() macaroon.Caveat {
	m := resset.ResourceSet[string, resset.Action]{}
	for i, n := 0, 1+x.r.Intn(2); i < n; i++ {
		f := pick(x.r, scFeatures)
		if x.r.Chance(1, 6) {
			x.stat("gen.feature.wide")
			f = pick(x.r, scFeaturesWide)
		}
		m[f] = x.mask()
	}
	return x.remember(&flyio.FeatureSet{Features: m})
}

func (x *scopeCtx) bound() int64 {
	switch x.r.Intn(14) {
	case 0:
		x.stat("gen.bound.limit")
		return pick(x.r, []int64{-1 << 63, 1<<63 - 1, scMaxUnix, scMaxUnix - 1, scMaxUnix + 1, 0, -62135596800})
	case 1, 2:
		x.stat("gen.bound.basenow")
		return baseNow + int64(x.r.Intn(7)) - 3
	case 3, 4:
		x.stat("gen.bound.wide")
		return pick(x.r, scBoundsWide)
	default:
		x.stat("gen.bound.nearnow")
		return x.wnow + pick(x.r, []int64{-86400 * 365, -86400, -7200, -3600, 3600, 7200, 86400, 86400 * 365, 86400 * 365 * 30})
	}
}

func (x *scopeCtx) windowCav() macaroon.Caveat {
	switch x.r.Intn(8) {
	case 0, 1, 2, 3:
		// a window that is open now
		x.stat("gen.window.open")
		na := x.wnow + pick(x.r, []int64{3600, 7200, 86400, scMaxUnix - x.wnow, 1<<63 - 1 - x.wnow})
		if x.r.Chance(1, 4) {
			// ... and ends beyond 2038 / 2106 / year 9999
			na = pick(x.r, []int64{1<<31 - 1, 1 << 31, 1<<32 - 1, 1 << 32, 1<<32 + 1_800_000_000, 253402300799, 253402300800, 1 << 40, 1 << 53, 1<<62 + 1})
		}
		nb := x.wnow - pick(x.r, []int64{3600, 86400})
		if x.r.Chance(1, 4) {
			nb = pick(x.r, []int64{0, -1, -1 << 63, -62135596800, 1})
		}
		return x.remember(&macaroon.ValidityWindow{NotBefore: nb, NotAfter: na})
	case 4:
		// an empty or one-instant window
		x.stat("gen.window.degenerate")
		b := x.bound()
		return x.remember(&macaroon.ValidityWindow{NotBefore: b, NotAfter: b - int64(x.r.Intn(2))})
	default:
		x.stat("gen.window.any")
		return x.remember(&macaroon.ValidityWindow{NotBefore: x.bound(), NotAfter: x.bound()})
	}
}

func (x *scopeCtx) leaf() macaroon.Caveat {
	switch x.r.Intn(6) {
	case 0:
		return x.orgCav()
	case 1:
		return x.appsCav()
	case 2:
		return x.clustersCav()
	case 3:
		return x.featureCav()
	case 4:
		return x.windowCav()
	default:
		a := x.mask()
		return &a
	}
}

func (x *scopeCtx) condCav(depth int) macaroon.Caveat {
	if x.r.Chance(1, 25) {
		// a conditional without its Ifs (what the decoder leaves for a wire nil): GetCaveats finds nothing in it,
		// clearing refuses it
		x.stat("gen.cond.nilifs")
		return &resset.IfPresent{Else: x.mask()}
	}
	n := pick(x.r, []int{0, 1, 1, 2, 2, 3, 3, 4, 5})
	x.stat(fmt.Sprintf("gen.cond.children%d", n))
	cs := make([]macaroon.Caveat, n)
	for i := range cs {
		switch {
		case depth > 0 && x.r.Chance(1, 3):
			cs[i] = x.condCav(depth - 1)
		case len(x.recent) > 0 && x.r.Chance(1, 8):
			// the very object that also sits elsewhere (in this set or an earlier one)
			x.stat("gen.cond.aliased-child")
			cs[i] = pick(x.r, x.recent)
		default:
			cs[i] = x.leaf()
		}
	}
	return &resset.IfPresent{Ifs: macaroon.NewCaveatSet(cs...), Else: x.mask()}
}

func scWrapCond(els resset.Action, cs ...macaroon.Caveat) macaroon.Caveat {
	return &resset.IfPresent{Ifs: macaroon.NewCaveatSet(cs...), Else: els}
}

// a set mixing 0-3 (sometimes up to 6) caveats of each of the six kinds (plus, sometimes, noise of any other kind),
// shuffled; sometimes with repeated elements: the same object twice, an equal copy, one object at top level and
// inside a conditional, one CaveatSet shared by two conditionals
func (x *scopeCtx) mixedSet() []macaroon.Caveat {
	var cs []macaroon.Caveat
	maxDepth := pick(x.r, []int{1, 2, 2, 2, 3, 4})
	if x.thorough && x.r.Chance(1, 10) {
		maxDepth = 6
	}
	gens := []func() macaroon.Caveat{x.orgCav, x.appsCav, x.clustersCav, x.featureCav, func() macaroon.Caveat { return x.condCav(maxDepth) }, x.windowCav}
	weights := [][]int{{0, 1, 1, 1, 2, 3}, {0, 0, 1, 1, 2, 3}, {0, 0, 0, 1, 2, 3}, {0, 0, 0, 1, 2, 3}, {0, 0, 1, 1, 2, 3}, {0, 0, 0, 1, 2, 3}}
	many := x.r.Chance(1, 12)
	if many {
		x.stat("gen.set.many-of-a-kind")
	}
	for k, g := range gens {
		n := pick(x.r, weights[k])
		if many && x.r.Chance(1, 2) {
			n = 4 + x.r.Intn(3)
		}
		for i := 0; i < n; i++ {
			cs = append(cs, g())
		}
	}
	if x.r.Chance(1, 6) {
		cs = append(cs, x.r.Cav(1))
	}
	if len(cs) > 0 && x.r.Chance(1, 6) {
		c := pick(x.r, cs)
		switch x.r.Intn(4) {
		case 0:
			x.stat("gen.set.dup.same-object")
			cs = append(cs, c)
		case 1:
			x.stat("gen.set.dup.same-object-in-cond")
			cs = append(cs, scWrapCond(x.mask(), c))
		case 2:
			if ip, ok := c.(*resset.IfPresent); ok && ip.Ifs != nil {
				x.stat("gen.set.dup.shared-ifs")
				cs = append(cs, &resset.IfPresent{Ifs: ip.Ifs, Else: x.mask()})
			} else {
				x.stat("gen.set.dup.same-object")
				cs = append(cs, c, c)
			}
		default:
			// an equal caveat that is another object
			if cp, err := macaroon.NewCaveatSet(c).MarshalMsgpack(); err == nil {
				if dec, err := macaroon.DecodeCaveats(cp); err == nil && len(dec.Caveats) == 1 && sxCav(dec.Caveats[0]) == sxCav(c) {
					x.stat("gen.set.dup.equal-copy")
					cs = append(cs, dec.Caveats[0])
				}
			}
		}
	}
	for i := len(cs) - 1; i > 0; i-- {
		j := x.r.Intn(i + 1)
		cs[i], cs[j] = cs[j], cs[i]
	}
	return cs
}

// ---- independent walk (not GetCaveats) ----

func scWalkCavs(cs []macaroon.Caveat, depth int, f func(c macaroon.Caveat, depth int)) {
	for _, c := range cs {
		f(c, depth)
		if ip, ok := c.(*resset.IfPresent); ok && ip.Ifs != nil {
			scWalkCavs(ip.Ifs.Caveats, depth+1, f)
		}
	}
}

// ---- request shapes for the brute-force oracle ----

type scProbe struct {
	org     *uint64
	app     *uint64
	feature *string
	cluster *string
}

// every request shape the oracle tries for the named resources, at one action and instant
func (x *scopeCtx) shapes(p scProbe, act resset.Action, sec, nsec int64) []macaroon.Access {
	var out []macaroon.Access
	if sec == x.wnow && nsec == 0 {
		// the library's own request type reads the wall clock
		out = append(out, &flyio.Access{OrgID: p.org, AppID: p.app, Feature: p.feature, Cluster: p.cluster, Action: act})
	}
	d := &Dyn{NowSec: sec, NowNsec: nsec, Action: act, Org: p.org, App: p.app, Feature: p.feature, Cluster: p.cluster}
	out = append(out, d.As("full"), d.As("orgApp"))
	switch {
	case p.cluster != nil:
		out = append(out, d.As("cluster"))
	case p.app != nil:
		out = append(out, d.As("app"))
	case p.org != nil:
		out = append(out, d.As("org"))
	default:
		out = append(out, d.As("bare"), d.As("action"))
	}
	return out
}

func scAnyClears(cs *macaroon.CaveatSet, accs []macaroon.Access) bool {
	for _, a := range accs {
		if cs.Validate(a) == nil {
			return true
		}
	}
	return false
}

// ---- the helpers: observable + typed result ----

func scIDList(ids []uint64) string {
	parts := make([]string, len(ids))
	for i, v := range ids {
		parts[i] = fmt.Sprint(v)
	}
	return strings.Join(parts, ",")
}

func scHasU64(xs []uint64, v uint64) bool {
	for _, x := range xs {
		if x == v {
			return true
		}
	}
	return false
}
func scHasStr(xs []string, v string) bool {
	for _, x := range xs {
		if x == v {
			return true
		}
	}
	return false
}

// scLeafClass reduces an error observable to the set of its distinct leaves
func scLeafClass(res string) string {
	if strings.HasPrefix(res, "panic") {
		return "panic"
	}
	seen := map[string]bool{}
	var ls []string
	for _, l := range strings.Split(strings.TrimPrefix(res, "errs:"), ",") {
		if !seen[l] {
			seen[l] = true
			ls = append(ls, l)
		}
	}
	sort.Strings(ls)
	return strings.Join(ls, "+")
}

// ---- id universes of the brute-force oracle ----
// primary: the fixed ids (every request shape, organization and action is tried for them); variants: every other id
// the set itself mentions (an id a caveat names and the helper leaves out is the first candidate for "left out, yet
// clears") and ids derived from the mentioned ones the way a sloppy comparison would fold them (letter case, white
// space, a separator more or less, one byte more or less; the low 32 bits, bit 63 flipped, a neighbour) - these are
// tried at the weakest demand only (empty action: clearing is monotone in the action), two organizations.

func scU64Universe(fixed, mentioned []uint64) (primary, variants []uint64) {
	seen := map[uint64]bool{}
	for _, v := range fixed {
		if !seen[v] {
			seen[v] = true
			primary = append(primary, v)
		}
	}
	for _, v := range mentioned {
		if !seen[v] {
			seen[v] = true
			variants = append(variants, v)
		}
	}
	for _, v := range mentioned {
		for _, w := range []uint64{v & 0xffffffff, v | 1<<32, v ^ 1<<63, v &^ (1 << 63), v + 1, v - 1, uint64(int64(int32(v)))} {
			if !seen[w] {
				seen[w] = true
				variants = append(variants, w)
			}
		}
	}
	return
}

func scStrUniverse(fixed, mentioned []string) (primary, variants []string) {
	seen := map[string]bool{}
	for _, v := range fixed {
		if !seen[v] {
			seen[v] = true
			primary = append(primary, v)
		}
	}
	for _, v := range mentioned {
		if !seen[v] {
			seen[v] = true
			variants = append(variants, v)
		}
	}
	for _, v := range mentioned {
		ws := []string{strings.ToLower(v), strings.ToUpper(v), strings.TrimSpace(v), strings.Trim(v, "/"), strings.TrimRight(v, "\x00"),
			strings.ToValidUTF8(v, "\uFFFD"), v + "a", v + "/", v + " ", v + "\x00", "a" + v}
		if len(v) > 0 {
			ws = append(ws, v[:len(v)-1], v[1:])
		}
		if i := strings.IndexAny(v, "/,:;. "); i >= 0 {
			ws = append(ws, v[:i], v[i+1:])
		}
		for _, w := range ws {
			if !seen[w] {
				seen[w] = true
				variants = append(variants, w)
			}
		}
	}
	return
}

type scSetOps struct{ org, app, cluster, allow, exp bool }

var scAllOps = scSetOps{true, true, true, true, true}

func (x *scopeCtx) stat(k string) { x.o.count(k) }

func (x *scopeCtx) spec(line, verdict string) {
	if verdict == "sound" {
		x.stat("spec.sound")
	} else {
		x.stat("spec." + strings.Join(strings.Split(verdict, ":")[:2], ":"))
	}
	x.o.emit(line, verdict)
}

func (x *scopeCtx) runSet(cavs []macaroon.Caveat, ops scSetOps, actions []resset.Action) {
	o := x.o
	C := sxCavs(cavs)
	cs := macaroon.NewCaveatSet(cavs...)

	// what is in the set, by an independent walk
	var orgs []*flyio.Organization
	var apps []*flyio.Apps
	var clusters []*flyio.Clusters
	var windows []*macaroon.ValidityWindow
	var orgIDs, appIDs []uint64 // every id a caveat of the set mentions
	var clusterIDs []string
	maxDepth := 0
	seenObj := map[macaroon.Caveat]bool{}
	aliased := false
	scWalkCavs(cavs, 0, func(c macaroon.Caveat, depth int) {
		if depth > maxDepth {
			maxDepth = depth
		}
		if seenObj[c] {
			aliased = true
		}
		seenObj[c] = true
		nested := ""
		if depth > 0 {
			nested = ".nested"
		}
		switch v := c.(type) {
		case *flyio.Organization:
			orgs = append(orgs, v)
			orgIDs = append(orgIDs, v.ID)
			x.stat("kind.org" + nested)
		case *flyio.Apps:
			apps = append(apps, v)
			for id := range v.Apps {
				appIDs = append(appIDs, id)
			}
			x.stat("kind.apps" + nested)
		case *flyio.Clusters:
			clusters = append(clusters, v)
			for id := range v.Clusters {
				clusterIDs = append(clusterIDs, id)
			}
			x.stat("kind.clusters" + nested)
		case *macaroon.ValidityWindow:
			windows = append(windows, v)
			x.stat("kind.window" + nested)
		case *flyio.FeatureSet:
			x.stat("kind.feature" + nested)
		case *resset.IfPresent:
			x.stat("kind.cond" + nested)
			if v.Ifs == nil {
				x.stat("kind.cond.nilifs")
			}
		default:
			x.stat("kind.other" + nested)
		}
	})
	sort.Slice(orgIDs, func(i, j int) bool { return orgIDs[i] < orgIDs[j] })
	sort.Slice(appIDs, func(i, j int) bool { return appIDs[i] < appIDs[j] })
	sort.Strings(clusterIDs)
	if maxDepth > 4 {
		x.stat("set.depth5+")
	} else {
		x.stat(fmt.Sprintf("set.depth%d", maxDepth))
	}
	if aliased {
		x.stat("set.with-shared-object")
	}
	for _, n := range []struct {
		k string
		n int
	}{{"org", len(orgs)}, {"apps", len(apps)}, {"clusters", len(clusters)}, {"window", len(windows)}} {
		switch {
		case n.n >= 4:
			x.stat("set." + n.k + ".4+")
		case n.n >= 2:
			x.stat("set." + n.k + ".2-3")
		}
	}
	x.stat("sets")

	// first answers, for the purity check at the end
	first := map[string]string{}

	// ---- OrganizationScope ----
	orgObs := func() (uint64, error, string) {
		var org uint64
		var oerr error
		res := guard(func() string {
			org, oerr = flyio.OrganizationScope(cs)
			if oerr != nil {
				return sxErr(oerr)
			}
			return fmt.Sprintf("org:%d", org)
		})
		return org, oerr, res
	}
	if ops.org {
		org, oerr, res := orgObs()
		first["org"] = res
		o.emit("(scope.org "+C+")", res)
		switch {
		case res == "org:0":
			x.stat("org.ok.wildcard")
		case strings.HasPrefix(res, "org:"):
			if org > 3 {
				x.stat("org.ok.wide-id")
			}
			x.stat("org.ok")
		default:
			x.stat("org.err." + scLeafClass(res))
		}
		verdict := guard(func() string {
			if oerr != nil || strings.HasPrefix(res, "panic") {
				return "sound" // errors claim nothing
			}
			// (a) every organization caveat anywhere in the set permits {org, action none}
			for _, c := range orgs {
				if c.Prohibits(&flyio.Access{OrgID: &org, Action: resset.ActionNone}) != nil {
					return fmt.Sprintf("unsound:org-caveat-denies:%d", org)
				}
			}
			ids, variants := scU64Universe(append(append([]uint64{}, scOrgIDs...), scProbeOrg, 999), orgIDs)
			if org == 0 {
				// (c) wildcard scope: every organization clears the organization caveats
				for _, id := range append(ids, variants...) {
					id := id
					for _, c := range orgs {
						if c.Prohibits(&flyio.Access{OrgID: &id, Action: resset.ActionNone}) != nil {
							return fmt.Sprintf("unsound:wildcard-but-denied:%d", id)
						}
					}
				}
				return "sound"
			}
			// (b) no request naming another organization clears the whole set
			probes := func(id *uint64) []scProbe {
				return []scProbe{{org: id}, {org: id, app: p64(1)},
					{org: id, feature: pstr(flyio.FeatureLFSC), cluster: pstr("a")}, {org: id, feature: pstr("wg")}}
			}
			for _, id := range ids {
				if id == org {
					continue
				}
				id := id
				for _, act := range scOracleActions {
					for _, p := range probes(&id) {
						if scAnyClears(cs, x.shapes(p, act, x.wnow, 0)) {
							return fmt.Sprintf("unsound:other-org-clears:%d", id)
						}
					}
				}
			}
			for _, id := range variants {
				if id == org {
					continue
				}
				id := id
				x.stat("oracle.org.variant-probe")
				for _, p := range probes(&id)[:2] {
					if scAnyClears(cs, x.shapes(p, 0, x.wnow, 0)) {
						return fmt.Sprintf("unsound:other-org-clears:%d", id)
					}
				}
			}
			return "sound"
		})
		x.spec("(spec.scope.org "+C+")", verdict)
	}

	// ---- AppScope ----
	appObs := func() ([]uint64, string) {
		var scope []uint64
		res := guard(func() string {
			scope = flyio.AppScope(cs)
			if scope == nil {
				return "apps:nil"
			}
			return "apps:" + scIDList(scope)
		})
		return scope, res
	}
	if ops.app {
		scope, res := appObs()
		first["app"] = res
		o.emit("(scope.app "+C+")", res)
		switch {
		case scope == nil:
			if len(apps) == 0 {
				x.stat("app.nil.nocaveat")
			} else {
				x.stat("app.nil.wildcard")
			}
		case len(scope) == 0:
			x.stat("app.empty")
		case len(scope) > 3:
			x.stat("app.list4+")
		default:
			x.stat(fmt.Sprintf("app.list%d", len(scope)))
		}
		for _, id := range scope {
			if id > 3 {
				x.stat("app.list.with-wide-id")
				break
			}
		}
		verdict := guard(func() string {
			if strings.HasPrefix(res, "panic") {
				return "sound"
			}
			ids, variants := scU64Universe(append(append([]uint64{}, scAppIDs...), scProbeApp, 999), appIDs)
			clearsKind := func(id uint64) bool {
				for _, c := range apps {
					if c.Prohibits(&flyio.Access{OrgID: p64(999), AppID: &id, Action: resset.ActionNone}) != nil {
						return false
					}
				}
				return true
			}
			if scope == nil {
				for _, id := range append(ids, variants...) {
					if !clearsKind(id) {
						return fmt.Sprintf("unsound:unrestricted-but-denied:%d", id)
					}
				}
				return "sound"
			}
			for _, id := range scope {
				if !clearsKind(id) {
					return fmt.Sprintf("unsound:included-denied:%d", id)
				}
			}
			for _, id := range ids {
				if scHasU64(scope, id) {
					continue
				}
				id := id
				for _, org := range []uint64{0, 1, 999} {
					org := org
					for _, act := range scOracleActions {
						for _, p := range []scProbe{{org: &org, app: &id}, {app: &id}} {
							if scAnyClears(cs, x.shapes(p, act, x.wnow, 0)) {
								return fmt.Sprintf("unsound:left-out-clears:%d", id)
							}
						}
					}
				}
			}
			for _, id := range variants {
				if scHasU64(scope, id) {
					continue
				}
				id := id
				x.stat("oracle.app.variant-probe")
				for _, org := range []uint64{1, 999} {
					org := org
					if scAnyClears(cs, x.shapes(scProbe{org: &org, app: &id}, 0, x.wnow, 0)) {
						return fmt.Sprintf("unsound:left-out-clears:%d", id)
					}
				}
			}
			return "sound"
		})
		x.spec("(spec.scope.app "+C+")", verdict)
	}

	// ---- ClusterScope ----
	clusterObs := func() ([]string, string) {
		var scope []string
		res := guard(func() string {
			scope = flyio.ClusterScope(cs)
			if scope == nil {
				return "clusters:nil"
			}
			parts := make([]string, len(scope))
			for i, s := range scope {
				parts[i] = hs(s)
			}
			return "clusters:" + strings.Join(parts, ",")
		})
		return scope, res
	}
	if ops.cluster {
		scope, res := clusterObs()
		first["cluster"] = res
		o.emit("(scope.cluster "+C+")", res)
		switch {
		case scope == nil:
			if len(clusters) == 0 {
				x.stat("cluster.nil.nocaveat")
			} else {
				x.stat("cluster.nil.wildcard")
			}
		case len(scope) == 0:
			x.stat("cluster.empty")
		case scHasStr(scope, ""):
			x.stat("cluster.list.with-wildcard")
		case len(scope) > 3:
			x.stat("cluster.list4+")
		default:
			x.stat(fmt.Sprintf("cluster.list%d", len(scope)))
		}
		for _, id := range scope {
			if !scHasStr(scClusterIDs, id) {
				x.stat("cluster.list.with-wide-id")
				break
			}
		}
		verdict := guard(func() string {
			if strings.HasPrefix(res, "panic") {
				return "sound"
			}
			ids, variants := scStrUniverse(append(append([]string{}, scClusterIDs...), scProbeCluster, "abc", "A"), clusterIDs)
			clearsKind := func(id string) bool {
				for _, c := range clusters {
					if c.Prohibits(&flyio.Access{OrgID: p64(999), Feature: pstr(flyio.FeatureLFSC), Cluster: &id, Action: resset.ActionNone}) != nil {
						return false
					}
				}
				return true
			}
			if scope == nil {
				for _, id := range append(ids, variants...) {
					if !clearsKind(id) {
						return "unsound:unrestricted-but-denied:" + hs(id)
					}
				}
				return "sound"
			}
			for _, id := range scope {
				if !clearsKind(id) {
					return "unsound:included-denied:" + hs(id)
				}
			}
			for _, id := range ids {
				if scHasStr(scope, id) {
					continue
				}
				id := id
				for _, org := range []uint64{0, 1, 999} {
					org := org
					for _, act := range scOracleActions {
						for _, p := range []scProbe{{org: &org, feature: pstr(flyio.FeatureLFSC), cluster: &id}, {cluster: &id}} {
							if scAnyClears(cs, x.shapes(p, act, x.wnow, 0)) {
								return "unsound:left-out-clears:" + hs(id)
							}
						}
					}
				}
			}
			for _, id := range variants {
				if scHasStr(scope, id) {
					continue
				}
				id := id
				x.stat("oracle.cluster.variant-probe")
				for _, org := range []uint64{1, 999} {
					org := org
					if scAnyClears(cs, x.shapes(scProbe{org: &org, feature: pstr(flyio.FeatureLFSC), cluster: &id}, 0, x.wnow, 0)) {
						return "unsound:left-out-clears:" + hs(id)
					}
				}
			}
			return "sound"
		})
		x.spec("(spec.scope.cluster "+C+")", verdict)
	}

	// ---- AppsAllowing ----
	if ops.allow {
		for ai, act := range actions {
			var org uint64
			var ids []uint64
			var aerr error
			res := guard(func() string {
				org, ids, aerr = flyio.AppsAllowing(cs, act)
				if aerr != nil {
					return sxErr(aerr)
				}
				if ids == nil {
					return fmt.Sprintf("allow:%d:nil", org)
				}
				return fmt.Sprintf("allow:%d:%s", org, scIDList(ids))
			})
			if ai == 0 {
				first["allow"] = res
			}
			o.emit(fmt.Sprintf("(scope.appsAllowing %s %d %d 0)", C, uint16(act), x.wnow), res)
			switch {
			case aerr != nil:
				x.stat("allow.err." + scLeafClass(res))
			case ids == nil:
				x.stat("allow.ok.nil")
			case len(ids) > 3:
				x.stat("allow.ok.list4+")
			default:
				x.stat(fmt.Sprintf("allow.ok.list%d", len(ids)))
			}
			if aerr == nil {
				switch {
				case act == 0:
					x.stat("allow.ok.action.none")
				case act&^31 != 0:
					x.stat("allow.ok.action.high-bits")
				case act&(act-1) == 0:
					x.stat("allow.ok.action.single-bit")
				case act == 31:
					x.stat("allow.ok.action.all")
				default:
					x.stat("allow.ok.action.several-bits")
				}
			}
			verdict := guard(func() string {
				if aerr != nil || strings.HasPrefix(res, "panic") {
					return "sound"
				}
				primary, variants := scU64Universe(append(append([]uint64{}, scAppIDs...), scProbeApp, 999), appIDs)
				universe := append(primary, variants...)
				for _, id := range universe {
					id := id
					clears := cs.Validate(&flyio.Access{OrgID: &org, AppID: &id, Action: act}) == nil
					switch {
					case ids == nil && !clears:
						return fmt.Sprintf("unsound:unrestricted-but-denied:%d", id)
					case ids != nil && scHasU64(ids, id) && !clears:
						return fmt.Sprintf("unsound:included-denied:%d", id)
					case ids != nil && !scHasU64(ids, id) && clears:
						return fmt.Sprintf("unsound:left-out-clears:%d", id)
					}
				}
				for _, id := range ids {
					if !scHasU64(universe, id) {
						id := id
						if cs.Validate(&flyio.Access{OrgID: &org, AppID: &id, Action: act}) != nil {
							return fmt.Sprintf("unsound:included-denied:%d", id)
						}
					}
				}
				return "sound"
			})
			x.spec(fmt.Sprintf("(spec.scope.appsAllowing %s %d %d 0)", C, uint16(act), x.wnow), verdict)
		}
	}

	// ---- Expiration (token and verified token) ----
	if ops.exp {
		var exp time.Time
		expObs := func(t time.Time) string { return fmt.Sprintf("exp:%d,%d", t.Unix(), t.Nanosecond()) }
		res := guard(func() string {
			m := &macaroon.Macaroon{UnsafeCaveats: *macaroon.NewCaveatSet(cavs...)}
			exp = m.Expiration()
			return expObs(exp)
		})
		o.emit("(scope.expiration "+C+")", res)
		resV := guard(func() string {
			vm := &bundle.VerifiedMacaroon{Caveats: macaroon.NewCaveatSet(cavs...)}
			return expObs(vm.Expiration())
		})
		o.emit("(scope.vexpiration "+C+")", resV)
		// the same through the API: a minted token carrying the caveats, the token decoded from its bytes, the caveat set
		// its verification returns ("skip" when the set cannot be attenuated onto / verified as a plain token)
		resAPI := guard(func() string {
			key := macaroon.SigningKey(scTokenKey)
			m, err := macaroon.New([]byte("scope"), "https://loc", key)
			if err != nil {
				return "skip"
			}
			if err := m.Add(cavs...); err != nil {
				x.stat("exp.api.skip-add")
				return "skip"
			}
			if got := expObs(m.Expiration()); got != res {
				return "minted:" + got
			}
			buf, err := m.Encode()
			if err != nil {
				x.stat("exp.api.skip-encode")
				return "skip"
			}
			dec, err := macaroon.Decode(buf)
			if err != nil {
				x.stat("exp.api.skip-decode")
				return "skip"
			}
			if got := expObs(dec.Expiration()); got != res {
				return "decoded:" + got
			}
			vcs, err := dec.Verify(key, nil, nil)
			if err != nil {
				x.stat("exp.api.skip-verify")
				return "skip"
			}
			if got := expObs((&bundle.VerifiedMacaroon{Caveats: vcs}).Expiration()); got != res {
				return "verified:" + got
			}
			x.stat("exp.api.compared")
			return "same"
		})
		switch {
		case len(windows) == 0:
			x.stat("exp.max.nowindow")
		case exp.Equal(scMaxTime):
			x.stat("exp.max.unbounded-windows")
		case exp.Unix() < x.wnow:
			x.stat("exp.past")
		case exp.Unix() >= 1<<31:
			x.stat("exp.future.beyond-2038")
		default:
			x.stat("exp.future")
		}
		verdict := guard(func() string {
			if strings.HasPrefix(res, "panic") {
				return "sound"
			}
			if res != resV {
				return "unsound:variants-differ:0"
			}
			if resAPI != "skip" && resAPI != "same" {
				return "unsound:variants-differ:" + strings.SplitN(resAPI, ":", 2)[0]
			}
			if exp.Equal(scMaxTime) {
				return "sound" // no instant lies after maxTime
			}
			type inst struct{ s, n int64 }
			es := exp.Unix()
			after := []inst{{es, 1}, {es, 999999999}, {es + 1, 0}, {scMaxUnix, 999999999}}
			if es < scMaxUnix-3600 {
				after = append(after, inst{es + 3600, 0})
			}
			if es < x.wnow {
				after = append(after, inst{x.wnow, 0})
			}
			for _, t := range after {
				for _, act := range scOracleActions {
					for _, p := range []scProbe{{}, {org: p64(1), app: p64(1)},
						{org: p64(1), feature: pstr(flyio.FeatureLFSC), cluster: pstr("a")}, {org: p64(2), feature: pstr("wg")}} {
						if scAnyClears(cs, x.shapes(p, act, t.s, t.n)) {
							return fmt.Sprintf("unsound:clears-after-expiry:%d.%09d", t.s, t.n)
						}
					}
				}
			}
			// further instants, at the weakest demand: a minute, a day, 2^31 and 2^32 seconds later, and the other bounds
			// of the set's own windows that lie after the computed expiry
			var more []inst
			for _, d := range []int64{60, 86400, 1 << 31, 1 << 32} {
				if es < scMaxUnix-d {
					more = append(more, inst{es + d, 0})
				}
			}
			seenB := map[int64]bool{}
			for _, w := range windows {
				for _, b := range []int64{w.NotBefore, w.NotAfter} {
					if b > es && b <= scMaxUnix && !seenB[b] {
						seenB[b] = true
						more = append(more, inst{b, 0})
					}
				}
			}
			for _, t := range more {
				x.stat("oracle.exp.more-instants")
				for _, p := range []scProbe{{}, {org: p64(1), app: p64(1)}} {
					if scAnyClears(cs, x.shapes(p, 0, t.s, t.n)) {
						return fmt.Sprintf("unsound:clears-after-expiry:%d.%09d", t.s, t.n)
					}
				}
			}
			return "sound"
		})
		x.spec("(spec.scope.expiration "+C+")", verdict)
	}

	// ---- the helpers are functions of the set: asked again, in another order, they answer the same, and the set
	// they were given is what it was ----
	if ops.org || ops.app || ops.cluster {
		verdict := guard(func() string {
			if ops.cluster {
				if _, again := clusterObs(); again != first["cluster"] {
					return "unsound:answer-changed:cluster"
				}
			}
			if ops.app {
				if _, again := appObs(); again != first["app"] {
					return "unsound:answer-changed:app"
				}
			}
			if ops.org {
				if _, _, again := orgObs(); again != first["org"] {
					return "unsound:answer-changed:org"
				}
			}
			if ops.allow && len(actions) > 0 && !strings.HasPrefix(first["allow"], "panic") {
				act := actions[0]
				again := guard(func() string {
					org, ids, aerr := flyio.AppsAllowing(cs, act)
					if aerr != nil {
						return sxErr(aerr)
					}
					if ids == nil {
						return fmt.Sprintf("allow:%d:nil", org)
					}
					return fmt.Sprintf("allow:%d:%s", org, scIDList(ids))
				})
				if again != first["allow"] {
					return "unsound:answer-changed:allow"
				}
			}
			if sxCavs(cavs) != C || sxCavs(cs.Caveats) != C {
				return "unsound:set-modified:0"
			}
			return "sound"
		})
		x.spec("(spec.scope.pure "+C+")", verdict)
	}
}

// ---- exhaustive enumerations over the small universe ----

// all ordered selections of at most two elements of pool
func scUpTo2[T any](pool []T, f func(sel []T)) {
	f(nil)
	for _, a := range pool {
		f([]T{a})
	}
	for _, a := range pool {
		for _, b := range pool {
			f([]T{a, b})
		}
	}
}

type scMk func() macaroon.Caveat

// each caveat of pool at top level, inside a conditional, and (deep) inside two conditionals
func scPlacements(pool []scMk, deep bool) []scMk {
	var out []scMk
	for _, g := range pool {
		g := g
		out = append(out, g)
		out = append(out, func() macaroon.Caveat { return scWrapCond(0, g()) })
		if deep {
			out = append(out, func() macaroon.Caveat { return scWrapCond(31, scWrapCond(0, g())) })
		}
	}
	return out
}

func scBuild(sel []scMk) []macaroon.Caveat {
	cs := make([]macaroon.Caveat, len(sel))
	for i, g := range sel {
		cs[i] = g()
	}
	return cs
}

func scU64Sets(ids []uint64, masks []resset.Action) []resset.ResourceSet[uint64, resset.Action] {
	out := []resset.ResourceSet[uint64, resset.Action]{{}}
	for i, a := range ids {
		for _, m := range masks {
			out = append(out, resset.ResourceSet[uint64, resset.Action]{a: m})
			for _, b := range ids[i+1:] {
				for _, m2 := range masks {
					out = append(out, resset.ResourceSet[uint64, resset.Action]{a: m, b: m2})
				}
			}
		}
	}
	return out
}

func scStrSets(ids []string, masks []resset.Action) []resset.ResourceSet[string, resset.Action] {
	out := []resset.ResourceSet[string, resset.Action]{{}}
	for i, a := range ids {
		for _, m := range masks {
			out = append(out, resset.ResourceSet[string, resset.Action]{a: m})
			for _, b := range ids[i+1:] {
				for _, m2 := range masks {
					out = append(out, resset.ResourceSet[string, resset.Action]{a: m, b: m2})
				}
			}
		}
	}
	return out
}

func famScope(r *Rng, o *Out, tier string) {
	thorough := tier == "thorough"
	x := &scopeCtx{r: r, o: o, wnow: time.Now().Unix(), thorough: thorough}

	// fixed cases first: the documented examples and the witness of F11 (repaired)
	fixed := [][]macaroon.Caveat{
		{},
		{&flyio.Organization{ID: 1, Mask: 31}},
		{&flyio.Organization{ID: 0, Mask: 31}, &flyio.Organization{ID: 5, Mask: 31}},
		{&flyio.Organization{ID: 5, Mask: 31}, &flyio.Organization{ID: 0, Mask: 31}},
		{&flyio.Clusters{Clusters: resset.ResourceSet[string, resset.Action]{"": 31}}},
		{&flyio.Organization{ID: 1, Mask: 31}, &flyio.Clusters{Clusters: resset.ResourceSet[string, resset.Action]{"": 1}}, &flyio.Clusters{Clusters: resset.ResourceSet[string, resset.Action]{"": 31}}},
		{&flyio.Organization{ID: 1, Mask: 31}, &flyio.Apps{Apps: resset.ResourceSet[uint64, resset.Action]{0: 31}}},
		{&flyio.Organization{ID: 1, Mask: 31}, &flyio.Apps{Apps: resset.ResourceSet[uint64, resset.Action]{}}},
		{&flyio.Organization{ID: 1, Mask: 31}, scWrapCond(0, &flyio.Apps{Apps: resset.ResourceSet[uint64, resset.Action]{1: 31, 2: 1}}), &flyio.Apps{Apps: resset.ResourceSet[uint64, resset.Action]{2: 31, 3: 31}}},
		{scWrapCond(31, &macaroon.ValidityWindow{NotBefore: 0, NotAfter: baseNow}), &macaroon.ValidityWindow{NotBefore: 0, NotAfter: 1<<63 - 1}},
		{&macaroon.ValidityWindow{NotBefore: 0, NotAfter: scMaxUnix}, &macaroon.ValidityWindow{NotBefore: 0, NotAfter: scMaxUnix - 1}},
	}
	for _, cavs := range fixed {
		x.runSet(cavs, scAllOps, []resset.Action{0, 1, 31})
		o.count("fixed")
	}

	// random mixed sets
	n := 1500
	if thorough {
		n = 25000
	}
	for i := 0; i < n; i++ {
		cavs := x.mixedSet()
		x.runSet(cavs, scAllOps, []resset.Action{pick(r, scActions), x.action(), x.action()})
		o.count("mixed")
	}

	// exhaustive: at most two caveats of a kind, each at top level or nested in conditionals.
	// quick tier takes a pseudo-random 1/stride sample of every enumeration.
	take := func(stride int) bool { return thorough || r.Intn(stride) == 0 }
	masks3 := []resset.Action{0, 1, 31}

	// E1 organization caveats
	var orgPool []scMk
	for _, id := range []uint64{0, 1, 2, 1<<32 | 1, 1<<64 - 1} {
		for _, m := range masks3 {
			id, m := id, m
			orgPool = append(orgPool, func() macaroon.Caveat { return &flyio.Organization{ID: id, Mask: m} })
		}
	}
	scUpTo2(scPlacements(orgPool, true), func(sel []scMk) {
		if !take(14) {
			return
		}
		x.runSet(scBuild(sel), scSetOps{org: true, allow: true}, []resset.Action{0, 1})
		o.count("exh.org")
	})

	// E2 app caveats
	var appsPool []scMk
	for _, s := range scU64Sets([]uint64{0, 1, 2, 1<<32 | 1}, masks3) {
		s := s
		appsPool = append(appsPool, func() macaroon.Caveat { return &flyio.Apps{Apps: s} })
	}
	scUpTo2(scPlacements(appsPool, false), func(sel []scMk) {
		if !take(60) {
			return
		}
		x.runSet(scBuild(sel), scSetOps{app: true}, nil)
		o.count("exh.apps")
	})

	// E3 cluster caveats
	var clPool []scMk
	for _, s := range scStrSets([]string{"", "a", "b", "A"}, masks3) {
		s := s
		clPool = append(clPool, func() macaroon.Caveat { return &flyio.Clusters{Clusters: s} })
	}
	scUpTo2(scPlacements(clPool, false), func(sel []scMk) {
		if !take(60) {
			return
		}
		x.runSet(scBuild(sel), scSetOps{cluster: true}, nil)
		o.count("exh.clusters")
	})

	// E4 AppsAllowing: organization x app caveats
	var orgPool2, appsPool2 []scMk
	for _, id := range []uint64{0, 1, 2} {
		for _, m := range []resset.Action{1, 31} {
			id, m := id, m
			orgPool2 = append(orgPool2, func() macaroon.Caveat { return &flyio.Organization{ID: id, Mask: m} })
		}
	}
	for _, s := range []resset.ResourceSet[uint64, resset.Action]{{0: 31}, {0: 1}, {1: 31}, {1: 1}, {2: 31}, {1: 31, 2: 1}, {1: 1, 2: 31}, {0: 31, 1: 31}, {}} {
		s := s
		appsPool2 = append(appsPool2, func() macaroon.Caveat { return &flyio.Apps{Apps: s} })
	}
	scUpTo2(scPlacements(orgPool2, false), func(osel []scMk) {
		scUpTo2(scPlacements(appsPool2, false), func(asel []scMk) {
			if !take(60) {
				return
			}
			x.runSet(append(scBuild(osel), scBuild(asel)...), scSetOps{allow: true}, []resset.Action{1, 2})
			o.count("exh.allow")
		})
	})

	// E4b AppsAllowing with the app caveat INSIDE a conditional whose else-mask differs from the app mask:
	// "unrestricted" (nil) must mean that requests NAMING an app clear, not that the org-level request does
	for _, oid := range []uint64{0, 1} {
		for _, om := range []resset.Action{3, 31} {
			for _, as := range []resset.ResourceSet[uint64, resset.Action]{{0: 1}, {0: 3}, {0: 31}, {1: 1}, {1: 31}, {1: 1, 2: 31}} {
				for _, els := range []resset.Action{0, 1, 2, 31} {
					x.runSet([]macaroon.Caveat{&flyio.Organization{ID: oid, Mask: om}, scWrapCond(els, &flyio.Apps{Apps: as})},
						scSetOps{allow: true}, []resset.Action{1, 2})
					o.count("exh.allow.cond")
				}
			}
		}
	}

	// E5 validity windows
	var vwPool []scMk
	for _, na := range []int64{x.wnow - 3600, x.wnow + 3600, baseNow, scMaxUnix - 1, scMaxUnix, 1<<63 - 1, -1 << 63, 0,
		1<<31 - 1, 1 << 31, 1 << 32, 253402300800, -1} {
		for _, nb := range []int64{0, x.wnow - 86400} {
			na, nb := na, nb
			vwPool = append(vwPool, func() macaroon.Caveat { return &macaroon.ValidityWindow{NotBefore: nb, NotAfter: na} })
		}
	}
	var vwPlaced []scMk
	for _, g := range vwPool {
		g := g
		vwPlaced = append(vwPlaced, g,
			func() macaroon.Caveat { return scWrapCond(0xffff, g()) },
			func() macaroon.Caveat { return scWrapCond(0xffff, scWrapCond(0xffff, g())) },
			func() macaroon.Caveat {
				return scWrapCond(0xffff, &flyio.FeatureSet{Features: resset.ResourceSet[string, resset.Action]{"wg": 31}}, g())
			})
	}
	scUpTo2(vwPlaced, func(sel []scMk) {
		if !take(45) {
			return
		}
		x.runSet(scBuild(sel), scSetOps{exp: true}, nil)
		o.count("exh.windows")
	})

	// E6 feature caveats and conditionals around a few base sets
	var condPool []scMk
	inners := []scMk{
		func() macaroon.Caveat {
			return &flyio.FeatureSet{Features: resset.ResourceSet[string, resset.Action]{"wg": 31}}
		},
		func() macaroon.Caveat { return &flyio.Apps{Apps: resset.ResourceSet[uint64, resset.Action]{1: 31}} },
		func() macaroon.Caveat { return &flyio.Apps{Apps: resset.ResourceSet[uint64, resset.Action]{0: 1}} },
		func() macaroon.Caveat { return &flyio.Organization{ID: 1, Mask: 31} },
		func() macaroon.Caveat { return &flyio.Organization{ID: 2, Mask: 1} },
		func() macaroon.Caveat {
			return &flyio.Clusters{Clusters: resset.ResourceSet[string, resset.Action]{"a": 31}}
		},
		func() macaroon.Caveat { return &macaroon.ValidityWindow{NotBefore: 0, NotAfter: x.wnow + 3600} },
		func() macaroon.Caveat { return &macaroon.ValidityWindow{NotBefore: 0, NotAfter: x.wnow - 3600} },
	}
	for _, in := range inners {
		for _, els := range masks3 {
			in, els := in, els
			condPool = append(condPool, func() macaroon.Caveat { return scWrapCond(els, in()) })
		}
	}
	for _, els := range masks3 {
		els := els
		condPool = append(condPool, func() macaroon.Caveat { return &resset.IfPresent{Else: els} }, // no Ifs at all
			func() macaroon.Caveat { return scWrapCond(els) }) // empty Ifs
	}
	for _, f := range []resset.ResourceSet[string, resset.Action]{{"wg": 31}, {"": 1}, {flyio.FeatureLFSC: 31}} {
		f := f
		condPool = append(condPool, func() macaroon.Caveat { return &flyio.FeatureSet{Features: f} })
	}
	bases := [][]scMk{
		{},
		{func() macaroon.Caveat { return &flyio.Organization{ID: 1, Mask: 31} }},
		{func() macaroon.Caveat { return &flyio.Organization{ID: 1, Mask: 31} },
			func() macaroon.Caveat {
				return &flyio.Apps{Apps: resset.ResourceSet[uint64, resset.Action]{1: 31, 2: 1}}
			}},
	}
	for _, base := range bases {
		scUpTo2(condPool, func(sel []scMk) {
			if !take(18) {
				return
			}
			x.runSet(append(scBuild(base), scBuild(sel)...), scAllOps, []resset.Action{1, 31})
			o.count("exh.cond")
		})
	}

	// E7 cluster ids that a sloppy comparison would identify: each wide id x with each of its variants y (other case,
	// trimmed, a separator or a byte more or less), alone / in one map / in two caveats / one of them in a conditional
	all31 := resset.Action(31)
	for _, xid := range append(append([]string{}, scClusterIDs...), scClusterWide...) {
		_, vs := scStrUniverse(nil, []string{xid})
		if take(3) {
			x.runSet([]macaroon.Caveat{&flyio.Clusters{Clusters: resset.ResourceSet[string, resset.Action]{xid: all31}}}, scSetOps{cluster: true}, nil)
			o.count("exh.cluster-variants")
		}
		for _, yid := range vs {
			xid, yid := xid, yid
			for k, mk := range []func() []macaroon.Caveat{
				func() []macaroon.Caveat {
					return []macaroon.Caveat{&flyio.Clusters{Clusters: resset.ResourceSet[string, resset.Action]{xid: all31, yid: 1}}}
				},
				func() []macaroon.Caveat {
					return []macaroon.Caveat{&flyio.Clusters{Clusters: resset.ResourceSet[string, resset.Action]{xid: all31}},
						&flyio.Clusters{Clusters: resset.ResourceSet[string, resset.Action]{yid: all31}}}
				},
				func() []macaroon.Caveat {
					return []macaroon.Caveat{&flyio.Clusters{Clusters: resset.ResourceSet[string, resset.Action]{xid: all31, yid: all31}},
						scWrapCond(0, &flyio.Clusters{Clusters: resset.ResourceSet[string, resset.Action]{yid: all31}})}
				},
			} {
				if !take(6) {
					continue
				}
				x.runSet(mk(), scSetOps{cluster: true}, nil)
				o.count(fmt.Sprintf("exh.cluster-variants.shape%d", k))
			}
		}
	}

	// E8 the same for app and organization ids: each wide id x with the ids that share its low 32 bits, differ in
	// bit 63 or by one
	for _, xid := range scIDsWide {
		_, vs := scU64Universe(nil, []uint64{xid})
		if take(3) {
			x.runSet([]macaroon.Caveat{&flyio.Organization{ID: 1, Mask: all31}, &flyio.Apps{Apps: resset.ResourceSet[uint64, resset.Action]{xid: all31}}},
				scSetOps{app: true, allow: true}, []resset.Action{1})
			x.runSet([]macaroon.Caveat{&flyio.Organization{ID: xid, Mask: all31}, &flyio.Apps{Apps: resset.ResourceSet[uint64, resset.Action]{1: all31, xid: 3}}},
				scSetOps{org: true, app: true, allow: true}, []resset.Action{1})
			o.count("exh.id-variants")
		}
		for _, yid := range vs {
			xid, yid := xid, yid
			for k, mk := range []func() []macaroon.Caveat{
				func() []macaroon.Caveat {
					return []macaroon.Caveat{&flyio.Organization{ID: 1, Mask: all31}, &flyio.Apps{Apps: resset.ResourceSet[uint64, resset.Action]{xid: all31, yid: 1}}}
				},
				func() []macaroon.Caveat {
					return []macaroon.Caveat{&flyio.Organization{ID: 1, Mask: all31}, &flyio.Apps{Apps: resset.ResourceSet[uint64, resset.Action]{xid: all31}},
						&flyio.Apps{Apps: resset.ResourceSet[uint64, resset.Action]{yid: all31}}}
				},
				func() []macaroon.Caveat {
					return []macaroon.Caveat{&flyio.Organization{ID: 1, Mask: all31}, &flyio.Apps{Apps: resset.ResourceSet[uint64, resset.Action]{xid: all31, yid: all31}},
						scWrapCond(0, &flyio.Apps{Apps: resset.ResourceSet[uint64, resset.Action]{yid: 3}})}
				},
				func() []macaroon.Caveat {
					return []macaroon.Caveat{&flyio.Organization{ID: xid, Mask: all31}, &flyio.Organization{ID: yid, Mask: all31}}
				},
				func() []macaroon.Caveat {
					return []macaroon.Caveat{&flyio.Organization{ID: xid, Mask: all31}, scWrapCond(0, &flyio.Organization{ID: yid, Mask: all31})}
				},
			} {
				if !take(5) {
					continue
				}
				x.runSet(mk(), scSetOps{org: true, app: true, allow: true}, []resset.Action{1, 2})
				o.count(fmt.Sprintf("exh.id-variants.shape%d", k))
			}
		}
	}

	// E9 "any masks ... every action": AppsAllowing over the mask lattice. The action is drawn first; every mask of
	// the set is then the action plus extra bits, the action minus one of its bits, or any mask at all, so that
	// answers of every kind (unrestricted, a list, a shorter list, refused) occur for every action
	nMask := 600
	if thorough {
		nMask = 6000
	}
	bits := []resset.Action{1, 2, 4, 8, 16, 32, 0x100, 0x8000}
	for i := 0; i < nMask; i++ {
		act := pick(r, []resset.Action{1, 2, 4, 8, 16, 3, 5, 6, 10, 15, 17, 24, 27, 30, 31, 32, 33, 0x8000, 0x801f, 0xffff, 0})
		if r.Chance(1, 5) {
			act = resset.Action(r.U64())
		}
		near := func() resset.Action {
			switch r.Intn(6) {
			case 0, 1:
				return act | pick(r, bits) | pick(r, bits)
			case 2:
				return act
			case 3, 4:
				m := act
				for _, b := range bits {
					if act&b != 0 && r.Chance(1, 2) {
						m &^= b
						break
					}
				}
				if m == act {
					m = act &^ (act & -act) // drop the lowest bit
				}
				return m | pick(r, bits)&^act
			default:
				return x.mask()
			}
		}
		oid := pick(r, []uint64{1, 1, 0, 999})
		var cavs []macaroon.Caveat
		switch r.Intn(6) {
		case 0:
			cavs = []macaroon.Caveat{&flyio.Organization{ID: oid, Mask: near()}}
		case 1:
			cavs = []macaroon.Caveat{&flyio.Organization{ID: oid, Mask: near()}, &flyio.Apps{Apps: resset.ResourceSet[uint64, resset.Action]{0: near()}}}
		case 2:
			cavs = []macaroon.Caveat{&flyio.Organization{ID: oid, Mask: near()}, &flyio.Apps{Apps: resset.ResourceSet[uint64, resset.Action]{1: near(), 2: near(), 3: near()}}}
		case 3:
			cavs = []macaroon.Caveat{&flyio.Organization{ID: oid, Mask: near()}, &flyio.Apps{Apps: resset.ResourceSet[uint64, resset.Action]{1: near(), 2: near()}},
				&flyio.Apps{Apps: resset.ResourceSet[uint64, resset.Action]{1: near(), 2: near(), 3: near()}}}
		case 4:
			cavs = []macaroon.Caveat{&flyio.Organization{ID: oid, Mask: near()}, scWrapCond(near(), &flyio.Apps{Apps: resset.ResourceSet[uint64, resset.Action]{1: near(), 2: near()}})}
		default:
			a := near()
			cavs = []macaroon.Caveat{&flyio.Organization{ID: oid, Mask: near()}, &a, scWrapCond(near(), &flyio.FeatureSet{Features: resset.ResourceSet[string, resset.Action]{"wg": near()}}),
				&flyio.Apps{Apps: resset.ResourceSet[uint64, resset.Action]{1: near(), 1<<32 | 1: near()}}}
		}
		x.runSet(cavs, scSetOps{allow: true}, []resset.Action{act})
		o.count("exh.masks")
	}

	// E10 deep chains: one caveat under d conditionals, next to a base set every helper answers for
	depths := []int{3, 5, 8}
	if thorough {
		depths = append(depths, 20, 60)
	}
	chainLeaves := []scMk{
		func() macaroon.Caveat { return &flyio.Organization{ID: 2, Mask: all31} },
		func() macaroon.Caveat { return &flyio.Organization{ID: 1, Mask: 1} },
		func() macaroon.Caveat { return &flyio.Apps{Apps: resset.ResourceSet[uint64, resset.Action]{2: all31}} },
		func() macaroon.Caveat {
			return &flyio.Clusters{Clusters: resset.ResourceSet[string, resset.Action]{"b": all31}}
		},
		func() macaroon.Caveat { return &macaroon.ValidityWindow{NotBefore: 0, NotAfter: x.wnow - 86400} },
		func() macaroon.Caveat { return &macaroon.ValidityWindow{NotBefore: 0, NotAfter: x.wnow + 3600} },
	}
	for _, d := range depths {
		for li, leaf := range chainLeaves {
			c := leaf()
			for i := 0; i < d; i++ {
				c = scWrapCond(pick(r, masks3), c)
			}
			x.runSet([]macaroon.Caveat{&flyio.Organization{ID: 1, Mask: all31}, &flyio.Apps{Apps: resset.ResourceSet[uint64, resset.Action]{1: all31, 2: all31}},
				&flyio.Clusters{Clusters: resset.ResourceSet[string, resset.Action]{"a": all31, "b": all31}},
				&macaroon.ValidityWindow{NotBefore: 0, NotAfter: x.wnow + 86400}, c}, scAllOps, []resset.Action{1})
			o.count(fmt.Sprintf("exh.chain.leaf%d", li))
		}
	}
}
