package main

// harness <family> -seed N -tier quick|thorough -out DIR
//
// Runs the real library on generated inputs and writes
//   DIR/ops.txt   one operation per line (input of the Lean model driver)
//   DIR/impl.txt  the canonical observable of the implementation for that line
//   DIR/meta.json distribution of what was generated, samples
// The comparator (../check) runs the model on ops.txt and diffs.

import (
	"bufio"
	"encoding/json"
	"flag"
	"fmt"
	"os"
	"path/filepath"
	"sort"
	"strings"
)

type Out struct {
	ops, impl *bufio.Writer
	n         int
	stats     map[string]int
	samples   []string
	distinct  map[string]struct{}
}

func (o *Out) emit(op, impl string) {
	if strings.ContainsAny(op, "\n\r") || strings.ContainsAny(impl, "\n\r") {
		panic("newline in protocol line")
	}
	fmt.Fprintln(o.ops, op)
	fmt.Fprintln(o.impl, impl)
	o.n++
	if len(o.samples) < 5 || (o.n%997 == 0 && len(o.samples) < 12) {
		o.samples = append(o.samples, op+"  =>  "+impl)
	}
	o.distinct[op] = struct{}{}
}

func (o *Out) count(key string) { o.stats[key]++ }

// guard runs f under recover; a panic becomes the observable "panic:<first line>"
func guard(f func() string) (res string) {
	defer func() {
		if p := recover(); p != nil {
			msg := fmt.Sprint(p)
			if i := strings.IndexByte(msg, '\n'); i >= 0 {
				msg = msg[:i]
			}
			res = "panic:" + strings.ReplaceAll(msg, " ", "_")
		}
	}()
	return f()
}

type family func(r *Rng, o *Out, tier string)

var families = map[string]family{}

func main() {
	if len(os.Args) < 2 {
		fmt.Fprintln(os.Stderr, "usage: harness <family> [-seed N] [-tier quick|thorough] [-out DIR]")
		os.Exit(2)
	}
	fam := os.Args[1]
	fs := flag.NewFlagSet("harness", flag.ExitOnError)
	seed := fs.Uint64("seed", 1, "seed")
	tier := fs.String("tier", "quick", "tier")
	out := fs.String("out", ".", "output dir")
	fs.Parse(os.Args[2:])

	f, ok := families[fam]
	if !ok {
		fmt.Fprintln(os.Stderr, "unknown family", fam)
		os.Exit(2)
	}
	if err := os.MkdirAll(*out, 0o755); err != nil {
		panic(err)
	}
	fo, err := os.Create(filepath.Join(*out, "ops.txt"))
	if err != nil {
		panic(err)
	}
	fi, err := os.Create(filepath.Join(*out, "impl.txt"))
	if err != nil {
		panic(err)
	}
	o := &Out{ops: bufio.NewWriterSize(fo, 1<<20), impl: bufio.NewWriterSize(fi, 1<<20), stats: map[string]int{}, distinct: map[string]struct{}{}}
	f(NewRng(*seed), o, *tier)
	o.ops.Flush()
	o.impl.Flush()
	fo.Close()
	fi.Close()

	keys := make([]string, 0, len(o.stats))
	for k := range o.stats {
		keys = append(keys, k)
	}
	sort.Strings(keys)
	meta := map[string]any{"family": fam, "seed": *seed, "tier": *tier, "ops": o.n, "distinct_ops": len(o.distinct), "stats": o.stats, "samples": o.samples}
	b, _ := json.MarshalIndent(meta, "", " ")
	os.WriteFile(filepath.Join(*out, "meta.json"), b, 0o644)
}
