package main

// Seeded generators.  Every random choice derives from one splitmix64 state.

import (
	"math/big"

	"github.com/superfly/macaroon"
	"github.com/superfly/macaroon/auth"
	"github.com/superfly/macaroon/flyio"
	"github.com/superfly/macaroon/resset"
)

type Rng struct{ s uint64 }

// NewRng: the seed is mixed first, so that neighbouring seeds are unrelated streams (a state of
// seed*gamma would make seed s+1 the same stream shifted by one draw)
func NewRng(seed uint64) *Rng {
	z := seed + 0x632BE59BD9B4E019
	z = (z ^ (z >> 30)) * 0xBF58476D1CE4E5B9
	z = (z ^ (z >> 27)) * 0x94D049BB133111EB
	return &Rng{z ^ (z >> 31)}
}
func (r *Rng) U64() uint64 {
	r.s += 0x9E3779B97F4A7C15
	z := r.s
	z = (z ^ (z >> 30)) * 0xBF58476D1CE4E5B9
	z = (z ^ (z >> 27)) * 0x94D049BB133111EB
	return z ^ (z >> 31)
}
func (r *Rng) Intn(n int) int { return int(r.U64() % uint64(n)) }
func (r *Rng) Bool() bool     { return r.U64()&1 == 1 }
func (r *Rng) Chance(num, den int) bool {
	return r.Intn(den) < num
}
func (r *Rng) Bytes(n int) []byte {
	b := make([]byte, n)
	for i := range b {
		b[i] = byte(r.U64())
	}
	return b
}
func pick[T any](r *Rng, xs []T) T { return xs[r.Intn(len(xs))] }

var smallIDs = []uint64{0, 1, 2, 3}
var boundaryU64 = []uint64{0, 1, 2, 3, 127, 128, 255, 256, 65535, 65536, 1<<31 - 1, 1 << 31, 1<<32 - 1, 1 << 32, 1<<63 - 1, 1 << 63, 1<<64 - 1}

// (among them the labels Access.Validate uses for typed resources: a FEATURE may carry such a name)
var smallStrs = []string{"", "a", "ab", "abc", "b", "litefs-cloud", "wg", "billing", "deletion", "zz", "app", "machine", "volume", "storage-object", "command-execution", "membership", "authentication"}
var maskPool = []resset.Action{0, 1, 2, 3, 4, 8, 16, 31, 0xffff, 32, 33, 0x8000, 5, 30}

func (r *Rng) id() uint64 {
	if r.Chance(1, 12) {
		return pick(r, boundaryU64)
	}
	return pick(r, smallIDs)
}
func (r *Rng) str() string {
	if r.Chance(1, 15) {
		return string(r.Bytes(r.Intn(6)))
	}
	return pick(r, smallStrs)
}
func (r *Rng) mask() resset.Action {
	if r.Chance(1, 10) {
		return resset.Action(r.U64())
	}
	return pick(r, maskPool)
}

func (r *Rng) strSet() resset.ResourceSet[string, resset.Action] {
	n := r.Intn(4)
	m := resset.ResourceSet[string, resset.Action]{}
	for i := 0; i < n; i++ {
		m[r.str()] = r.mask()
	}
	return m
}

// kinds of caveat the clearing generator draws from (index = generator case)
const nCavKinds = 30

func (r *Rng) Cav(depth int) macaroon.Caveat {
	return r.CavKind(r.Intn(nCavKinds), depth)
}

func (r *Rng) CavKind(k int, depth int) macaroon.Caveat {
	switch k {
	case 0:
		return &flyio.Organization{ID: r.id(), Mask: r.mask()}
	case 1:
		n := r.Intn(4)
		m := resset.ResourceSet[uint64, resset.Action]{}
		for i := 0; i < n; i++ {
			m[r.id()] = r.mask()
		}
		return &flyio.Apps{Apps: m}
	case 2:
		return &flyio.Volumes{Volumes: r.strSet()}
	case 3:
		return &flyio.Machines{Machines: r.strSet()}
	case 4:
		return &flyio.FeatureSet{Features: r.strSet()}
	case 5:
		return &flyio.MachineFeatureSet{Features: r.strSet()}
	case 6:
		return &flyio.AppFeatureSet{Features: r.strSet()}
	case 7:
		return &flyio.Clusters{Clusters: r.strSet()}
	case 8:
		m := resset.ResourceSet[resset.Prefix, resset.Action]{}
		for k, v := range r.strSet() {
			m[resset.Prefix(k)] = v
		}
		return &flyio.StorageObjects{Prefixes: m}
	case 9:
		return &macaroon.ValidityWindow{NotBefore: r.timeBound(), NotAfter: r.timeBound()}
	case 10:
		if r.Chance(1, 6) {
			return &flyio.Mutations{}
		}
		n := r.Intn(3)
		ms := make([]string, n)
		for i := range ms {
			ms[i] = r.str()
		}
		return &flyio.Mutations{Mutations: ms}
	case 11:
		return &auth.ConfineUser{ID: r.id()}
	case 12:
		return &auth.ConfineOrganization{ID: r.id()}
	case 13:
		return &flyio.IsUser{ID: r.id()}
	case 14:
		return &macaroon.Caveat3P{Location: r.str(), VerifierKey: r.Bytes(r.Intn(4)), Ticket: r.Bytes(r.Intn(4))}
	case 15:
		b := macaroon.BindToParentToken(r.Bytes(r.Intn(5)))
		return &b
	case 16:
		if depth <= 0 {
			a := r.mask()
			return &a
		}
		n := r.Intn(4)
		cs := make([]macaroon.Caveat, n)
		for i := range cs {
			cs[i] = r.Cav(depth - 1)
		}
		return &resset.IfPresent{Ifs: macaroon.NewCaveatSet(cs...), Else: r.mask()}
	case 17:
		return &flyio.FromMachine{ID: r.str()}
	case 18:
		h := auth.ConfineGoogleHD(r.str())
		return &h
	case 19:
		o := auth.ConfineGitHubOrg(r.id())
		return &o
	case 20:
		v := auth.MaxValidity(pick(r, []uint64{0, 1, 60, 3600, 1 << 31, 9223372036, 9223372037, 1 << 63, 1<<64 - 1, 18446744073}))
		return &v
	case 21:
		return &flyio.IsMember{}
	case 22:
		u := auth.FlyioUserID(r.id())
		return &u
	case 23:
		u := auth.GitHubUserID(r.id())
		return &u
	case 24:
		u := auth.GoogleUserID(*new(big.Int).SetBytes(r.Bytes(r.Intn(12))))
		return &u
	case 25:
		a := r.mask()
		return &a
	case 26:
		if r.Chance(1, 6) {
			var c flyio.Commands
			return &c
		}
		n := r.Intn(3)
		cs := make(flyio.Commands, n)
		for i := range cs {
			if r.Chance(1, 5) {
				cs[i] = flyio.Command{Exact: r.Bool()}
			} else {
				m := r.Intn(3)
				args := make([]string, m)
				for j := range args {
					args[j] = pick(r, []string{"a", "b", "ls", ""})
				}
				cs[i] = flyio.Command{Args: args, Exact: r.Bool()}
			}
		}
		return &cs
	case 27:
		ar := flyio.AllowedRoles(pick(r, []uint32{0, 1, 2, 3, 0xFFFFFFFF, 0xFFFFFFFE, 5}))
		return &ar
	case 28:
		return &flyio.FlySrc{Organization: pick(r, []string{"", "a", "b"}), App: pick(r, []string{"", "a", "b"}), Instance: pick(r, []string{"", "a", "b"})}
	default:
		// unregistered: an unallocated type number with a small well-formed msgpack body
		typ := pick(r, []uint64{1, 17, 18, 32, 1000, 1 << 16, 1 << 32, 1 << 48, 1<<64 - 2})
		body := pick(r, [][]byte{{0xc0}, {0x01}, {0x90}, {0x91, 0x05}, {0xa1, 0x61}, {0x80}, {0x81, 0xa1, 0x61, 0x02}, {0xc4, 0x01, 0xff}})
		uc := &macaroon.UnregisteredCaveat{Type: macaroon.CaveatType(typ), RawMsgpack: append([]byte{}, body...)}
		return uc
	}
}

// harness clock: a fixed "now" and bounds around it
const baseNow = int64(1_700_000_000)

func (r *Rng) timeBound() int64 {
	switch r.Intn(10) {
	case 0:
		return pick(r, []int64{-1 << 63, 1<<63 - 1, 1<<63 - 1 - 62135596800, 1<<63 - 62135596800, -62135596800, -62135596801, 0})
	default:
		return baseNow + int64(r.Intn(7)) - 3
	}
}

func p64(v uint64) *uint64  { return &v }
func pstr(s string) *string { return &s }

func (r *Rng) optID(pNil int) *uint64 {
	if r.Chance(pNil, 10) {
		return nil
	}
	return p64(r.id())
}
func (r *Rng) optStr(pNil int) *string {
	if r.Chance(pNil, 10) {
		return nil
	}
	return pstr(r.str())
}

// Dyn draws a request: sparse (most optional fields nil) or dense.
func (r *Rng) Dyn() *Dyn {
	pNil := pick(r, []int{2, 5, 8, 9})
	d := &Dyn{NowSec: baseNow + int64(r.Intn(7)) - 3, NowNsec: pick(r, []int64{0, 0, 1, 999999999})}
	if r.Chance(1, 16) {
		// a request time far from the harness clock: the zero time.Time (an unset timestamp), the epoch, far future
		d.NowSec, d.NowNsec = pick(r, []int64{-62135596800, 0, -1, 4102444800, 1 << 40}), 0
	}
	if r.Chance(1, 8) {
		d.WF = pick(r, []string{"other", "invalidAccess", "resUnspecified", "resMutEx", "unauthorized"})
	}
	d.Action = r.mask()
	d.Org = r.optID(pNil / 2)
	d.App = r.optID(pNil)
	d.AppFeat = r.optStr(pNil)
	d.Feature = r.optStr(pNil)
	d.Volume = r.optStr(pNil)
	d.Machine = r.optStr(pNil)
	d.MachFeat = r.optStr(pNil)
	d.Cluster = r.optStr(pNil)
	if s := r.optStr(pNil); s != nil {
		p := resset.Prefix(*s)
		d.Storage = &p
	}
	d.Mutation = r.optStr(pNil)
	d.SrcMach = r.optStr(pNil)
	d.SrcApp = r.optStr(pNil)
	d.SrcOrg = r.optStr(pNil)
	if !r.Chance(pNil, 10) {
		d.HasCmd = true
		n := r.Intn(3)
		for i := 0; i < n; i++ {
			d.Command = append(d.Command, pick(r, []string{"a", "b", "ls", ""}))
		}
	}
	n := r.Intn(3)
	for i := 0; i < n; i++ {
		d.Roles = append(d.Roles, flyio.Role(pick(r, []uint32{0, 1, 2, 3, 0xFFFFFFFF})))
	}
	return d
}

func (r *Rng) DischargeRequest() *auth.DischargeRequest {
	dr := &auth.DischargeRequest{}
	for i, n := 0, r.Intn(3); i < n; i++ {
		f := &auth.FlyioAuth{UserID: r.id()}
		for j, m := 0, r.Intn(3); j < m; j++ {
			f.OrganizationIDs = append(f.OrganizationIDs, r.id())
		}
		dr.Flyio = append(dr.Flyio, f)
	}
	for i, n := 0, r.Intn(3); i < n; i++ {
		// the fields the conditions must not look at (e-mail, user ids, login) are drawn too and
		// stay off the op line: the model answers from the hosted domain and the org ids alone
		g := &auth.GoogleAuth{HD: r.str()}
		if r.Chance(2, 3) {
			g.Email = pick(r, []string{"u", "mallory", ""}) + "@" + r.str()
		} else if r.Bool() {
			g.Email = r.str()
		}
		if r.Bool() {
			u := auth.GoogleUserID(*new(big.Int).SetBytes(r.Bytes(r.Intn(12))))
			g.UserID = &u
		}
		dr.Google = append(dr.Google, g)
	}
	for i, n := 0, r.Intn(3); i < n; i++ {
		g := &auth.GitHubAuth{UserID: r.id(), Login: r.str()}
		for j, m := 0, r.Intn(3); j < m; j++ {
			g.OrgIDs = append(g.OrgIDs, r.id())
		}
		dr.GitHub = append(dr.GitHub, g)
	}
	return dr
}
