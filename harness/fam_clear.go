package main

// Families of the clearing layer: clear (C03), resset (C09), flyio (C10), authcav (C18).

import (
	"fmt"
	"strings"
	"time"

	"github.com/superfly/macaroon"
	"github.com/superfly/macaroon/auth"
	"github.com/superfly/macaroon/flyio"
	"github.com/superfly/macaroon/resset"
)

func init() {
	families["clear"] = famClear
	families["resset"] = famResset
	families["flyio"] = famFlyio
	families["authcav"] = famAuthcav
}

// a request in both worlds
type req struct {
	acc macaroon.Access
	sx  string
	tag string
}

func (r *Rng) Req() req {
	switch k := r.Intn(10); {
	case k < 6:
		d := r.Dyn()
		kind := pick(r, dynKinds)
		return req{d.As(kind), d.Sx(kind), "dyn." + kind}
	case k < 8:
		d := r.Dyn()
		now := time.Now()
		return req{d.FlyioAccess(), d.SxFlyio(now.Unix(), int64(now.Nanosecond())), "flyio"}
	default:
		dr := r.DischargeRequest()
		now := time.Now()
		// keep the expiry far from every limit the generator draws
		dr.Expiry = now.Add(pick(r, []time.Duration{-time.Hour, 30 * time.Second, 90 * time.Minute, 200 * 365 * 24 * time.Hour}))
		return req{dr, sxDR(dr, now.Unix(), int64(now.Nanosecond())), "dr"}
	}
}

func errClassStats(o *Out, res string) {
	if res == "ok" {
		o.count("res.ok")
		return
	}
	if strings.HasPrefix(res, "panic") {
		o.count("res.panic")
		return
	}
	o.count("res.err")
	for _, l := range strings.Split(strings.TrimPrefix(res, "errs:"), ",") {
		o.count("leaf." + l)
	}
}

func famClear(r *Rng, o *Out, tier string) {
	n := 4000
	if tier == "thorough" {
		n = 120000
	}
	for i := 0; i < n; i++ {
		nc := r.Intn(7)
		if r.Chance(1, 20) {
			nc = 8 + r.Intn(4)
		}
		cavs := make([]macaroon.Caveat, nc)
		for j := range cavs {
			cavs[j] = r.Cav(3)
			o.count(fmt.Sprintf("cav.%T", cavs[j]))
		}
		// a caveat type of a library USER (not in the registered universe): it implements macaroon.Attestation
		// and answers per value; IsAttestation() == false means it is an ordinary caveat that must be asked
		if r.Chance(1, 10) {
			uc := &userCaveat{Attest: r.Chance(1, 3)}
			at := r.Intn(len(cavs) + 1)
			cavs = append(cavs[:at], append([]macaroon.Caveat{uc}, cavs[at:]...)...)
			o.count(fmt.Sprintf("cav.user.attest=%v", uc.Attest))
		}
		nr := pick(r, []int{1, 1, 1, 2, 3, 4, 0})
		reqs := make([]req, nr)
		accs := make([]macaroon.Access, nr)
		sxs := make([]string, nr)
		for j := range reqs {
			reqs[j] = r.Req()
			accs[j] = reqs[j].acc
			sxs[j] = reqs[j].sx
			o.count("req." + reqs[j].tag)
		}
		cs := macaroon.NewCaveatSet(cavs...)
		res := guard(func() string { return sxErr(cs.Validate(accs...)) })
		errClassStats(o, res)
		o.emit(fmt.Sprintf("(validate %s (%s))", sxCavs(cavs), strings.Join(sxs, " ")), res)
	}
	// exhaustive product: every caveat kind x every request type (getter lemmas)
	for k := 0; k < nCavKinds; k++ {
		for _, kind := range dynKinds {
			for rep := 0; rep < 3; rep++ {
				c := r.CavKind(k, 1)
				d := r.Dyn()
				d.WF = ""
				res := guard(func() string { return sxErr(c.Prohibits(d.As(kind))) })
				errClassStats(o, res)
				o.count("product")
				o.emit(fmt.Sprintf("(prohibits %s %s)", sxCav(c), d.Sx(kind)), res)
			}
		}
	}
	// requests whose reported time is far from the clock (the zero time.Time of an unset timestamp, the epoch, the
	// far future), alone and next to an ordinary request: a window is compared with what the request reports, and
	// one refused request is enough
	for _, sec := range []int64{-62135596800, 0, -1, 4102444800, 1 << 40} {
		for _, nb := range []int64{-1 << 63, -62135596800, 0, baseNow - 2, baseNow + 2} {
			for _, na := range []int64{-62135596800, 0, baseNow + 2, 4102444800, 1<<63 - 1} {
				c := &macaroon.ValidityWindow{NotBefore: nb, NotAfter: na}
				cavs := []macaroon.Caveat{c}
				if r.Bool() {
					cavs = []macaroon.Caveat{&resset.IfPresent{Ifs: macaroon.NewCaveatSet(c), Else: resset.ActionAll}}
				}
				far := &Dyn{NowSec: sec, Action: resset.ActionRead}
				accs, sxs := []macaroon.Access{far.As("bare")}, []string{far.Sx("bare")}
				if r.Bool() {
					near := &Dyn{NowSec: baseNow, Action: resset.ActionRead}
					accs, sxs = append(accs, near.As("bare")), append(sxs, near.Sx("bare"))
					if r.Bool() {
						accs[0], accs[1], sxs[0], sxs[1] = accs[1], accs[0], sxs[1], sxs[0]
					}
				}
				cs := macaroon.NewCaveatSet(cavs...)
				res := guard(func() string { return sxErr(cs.Validate(accs...)) })
				errClassStats(o, res)
				o.count("farRequestTime")
				o.emit(fmt.Sprintf("(validate %s (%s))", sxCavs(cavs), strings.Join(sxs, " ")), res)
			}
		}
	}
}

// userCaveat is a caveat type defined outside the library whose values decide whether they are
// attestations.  It always prohibits.  The model has no such kind; it is rendered as the model kind
// with the same clearing behaviour: an attestation (skipped) when Attest, an always-refusing
// caveat (unregistered: ErrBadCaveat) when not.
type userCaveat struct{ Attest bool }

func (c *userCaveat) CaveatType() macaroon.CaveatType { return macaroon.CaveatType(1 << 40) }
func (c *userCaveat) Name() string                    { return "HarnessUserCaveat" }
func (c *userCaveat) Prohibits(macaroon.Access) error {
	return fmt.Errorf("%w: user caveat", macaroon.ErrBadCaveat)
}
func (c *userCaveat) IsAttestation() bool { return c.Attest }

// ---- C09: resource sets, conditionals, actions over a small universe ----

func strSetOf(entries [][2]int, ids []string, masks []resset.Action) resset.ResourceSet[string, resset.Action] {
	m := resset.ResourceSet[string, resset.Action]{}
	for _, e := range entries {
		m[ids[e[0]]] = masks[e[1]]
	}
	return m
}

func famResset(r *Rng, o *Out, tier string) {
	ids := []string{"", "a", "ab", "b"}
	masks := []resset.Action{0, 1, 2, 3, 31, 0xffff, 32}
	reqIDs := []*string{nil, pstr(""), pstr("a"), pstr("ab"), pstr("abc"), pstr("c")}
	actions := []resset.Action{0, 1, 2, 3, 4, 31, 32, 0xffff}

	// all sets of <= 2 entries (ordered pairs collapse in the map), plus a sample of 3-entry sets
	var sets []resset.ResourceSet[string, resset.Action]
	sets = append(sets, resset.ResourceSet[string, resset.Action]{})
	for i := range ids {
		for m := range masks {
			sets = append(sets, strSetOf([][2]int{{i, m}}, ids, masks))
			for j := i + 1; j < len(ids); j++ {
				for m2 := range masks {
					sets = append(sets, strSetOf([][2]int{{i, m}, {j, m2}}, ids, masks))
				}
			}
		}
	}
	n3 := 200
	if tier == "thorough" {
		n3 = 5000
	}
	for i := 0; i < n3; i++ {
		sets = append(sets, strSetOf([][2]int{{r.Intn(4), r.Intn(7)}, {r.Intn(4), r.Intn(7)}, {r.Intn(4), r.Intn(7)}}, ids, masks))
	}

	run := func(c macaroon.Caveat, d *Dyn, kind string) {
		res := guard(func() string { return sxErr(c.Prohibits(d.As(kind))) })
		errClassStats(o, res)
		o.emit(fmt.Sprintf("(prohibits %s %s)", sxCav(c), d.Sx(kind)), res)
	}

	stride := 1
	if tier != "thorough" {
		stride = 3
	}
	cnt := 0
	for _, s := range sets {
		for _, id := range reqIDs {
			for _, a := range actions {
				cnt++
				if cnt%stride != 0 {
					continue
				}
				// string ids (volumes), prefix ids (storage objects)
				d := &Dyn{NowSec: baseNow, Action: a, Volume: id}
				run(&flyio.Volumes{Volumes: s}, d, "volume")
				o.count("strset")
				pm := resset.ResourceSet[resset.Prefix, resset.Action]{}
				for k, v := range s {
					pm[resset.Prefix(k)] = v
				}
				d2 := &Dyn{NowSec: baseNow, Action: a}
				if id != nil {
					p := resset.Prefix(*id)
					d2.Storage = &p
				}
				run(&flyio.StorageObjects{Prefixes: pm}, d2, "storage")
				o.count("prefixset")
			}
		}
	}
	// path-like ids: entries with and without a trailing separator, the bare separator, letter case; requests that
	// extend an entry, stop short of its separator, continue it with another character, or differ in case. A prefix
	// entry covers exactly the ids that START WITH THE ENTRY AS WRITTEN; a string entry covers only itself.
	{
		pids := []string{"/", "d/", "d", "d/e/", "D/"}
		pmasks := []resset.Action{resset.ActionRead, resset.ActionRead | resset.ActionDelete, resset.ActionAll}
		preq := []string{"d", "d/", "d/x", "d_x", "dx", "/", "/x", "x", "d/e", "d/e/f", "D/x", ""}
		pacts := []resset.Action{resset.ActionRead, resset.ActionDelete, resset.ActionRead | resset.ActionDelete, resset.ActionWrite}
		var psets []resset.ResourceSet[string, resset.Action]
		for i := range pids {
			for m := range pmasks {
				psets = append(psets, strSetOf([][2]int{{i, m}}, pids, pmasks))
				for j := i + 1; j < len(pids); j++ {
					for m2 := range pmasks {
						psets = append(psets, strSetOf([][2]int{{i, m}, {j, m2}}, pids, pmasks))
					}
				}
			}
		}
		for _, s := range psets {
			for _, id := range preq {
				for _, a := range pacts {
					cnt++
					if cnt%stride != 0 {
						continue
					}
					id := id
					run(&flyio.Volumes{Volumes: s}, &Dyn{NowSec: baseNow, Action: a, Volume: &id}, "volume")
					pm := resset.ResourceSet[resset.Prefix, resset.Action]{}
					for k, v := range s {
						pm[resset.Prefix(k)] = v
					}
					p := resset.Prefix(id)
					run(&flyio.StorageObjects{Prefixes: pm}, &Dyn{NowSec: baseNow, Action: a, Storage: &p}, "storage")
					o.count("pathlike")
				}
			}
		}
	}
	// integer ids
	intIDs := []uint64{0, 1, 2}
	reqInts := []*uint64{nil, p64(0), p64(1), p64(2), p64(7)}
	for i := 0; i < len(intIDs); i++ {
		for m := range masks {
			for j := -1; j < len(intIDs); j++ {
				for m2 := range masks {
					s := resset.ResourceSet[uint64, resset.Action]{intIDs[i]: masks[m]}
					if j >= 0 {
						s[intIDs[j]] = masks[m2]
					} else if m2 > 0 {
						continue
					}
					for _, id := range reqInts {
						for _, a := range actions {
							run(&flyio.Apps{Apps: s}, &Dyn{NowSec: baseNow, Action: a, App: id}, "app")
							o.count("intset")
						}
					}
				}
			}
		}
	}
	// plain action caveats
	for _, m := range masks {
		for _, a := range actions {
			mm := m
			run(&mm, &Dyn{NowSec: baseNow, Action: a}, "action")
			run(&mm, &Dyn{NowSec: baseNow, Action: a}, "bare")
			o.count("action")
		}
	}
	// conditionals of depth <= 2 over small inner caveats, and random deeper ones
	inner := func() macaroon.Caveat {
		switch r.Intn(6) {
		case 0:
			return &flyio.Volumes{Volumes: pick(r, sets[:60])}
		case 1:
			return &flyio.Apps{Apps: resset.ResourceSet[uint64, resset.Action]{pick(r, intIDs): pick(r, masks)}}
		case 2:
			return &flyio.Organization{ID: pick(r, intIDs), Mask: pick(r, masks)}
		case 3:
			a := pick(r, masks)
			return &a
		case 4:
			return &flyio.Machines{Machines: pick(r, sets[:60])}
		default:
			return &flyio.FeatureSet{Features: pick(r, sets[:60])}
		}
	}
	var cond func(depth int) macaroon.Caveat
	cond = func(depth int) macaroon.Caveat {
		n := r.Intn(4)
		cs := make([]macaroon.Caveat, n)
		for i := range cs {
			if depth > 0 && r.Chance(1, 3) {
				cs[i] = cond(depth - 1)
			} else {
				cs[i] = inner()
			}
		}
		return &resset.IfPresent{Ifs: macaroon.NewCaveatSet(cs...), Else: pick(r, masks)}
	}
	nc := 3000
	if tier == "thorough" {
		nc = 100000
	}
	for i := 0; i < nc; i++ {
		depth := 1
		if r.Chance(1, 4) {
			depth = 2 + r.Intn(3)
		}
		c := cond(depth)
		d := &Dyn{NowSec: baseNow, Action: pick(r, actions), Org: pick(r, reqInts), App: pick(r, reqInts),
			Volume: pick(r, reqIDs), Machine: pick(r, reqIDs), Feature: pick(r, reqIDs)}
		kind := pick(r, []string{"full", "full", "full", "orgApp", "volume", "action", "bare", "fullNoAction"})
		run(c, d, kind)
		o.count(fmt.Sprintf("cond.depth%d", depth))
		// monotonicity probe: the same request with a sub-action
		d2 := *d
		d2.Action = d.Action & pick(r, actions)
		run(c, &d2, kind)
	}
}

// ---- C10 ----

func famFlyio(r *Rng, o *Out, tier string) {
	// Access.Validate on all 2^13 presence patterns x feature in {lfsc, other}
	feats := []string{flyio.FeatureLFSC, "wg"}
	for pat := 0; pat < 1<<13; pat++ {
		for _, ft := range feats {
			bit := func(i int) bool { return pat>>i&1 == 1 }
			d := &Dyn{Action: 1}
			if bit(0) {
				d.Org = p64(1)
			}
			if bit(1) {
				d.App = p64(2)
			}
			if bit(2) {
				d.Feature = pstr(ft)
			}
			if bit(3) {
				p := resset.Prefix("s")
				d.Storage = &p
			}
			if bit(4) {
				d.Machine = pstr("m")
			}
			if bit(5) {
				d.Volume = pstr("v")
			}
			if bit(6) {
				d.AppFeat = pstr("af")
			}
			if bit(7) {
				d.Cluster = pstr("c")
			}
			if bit(8) {
				d.HasCmd = true
			}
			if bit(9) {
				d.MachFeat = pstr("mf")
			}
			if bit(10) {
				d.Mutation = pstr("mu")
			}
			if bit(11) {
				d.SrcMach = pstr("sm")
			}
			if bit(12) {
				d.HasCmd = true
				d.Command = []string{"ls"}
			}
			a := d.FlyioAccess()
			res := guard(func() string { return sxErr(a.Validate()) })
			errClassStats(o, res)
			o.count("wf")
			o.emit(fmt.Sprintf("(wf %s)", d.SxFlyio(0, 0)), res)
		}
	}
	// feature NAMES are free-form: a feature called like a sibling resource's label ("app", "machine", ...) is still
	// a second resource at that level
	for _, name := range []string{"app", "storage-object", "machine", "volume", "command-execution", "cluster", "feature", "org"} {
		for pat := 0; pat < 1<<9; pat++ {
			bit := func(i int) bool { return pat>>i&1 == 1 }
			d := &Dyn{Action: 1, Org: p64(1)}
			if bit(0) {
				d.App = p64(2)
			}
			if bit(1) {
				d.Feature = pstr(name)
			}
			if bit(2) {
				p := resset.Prefix("s")
				d.Storage = &p
			}
			if bit(3) {
				d.Machine = pstr("m")
			}
			if bit(4) {
				d.Volume = pstr("v")
			}
			if bit(5) {
				d.AppFeat = pstr(name)
			}
			if bit(6) {
				d.HasCmd = true
				d.Command = []string{"ls"}
			}
			if bit(7) {
				d.MachFeat = pstr(name)
			}
			if bit(8) {
				d.Cluster = pstr("c")
			}
			a := d.FlyioAccess()
			res := guard(func() string { return sxErr(a.Validate()) })
			errClassStats(o, res)
			o.count("wf.labelnames")
			o.emit(fmt.Sprintf("(wf %s)", d.SxFlyio(0, 0)), res)
		}
	}
	// GetPermittedRoles over all features x actions
	allFeats := []string{"wg", "domain", "site", "builder", "addon", "checks", "litefs-cloud", "membership", "billing", "deletion", "document_signing", "authentication", "unknown", ""}
	for _, f := range allFeats {
		for a := 0; a < 64; a++ {
			d := &Dyn{Action: resset.Action(a), Feature: pstr(f), Org: p64(1)}
			acc := d.FlyioAccess()
			roles := acc.GetPermittedRoles()
			parts := make([]string, len(roles))
			for i, x := range roles {
				parts[i] = fmt.Sprint(uint32(x))
			}
			o.count("roles")
			o.emit(fmt.Sprintf("(roles %s)", d.SxFlyio(0, 0)), "roles:"+strings.Join(parts, ","))
		}
	}
	{
		d := &Dyn{Action: 1, Org: p64(1)}
		roles := d.FlyioAccess().GetPermittedRoles()
		o.emit(fmt.Sprintf("(roles %s)", d.SxFlyio(0, 0)), fmt.Sprintf("roles:%d", uint32(roles[0])))
	}
	// each Fly.io caveat kind against dense requests
	kinds := []int{0, 1, 2, 3, 4, 5, 6, 7, 8, 9, 10, 13, 17, 21, 26, 27, 28}
	n := 20000
	if tier == "thorough" {
		n = 600000
	}
	for i := 0; i < n; i++ {
		c := r.CavKind(pick(r, kinds), 0)
		d := r.Dyn()
		d.WF = ""
		var res, sx string
		if r.Chance(1, 3) {
			if _, isVW := c.(*macaroon.ValidityWindow); !isVW {
				now := time.Now()
				a := d.FlyioAccess()
				res = guard(func() string { return sxErr(c.Prohibits(a)) })
				sx = d.SxFlyio(now.Unix(), int64(now.Nanosecond()))
				o.count("req.flyio")
			}
		}
		if sx == "" {
			kind := pick(r, []string{"full", "full", "full", "full", "fullNoAction", "bare"})
			res = guard(func() string { return sxErr(c.Prohibits(d.As(kind))) })
			sx = d.Sx(kind)
			o.count("req.dyn." + kind)
		}
		errClassStats(o, res)
		o.count(fmt.Sprintf("cav.%T", c))
		o.emit(fmt.Sprintf("(prohibits %s %s)", sxCav(c), sx), res)
	}
	// validity windows: every instant around the bounds, extreme bounds
	bounds := []int64{baseNow - 2, baseNow, baseNow + 2, -1 << 63, 1<<63 - 1, 1<<63 - 1 - 62135596800, 1<<63 - 62135596800, 0, -62135596800, -62135596801}
	for _, nb := range bounds {
		for _, na := range bounds {
			// (after the instants around the harness clock: request times far from it - the zero time.Time, which a
			// request type with an unset timestamp reports, the epoch, the far future: the window is compared with
			// the time the REQUEST reports, whatever it is)
			secs := []int64{baseNow - 3, baseNow - 2, baseNow - 1, baseNow, baseNow + 1, baseNow + 2, baseNow + 3,
				-62135596800, -62135596801, 0, -1, 1 << 40, 4102444800}
			for _, sec := range secs {
				for _, ns := range []int64{0, 1, 999999999} {
					c := &macaroon.ValidityWindow{NotBefore: nb, NotAfter: na}
					d := &Dyn{NowSec: sec, NowNsec: ns}
					res := guard(func() string { return sxErr(c.Prohibits(d.As("bare"))) })
					errClassStats(o, res)
					o.count("vw")
					o.emit(fmt.Sprintf("(prohibits %s %s)", sxCav(c), d.Sx("bare")), res)
					// the property's rule itself (exact instants), against the implementation's answer
					if res != "ok" {
						res = "errs:spec"
					}
					o.emit(fmt.Sprintf("(spec.prohibits %s %s)", sxCav(c), d.Sx("bare")), res)
				}
			}
		}
	}
}

// ---- C18 ----

func famAuthcav(r *Rng, o *Out, tier string) {
	n := 8000
	if tier == "thorough" {
		n = 300000
	}
	limits := []uint64{0, 1, 60, 3600, 1 << 31, 9223372036, 9223372037, 1<<63 - 1, 1 << 63, 1<<64 - 1, 18446744073, 18446744074}
	for i := 0; i < n; i++ {
		dr := r.DischargeRequest()
		var c macaroon.Caveat
		switch r.Intn(6) {
		case 0:
			c = &auth.ConfineUser{ID: r.id()}
		case 1:
			c = &auth.ConfineOrganization{ID: r.id()}
		case 2:
			h := auth.ConfineGoogleHD(r.str())
			c = &h
		case 3:
			g := auth.ConfineGitHubOrg(r.id())
			c = &g
		default:
			lim := pick(r, limits)
			mv := auth.MaxValidity(lim)
			c = &mv
		}
		// expiry: now + d, d drawn around the caveat's limit but never within 2s of it
		var delta time.Duration
		if mv, ok := c.(*auth.MaxValidity); ok && uint64(*mv) < 9000000000 && r.Chance(2, 3) {
			delta = time.Duration(uint64(*mv))*time.Second + pick(r, []time.Duration{-2 * time.Second, 2 * time.Second, -time.Hour, time.Hour})
		} else {
			delta = pick(r, []time.Duration{-time.Hour, 0, 30 * time.Second, 90 * time.Minute, 200 * 365 * 24 * time.Hour, -200 * 365 * 24 * time.Hour, 1<<63 - 1})
		}
		t0 := time.Now()
		dr.Expiry = t0.Add(delta)
		res := guard(func() string { return sxErr(c.Prohibits(dr)) })
		if time.Since(t0) > 500*time.Millisecond {
			o.count("discarded.slow")
			continue
		}
		if delta == 0 {
			// the answer depends on the sign of a few microseconds: not comparable
			if _, ok := c.(*auth.MaxValidity); ok {
				o.count("discarded.straddle")
				continue
			}
		}
		errClassStats(o, res)
		o.count(fmt.Sprintf("cav.%T", c))
		o.emit(fmt.Sprintf("(prohibits %s %s)", sxCav(c), sxDR(dr, t0.Unix(), int64(t0.Nanosecond()))), res)
		// other kinds of request are refused
		if r.Chance(1, 8) {
			d := r.Dyn()
			kind := pick(r, dynKinds)
			res := guard(func() string { return sxErr(c.Prohibits(d.As(kind))) })
			o.count("req.nondischarge")
			o.emit(fmt.Sprintf("(prohibits %s %s)", sxCav(c), d.Sx(kind)), res)
		}
	}
	// ONE request object evaluated, changed in place (identities swapped, an organisation list edited, a copy of
	// the struct given other identities of the same number) and evaluated again: the answer follows what the
	// request says NOW, whatever it said when it was first looked at
	for i := 0; i < n/10; i++ {
		dr := r.DischargeRequest()
		if len(dr.Flyio) == 0 {
			dr.Flyio = []*auth.FlyioAuth{{UserID: r.id(), OrganizationIDs: []uint64{r.id()}}}
		}
		mkCav := func() macaroon.Caveat {
			switch r.Intn(4) {
			case 0:
				return &auth.ConfineUser{ID: r.id()}
			case 1:
				h := auth.ConfineGoogleHD(r.str())
				return &h
			case 2:
				g := auth.ConfineGitHubOrg(r.id())
				return &g
			}
			return &auth.ConfineOrganization{ID: r.id()}
		}
		eval := func(d *auth.DischargeRequest, c macaroon.Caveat) {
			t0 := time.Now()
			d.Expiry = t0.Add(time.Hour)
			res := guard(func() string { return sxErr(c.Prohibits(d)) })
			o.count("reusedRequest")
			o.emit(fmt.Sprintf("(prohibits %s %s)", sxCav(c), sxDR(d, t0.Unix(), int64(t0.Nanosecond()))), res)
		}
		c := mkCav()
		eval(dr, c)
		for step := 0; step < 3; step++ {
			switch r.Intn(5) {
			case 0: // another identity in the same slot
				dr.Flyio[r.Intn(len(dr.Flyio))] = &auth.FlyioAuth{UserID: r.id(), OrganizationIDs: []uint64{r.id(), r.id()}}
			case 1: // the organisation list edited in place
				f := dr.Flyio[r.Intn(len(dr.Flyio))]
				if len(f.OrganizationIDs) > 0 {
					f.OrganizationIDs[r.Intn(len(f.OrganizationIDs))] = r.id()
				} else {
					f.OrganizationIDs = []uint64{r.id()}
				}
			case 2: // a copy of the struct with as many, other identities
				d := *dr
				d.Flyio = make([]*auth.FlyioAuth, len(dr.Flyio))
				for k := range d.Flyio {
					d.Flyio[k] = &auth.FlyioAuth{UserID: r.id(), OrganizationIDs: []uint64{r.id()}}
				}
				dr = &d
			case 3:
				for _, g := range dr.Google {
					g.HD = r.str()
				}
				for _, g := range dr.GitHub {
					g.OrgIDs = []uint64{r.id()}
				}
			default:
				dr.Flyio = append(dr.Flyio, &auth.FlyioAuth{UserID: r.id(), OrganizationIDs: []uint64{r.id()}})
			}
			if r.Bool() {
				c = mkCav()
			}
			eval(dr, c)
		}
	}
	// hosted domains and ids are compared EXACTLY: letter case, characters that fold to ASCII letters (U+212A
	// KELVIN SIGN, U+017F LONG S), a trailing dot or surrounding space all make another domain
	{
		hds := []string{"example.com", "Example.com", "EXAMPLE.COM", "example.com.", " example.com", "kompany.com", "\u212aompany.com", "systems.example", "\u017fy\u017ftem\u017f.example", ""}
		for _, want := range hds {
			for _, have := range hds {
				for _, second := range []string{"", "other.example"} {
					dr := &auth.DischargeRequest{Google: []*auth.GoogleAuth{{HD: have}}}
					if second != "" {
						dr.Google = append(dr.Google, &auth.GoogleAuth{HD: second, Email: "u@" + want})
					}
					t0 := time.Now()
					dr.Expiry = t0.Add(time.Hour)
					h := auth.ConfineGoogleHD(want)
					res := guard(func() string { return sxErr(h.Prohibits(dr)) })
					o.count("hd.exact")
					o.emit(fmt.Sprintf("(prohibits %s %s)", sxCav(&h), sxDR(dr, t0.Unix(), int64(t0.Nanosecond()))), res)
				}
			}
		}
	}
	// GetMaxValidity over sets with several and nested limits
	for i := 0; i < n/4; i++ {
		var mk func(depth int) []macaroon.Caveat
		mk = func(depth int) []macaroon.Caveat {
			var cs []macaroon.Caveat
			for j, m := 0, r.Intn(4); j < m; j++ {
				switch {
				case depth > 0 && r.Chance(1, 3):
					cs = append(cs, &resset.IfPresent{Ifs: macaroon.NewCaveatSet(mk(depth - 1)...), Else: r.mask()})
				case r.Chance(2, 3):
					mv := auth.MaxValidity(pick(r, limits))
					cs = append(cs, &mv)
				default:
					cs = append(cs, r.Cav(0))
				}
			}
			return cs
		}
		cs := mk(3)
		res := guard(func() string {
			d, ok := auth.GetMaxValidity(macaroon.NewCaveatSet(cs...))
			return fmt.Sprintf("maxvalidity:%d,%v", int64(d), ok)
		})
		o.count("getmaxvalidity")
		o.emit(fmt.Sprintf("(getmaxvalidity %s)", sxCavs(cs)), res)
	}
}
