package main

// Families of the clearing layer: clear (C03), resset (C09), flyio (C10), authcav (C18).

import (
	"fmt"
	"math/big"
	"strings"
	"time"

	"github.com/superfly/macaroon"
	"github.com/superfly/macaroon/auth"
	"github.com/superfly/macaroon/flyio"
	"github.com/superfly/macaroon/resset"
)

func init() {
	families["clear"] = famClear
	families["resset"] = famResset
	families["flyio"] = famFlyio
	families["authcav"] = famAuthcav
}

// a request in both worlds
type req struct {
	acc macaroon.Access
	sx  string
	tag string
}

func (r *Rng) Req() req {
	switch k := r.Intn(10); {
	case k < 6:
		d := r.Dyn()
		kind := pick(r, dynKinds)
		return req{d.As(kind), d.Sx(kind), "dyn." + kind}
	case k < 8:
		d := r.Dyn()
		now := time.Now()
		return req{d.FlyioAccess(), d.SxFlyio(now.Unix(), int64(now.Nanosecond())), "flyio"}
	default:
		dr := r.DischargeRequest()
		now := time.Now()
		// keep the expiry far from every limit the generator draws
		dr.Expiry = now.Add(pick(r, []time.Duration{-time.Hour, 30 * time.Second, 90 * time.Minute, 200 * 365 * 24 * time.Hour}))
		return req{dr, sxDR(dr, now.Unix(), int64(now.Nanosecond())), "dr"}
	}
}

func errClassStats(o *Out, res string) {
	if res == "ok" {
		o.count("res.ok")
		return
	}
	if strings.HasPrefix(res, "panic") {
		o.count("res.panic")
		return
	}
	o.count("res.err")
	for _, l := range strings.Split(strings.TrimPrefix(res, "errs:"), ",") {
		o.count("leaf." + l)
	}
}

func famClear(r *Rng, o *Out, tier string) {
	n := 4000
	if tier == "thorough" {
		n = 120000
	}
	for i := 0; i < n; i++ {
		nc := r.Intn(7)
		if r.Chance(1, 20) {
			nc = 8 + r.Intn(4)
		}
		// (audit) sets far longer than any hand-written one
		if r.Chance(1, 60) {
			nc = 12 + r.Intn(53)
			if tier == "thorough" && r.Chance(1, 4) {
				nc = 65 + r.Intn(300)
			}
			o.count("set.large")
		}
		cavs := make([]macaroon.Caveat, nc)
		for j := range cavs {
			cavs[j] = r.Cav(3)
			// (audit) values outside the shared pools: see clearWideCav
			if r.Chance(1, 8) {
				cavs[j] = clearWideCav(r, o, 2)
			}
			o.count(fmt.Sprintf("cav.%T", cavs[j]))
		}
		// (audit) one caveat VALUE (the same pointer) at two positions of the set
		if nc >= 2 && r.Chance(1, 8) {
			cavs[r.Intn(nc)] = cavs[r.Intn(nc)]
			o.count("alias.caveat")
		}
		// a caveat type of a library USER (not in the registered universe): it implements macaroon.Attestation
		// and answers per value; IsAttestation() == false means it is an ordinary caveat that must be asked
		if r.Chance(1, 10) {
			uc := &userCaveat{Attest: r.Chance(1, 3)}
			at := r.Intn(len(cavs) + 1)
			cavs = append(cavs[:at], append([]macaroon.Caveat{uc}, cavs[at:]...)...)
			o.count(fmt.Sprintf("cav.user.attest=%v", uc.Attest))
		}
		// (audit) further user-defined types: see userTypes
		if r.Chance(1, 10) {
			uc := clearUserCav(r, o, r.Bool())
			at := r.Intn(len(cavs) + 1)
			cavs = append(cavs[:at], append([]macaroon.Caveat{uc}, cavs[at:]...)...)
		}
		nr := pick(r, []int{1, 1, 1, 2, 3, 4, 0})
		// (audit) long request lists
		if r.Chance(1, 30) {
			nr = 5 + r.Intn(12)
			if tier == "thorough" && r.Chance(1, 4) {
				nr = 17 + r.Intn(60)
			}
			o.count("reqs.long")
		}
		reqs := make([]req, nr)
		for j := range reqs {
			reqs[j] = r.Req()
			// (audit) the same request OBJECT twice in the list
			if j > 0 && r.Chance(1, 10) {
				reqs[j] = reqs[r.Intn(j)]
				o.count("alias.request")
			}
			o.count("req." + reqs[j].tag)
		}
		clearValidate(r, o, cavs, reqs)
		// (audit) the same set asked again with another list (whatever the first answer was)
		if r.Chance(1, 10) {
			again := make([]req, pick(r, []int{1, 1, 2}))
			for j := range again {
				again[j] = r.Req()
			}
			o.count("set.reused")
			clearValidate(r, o, cavs, again)
		}
	}
	clearNeedles(r, o, tier)
	// exhaustive product: every caveat kind x every request type (getter lemmas)
	for k := 0; k < nCavKinds; k++ {
		for _, kind := range dynKinds {
			for rep := 0; rep < 3; rep++ {
				c := r.CavKind(k, 1)
				d := r.Dyn()
				d.WF = ""
				res := guard(func() string { return sxErr(c.Prohibits(d.As(kind))) })
				errClassStats(o, res)
				o.count("product")
				o.emit(fmt.Sprintf("(prohibits %s %s)", sxCav(c), d.Sx(kind)), res)
			}
		}
	}
	// requests whose reported time is far from the clock (the zero time.Time of an unset timestamp, the epoch, the
	// far future), alone and next to an ordinary request: a window is compared with what the request reports, and
	// one refused request is enough
	for _, sec := range []int64{-62135596800, 0, -1, 4102444800, 1 << 40} {
		for _, nb := range []int64{-1 << 63, -62135596800, 0, baseNow - 2, baseNow + 2} {
			for _, na := range []int64{-62135596800, 0, baseNow + 2, 4102444800, 1<<63 - 1} {
				c := &macaroon.ValidityWindow{NotBefore: nb, NotAfter: na}
				cavs := []macaroon.Caveat{c}
				if r.Bool() {
					cavs = []macaroon.Caveat{&resset.IfPresent{Ifs: macaroon.NewCaveatSet(c), Else: resset.ActionAll}}
				}
				far := &Dyn{NowSec: sec, Action: resset.ActionRead}
				accs, sxs := []macaroon.Access{far.As("bare")}, []string{far.Sx("bare")}
				if r.Bool() {
					near := &Dyn{NowSec: baseNow, Action: resset.ActionRead}
					accs, sxs = append(accs, near.As("bare")), append(sxs, near.Sx("bare"))
					if r.Bool() {
						accs[0], accs[1], sxs[0], sxs[1] = accs[1], accs[0], sxs[1], sxs[0]
					}
				}
				cs := macaroon.NewCaveatSet(cavs...)
				res := guard(func() string { return sxErr(cs.Validate(accs...)) })
				errClassStats(o, res)
				o.count("farRequestTime")
				o.emit(fmt.Sprintf("(validate %s (%s))", sxCavs(cavs), strings.Join(sxs, " ")), res)
			}
		}
	}
}

// userCaveat is a caveat type defined outside the library whose values decide whether they are
// attestations.  It always prohibits.  The model has no such kind; it is rendered as the model kind
// with the same clearing behaviour: an attestation (skipped) when Attest, an always-refusing
// caveat (unregistered: ErrBadCaveat) when not.
type userCaveat struct{ Attest bool }

func (c *userCaveat) CaveatType() macaroon.CaveatType { return macaroon.CaveatType(1 << 40) }
func (c *userCaveat) Name() string                    { return "HarnessUserCaveat" }
func (c *userCaveat) Prohibits(macaroon.Access) error {
	return fmt.Errorf("%w: user caveat", macaroon.ErrBadCaveat)
}
func (c *userCaveat) IsAttestation() bool { return c.Attest }

// ---- (audit) C03: wider pools, user-defined types, routes, needles ----

// Further caveat types of a library user.  None is in the model; each is rendered as the model kind with the
// same clearing behaviour (what Validate must do with it follows from the interfaces alone, never from the
// type number it reports - which is drawn from numbers the library uses itself):
//
//	userPlain  no IsAttestation method: always asked; permits (-> isUser) or refuses (-> unregistered)
//	userAtt    IsAttestation() per value: skipped when true (-> an attestation), else as userPlain
//	userWrap   a WrapperCaveat: Validate asks ITS Prohibits, whatever Unwrap holds
type userPlain struct {
	Typ    macaroon.CaveatType
	Permit bool
}
type userAtt struct {
	Typ            macaroon.CaveatType
	Attest, Permit bool
}
type userWrap struct {
	Typ    macaroon.CaveatType
	Permit bool
	Inner  *macaroon.CaveatSet
}

func userAnswer(permit bool) error {
	if permit {
		return nil
	}
	return fmt.Errorf("%w: user caveat", macaroon.ErrBadCaveat)
}
func (c *userPlain) CaveatType() macaroon.CaveatType { return c.Typ }
func (c *userPlain) Name() string                    { return "HarnessUserPlain" }
func (c *userPlain) Prohibits(macaroon.Access) error { return userAnswer(c.Permit) }
func (c *userAtt) CaveatType() macaroon.CaveatType   { return c.Typ }
func (c *userAtt) Name() string                      { return "HarnessUserAtt" }
func (c *userAtt) Prohibits(macaroon.Access) error   { return userAnswer(c.Permit) }
func (c *userAtt) IsAttestation() bool               { return c.Attest }
func (c *userWrap) CaveatType() macaroon.CaveatType  { return c.Typ }
func (c *userWrap) Name() string                     { return "HarnessUserWrap" }
func (c *userWrap) Prohibits(macaroon.Access) error  { return userAnswer(c.Permit) }
func (c *userWrap) Unwrap() *macaroon.CaveatSet      { return c.Inner }

var userTypeNumbers = []macaroon.CaveatType{1 << 40, 1 << 48, 1<<64 - 2, macaroon.CavUnregistered, macaroon.CavMinUserRegisterable,
	macaroon.AttestationAuthFlyioUserID, macaroon.AttestationAuthGoogleUserID, macaroon.CavFlyioIsUser, macaroon.CavIfPresent, macaroon.Cav3P, 0, 1}

func sxUserAnswer(permit bool, typ macaroon.CaveatType) string {
	if permit {
		return "(isUser 0)"
	}
	return fmt.Sprintf("(unreg %d xc0)", uint64(typ))
}

// sxCavX prints what sxCav prints, and the user types above as clearing sees them
func sxCavX(c macaroon.Caveat) string {
	switch v := c.(type) {
	case *userPlain:
		return sxUserAnswer(v.Permit, v.Typ)
	case *userAtt:
		if v.Attest {
			return "(flyioUser 0)"
		}
		return sxUserAnswer(v.Permit, v.Typ)
	case *userWrap:
		return sxUserAnswer(v.Permit, v.Typ)
	case *resset.IfPresent:
		if v.Ifs != nil {
			return fmt.Sprintf("(ifp %s %d)", sxCavsX(v.Ifs.Caveats), uint16(v.Else))
		}
	}
	return sxCav(c)
}
func sxCavsX(cs []macaroon.Caveat) string {
	parts := make([]string, len(cs))
	for i, c := range cs {
		parts[i] = sxCavX(c)
	}
	return "(" + strings.Join(parts, " ") + ")"
}

func hasUserType(cs []macaroon.Caveat) bool {
	for _, c := range cs {
		switch v := c.(type) {
		case *userPlain, *userAtt, *userWrap, *userCaveat:
			return true
		case *resset.IfPresent:
			if v.Ifs != nil && hasUserType(v.Ifs.Caveats) {
				return true
			}
		}
	}
	return false
}

// clearUserCav: a user-defined caveat (top level of a set only: inside a conditional nothing skips attestations)
func clearUserCav(r *Rng, o *Out, permit bool) macaroon.Caveat {
	typ := pick(r, userTypeNumbers)
	switch r.Intn(3) {
	case 0:
		o.count(fmt.Sprintf("cav.userPlain.permit=%v", permit))
		return &userPlain{Typ: typ, Permit: permit}
	case 1:
		// an attestation is skipped whatever it would answer; a non-attestation is asked
		att := r.Bool()
		ans := r.Bool()
		if !att {
			ans = permit
		}
		o.count(fmt.Sprintf("cav.userAtt.attest=%v.permit=%v", att, ans))
		return &userAtt{Typ: typ, Attest: att, Permit: ans}
	default:
		// what the wrapper holds is not what Validate asks
		var inner *macaroon.CaveatSet
		switch r.Intn(3) {
		case 0:
			inner = macaroon.NewCaveatSet()
		case 1:
			b := macaroon.BindToParentToken(r.Bytes(4))
			inner = macaroon.NewCaveatSet(&b, &flyio.IsUser{ID: 1})
		}
		o.count(fmt.Sprintf("cav.userWrap.permit=%v", permit))
		return &userWrap{Typ: typ, Permit: permit, Inner: inner}
	}
}

// type numbers of UnregisteredCaveat VALUES: unallocated, reserved, block boundaries, the sentinel, and numbers the
// library has a type for (a value of this Go type is what it is, whatever number it carries)
var unregTypeNumbers = []uint64{1, 17, 18, 32, 33, 255, 1000, 1 << 16, 1<<16 + 0xff, 1<<17 - 1, 1 << 17, 1<<32 - 1, 1 << 32, 1<<48 - 1, 1 << 48, 1<<64 - 2, 1<<64 - 1,
	0, 4, 10, 11, 12, 13, 22, 23, 24, 25, 26, 31}

func clearUnreg(r *Rng, o *Out) *macaroon.UnregisteredCaveat {
	uc := &macaroon.UnregisteredCaveat{Type: macaroon.CaveatType(pick(r, unregTypeNumbers))}
	switch r.Intn(4) {
	case 0: // as decoded from JSON: no msgpack body
		uc.RawJSON = []byte(pick(r, []string{"{}", "null", "1", "[]", "{\"id\":1}"}))
		uc.Body = map[string]any{}
		o.count("unreg.jsonborn")
	case 1:
		uc.RawMsgpack = []byte{}
		o.count("unreg.emptybody")
	default:
		uc.RawMsgpack = append([]byte{}, pick(r, [][]byte{{0xc0}, {0x01}, {0x90}, {0x91, 0x05}, {0xa1, 0x61}, {0x80}, {0x92, 0x01, 0x1f}, {0xc3}})...)
		uc.Body = pick(r, []any{nil, int8(1), "a", []any{}})
		o.count("unreg.body")
	}
	return uc
}

// clearWideCav: caveat values the shared generator never draws - unregistered values with any type number and
// no / empty body, freshly made third-party caveats, bindings of the real lengths, conditionals without a set, with
// many or repeated members, windows that are empty or unbounded
func clearWideCav(r *Rng, o *Out, depth int) macaroon.Caveat {
	switch r.Intn(8) {
	case 0, 1:
		return clearUnreg(r, o)
	case 2:
		if r.Bool() {
			if c, err := macaroon.NewCaveat3P(macaroon.EncryptionKey(r.Bytes(32)), pick(r, []string{"", "https://auth.example/", "a"})); err == nil {
				o.count("tp.fresh")
				return c
			}
		}
		o.count("tp.literal")
		return &macaroon.Caveat3P{Location: r.str(), VerifierKey: pick(r, [][]byte{nil, {}, r.Bytes(48)}), Ticket: pick(r, [][]byte{nil, {}, r.Bytes(60)})}
	case 3:
		b := macaroon.BindToParentToken(pick(r, [][]byte{nil, {}, r.Bytes(16), r.Bytes(32), r.Bytes(33)}))
		o.count(fmt.Sprintf("bind.len%d", len(b)))
		return &b
	case 4:
		o.count("ifp.nilIfs")
		return &resset.IfPresent{Else: r.mask()}
	case 5:
		if depth <= 0 {
			return clearUnreg(r, o)
		}
		n := pick(r, []int{0, 1, 2, 9, 20})
		cs := make([]macaroon.Caveat, n)
		for i := range cs {
			if i > 0 && r.Chance(1, 4) {
				cs[i] = cs[r.Intn(i)]
			} else if r.Chance(1, 4) {
				cs[i] = clearWideCav(r, o, depth-1)
			} else {
				cs[i] = r.Cav(depth - 1)
			}
		}
		o.count(fmt.Sprintf("ifp.members%d", n))
		return &resset.IfPresent{Ifs: macaroon.NewCaveatSet(cs...), Else: r.mask()}
	case 6:
		nb := pick(r, []int64{-1 << 63, 0, baseNow - 1, baseNow, baseNow + 1, 1<<63 - 1})
		na := pick(r, []int64{-1 << 63, 0, baseNow - 1, baseNow, baseNow + 1, 1<<63 - 1})
		o.count("vw.wide")
		return &macaroon.ValidityWindow{NotBefore: nb, NotAfter: na}
	default:
		// a set type without a map
		o.count("set.nilmap")
		switch r.Intn(4) {
		case 0:
			return &flyio.Apps{}
		case 1:
			return &flyio.Volumes{}
		case 2:
			return &flyio.StorageObjects{}
		}
		return &flyio.FeatureSet{}
	}
}

// clearValidate runs one Validate through one of the ways a caller has of asking, and emits it
func clearValidate(r *Rng, o *Out, cavs []macaroon.Caveat, reqs []req) {
	accs := make([]macaroon.Access, len(reqs))
	sxs := make([]string, len(reqs))
	for j := range reqs {
		accs[j], sxs[j] = reqs[j].acc, reqs[j].sx
	}
	shown := cavs
	var res string
	switch route := r.Intn(6); route {
	default:
		cs := macaroon.NewCaveatSet(cavs...)
		res = guard(func() string { return sxErr(cs.Validate(accs...)) })
		o.count("route.method")
	case 1:
		cs := macaroon.NewCaveatSet(cavs...)
		res = guard(func() string { return sxErr(macaroon.Validate(cs, accs...)) })
		o.count("route.generic")
	case 2: // a set value built by hand over the caller's slice (nil when empty)
		cs := &macaroon.CaveatSet{Caveats: cavs}
		if len(cavs) == 0 {
			cs = &macaroon.CaveatSet{}
		}
		res = guard(func() string { return sxErr(cs.Validate(accs...)) })
		o.count("route.literal")
	case 3: // through the wire: what is cleared is the decoded set (shown to the model as decoded), none dropped
		cs := macaroon.NewCaveatSet(cavs...)
		if hasUserType(cavs) {
			res = guard(func() string { return sxErr(cs.Validate(accs...)) })
			o.count("route.method")
			break
		}
		var cl *macaroon.CaveatSet
		cerr := guard(func() string {
			var err error
			if cl, err = cs.Clone(); err != nil {
				return "err"
			}
			return "ok"
		})
		if cerr != "ok" || cl == nil {
			res = guard(func() string { return sxErr(cs.Validate(accs...)) })
			o.count("route.clone.refused")
			break
		}
		if len(cl.Caveats) != len(cavs) {
			o.emit("(const clone-keeps-every-caveat)", fmt.Sprintf("clone-has-%d-of-%d", len(cl.Caveats), len(cavs)))
		}
		shown = cl.Caveats
		res = guard(func() string { return sxErr(cl.Validate(accs...)) })
		o.count("route.clone")
	}
	errClassStats(o, res)
	o.emit(fmt.Sprintf("(validate %s (%s))", sxCavsX(shown), strings.Join(sxs, " ")), res)
}

// ---- needles: sets and lists in which everything permits except one item, at every position ----

var needleStrs = []string{"a", "ab", "d/e/f", "wg", "litefs-cloud", "A", "*", "zz", ""}

// needleDyn: a request (seen as the type implementing every getter) with every field present
func needleDyn(r *Rng) *Dyn {
	s := func() *string { return pstr(pick(r, needleStrs)) }
	d := &Dyn{NowSec: baseNow + int64(r.Intn(7)) - 3, NowNsec: pick(r, []int64{0, 1, 999999999})}
	d.Action = pick(r, []resset.Action{1, 2, 3, 8, 17, 31, 32, 0x8001, 0xffff})
	d.Org = p64(pick(r, []uint64{1, 2, 7, 1<<32 + 1, 0}))
	d.App = p64(pick(r, []uint64{1, 2, 7, 1<<32 + 1, 0}))
	d.AppFeat, d.Feature, d.Volume, d.Machine, d.MachFeat, d.Cluster = s(), s(), s(), s(), s(), s()
	p := resset.Prefix(pick(r, []string{"d/e/f", "d", "abc", ""}))
	d.Storage = &p
	d.Mutation, d.SrcMach, d.SrcApp, d.SrcOrg = s(), s(), s(), s()
	d.HasCmd = true
	for i, n := 0, r.Intn(4); i < n; i++ {
		d.Command = append(d.Command, pick(r, []string{"a", "b", "ls", "", "-l"}))
	}
	d.Roles = pick(r, [][]flyio.Role{{1}, {1, 2}, {0xFFFFFFFF, 1}, {2, 1, 1}})
	return d
}

// needlePermit: a caveat cut to permit d (seen as kind "full")
func needlePermit(r *Rng, o *Out, d *Dyn, top bool, depth int) macaroon.Caveat {
	sup := func() resset.Action { return d.Action | pick(r, []resset.Action{0, 31, 0xffff, 0x4000}) }
	strSet := func(id string) resset.ResourceSet[string, resset.Action] {
		m := resset.ResourceSet[string, resset.Action]{id: sup()}
		if id != "" {
			for i, n := 0, r.Intn(3); i < n; i++ {
				m[id+pick(r, []string{"x", "/", " ", "\x00"})] = r.mask()
			}
		}
		return m
	}
	k := r.Intn(22)
	if !top && (k == 18 || k == 21) {
		k = 11
	}
	if depth <= 0 && (k == 19) {
		k = 20
	}
	switch k {
	case 0:
		id := *d.Org
		if r.Chance(1, 3) {
			id = 0
		}
		return &flyio.Organization{ID: id, Mask: sup()}
	case 1:
		m := resset.ResourceSet[uint64, resset.Action]{*d.App: sup()}
		if *d.App != 0 {
			if r.Chance(1, 4) {
				m = resset.ResourceSet[uint64, resset.Action]{0: sup()}
			} else if r.Bool() {
				m[*d.App+1] = r.mask()
			}
		}
		return &flyio.Apps{Apps: m}
	case 2:
		return &flyio.Volumes{Volumes: strSet(*d.Volume)}
	case 3:
		return &flyio.Machines{Machines: strSet(*d.Machine)}
	case 4:
		return &flyio.FeatureSet{Features: strSet(*d.Feature)}
	case 5:
		return &flyio.MachineFeatureSet{Features: strSet(*d.MachFeat)}
	case 6:
		return &flyio.AppFeatureSet{Features: strSet(*d.AppFeat)}
	case 7:
		return &flyio.Clusters{Clusters: strSet(*d.Cluster)}
	case 8:
		id := string(*d.Storage)
		m := resset.ResourceSet[resset.Prefix, resset.Action]{}
		if id == "" || r.Chance(1, 5) {
			m[""] = sup()
		} else {
			for i, n := 0, 1+r.Intn(2); i < n; i++ {
				m[resset.Prefix(id[:1+r.Intn(len(id))])] = sup()
			}
			if r.Bool() {
				m[resset.Prefix(id+"x")] = r.mask()
			}
		}
		return &flyio.StorageObjects{Prefixes: m}
	case 9:
		nb := pick(r, []int64{d.NowSec, d.NowSec - 1, d.NowSec - 100, 0, -1 << 63})
		na := pick(r, []int64{d.NowSec + 1, d.NowSec + 100, 1<<63 - 1})
		if d.NowNsec == 0 && r.Bool() {
			na = d.NowSec
		}
		return &macaroon.ValidityWindow{NotBefore: nb, NotAfter: na}
	case 10:
		a := sup()
		return &a
	case 11:
		return &flyio.IsUser{ID: r.id()}
	case 12:
		ms := []string{}
		for i, n := 0, r.Intn(3); i < n; i++ {
			ms = append(ms, *d.Mutation+pick(r, []string{"x", " ", "X"}))
		}
		at := r.Intn(len(ms) + 1)
		ms = append(ms[:at], append([]string{*d.Mutation}, ms[at:]...)...)
		return &flyio.Mutations{Mutations: ms}
	case 13:
		var cs flyio.Commands
		for i, n := 0, r.Intn(3); i < n; i++ {
			cs = append(cs, flyio.Command{Args: append(append([]string{}, d.Command...), "more"), Exact: r.Bool()})
		}
		n := r.Intn(len(d.Command) + 1)
		cs = append(cs, flyio.Command{Args: append([]string{}, d.Command[:n]...), Exact: n == len(d.Command) && r.Bool()})
		return &cs
	case 14:
		ar := flyio.AllowedRoles(uint32(pick(r, d.Roles)) | pick(r, []uint32{0, 4, 0x80000000}))
		return &ar
	case 15:
		return &flyio.IsMember{}
	case 16:
		return &flyio.FromMachine{ID: *d.SrcMach}
	case 17:
		c := &flyio.FlySrc{}
		if r.Bool() {
			c.Organization = *d.SrcOrg
		}
		if r.Bool() {
			c.App = *d.SrcApp
		}
		if r.Bool() {
			c.Instance = *d.SrcMach
		}
		return c
	case 18:
		switch r.Intn(3) {
		case 0:
			u := auth.FlyioUserID(r.id())
			return &u
		case 1:
			u := auth.GitHubUserID(r.id())
			return &u
		}
		u := auth.GoogleUserID(*new(big.Int).SetBytes(r.Bytes(r.Intn(12))))
		return &u
	case 19:
		cs := make([]macaroon.Caveat, 1+r.Intn(3))
		for i := range cs {
			cs[i] = needlePermit(r, o, d, false, depth-1)
		}
		return &resset.IfPresent{Ifs: macaroon.NewCaveatSet(cs...), Else: r.mask()}
	case 20:
		return &resset.IfPresent{Ifs: macaroon.NewCaveatSet(), Else: sup()}
	default:
		return clearUserCav(r, o, true)
	}
}

// needleDeny: a caveat that refuses d - of the kinds that cannot be evaluated, and of the ordinary kinds
func needleDeny(r *Rng, o *Out, d *Dyn, top bool, depth int) (macaroon.Caveat, string) {
	lowBit := d.Action & -d.Action
	k := r.Intn(17)
	if !top && k == 16 {
		k = 3
	}
	if depth <= 0 && (k == 10 || k == 11) {
		k = 4
	}
	switch k {
	case 0:
		return &macaroon.Caveat3P{Location: r.str(), VerifierKey: r.Bytes(r.Intn(4)), Ticket: r.Bytes(r.Intn(4))}, "tp"
	case 1:
		if c, err := macaroon.NewCaveat3P(macaroon.EncryptionKey(r.Bytes(32)), "https://auth.example/"); err == nil {
			return c, "tp.fresh"
		}
		return &macaroon.Caveat3P{}, "tp.zero"
	case 2:
		b := macaroon.BindToParentToken(pick(r, [][]byte{nil, {}, r.Bytes(16), r.Bytes(32)}))
		return &b, fmt.Sprintf("bind%d", len(b))
	case 3:
		return clearUnreg(r, o), "unreg"
	case 4:
		return &resset.IfPresent{Else: resset.Action(0xffff)}, "ifp.nilIfs"
	case 5:
		return &flyio.Organization{ID: *d.Org + 1 + uint64(r.Intn(2))<<32, Mask: 0xffff}, "org.other"
	case 6:
		a := (d.Action &^ lowBit) | pick(r, []resset.Action{0, 0xffff &^ d.Action})
		return &a, "action.narrow"
	case 7:
		switch r.Intn(3) {
		case 0:
			return &macaroon.ValidityWindow{NotBefore: d.NowSec - 10, NotAfter: d.NowSec - 1}, "vw.expired"
		case 1:
			return &macaroon.ValidityWindow{NotBefore: d.NowSec + 1, NotAfter: 1<<63 - 1}, "vw.notyet"
		}
		return &macaroon.ValidityWindow{NotBefore: d.NowSec + 1, NotAfter: d.NowSec - 1}, "vw.empty"
	case 8:
		switch r.Intn(5) {
		case 0:
			return &auth.ConfineUser{ID: r.id()}, "confine"
		case 1:
			return &auth.ConfineOrganization{ID: r.id()}, "confine"
		case 2:
			h := auth.ConfineGoogleHD(r.str())
			return &h, "confine"
		case 3:
			g := auth.ConfineGitHubOrg(r.id())
			return &g, "confine"
		}
		mv := auth.MaxValidity(1<<63 - 1)
		return &mv, "maxValidity"
	case 9:
		switch r.Intn(5) {
		case 4:
			// prefix-typed sets: EVERY listed prefix of the object narrows the grant, also when the object itself is
			// listed with everything allowed (a lookup of the exact entry that skips the scan clears this)
			if id := string(*d.Storage); len(id) > 1 {
				return &flyio.StorageObjects{Prefixes: resset.ResourceSet[resset.Prefix, resset.Action]{
					resset.Prefix(id):                       0xffff,
					resset.Prefix(id[:1+r.Intn(len(id)-1)]): d.Action &^ lowBit,
				}}, "set.prefix.covering-entry-narrower"
			}
			return &flyio.StorageObjects{Prefixes: resset.ResourceSet[resset.Prefix, resset.Action]{}}, "set.empty"
		case 0:
			return &flyio.Volumes{Volumes: resset.ResourceSet[string, resset.Action]{}}, "set.empty"
		case 1:
			return &flyio.Volumes{Volumes: resset.ResourceSet[string, resset.Action]{*d.Volume: d.Action &^ lowBit}}, "set.mask"
		case 2:
			return &flyio.Machines{Machines: resset.ResourceSet[string, resset.Action]{"": 0xffff, "m1": 0xffff}}, "set.mixed"
		}
		return &flyio.Apps{Apps: resset.ResourceSet[uint64, resset.Action]{*d.App + 1<<32: 0xffff}}, "set.otherid"
	case 10:
		cs := []macaroon.Caveat{needlePermit(r, o, d, false, depth-1), needlePermit(r, o, d, false, depth-1)}
		dn, why := needleDeny(r, o, d, false, depth-1)
		at := r.Intn(3)
		cs = append(cs[:at], append([]macaroon.Caveat{dn}, cs[at:]...)...)
		return &resset.IfPresent{Ifs: macaroon.NewCaveatSet(cs...), Else: 0xffff}, "ifp(" + why + ")"
	case 11:
		u := auth.FlyioUserID(r.id())
		return &resset.IfPresent{Ifs: macaroon.NewCaveatSet(&u), Else: 0xffff}, "ifp(attestation)"
	case 12:
		if r.Bool() {
			return &flyio.Mutations{}, "mutations.none"
		}
		return &flyio.Mutations{Mutations: []string{*d.Mutation + "x", strings.ToUpper(*d.Mutation) + "!"}}, "mutations.other"
	case 13:
		if r.Bool() {
			var c flyio.Commands
			return &c, "commands.none"
		}
		c := flyio.Commands{{Args: append(append([]string{}, d.Command...), "more")}}
		return &c, "commands.longer"
	case 14:
		ar := flyio.AllowedRoles(0)
		return &ar, "roles.none"
	case 15:
		return &flyio.FromMachine{ID: *d.SrcMach + "x"}, "fromMachine.other"
	default:
		return clearUserCav(r, o, false), "user"
	}
}

func clearNeedles(r *Rng, o *Out, tier string) {
	sizes := []int{0, 1, 2, 3, 5, 8, 13, 20, 40}
	rounds := 14
	if tier == "thorough" {
		sizes = append(sizes, 100, 300)
		rounds = 200
	}
	emit := func(cavs []macaroon.Caveat, accs []macaroon.Access, sxs []string, tag string) string {
		cs := macaroon.NewCaveatSet(cavs...)
		res := guard(func() string { return sxErr(cs.Validate(accs...)) })
		errClassStats(o, res)
		if res == "ok" {
			o.count(tag + ".ok")
		} else {
			o.count(tag + ".deny")
		}
		o.emit(fmt.Sprintf("(validate %s (%s))", sxCavsX(cavs), strings.Join(sxs, " ")), res)
		return res
	}
	for round := 0; round < rounds; round++ {
		for _, n := range sizes {
			d := needleDyn(r)
			base := make([]macaroon.Caveat, n)
			for i := range base {
				base[i] = needlePermit(r, o, d, true, 2)
			}
			acc, sx := d.As("full"), d.Sx("full")
			emit(base, []macaroon.Access{acc}, []string{sx}, "needle.base")
			// one refusing caveat, at the front, at the back and in between
			for _, at := range needlePositions(r, n) {
				dn, why := needleDeny(r, o, d, true, 2)
				cavs := append(append(append([]macaroon.Caveat{}, base[:at]...), dn), base[at:]...)
				o.count("needle.denier." + strings.SplitN(why, "(", 2)[0])
				emit(cavs, []macaroon.Access{acc}, []string{sx}, "needle.caveat")
			}
			// request lists: copies and variants of the permitted request with ONE failing request, at every kind of
			// position - malformed, refused by one caveat of the set (an action bit more), or of another request type
			if n == 0 {
				continue
			}
			for _, m := range []int{1, 2, 5, 12, 30} {
				if m > 5 && round%3 != 0 {
					continue
				}
				accs := make([]macaroon.Access, m)
				sxs := make([]string, m)
				for i := range accs {
					accs[i], sxs[i] = acc, sx
					if r.Bool() { // an equal request in another object
						d2 := *d
						accs[i], sxs[i] = d2.As("full"), d2.Sx("full")
					}
				}
				emit(base, accs, sxs, "needle.reqs.base")
				for _, at := range needlePositions(r, m) {
					bad := *d
					var why string
					var bacc macaroon.Access
					var bsx string
					switch r.Intn(4) {
					case 0:
						bad.WF = pick(r, []string{"other", "invalidAccess", "resUnspecified", "resMutEx", "unauthorized"})
						bacc, bsx, why = bad.As("full"), bad.Sx("full"), "malformed"
					case 1:
						bad.Action |= pick(r, []resset.Action{0x0100, 0x2000, 4, 64})
						bacc, bsx, why = bad.As("full"), bad.Sx("full"), "actionbit"
					case 2:
						kind := pick(r, []string{"bare", "action", "org", "orgApp", "fullNoAction"})
						bacc, bsx, why = bad.As(kind), bad.Sx(kind), "othertype"
					default:
						now := time.Now()
						dr := r.DischargeRequest()
						dr.Expiry = now.Add(time.Hour)
						bacc, bsx, why = dr, sxDR(dr, now.Unix(), int64(now.Nanosecond())), "discharge"
					}
					la := append(append(append([]macaroon.Access{}, accs[:at]...), bacc), accs[at:]...)
					ls := append(append(append([]string{}, sxs[:at]...), bsx), sxs[at:]...)
					o.count("needle.badreq." + why)
					emit(base, la, ls, "needle.reqs")
				}
			}
		}
		// the library's own request types, through the typed generic entry point, with a window around the wall clock
		needleTyped(r, o)
	}
}

// positions 0, n and up to two in between
func needlePositions(r *Rng, n int) []int {
	ps := []int{0}
	if n > 0 {
		ps = append(ps, n)
	}
	if n > 1 {
		ps = append(ps, 1+r.Intn(n-1))
	}
	if n > 8 {
		ps = append(ps, 1+r.Intn(n-1))
	}
	return ps
}

// needleTyped: well-formed *flyio.Access / *auth.DischargeRequest lists through macaroon.Validate[T], a set that
// permits them all (the window holds the wall clock), one refusing caveat or one malformed / refused request inside
func needleTyped(r *Rng, o *Out) {
	now := time.Now()
	mk := func() *Dyn {
		d := &Dyn{Action: pick(r, []resset.Action{1, 3, 31}), Org: p64(7), App: p64(pick(r, []uint64{1, 2}))}
		if r.Bool() {
			d.Volume = pstr(pick(r, []string{"v1", "v2"}))
		}
		return d
	}
	m := 1 + r.Intn(5)
	ds := make([]*Dyn, m)
	for i := range ds {
		ds[i] = mk()
	}
	act := resset.Action(31)
	base := []macaroon.Caveat{
		&flyio.Organization{ID: 7, Mask: 31},
		&flyio.Apps{Apps: resset.ResourceSet[uint64, resset.Action]{1: 31, 2: 0xffff}},
		&resset.IfPresent{Ifs: macaroon.NewCaveatSet(&flyio.Volumes{Volumes: resset.ResourceSet[string, resset.Action]{"v1": 31, "v2": 31}}), Else: 31},
		&macaroon.ValidityWindow{NotBefore: now.Unix() - 3600, NotAfter: now.Unix() + 3600},
		&flyio.IsMember{}, &act,
	}
	for variant := 0; variant < 4; variant++ {
		cavs := append([]macaroon.Caveat{}, base...)
		list := append([]*Dyn{}, ds...)
		switch variant {
		case 1:
			at := r.Intn(len(cavs) + 1)
			dn := pick(r, []macaroon.Caveat{
				&macaroon.ValidityWindow{NotBefore: now.Unix() - 7200, NotAfter: now.Unix() - 3600},
				&macaroon.ValidityWindow{NotBefore: now.Unix() + 3600, NotAfter: now.Unix() + 7200},
				&flyio.Organization{ID: 8, Mask: 31}, &macaroon.Caveat3P{Location: "x"}, clearUnreg(r, o)})
			cavs = append(cavs[:at], append([]macaroon.Caveat{dn}, cavs[at:]...)...)
		case 2: // malformed: an app-owned resource without the app, or no organisation
			bad := mk()
			if r.Bool() {
				bad.App, bad.Volume = nil, pstr("v1")
			} else {
				bad.Org = nil
			}
			at := r.Intn(len(list) + 1)
			list = append(list[:at], append([]*Dyn{bad}, list[at:]...)...)
		case 3: // refused by one caveat only
			bad := mk()
			switch r.Intn(3) {
			case 0:
				bad.Action = 32 | 1
			case 1:
				bad.App = p64(3)
			default:
				bad.Feature, bad.App, bad.Volume, bad.Action = pstr("billing"), nil, nil, 3 // members may only read it
			}
			at := r.Intn(len(list) + 1)
			list = append(list[:at], append([]*Dyn{bad}, list[at:]...)...)
		}
		typed := make([]*flyio.Access, len(list))
		sxs := make([]string, len(list))
		for i, d := range list {
			typed[i] = d.FlyioAccess()
			sxs[i] = d.SxFlyio(now.Unix(), int64(now.Nanosecond()))
		}
		cs := macaroon.NewCaveatSet(cavs...)
		res := guard(func() string { return sxErr(macaroon.Validate(cs, typed...)) })
		errClassStats(o, res)
		o.count(fmt.Sprintf("needle.typed.flyio.v%d.%s", variant, strings.SplitN(res, ":", 2)[0]))
		o.emit(fmt.Sprintf("(validate %s (%s))", sxCavsX(cavs), strings.Join(sxs, " ")), res)
	}
	// discharge requests, typed
	{
		n := 1 + r.Intn(4)
		drs := make([]*auth.DischargeRequest, n)
		sxs := make([]string, n)
		for i := range drs {
			drs[i] = &auth.DischargeRequest{Flyio: []*auth.FlyioAuth{{UserID: 5, OrganizationIDs: []uint64{7, uint64(i)}}}, Expiry: now.Add(time.Minute)}
		}
		mv := auth.MaxValidity(3600)
		cavs := []macaroon.Caveat{&auth.ConfineUser{ID: 5}, &auth.ConfineOrganization{ID: 7}, &mv}
		if r.Bool() {
			drs[r.Intn(n)].Flyio[0].UserID = 6
		}
		if r.Chance(1, 3) {
			at := r.Intn(len(cavs) + 1)
			b := macaroon.BindToParentToken(r.Bytes(32))
			cavs = append(cavs[:at], append([]macaroon.Caveat{&b}, cavs[at:]...)...)
		}
		for i := range drs {
			sxs[i] = sxDR(drs[i], now.Unix(), int64(now.Nanosecond()))
		}
		cs := macaroon.NewCaveatSet(cavs...)
		res := guard(func() string { return sxErr(macaroon.Validate(cs, drs...)) })
		errClassStats(o, res)
		o.count("needle.typed.dr." + strings.SplitN(res, ":", 2)[0])
		o.emit(fmt.Sprintf("(validate %s (%s))", sxCavsX(cavs), strings.Join(sxs, " ")), res)
	}
}

// ---- C09: resource sets, conditionals, actions over a small universe ----

func strSetOf(entries [][2]int, ids []string, masks []resset.Action) resset.ResourceSet[string, resset.Action] {
	m := resset.ResourceSet[string, resset.Action]{}
	for _, e := range entries {
		m[ids[e[0]]] = masks[e[1]]
	}
	return m
}

func famResset(r *Rng, o *Out, tier string) {
	ids := []string{"", "a", "ab", "b"}
	masks := []resset.Action{0, 1, 2, 3, 31, 0xffff, 32}
	reqIDs := []*string{nil, pstr(""), pstr("a"), pstr("ab"), pstr("abc"), pstr("c")}
	actions := []resset.Action{0, 1, 2, 3, 4, 31, 32, 0xffff}

	// all sets of <= 2 entries (ordered pairs collapse in the map), plus a sample of 3-entry sets
	var sets []resset.ResourceSet[string, resset.Action]
	sets = append(sets, resset.ResourceSet[string, resset.Action]{})
	for i := range ids {
		for m := range masks {
			sets = append(sets, strSetOf([][2]int{{i, m}}, ids, masks))
			for j := i + 1; j < len(ids); j++ {
				for m2 := range masks {
					sets = append(sets, strSetOf([][2]int{{i, m}, {j, m2}}, ids, masks))
				}
			}
		}
	}
	n3 := 200
	if tier == "thorough" {
		n3 = 5000
	}
	for i := 0; i < n3; i++ {
		sets = append(sets, strSetOf([][2]int{{r.Intn(4), r.Intn(7)}, {r.Intn(4), r.Intn(7)}, {r.Intn(4), r.Intn(7)}}, ids, masks))
	}

	run := func(c macaroon.Caveat, d *Dyn, kind string) {
		res := guard(func() string { return sxErr(c.Prohibits(d.As(kind))) })
		errClassStats(o, res)
		o.emit(fmt.Sprintf("(prohibits %s %s)", sxCav(c), d.Sx(kind)), res)
	}

	stride := 1
	if tier != "thorough" {
		stride = 3
	}
	cnt := 0
	for _, s := range sets {
		for _, id := range reqIDs {
			for _, a := range actions {
				cnt++
				if cnt%stride != 0 {
					continue
				}
				// string ids (volumes), prefix ids (storage objects)
				d := &Dyn{NowSec: baseNow, Action: a, Volume: id}
				run(&flyio.Volumes{Volumes: s}, d, "volume")
				o.count("strset")
				pm := resset.ResourceSet[resset.Prefix, resset.Action]{}
				for k, v := range s {
					pm[resset.Prefix(k)] = v
				}
				d2 := &Dyn{NowSec: baseNow, Action: a}
				if id != nil {
					p := resset.Prefix(*id)
					d2.Storage = &p
				}
				run(&flyio.StorageObjects{Prefixes: pm}, d2, "storage")
				o.count("prefixset")
			}
		}
	}
	// path-like ids: entries with and without a trailing separator, the bare separator, letter case; requests that
	// extend an entry, stop short of its separator, continue it with another character, or differ in case. A prefix
	// entry covers exactly the ids that START WITH THE ENTRY AS WRITTEN; a string entry covers only itself.
	{
		pids := []string{"/", "d/", "d", "d/e/", "D/"}
		pmasks := []resset.Action{resset.ActionRead, resset.ActionRead | resset.ActionDelete, resset.ActionAll}
		preq := []string{"d", "d/", "d/x", "d_x", "dx", "/", "/x", "x", "d/e", "d/e/f", "D/x", ""}
		pacts := []resset.Action{resset.ActionRead, resset.ActionDelete, resset.ActionRead | resset.ActionDelete, resset.ActionWrite}
		var psets []resset.ResourceSet[string, resset.Action]
		for i := range pids {
			for m := range pmasks {
				psets = append(psets, strSetOf([][2]int{{i, m}}, pids, pmasks))
				for j := i + 1; j < len(pids); j++ {
					for m2 := range pmasks {
						psets = append(psets, strSetOf([][2]int{{i, m}, {j, m2}}, pids, pmasks))
					}
				}
			}
		}
		for _, s := range psets {
			for _, id := range preq {
				for _, a := range pacts {
					cnt++
					if cnt%stride != 0 {
						continue
					}
					id := id
					run(&flyio.Volumes{Volumes: s}, &Dyn{NowSec: baseNow, Action: a, Volume: &id}, "volume")
					pm := resset.ResourceSet[resset.Prefix, resset.Action]{}
					for k, v := range s {
						pm[resset.Prefix(k)] = v
					}
					p := resset.Prefix(id)
					run(&flyio.StorageObjects{Prefixes: pm}, &Dyn{NowSec: baseNow, Action: a, Storage: &p}, "storage")
					o.count("pathlike")
				}
			}
		}
	}
	// integer ids
	intIDs := []uint64{0, 1, 2}
	reqInts := []*uint64{nil, p64(0), p64(1), p64(2), p64(7)}
	for i := 0; i < len(intIDs); i++ {
		for m := range masks {
			for j := -1; j < len(intIDs); j++ {
				for m2 := range masks {
					s := resset.ResourceSet[uint64, resset.Action]{intIDs[i]: masks[m]}
					if j >= 0 {
						s[intIDs[j]] = masks[m2]
					} else if m2 > 0 {
						continue
					}
					for _, id := range reqInts {
						for _, a := range actions {
							run(&flyio.Apps{Apps: s}, &Dyn{NowSec: baseNow, Action: a, App: id}, "app")
							o.count("intset")
						}
					}
				}
			}
		}
	}
	// plain action caveats
	for _, m := range masks {
		for _, a := range actions {
			mm := m
			run(&mm, &Dyn{NowSec: baseNow, Action: a}, "action")
			run(&mm, &Dyn{NowSec: baseNow, Action: a}, "bare")
			o.count("action")
		}
	}
	ressetWide(r, o, tier, run)
	ressetCondNeedles(r, o, tier, run)
	// conditionals of depth <= 2 over small inner caveats, and random deeper ones
	inner := func() macaroon.Caveat {
		// (audit) members that are not resource sets: kinds that never answer "unspecified" (windows, IsUser, roles,
		// source restrictions), kinds that cannot be evaluated (attestations, third-party, binding, unregistered - nothing
		// skips them inside a conditional), mutations / commands (unspecified when absent), storage objects, clusters
		if r.Chance(1, 4) {
			o.count("cond.member.other")
			if r.Chance(1, 5) {
				return clearWideCav(r, o, 0)
			}
			return r.CavKind(pick(r, []int{5, 6, 7, 8, 9, 10, 11, 13, 14, 15, 17, 20, 21, 22, 23, 24, 26, 27, 28, 29}), 0)
		}
		switch r.Intn(6) {
		case 0:
			return &flyio.Volumes{Volumes: pick(r, sets[:60])}
		case 1:
			return &flyio.Apps{Apps: resset.ResourceSet[uint64, resset.Action]{pick(r, intIDs): pick(r, masks)}}
		case 2:
			return &flyio.Organization{ID: pick(r, intIDs), Mask: pick(r, masks)}
		case 3:
			a := pick(r, masks)
			return &a
		case 4:
			return &flyio.Machines{Machines: pick(r, sets[:60])}
		default:
			return &flyio.FeatureSet{Features: pick(r, sets[:60])}
		}
	}
	var cond func(depth int) macaroon.Caveat
	cond = func(depth int) macaroon.Caveat {
		n := r.Intn(4)
		// (audit) many members; the same member value twice; a conditional without a set
		if r.Chance(1, 25) {
			n = 5 + r.Intn(30)
			o.count("cond.members.many")
		}
		if r.Chance(1, 60) {
			o.count("cond.nilIfs")
			return &resset.IfPresent{Else: pick(r, masks)}
		}
		cs := make([]macaroon.Caveat, n)
		for i := range cs {
			if i > 0 && r.Chance(1, 10) {
				cs[i] = cs[r.Intn(i)]
				o.count("cond.member.repeated")
			} else if depth > 0 && r.Chance(1, 3) {
				cs[i] = cond(depth - 1)
			} else {
				cs[i] = inner()
			}
		}
		els := pick(r, masks)
		if r.Chance(1, 6) {
			els = r.mask()
		}
		return &resset.IfPresent{Ifs: macaroon.NewCaveatSet(cs...), Else: els}
	}
	nc := 3000
	if tier == "thorough" {
		nc = 100000
	}
	for i := 0; i < nc; i++ {
		depth := 1
		if r.Chance(1, 4) {
			depth = 2 + r.Intn(3)
		}
		c := cond(depth)
		d := &Dyn{NowSec: baseNow, Action: pick(r, actions), Org: pick(r, reqInts), App: pick(r, reqInts),
			Volume: pick(r, reqIDs), Machine: pick(r, reqIDs), Feature: pick(r, reqIDs)}
		kind := pick(r, []string{"full", "full", "full", "orgApp", "volume", "action", "bare", "fullNoAction"})
		// (audit) requests with every other field drawn too (commands, mutations, sources, roles, storage objects,
		// request times) and any action mask; the library's own request type
		if r.Chance(1, 4) {
			dd := r.Dyn()
			dd.WF = ""
			if r.Bool() {
				dd.Org, dd.App, dd.Volume, dd.Machine, dd.Feature = d.Org, d.App, d.Volume, d.Machine, d.Feature
			}
			d = dd
			o.count("cond.req.wide")
		}
		if r.Chance(1, 6) {
			now := time.Now()
			a := d.FlyioAccess()
			res := guard(func() string { return sxErr(c.Prohibits(a)) })
			errClassStats(o, res)
			o.count("cond.req.flyio")
			o.emit(fmt.Sprintf("(prohibits %s %s)", sxCav(c), d.SxFlyio(now.Unix(), int64(now.Nanosecond()))), res)
		} else {
			run(c, d, kind)
		}
		o.count(fmt.Sprintf("cond.depth%d", depth))
		// monotonicity probe: the same request with a sub-action
		d2 := *d
		d2.Action = d.Action & pick(r, actions)
		if r.Chance(1, 4) {
			d2.Action = d.Action & r.mask()
		}
		run(c, &d2, kind)
	}
}

// ---- (audit) C09: wider id, mask and set pools; the generic type used directly ----

// an 8-bit mask type and id types of a library user
type mask8 uint8

func (m mask8) String() string { return fmt.Sprintf("m%02x", uint8(m)) }

type userStrID string
type userPrefixID string

func (p userPrefixID) Match(other userPrefixID) bool {
	return strings.HasPrefix(string(other), string(p))
}

func ressetWide(r *Rng, o *Out, tier string, run func(c macaroon.Caveat, d *Dyn, kind string)) {
	quick := tier != "thorough"
	cnt := 0
	skip := func(stride int) bool {
		cnt++
		return quick && cnt%stride != 0
	}
	toPrefix := func(s resset.ResourceSet[string, resset.Action]) resset.ResourceSet[resset.Prefix, resset.Action] {
		pm := resset.ResourceSet[resset.Prefix, resset.Action]{}
		for k, v := range s {
			pm[resset.Prefix(k)] = v
		}
		return pm
	}
	both := func(s resset.ResourceSet[string, resset.Action], id *string, a resset.Action) {
		run(&flyio.Volumes{Volumes: s}, &Dyn{NowSec: baseNow, Action: a, Volume: id}, "volume")
		d2 := &Dyn{NowSec: baseNow, Action: a}
		if id != nil {
			p := resset.Prefix(*id)
			d2.Storage = &p
		}
		run(&flyio.StorageObjects{Prefixes: toPrefix(s)}, d2, "storage")
	}
	long := strings.Repeat("k", 300)
	// 1. ids that look special but are ordinary (a literal star, "0", blanks, NUL), letter case, composed / decomposed
	// accents, very long ids differing in the last byte: an entry covers what it is WRITTEN as
	{
		w := []string{"*", "0", "a", "A", " a", "a ", "\u00e9", "e\u0301", "a\x00", "a\x00b", long, long + "x", long[:299], "ab", "%", "a*"}
		wm := []resset.Action{1, 3, 31, 0xffff}
		var sets []resset.ResourceSet[string, resset.Action]
		for i, id := range w {
			sets = append(sets, resset.ResourceSet[string, resset.Action]{id: wm[i%len(wm)]}, resset.ResourceSet[string, resset.Action]{id: 0xffff})
		}
		for i := 0; i < 60; i++ {
			sets = append(sets, resset.ResourceSet[string, resset.Action]{pick(r, w): pick(r, wm), pick(r, w): pick(r, wm)})
		}
		reqs := []*string{nil, pstr(""), pstr("b")}
		for _, id := range w {
			reqs = append(reqs, pstr(id))
		}
		for _, s := range sets {
			for _, id := range reqs {
				for _, a := range []resset.Action{1, 2, 33} {
					if skip(3) {
						continue
					}
					both(s, id, a)
					o.count("wide.ids")
				}
			}
		}
	}
	// 2. chains of prefixes that all cover one id: the masks of ALL of them are intersected (3..6 matching entries)
	{
		chain := []string{"d", "d/", "d/e", "d/e/", "d/e/f", "d/e/f/g"}
		cm := []resset.Action{1, 3, 5, 9, 31, 0xffff, 0}
		reqs := []string{"d/e/f", "d/e/fx", "d/e", "d/e/", "d", "e", "d/e/f/g/h", "D/E/F"}
		nsets := 40
		if !quick {
			nsets = 600
		}
		for i := 0; i < nsets; i++ {
			s := resset.ResourceSet[string, resset.Action]{}
			for _, c := range chain {
				if r.Chance(2, 3) {
					s[c] = pick(r, cm)
				}
			}
			if r.Chance(1, 4) {
				s["q"] = pick(r, cm)
			}
			for _, id := range reqs {
				for _, a := range []resset.Action{1, 3, 8, 31} {
					if skip(2) {
						continue
					}
					id := id
					both(s, &id, a)
					o.count("wide.chain")
				}
			}
		}
	}
	// 3. large sets (10..80 entries), the entry asked for anywhere among them, with and without a wildcard mixed in;
	// maps that were never made
	{
		n := 150
		if !quick {
			n = 4000
		}
		for i := 0; i < n; i++ {
			size := 10 + r.Intn(70)
			s := resset.ResourceSet[string, resset.Action]{}
			u := resset.ResourceSet[uint64, resset.Action]{}
			for j := 0; j < size; j++ {
				s[fmt.Sprintf("k%02d", j)] = pick(r, []resset.Action{1, 3, 31, 0xffff})
				u[uint64(j+1)] = pick(r, []resset.Action{1, 3, 31, 0xffff})
			}
			if r.Chance(1, 6) {
				s[""] = 0xffff
				u[0] = 0xffff
				o.count("wide.large.mixed")
			}
			j := r.Intn(size + 5)
			id := fmt.Sprintf("k%02d", j)
			if r.Chance(1, 5) {
				id = "k0"
			}
			a := pick(r, []resset.Action{1, 2, 3, 31})
			both(s, &id, a)
			run(&flyio.Apps{Apps: u}, &Dyn{NowSec: baseNow, Action: a, App: p64(uint64(j + 1))}, "app")
			o.count("wide.large")
		}
		for _, id := range []*string{nil, pstr(""), pstr("a")} {
			for _, a := range []resset.Action{0, 1} {
				both(nil, id, a)
				o.count("wide.nilmap")
			}
		}
		for _, id := range []*uint64{nil, p64(0), p64(1)} {
			run(&flyio.Apps{}, &Dyn{NowSec: baseNow, Action: 1, App: id}, "app")
		}
	}
	// 4. integer ids at word boundaries, ids equal modulo 2^32 / 2^16 / 2^8, the top bit
	w64 := []uint64{0, 1, 2, 1 << 32, 1<<32 + 1, 1<<32 + 2, 1 << 63, 1<<63 + 1, 1<<64 - 1, 1<<64 - 2, 255, 256, 257, 65536, 65537}
	{
		var sets []resset.ResourceSet[uint64, resset.Action]
		for _, id := range w64 {
			sets = append(sets, resset.ResourceSet[uint64, resset.Action]{id: 31})
		}
		for i := 0; i < 40; i++ {
			sets = append(sets, resset.ResourceSet[uint64, resset.Action]{pick(r, w64): pick(r, []resset.Action{1, 31}), pick(r, w64): pick(r, []resset.Action{3, 0xffff})})
		}
		for _, s := range sets {
			for _, id := range w64 {
				for _, a := range []resset.Action{1, 2} {
					if skip(2) {
						continue
					}
					run(&flyio.Apps{Apps: s}, &Dyn{NowSec: baseNow, Action: a, App: p64(id)}, "app")
					o.count("wide.intids")
				}
			}
		}
	}
	// 5. ResourceSet used directly by a library user: signed ids (negative ones), narrow ids, an 8-bit mask type, a
	// string type of the user's, a matcher of the user's; any resource-type text (it only goes into the message).
	// Shown to the model as the set of the same shape over uint64 / string / prefix ids (the embedding keeps equality
	// and the zero id).
	{
		emitU := func(entries map[int64]uint16, id *int64, a uint16, res string) {
			keys := make([]uint64, 0, len(entries))
			for k := range entries {
				keys = append(keys, uint64(k))
			}
			sortU64(keys)
			var sb strings.Builder
			sb.WriteString("(apps")
			for _, k := range keys {
				fmt.Fprintf(&sb, " (%d %d)", k, entries[int64(k)])
			}
			sb.WriteString(")")
			rq := "(app)"
			if id != nil {
				rq = fmt.Sprintf("(app %d)", uint64(*id))
			}
			errClassStats(o, res)
			o.emit(fmt.Sprintf("(prohibits %s (dyn %d 0 ok (action %d) %s))", sb.String(), baseNow, a, rq), res)
		}
		ids := []int64{0, 1, -1, 2, -2, 127, -128, 100}
		rtypes := []string{"app", "", "%s %d %v", "a b", "\u00e9"}
		n := 250
		if !quick {
			n = 6000
		}
		for i := 0; i < n; i++ {
			entries := map[int64]uint16{}
			for j, m := 0, r.Intn(4); j < m; j++ {
				entries[pick(r, ids)] = uint16(pick(r, []resset.Action{0, 1, 3, 31, 0xff}))
			}
			var id *int64
			if !r.Chance(1, 6) {
				v := pick(r, ids)
				id = &v
			}
			a := uint16(pick(r, []resset.Action{0, 1, 2, 3, 32, 0xff}))
			rt := pick(r, rtypes)
			var res string
			switch r.Intn(4) {
			case 0:
				rs := resset.ResourceSet[int64, resset.Action]{}
				for k, v := range entries {
					rs[k] = resset.Action(v)
				}
				res = guard(func() string { return sxErr(rs.Prohibits(id, resset.Action(a), rt)) })
				o.count("generic.int64")
			case 1:
				rs := resset.ResourceSet[int32, resset.Action]{}
				for k, v := range entries {
					rs[int32(k)] = resset.Action(v)
				}
				var p *int32
				if id != nil {
					v := int32(*id)
					p = &v
				}
				res = guard(func() string { return sxErr(rs.Prohibits(p, resset.Action(a), rt)) })
				o.count("generic.int32")
			case 2:
				rs := resset.ResourceSet[int8, mask8]{}
				for k, v := range entries {
					rs[int8(k)] = mask8(v)
				}
				var p *int8
				if id != nil {
					v := int8(*id)
					p = &v
				}
				res = guard(func() string { return sxErr(rs.Prohibits(p, mask8(a), rt)) })
				o.count("generic.int8.mask8")
			default:
				rs := resset.New[int64, resset.Action](resset.Action(a))
				if id != nil {
					rs = resset.New(resset.Action(entries[0]), pick(r, ids), *id, pick(r, ids))
				}
				entries = map[int64]uint16{}
				for k, v := range rs {
					entries[k] = uint16(v)
				}
				res = guard(func() string { return sxErr(rs.Prohibits(id, resset.Action(a), rt)) })
				o.count("generic.New")
			}
			emitU(entries, id, a, res)
		}
		// user string types: plain (equality) and with a Match method (prefix rule of the user's)
		sids := []string{"", "a", "ab", "abc", "b", "A"}
		for i := 0; i < n; i++ {
			s := resset.ResourceSet[string, resset.Action]{}
			for j, m := 0, r.Intn(4); j < m; j++ {
				s[pick(r, sids)] = pick(r, []resset.Action{0, 1, 3, 31})
			}
			var id *string
			if !r.Chance(1, 6) {
				id = pstr(pick(r, sids))
			}
			a := pick(r, []resset.Action{0, 1, 2, 3})
			rt := pick(r, rtypes)
			if r.Bool() {
				rs := resset.ResourceSet[userStrID, resset.Action]{}
				for k, v := range s {
					rs[userStrID(k)] = v
				}
				var p *userStrID
				if id != nil {
					v := userStrID(*id)
					p = &v
				}
				res := guard(func() string { return sxErr(rs.Prohibits(p, a, rt)) })
				errClassStats(o, res)
				o.count("generic.userString")
				d := &Dyn{NowSec: baseNow, Action: a, Volume: id}
				o.emit(fmt.Sprintf("(prohibits %s %s)", sxCav(&flyio.Volumes{Volumes: s}), d.Sx("volume")), res)
			} else {
				rs := resset.ResourceSet[userPrefixID, resset.Action]{}
				for k, v := range s {
					rs[userPrefixID(k)] = v
				}
				var p *userPrefixID
				d := &Dyn{NowSec: baseNow, Action: a}
				if id != nil {
					v := userPrefixID(*id)
					p = &v
					sp := resset.Prefix(*id)
					d.Storage = &sp
				}
				res := guard(func() string { return sxErr(rs.Prohibits(p, a, rt)) })
				errClassStats(o, res)
				o.count("generic.userMatcher")
				o.emit(fmt.Sprintf("(prohibits %s %s)", sxCav(&flyio.StorageObjects{Prefixes: toPrefix(s)}), d.Sx("storage")), res)
			}
		}
	}
	// 6. action caveats: every pair over the six low bits, pairs over all sixteen, through every request type that
	// reports an action (the library's own included)
	for m := 0; m < 64; m++ {
		for a := 0; a < 64; a++ {
			if skip(2) {
				continue
			}
			mm := resset.Action(m)
			run(&mm, &Dyn{NowSec: baseNow, Action: resset.Action(a)}, "action")
			o.count("action.low6")
		}
	}
	nn := 400
	if !quick {
		nn = 20000
	}
	for i := 0; i < nn; i++ {
		mm := resset.Action(r.U64())
		a := resset.Action(r.U64())
		switch r.Intn(3) {
		case 0:
			a &= mm
		case 1:
			a = mm | 1<<uint(r.Intn(16))
		}
		d := &Dyn{NowSec: baseNow, Action: a, Org: p64(1)}
		if r.Chance(1, 4) {
			now := time.Now()
			acc := d.FlyioAccess()
			res := guard(func() string { return sxErr(mm.Prohibits(acc)) })
			errClassStats(o, res)
			o.emit(fmt.Sprintf("(prohibits %s %s)", sxCav(&mm), d.SxFlyio(now.Unix(), int64(now.Nanosecond()))), res)
		} else {
			run(&mm, d, pick(r, []string{"action", "full", "org", "volume", "orgApp"}))
		}
		o.count("action.wide")
	}
}

// ressetCondNeedles: conditionals with many members of which exactly ONE refuses (the others concerned and permitting),
// and of which exactly ONE is concerned at all (the others ask for a resource the request does not name; else-mask
// empty): the one that matters at every position
func ressetCondNeedles(r *Rng, o *Out, tier string, run func(c macaroon.Caveat, d *Dyn, kind string)) {
	maxK := 12
	if tier == "thorough" {
		maxK = 40
	}
	d := &Dyn{NowSec: baseNow, Action: 3, Org: p64(1)}
	permit := func() macaroon.Caveat {
		switch r.Intn(4) {
		case 0:
			return &flyio.Organization{ID: pick(r, []uint64{0, 1}), Mask: pick(r, []resset.Action{3, 31, 0xffff})}
		case 1:
			a := resset.Action(pick(r, []resset.Action{3, 7, 0xffff}))
			return &a
		case 2:
			return &flyio.IsUser{ID: 1}
		}
		return &resset.IfPresent{Ifs: macaroon.NewCaveatSet(), Else: 3}
	}
	unconcerned := func() macaroon.Caveat {
		switch r.Intn(4) {
		case 0:
			return &flyio.Apps{Apps: resset.ResourceSet[uint64, resset.Action]{1: 0}}
		case 1:
			return &flyio.Volumes{Volumes: resset.ResourceSet[string, resset.Action]{"v": 0}}
		case 2:
			return &flyio.Mutations{}
		}
		return &flyio.FeatureSet{Features: resset.ResourceSet[string, resset.Action]{}}
	}
	deny := func() macaroon.Caveat {
		switch r.Intn(4) {
		case 0:
			return &flyio.Organization{ID: 2, Mask: 0xffff}
		case 1:
			a := resset.Action(1)
			return &a
		case 2:
			return &macaroon.UnregisteredCaveat{Type: 1 << 40, RawMsgpack: []byte{0xc0}}
		}
		return &resset.IfPresent{Ifs: macaroon.NewCaveatSet(), Else: 1}
	}
	for k := 0; k <= maxK; k++ {
		for at := 0; at <= k; at++ {
			a := make([]macaroon.Caveat, 0, k+1)
			b := make([]macaroon.Caveat, 0, k+1)
			for i := 0; i < k; i++ {
				a = append(a, permit())
				b = append(b, unconcerned())
			}
			a = append(a[:at], append([]macaroon.Caveat{deny()}, a[at:]...)...)
			b = append(b[:at], append([]macaroon.Caveat{permit()}, b[at:]...)...)
			run(&resset.IfPresent{Ifs: macaroon.NewCaveatSet(a...), Else: 0xffff}, d, "full")
			run(&resset.IfPresent{Ifs: macaroon.NewCaveatSet(b...), Else: 0}, d, "full")
			o.count("cond.needle")
		}
	}
}

func sortU64(xs []uint64) {
	for i := 1; i < len(xs); i++ {
		for j := i; j > 0 && xs[j] < xs[j-1]; j-- {
			xs[j], xs[j-1] = xs[j-1], xs[j]
		}
	}
}

// ---- C10 ----

// the library's own request type reads the REAL clock on every question: one *flyio.Access value asked again after a
// validity window has closed is refused (a request object that remembers its first clock reading keeps clearing)
func flyioAccessClockRun() string {
	now := time.Now()
	cs := macaroon.NewCaveatSet(&flyio.Organization{ID: 1, Mask: resset.ActionAll}, &macaroon.ValidityWindow{NotBefore: now.Unix() - 10, NotAfter: now.Unix() + 1})
	acc := &flyio.Access{OrgID: p64(1), Action: resset.ActionRead}
	if err := cs.Validate(acc); err != nil {
		return "harness-error(" + strings.ReplaceAll(err.Error(), " ", "_") + ")"
	}
	time.Sleep(time.Until(time.Unix(now.Unix()+2, 50_000_000)))
	if cs.Validate(acc) == nil {
		return "the-same-request-value-still-cleared-after-the-window-closed"
	}
	if cs.Validate(&flyio.Access{OrgID: p64(1), Action: resset.ActionRead}) == nil {
		return "a-fresh-request-cleared-after-the-window-closed"
	}
	return "sound"
}

func famFlyio(r *Rng, o *Out, tier string) {
	clock := make(chan string, 1)
	go func() { clock <- flyioAccessClockRun() }() // sleeps two seconds: runs next to the rest of the family
	defer func() { o.emit("(const sound)", <-clock) }()
	// Access.Validate on all 2^13 presence patterns x feature in {lfsc, other}
	feats := []string{flyio.FeatureLFSC, "wg"}
	for pat := 0; pat < 1<<13; pat++ {
		for _, ft := range feats {
			bit := func(i int) bool { return pat>>i&1 == 1 }
			d := &Dyn{Action: 1}
			if bit(0) {
				d.Org = p64(1)
			}
			if bit(1) {
				d.App = p64(2)
			}
			if bit(2) {
				d.Feature = pstr(ft)
			}
			if bit(3) {
				p := resset.Prefix("s")
				d.Storage = &p
			}
			if bit(4) {
				d.Machine = pstr("m")
			}
			if bit(5) {
				d.Volume = pstr("v")
			}
			if bit(6) {
				d.AppFeat = pstr("af")
			}
			if bit(7) {
				d.Cluster = pstr("c")
			}
			if bit(8) {
				d.HasCmd = true
			}
			if bit(9) {
				d.MachFeat = pstr("mf")
			}
			if bit(10) {
				d.Mutation = pstr("mu")
			}
			if bit(11) {
				d.SrcMach = pstr("sm")
			}
			if bit(12) {
				d.HasCmd = true
				d.Command = []string{"ls"}
			}
			a := d.FlyioAccess()
			res := guard(func() string { return sxErr(a.Validate()) })
			errClassStats(o, res)
			o.count("wf")
			o.emit(fmt.Sprintf("(wf %s)", d.SxFlyio(0, 0)), res)
		}
	}
	// feature NAMES are free-form: a feature called like a sibling resource's label ("app", "machine", ...) is still
	// a second resource at that level
	for _, name := range []string{"app", "storage-object", "machine", "volume", "command-execution", "cluster", "feature", "org"} {
		for pat := 0; pat < 1<<9; pat++ {
			bit := func(i int) bool { return pat>>i&1 == 1 }
			d := &Dyn{Action: 1, Org: p64(1)}
			if bit(0) {
				d.App = p64(2)
			}
			if bit(1) {
				d.Feature = pstr(name)
			}
			if bit(2) {
				p := resset.Prefix("s")
				d.Storage = &p
			}
			if bit(3) {
				d.Machine = pstr("m")
			}
			if bit(4) {
				d.Volume = pstr("v")
			}
			if bit(5) {
				d.AppFeat = pstr(name)
			}
			if bit(6) {
				d.HasCmd = true
				d.Command = []string{"ls"}
			}
			if bit(7) {
				d.MachFeat = pstr(name)
			}
			if bit(8) {
				d.Cluster = pstr("c")
			}
			a := d.FlyioAccess()
			res := guard(func() string { return sxErr(a.Validate()) })
			errClassStats(o, res)
			o.count("wf.labelnames")
			o.emit(fmt.Sprintf("(wf %s)", d.SxFlyio(0, 0)), res)
		}
	}
	// GetPermittedRoles over all features x actions
	allFeats := []string{"wg", "domain", "site", "builder", "addon", "checks", "litefs-cloud", "membership", "billing", "deletion", "document_signing", "authentication", "unknown", ""}
	for _, f := range allFeats {
		for a := 0; a < 64; a++ {
			d := &Dyn{Action: resset.Action(a), Feature: pstr(f), Org: p64(1)}
			acc := d.FlyioAccess()
			roles := acc.GetPermittedRoles()
			parts := make([]string, len(roles))
			for i, x := range roles {
				parts[i] = fmt.Sprint(uint32(x))
			}
			o.count("roles")
			o.emit(fmt.Sprintf("(roles %s)", d.SxFlyio(0, 0)), "roles:"+strings.Join(parts, ","))
		}
	}
	{
		d := &Dyn{Action: 1, Org: p64(1)}
		roles := d.FlyioAccess().GetPermittedRoles()
		o.emit(fmt.Sprintf("(roles %s)", d.SxFlyio(0, 0)), fmt.Sprintf("roles:%d", uint32(roles[0])))
	}
	// each Fly.io caveat kind against dense requests
	kinds := []int{0, 1, 2, 3, 4, 5, 6, 7, 8, 9, 10, 13, 17, 21, 26, 27, 28}
	n := 20000
	if tier == "thorough" {
		n = 600000
	}
	for i := 0; i < n; i++ {
		c := r.CavKind(pick(r, kinds), 0)
		d := r.Dyn()
		d.WF = ""
		var res, sx string
		if r.Chance(1, 3) {
			if _, isVW := c.(*macaroon.ValidityWindow); !isVW {
				now := time.Now()
				a := d.FlyioAccess()
				res = guard(func() string { return sxErr(c.Prohibits(a)) })
				sx = d.SxFlyio(now.Unix(), int64(now.Nanosecond()))
				o.count("req.flyio")
			}
		}
		if sx == "" {
			kind := pick(r, []string{"full", "full", "full", "full", "fullNoAction", "bare"})
			res = guard(func() string { return sxErr(c.Prohibits(d.As(kind))) })
			sx = d.Sx(kind)
			o.count("req.dyn." + kind)
		}
		errClassStats(o, res)
		o.count(fmt.Sprintf("cav.%T", c))
		o.emit(fmt.Sprintf("(prohibits %s %s)", sxCav(c), sx), res)
	}
	// validity windows: every instant around the bounds, extreme bounds
	bounds := []int64{baseNow - 2, baseNow, baseNow + 2, -1 << 63, 1<<63 - 1, 1<<63 - 1 - 62135596800, 1<<63 - 62135596800, 0, -62135596800, -62135596801}
	for _, nb := range bounds {
		for _, na := range bounds {
			// (after the instants around the harness clock: request times far from it - the zero time.Time, which a
			// request type with an unset timestamp reports, the epoch, the far future: the window is compared with
			// the time the REQUEST reports, whatever it is)
			secs := []int64{baseNow - 3, baseNow - 2, baseNow - 1, baseNow, baseNow + 1, baseNow + 2, baseNow + 3,
				-62135596800, -62135596801, 0, -1, 1 << 40, 4102444800}
			for _, sec := range secs {
				for _, ns := range []int64{0, 1, 999999999} {
					c := &macaroon.ValidityWindow{NotBefore: nb, NotAfter: na}
					d := &Dyn{NowSec: sec, NowNsec: ns}
					res := guard(func() string { return sxErr(c.Prohibits(d.As("bare"))) })
					errClassStats(o, res)
					o.count("vw")
					o.emit(fmt.Sprintf("(prohibits %s %s)", sxCav(c), d.Sx("bare")), res)
					// the property's rule itself (exact instants), against the implementation's answer
					if res != "ok" {
						res = "errs:spec"
					}
					o.emit(fmt.Sprintf("(spec.prohibits %s %s)", sxCav(c), d.Sx("bare")), res)
				}
			}
		}
	}
	flyioWide(r, o, tier)
}

// ---- (audit) C10: present-but-empty fields, spellings, longer lists, ids at word boundaries, real clocks ----

var spellStrs = []string{"a", "A", "a ", " a", "ab", "", "*", "\u00e9", "e\u0301", "wg", "WG", "billing", "Billing", "litefs-cloud", "LiteFS-Cloud", "deletion"}
var wideU64 = []uint64{0, 1, 2, 3, 1 << 32, 1<<32 + 1, 1<<32 + 2, 1 << 63, 1<<63 + 1, 1<<64 - 1, 255, 256, 65536, 65537}

// a request time in another zone / in UTC: the same instant
type tzBare struct {
	core
	loc *time.Location
}

func (t tzBare) Now() time.Time { return time.Unix(t.d.NowSec, t.d.NowNsec).In(t.loc) }

func flyioWide(r *Rng, o *Out, tier string) {
	quick := tier != "thorough"
	wf := func(d *Dyn, tag string) {
		a := d.FlyioAccess()
		res := guard(func() string { return sxErr(a.Validate()) })
		errClassStats(o, res)
		o.count(tag)
		o.emit(fmt.Sprintf("(wf %s)", d.SxFlyio(0, 0)), res)
	}
	// 1. well-formedness with fields that are PRESENT but hold the zero value: organisation 0, app 0, empty strings,
	// an empty command line, a command line holding one empty argument. Present is present.
	for pat := 0; pat < 1<<13; pat++ {
		bit := func(i int) bool { return pat>>i&1 == 1 }
		d := &Dyn{}
		if bit(0) {
			d.Org = p64(0)
		}
		if bit(1) {
			d.App = p64(0)
		}
		if bit(2) {
			d.Feature = pstr("")
		}
		if bit(3) {
			p := resset.Prefix("")
			d.Storage = &p
		}
		if bit(4) {
			d.Machine = pstr("")
		}
		if bit(5) {
			d.Volume = pstr("")
		}
		if bit(6) {
			d.AppFeat = pstr("")
		}
		if bit(7) {
			d.Cluster = pstr("")
		}
		if bit(8) {
			d.HasCmd = true
		}
		if bit(9) {
			d.MachFeat = pstr("")
		}
		if bit(10) {
			d.Mutation = pstr("")
		}
		if bit(11) {
			d.SrcMach = pstr("")
		}
		if bit(12) {
			d.HasCmd = true
			d.Command = []string{""}
		}
		wf(d, "wf.zerovalues")
	}
	// 2. clusters need THE litefs-cloud feature: near spellings are other features
	for _, ft := range []string{flyio.FeatureLFSC, "LITEFS-CLOUD", "LiteFS-Cloud", "litefs-cloud ", " litefs-cloud", "litefs_cloud", "litefs-cloud\x00", "litefs-clou", "litefs-cloudx", "", "wg", "cluster"} {
		for pat := 0; pat < 8; pat++ {
			d := &Dyn{Action: 1, Org: p64(1), Feature: pstr(ft)}
			if pat&1 != 0 {
				d.Cluster = pstr(pick(r, []string{"c", "", "litefs-cloud"}))
			}
			if pat&2 != 0 {
				d.App = p64(2)
			}
			if pat&4 != 0 {
				d.SrcMach, d.Mutation = pstr("m"), pstr("mu")
			}
			wf(d, "wf.lfsc.spellings")
		}
	}
	// 3. roles: feature names in other spellings are unknown features (admin only); action masks with undefined bits;
	// no feature at all under every mask
	roleFeats := []*string{nil}
	for _, f := range []string{"wg", "WG", "Wg", " wg", "wg ", "billing", "Billing", "BILLING", "membership", "Membership", "authentication", "deletion", "Deletion", "document_signing", "document-signing", "litefs-cloud", "LiteFS-Cloud", "litefs_cloud", "wg\x00", "b\u0131lling"} {
		roleFeats = append(roleFeats, pstr(f))
	}
	for _, f := range roleFeats {
		for _, a := range []resset.Action{0, 1, 2, 3, 16, 31, 32, 33, 0x8000, 0x8001, 0xfffe, 0xffff} {
			d := &Dyn{Action: a, Feature: f, Org: p64(1)}
			roles := d.FlyioAccess().GetPermittedRoles()
			parts := make([]string, len(roles))
			for i, x := range roles {
				parts[i] = fmt.Sprint(uint32(x))
			}
			o.count("roles.spellings")
			o.emit(fmt.Sprintf("(roles %s)", d.SxFlyio(0, 0)), "roles:"+strings.Join(parts, ","))
		}
	}
	// 4. caveat values and requests outside the shared pools
	n := 6000
	if !quick {
		n = 200000
	}
	ss := func() string { return pick(r, spellStrs) }
	optS := func() *string {
		if r.Chance(1, 5) {
			return nil
		}
		return pstr(ss())
	}
	strSet := func() resset.ResourceSet[string, resset.Action] {
		m := resset.ResourceSet[string, resset.Action]{}
		for i, k := 0, r.Intn(4); i < k; i++ {
			m[ss()] = r.mask()
		}
		if r.Chance(1, 12) {
			return nil
		}
		return m
	}
	argPool := []string{"a", "b", "ls", "LS", "-l", "ls -l", "", " ", "rm"}
	for i := 0; i < n; i++ {
		d := r.Dyn()
		d.WF = ""
		var c macaroon.Caveat
		switch k := r.Intn(14); k {
		case 0: // organisation ids at word boundaries / equal modulo 2^32
			c = &flyio.Organization{ID: pick(r, wideU64), Mask: r.mask()}
			d.Org = p64(pick(r, wideU64))
			if r.Chance(1, 8) {
				d.Org = nil
			}
		case 1:
			m := resset.ResourceSet[uint64, resset.Action]{}
			for j, k := 0, r.Intn(3); j < k; j++ {
				m[pick(r, wideU64)] = r.mask()
			}
			c = &flyio.Apps{Apps: m}
			d.App = p64(pick(r, wideU64))
		case 2: // command lines: up to 5 allowed commands of up to 5 arguments; the request derived from one of them
			var cs flyio.Commands
			for j, k := 0, r.Intn(6); j < k; j++ {
				var args []string
				for a, m := 0, r.Intn(6); a < m; a++ {
					args = append(args, pick(r, argPool))
				}
				if args == nil && r.Bool() {
					args = []string{}
				}
				cs = append(cs, flyio.Command{Args: args, Exact: r.Bool()})
			}
			if len(cs) > 1 && r.Chance(1, 5) {
				cs[r.Intn(len(cs))] = cs[r.Intn(len(cs))]
			}
			c = &cs
			d.HasCmd, d.Command = true, nil
			if len(cs) > 0 && !r.Chance(1, 4) {
				base := append([]string{}, cs[r.Intn(len(cs))].Args...)
				switch r.Intn(6) {
				case 0:
					base = append(base, pick(r, argPool))
				case 1:
					if len(base) > 0 {
						base = base[:len(base)-1]
					}
				case 2:
					if len(base) > 0 {
						base[len(base)-1] = pick(r, argPool)
					}
				case 3:
					if len(base) > 0 {
						j := r.Intn(len(base))
						base[j] = strings.ToUpper(base[j])
					}
				case 4:
					if len(base) > 1 { // the same arguments, joined
						base = []string{strings.Join(base, " ")}
					}
				}
				d.Command = base
			} else {
				for a, m := 0, r.Intn(6); a < m; a++ {
					d.Command = append(d.Command, pick(r, argPool))
				}
			}
			if r.Chance(1, 10) {
				d.HasCmd, d.Command = false, nil
			}
			o.count(fmt.Sprintf("wide.commands.allowed%d.args%d", len(cs), len(d.Command)))
		case 3: // mutation lists: longer, unsorted, with duplicates and other spellings
			pool := []string{"addCertificate", "addcertificate", "AddCertificate", "addCertificate ", "deleteApp", "m", "M", "", "z", "a"}
			var ms []string
			for j, k := 0, r.Intn(9); j < k; j++ {
				ms = append(ms, pick(r, pool))
			}
			c = &flyio.Mutations{Mutations: ms}
			d.Mutation = pstr(pick(r, pool))
			if r.Chance(1, 8) {
				d.Mutation = nil
			}
			o.count(fmt.Sprintf("wide.mutations.len%d", len(ms)))
		case 4: // roles: more bits, zero to four permitted roles (the zero role is contained in every mask)
			ar := flyio.AllowedRoles(pick(r, []uint32{0, 1, 2, 3, 4, 5, 6, 8, 0x80000000, 0x7FFFFFFF, 0xFFFFFFFE, 0xFFFFFFFF}))
			c = &ar
			if r.Chance(1, 5) {
				c = &flyio.IsMember{}
			}
			d.Roles = nil
			for j, k := 0, r.Intn(5); j < k; j++ {
				d.Roles = append(d.Roles, flyio.Role(pick(r, []uint32{0, 1, 2, 3, 4, 6, 8, 0x80000000, 0xFFFFFFFF, 0xFFFFFFFE})))
			}
			o.count(fmt.Sprintf("wide.roles.permitted%d", len(d.Roles)))
		case 5: // source restrictions: spellings; present-but-empty request fields
			c = &flyio.FlySrc{Organization: pick(r, []string{"", "a", "A", "a ", "b"}), App: pick(r, []string{"", "a", "A", "a ", "b"}), Instance: pick(r, []string{"", "a", "A", "a ", "b"})}
			src := func() *string {
				return pick(r, []*string{nil, pstr(""), pstr("a"), pstr("a"), pstr("A"), pstr("a "), pstr("b")})
			}
			d.SrcOrg, d.SrcApp, d.SrcMach = src(), src(), src()
		case 6:
			c = &flyio.FromMachine{ID: pick(r, []string{"", "a", "A", "a ", "b", "\u00e9", "e\u0301"})}
			d.SrcMach = pick(r, []*string{nil, pstr(""), pstr("a"), pstr("A"), pstr("a "), pstr("b"), pstr("\u00e9"), pstr("e\u0301")})
		case 7:
			c = &flyio.Volumes{Volumes: strSet()}
			d.Volume = optS()
		case 8:
			c = &flyio.Machines{Machines: strSet()}
			d.Machine = optS()
		case 9:
			switch r.Intn(3) {
			case 0:
				c = &flyio.FeatureSet{Features: strSet()}
			case 1:
				c = &flyio.AppFeatureSet{Features: strSet()}
			default:
				c = &flyio.MachineFeatureSet{Features: strSet()}
			}
			d.Feature, d.AppFeat, d.MachFeat = optS(), optS(), optS()
		case 10:
			c = &flyio.Clusters{Clusters: strSet()}
			d.Cluster = optS()
		case 11:
			m := resset.ResourceSet[resset.Prefix, resset.Action]{}
			for k, v := range strSet() {
				m[resset.Prefix(k)] = v
			}
			c = &flyio.StorageObjects{Prefixes: m}
			if s := optS(); s != nil {
				p := resset.Prefix(*s + pick(r, []string{"", "/x", "b"}))
				d.Storage = &p
			} else {
				d.Storage = nil
			}
			if r.Chance(1, 2) {
				// NESTED prefixes with masks of their own (a bucket, a directory in it, an object in that): every listed
				// prefix the object starts with narrows the grant, also when the object IS one of the listed entries
				base := pick(r, []string{"https://storage.fly/", "b/", "pub", ""})
				chain := []string{base, base + "my_bucket", base + "my_bucket/", base + "my_bucket/dir/", base + "my_bucket/dir/obj"}
				m := resset.ResourceSet[resset.Prefix, resset.Action]{}
				for _, e := range chain {
					if r.Chance(2, 3) {
						m[resset.Prefix(e)] = r.mask()
					}
				}
				if r.Chance(1, 4) {
					m[resset.Prefix(base+"other/")] = r.mask()
				}
				c = &flyio.StorageObjects{Prefixes: m}
				obj := resset.Prefix(pick(r, chain) + pick(r, []string{"", "", "", "x", "/y"}))
				d.Storage = &obj
				o.count("storage.nested-prefixes")
				if _, listed := m[obj]; listed {
					o.count("storage.nested-prefixes.object-is-a-listed-entry")
				}
			}
		case 12: // roles as the library's own request type computes them, features in every spelling
			ar := flyio.AllowedRoles(pick(r, []uint32{0, 1, 2, 3, 0xFFFFFFFF, 0xFFFFFFFE}))
			c = &ar
			if r.Bool() {
				c = &flyio.IsMember{}
			}
			d.Feature = optS()
			now := time.Now()
			a := d.FlyioAccess()
			res := guard(func() string { return sxErr(c.Prohibits(a)) })
			errClassStats(o, res)
			o.count("wide.roles.flyioAccess")
			o.emit(fmt.Sprintf("(prohibits %s %s)", sxCav(c), d.SxFlyio(now.Unix(), int64(now.Nanosecond()))), res)
			continue
		default:
			c = &flyio.IsUser{ID: pick(r, wideU64)}
		}
		o.count(fmt.Sprintf("wide.cav.%T", c))
		if r.Chance(1, 4) {
			now := time.Now()
			a := d.FlyioAccess()
			res := guard(func() string { return sxErr(c.Prohibits(a)) })
			errClassStats(o, res)
			o.emit(fmt.Sprintf("(prohibits %s %s)", sxCav(c), d.SxFlyio(now.Unix(), int64(now.Nanosecond()))), res)
			continue
		}
		kind := pick(r, []string{"full", "full", "full", "fullNoAction"})
		res := guard(func() string { return sxErr(c.Prohibits(d.As(kind))) })
		errClassStats(o, res)
		o.emit(fmt.Sprintf("(prohibits %s %s)", sxCav(c), d.Sx(kind)), res)
	}
	// 5. windows against the library's own request type, whose clock is the wall clock (bounds an hour or more away
	// from it, or the extremes), alone and inside a conditional
	{
		now := time.Now().Unix()
		type w struct{ nb, na int64 }
		for _, b := range []w{{now - 3600, now + 3600}, {now + 3600, now + 7200}, {now - 7200, now - 3600}, {-1 << 63, 1<<63 - 1}, {0, now + 3600}, {now - 3600, 1<<63 - 1},
			{now + 3600, now - 3600}, {0, 0}, {-1 << 63, now - 3600}, {now + 3600, 1<<63 - 1}, {-62135596800, now + 86400}, {now - 86400, 253402300799}, {now - 3600, 1<<63 - 1 - 62135596800}} {
			for rep := 0; rep < 2; rep++ {
				var c macaroon.Caveat = &macaroon.ValidityWindow{NotBefore: b.nb, NotAfter: b.na}
				if rep == 1 {
					c = &resset.IfPresent{Ifs: macaroon.NewCaveatSet(c), Else: 0}
				}
				d := &Dyn{Action: 1, Org: p64(1)}
				t0 := time.Now()
				a := d.FlyioAccess()
				res := guard(func() string { return sxErr(c.Prohibits(a)) })
				errClassStats(o, res)
				o.count("vw.wallclock")
				o.emit(fmt.Sprintf("(prohibits %s %s)", sxCav(c), d.SxFlyio(t0.Unix(), int64(t0.Nanosecond()))), res)
			}
		}
	}
	// 6. the instant is what counts, not the zone the request reports it in
	for _, loc := range []*time.Location{time.UTC, time.FixedZone("east", 14*3600), time.FixedZone("west", -12*3600), time.FixedZone("odd", 5*3600+45*60+17)} {
		for _, nb := range []int64{baseNow - 1, baseNow, baseNow + 1, 0} {
			for _, na := range []int64{baseNow - 1, baseNow, baseNow + 1, 1<<63 - 1} {
				for _, sec := range []int64{baseNow - 1, baseNow, baseNow + 1, 0, 86399, -62135596800} {
					for _, ns := range []int64{0, 1} {
						c := &macaroon.ValidityWindow{NotBefore: nb, NotAfter: na}
						d := &Dyn{NowSec: sec, NowNsec: ns}
						res := guard(func() string { return sxErr(c.Prohibits(tzBare{core{d}, loc})) })
						errClassStats(o, res)
						o.count("vw.zones")
						o.emit(fmt.Sprintf("(prohibits %s %s)", sxCav(c), d.Sx("bare")), res)
					}
				}
			}
		}
	}
}

// ---- C18 ----

// evaluating a condition READS the identities: the membership lists of a request - here windows of one shared array,
// the first one with spare capacity, as a service slicing one database row would have them - are the same afterwards,
// and later requests built from them get the answers their own lists give
func identityListsUntouchedRun() string {
	base := []uint64{10, 11, 20, 21}
	gbase := []uint64{110, 111, 120, 121}
	alice := &auth.FlyioAuth{UserID: 1, OrganizationIDs: base[:2]}
	bob := &auth.FlyioAuth{UserID: 2, OrganizationIDs: base[2:]}
	carol := &auth.FlyioAuth{UserID: 3, OrganizationIDs: []uint64{30}}
	ga := &auth.GitHubAuth{UserID: 1, OrgIDs: gbase[:2]}
	gb := &auth.GitHubAuth{UserID: 2, OrgIDs: gbase[2:]}
	gc := &auth.GitHubAuth{UserID: 3, OrgIDs: []uint64{130}}
	exp := time.Now().Add(time.Minute)
	r1 := &auth.DischargeRequest{Flyio: []*auth.FlyioAuth{alice, carol}, GitHub: []*auth.GitHubAuth{ga, gc}, Expiry: exp}
	org := func(id uint64) macaroon.Caveat { return &auth.ConfineOrganization{ID: id} }
	gh := func(id uint64) macaroon.Caveat { c := auth.ConfineGitHubOrg(id); return &c }
	for k := 0; k < 2; k++ { // (the refusal path renders the lists once more)
		if org(30).Prohibits(r1) != nil || org(99).Prohibits(r1) == nil || gh(130).Prohibits(r1) != nil || gh(99).Prohibits(r1) == nil {
			return "harness-error(first request)"
		}
		_ = r1.FlyioUserIDs()
		_ = r1.GitHubOrgIDs()
	}
	if fmt.Sprint(base) != "[10 11 20 21]" || fmt.Sprint(gbase) != "[110 111 120 121]" {
		return "evaluating-a-condition-rewrote-the-identities-membership-lists:" + strings.ReplaceAll(fmt.Sprint(base, gbase), " ", ",")
	}
	r2 := &auth.DischargeRequest{Flyio: []*auth.FlyioAuth{bob}, GitHub: []*auth.GitHubAuth{gb}, Expiry: exp}
	if org(30).Prohibits(r2) == nil || org(20).Prohibits(r2) != nil || gh(130).Prohibits(r2) == nil || gh(120).Prohibits(r2) != nil {
		return "a-later-request-is-judged-by-another-requests-identities"
	}
	return "sound"
}

// "however nested": the smallest lifetime limit is found at any depth of conditionals (1, 5, 100, 101, 150, 400)
func deepMaxValidityRun() string {
	for _, depth := range []int{1, 5, 100, 101, 150, 400} {
		mv := auth.MaxValidity(60)
		var inner macaroon.Caveat = &mv
		for i := 0; i < depth; i++ {
			inner = &resset.IfPresent{Ifs: macaroon.NewCaveatSet(inner), Else: resset.ActionAll}
		}
		top := auth.MaxValidity(3600)
		cs := macaroon.NewCaveatSet(&top, inner)
		if d, ok := auth.GetMaxValidity(cs); !ok || d != 60*time.Second {
			return fmt.Sprintf("limit-nested-%d-deep-not-found:%v", depth, d)
		}
		if n := len(macaroon.GetCaveats[*auth.MaxValidity](cs)); n != 2 {
			return fmt.Sprintf("typed-lookup-misses-a-caveat-nested-%d-deep", depth)
		}
	}
	return "sound"
}

func famAuthcav(r *Rng, o *Out, tier string) {
	o.emit("(const sound)", identityListsUntouchedRun())
	o.emit("(const sound)", deepMaxValidityRun())
	n := 8000
	if tier == "thorough" {
		n = 300000
	}
	limits := []uint64{0, 1, 60, 3600, 1 << 31, 9223372036, 9223372037, 1<<63 - 1, 1 << 63, 1<<64 - 1, 18446744073, 18446744074}
	for i := 0; i < n; i++ {
		dr := r.DischargeRequest()
		var c macaroon.Caveat
		switch r.Intn(6) {
		case 0:
			c = &auth.ConfineUser{ID: r.id()}
		case 1:
			c = &auth.ConfineOrganization{ID: r.id()}
		case 2:
			h := auth.ConfineGoogleHD(r.str())
			c = &h
		case 3:
			g := auth.ConfineGitHubOrg(r.id())
			c = &g
		default:
			lim := pick(r, limits)
			mv := auth.MaxValidity(lim)
			c = &mv
		}
		// expiry: now + d, d drawn around the caveat's limit but never within 2s of it
		var delta time.Duration
		if mv, ok := c.(*auth.MaxValidity); ok && uint64(*mv) < 9000000000 && r.Chance(2, 3) {
			delta = time.Duration(uint64(*mv))*time.Second + pick(r, []time.Duration{-2 * time.Second, 2 * time.Second, -time.Hour, time.Hour})
		} else {
			delta = pick(r, []time.Duration{-time.Hour, 0, 30 * time.Second, 90 * time.Minute, 200 * 365 * 24 * time.Hour, -200 * 365 * 24 * time.Hour, 1<<63 - 1})
		}
		t0 := time.Now()
		dr.Expiry = t0.Add(delta)
		res := guard(func() string { return sxErr(c.Prohibits(dr)) })
		if time.Since(t0) > 500*time.Millisecond {
			o.count("discarded.slow")
			continue
		}
		if delta == 0 {
			// the answer depends on the sign of a few microseconds: not comparable
			if _, ok := c.(*auth.MaxValidity); ok {
				o.count("discarded.straddle")
				continue
			}
		}
		errClassStats(o, res)
		o.count(fmt.Sprintf("cav.%T", c))
		o.emit(fmt.Sprintf("(prohibits %s %s)", sxCav(c), sxDR(dr, t0.Unix(), int64(t0.Nanosecond()))), res)
		// other kinds of request are refused
		if r.Chance(1, 8) {
			d := r.Dyn()
			kind := pick(r, dynKinds)
			res := guard(func() string { return sxErr(c.Prohibits(d.As(kind))) })
			o.count("req.nondischarge")
			o.emit(fmt.Sprintf("(prohibits %s %s)", sxCav(c), d.Sx(kind)), res)
		}
	}
	// ONE request object evaluated, changed in place (identities swapped, an organisation list edited, a copy of
	// the struct given other identities of the same number) and evaluated again: the answer follows what the
	// request says NOW, whatever it said when it was first looked at
	for i := 0; i < n/10; i++ {
		dr := r.DischargeRequest()
		if len(dr.Flyio) == 0 {
			dr.Flyio = []*auth.FlyioAuth{{UserID: r.id(), OrganizationIDs: []uint64{r.id()}}}
		}
		mkCav := func() macaroon.Caveat {
			switch r.Intn(4) {
			case 0:
				return &auth.ConfineUser{ID: r.id()}
			case 1:
				h := auth.ConfineGoogleHD(r.str())
				return &h
			case 2:
				g := auth.ConfineGitHubOrg(r.id())
				return &g
			}
			return &auth.ConfineOrganization{ID: r.id()}
		}
		eval := func(d *auth.DischargeRequest, c macaroon.Caveat) {
			t0 := time.Now()
			d.Expiry = t0.Add(time.Hour)
			res := guard(func() string { return sxErr(c.Prohibits(d)) })
			o.count("reusedRequest")
			o.emit(fmt.Sprintf("(prohibits %s %s)", sxCav(c), sxDR(d, t0.Unix(), int64(t0.Nanosecond()))), res)
		}
		c := mkCav()
		eval(dr, c)
		for step := 0; step < 3; step++ {
			switch r.Intn(5) {
			case 0: // another identity in the same slot
				dr.Flyio[r.Intn(len(dr.Flyio))] = &auth.FlyioAuth{UserID: r.id(), OrganizationIDs: []uint64{r.id(), r.id()}}
			case 1: // the organisation list edited in place
				f := dr.Flyio[r.Intn(len(dr.Flyio))]
				if len(f.OrganizationIDs) > 0 {
					f.OrganizationIDs[r.Intn(len(f.OrganizationIDs))] = r.id()
				} else {
					f.OrganizationIDs = []uint64{r.id()}
				}
			case 2: // a copy of the struct with as many, other identities
				d := *dr
				d.Flyio = make([]*auth.FlyioAuth, len(dr.Flyio))
				for k := range d.Flyio {
					d.Flyio[k] = &auth.FlyioAuth{UserID: r.id(), OrganizationIDs: []uint64{r.id()}}
				}
				dr = &d
			case 3:
				for _, g := range dr.Google {
					g.HD = r.str()
				}
				for _, g := range dr.GitHub {
					g.OrgIDs = []uint64{r.id()}
				}
			default:
				dr.Flyio = append(dr.Flyio, &auth.FlyioAuth{UserID: r.id(), OrganizationIDs: []uint64{r.id()}})
			}
			if r.Bool() {
				c = mkCav()
			}
			eval(dr, c)
		}
	}
	// hosted domains and ids are compared EXACTLY: letter case, characters that fold to ASCII letters (U+212A
	// KELVIN SIGN, U+017F LONG S), a trailing dot or surrounding space all make another domain
	{
		hds := []string{"example.com", "Example.com", "EXAMPLE.COM", "example.com.", " example.com", "kompany.com", "\u212aompany.com", "systems.example", "\u017fy\u017ftem\u017f.example", ""}
		for _, want := range hds {
			for _, have := range hds {
				for _, second := range []string{"", "other.example"} {
					dr := &auth.DischargeRequest{Google: []*auth.GoogleAuth{{HD: have}}}
					if second != "" {
						dr.Google = append(dr.Google, &auth.GoogleAuth{HD: second, Email: "u@" + want})
					}
					t0 := time.Now()
					dr.Expiry = t0.Add(time.Hour)
					h := auth.ConfineGoogleHD(want)
					res := guard(func() string { return sxErr(h.Prohibits(dr)) })
					o.count("hd.exact")
					o.emit(fmt.Sprintf("(prohibits %s %s)", sxCav(&h), sxDR(dr, t0.Unix(), int64(t0.Nanosecond()))), res)
				}
			}
		}
	}
	// GetMaxValidity over sets with several and nested limits
	for i := 0; i < n/4; i++ {
		var mk func(depth int) []macaroon.Caveat
		mk = func(depth int) []macaroon.Caveat {
			var cs []macaroon.Caveat
			for j, m := 0, r.Intn(4); j < m; j++ {
				switch {
				case depth > 0 && r.Chance(1, 3):
					cs = append(cs, &resset.IfPresent{Ifs: macaroon.NewCaveatSet(mk(depth - 1)...), Else: r.mask()})
				case r.Chance(2, 3):
					mv := auth.MaxValidity(pick(r, limits))
					cs = append(cs, &mv)
				default:
					cs = append(cs, r.Cav(0))
				}
			}
			return cs
		}
		cs := mk(3)
		res := guard(func() string {
			d, ok := auth.GetMaxValidity(macaroon.NewCaveatSet(cs...))
			return fmt.Sprintf("maxvalidity:%d,%v", int64(d), ok)
		})
		o.count("getmaxvalidity")
		o.emit(fmt.Sprintf("(getmaxvalidity %s)", sxCavs(cs)), res)
	}
	authcavWide(r, o, tier, n)
}

// ---- (audit) C18: more identities, ids at word boundaries, look-alike request types, other expiries, user wrappers ----

// a request type that HOLDS a discharge request (all its methods are promoted) is not a discharge request
type embedsDR struct{ *auth.DischargeRequest }
type holdsDR struct {
	auth.DischargeRequest
	Note string
}

// mvComparable: the lifetime as seen at t0 is at least 2 s away from the limit the code compares with (the call reads
// the clock a little later than t0)
func mvComparable(lim uint64, expiry, t0 time.Time) bool {
	life := new(big.Int).SetInt64(int64(expiry.Sub(t0)))
	d := new(big.Int).SetInt64(int64(time.Duration(lim) * time.Second))
	diff := new(big.Int).Sub(life, d)
	return diff.CmpAbs(big.NewInt(2_000_000_000)) >= 0
}

func authcavWide(r *Rng, o *Out, tier string, n int) {
	limits := []uint64{0, 1, 60, 3600, 1 << 31, 9223372036, 9223372037, 1<<63 - 1, 1 << 63, 1<<64 - 1, 18446744073, 18446744074}
	hdPool := []string{"example.com", "Example.com", "example.com.", "example.co", "xample.com", "", "a", "e\u0301.example", "\u00e9.example"}
	wid := func() uint64 {
		if r.Bool() {
			return pick(r, wideU64)
		}
		return pick(r, smallIDs)
	}
	idList := func() []uint64 {
		switch r.Intn(8) {
		case 0:
			return nil
		case 1:
			return []uint64{}
		case 2: // a long list, the interesting id anywhere in it
			l := make([]uint64, 10+r.Intn(30))
			for i := range l {
				l[i] = 100 + uint64(i)
			}
			l[r.Intn(len(l))] = wid()
			return l
		}
		var l []uint64
		for i, m := 0, 1+r.Intn(4); i < m; i++ {
			l = append(l, wid())
		}
		if r.Chance(1, 4) {
			l = append(l, l[0])
		}
		return l
	}
	// up to 6 identities per provider, one identity VALUE possibly presented twice
	wideDR := func() *auth.DischargeRequest {
		dr := &auth.DischargeRequest{}
		cnt := func() int { return pick(r, []int{0, 1, 1, 2, 3, 4, 6}) }
		for i, m := 0, cnt(); i < m; i++ {
			if i > 0 && r.Chance(1, 6) {
				dr.Flyio = append(dr.Flyio, dr.Flyio[r.Intn(i)])
				continue
			}
			dr.Flyio = append(dr.Flyio, &auth.FlyioAuth{UserID: wid(), OrganizationIDs: idList()})
		}
		for i, m := 0, cnt(); i < m; i++ {
			g := &auth.GoogleAuth{HD: pick(r, hdPool), Email: pick(r, []string{"", "u@example.com", "example.com", "u@" + pick(r, hdPool)})}
			dr.Google = append(dr.Google, g)
		}
		for i, m := 0, cnt(); i < m; i++ {
			if i > 0 && r.Chance(1, 6) {
				dr.GitHub = append(dr.GitHub, dr.GitHub[r.Intn(i)])
				continue
			}
			dr.GitHub = append(dr.GitHub, &auth.GitHubAuth{UserID: wid(), Login: pick(r, hdPool), OrgIDs: idList()})
		}
		o.count(fmt.Sprintf("wide.dr.identities.%d.%d.%d", len(dr.Flyio), len(dr.Google), len(dr.GitHub)))
		return dr
	}
	wideCond := func() macaroon.Caveat {
		switch r.Intn(4) {
		case 0:
			return &auth.ConfineUser{ID: wid()}
		case 1:
			return &auth.ConfineOrganization{ID: wid()}
		case 2:
			h := auth.ConfineGoogleHD(pick(r, hdPool))
			return &h
		}
		g := auth.ConfineGitHubOrg(wid())
		return &g
	}
	evalDR := func(c macaroon.Caveat, dr *auth.DischargeRequest, tag string) {
		t0 := time.Now()
		if dr.Expiry.IsZero() {
			dr.Expiry = t0.Add(time.Hour)
		}
		res := guard(func() string { return sxErr(c.Prohibits(dr)) })
		errClassStats(o, res)
		o.count(tag)
		o.emit(fmt.Sprintf("(prohibits %s %s)", sxCav(c), sxDR(dr, t0.Unix(), int64(t0.Nanosecond()))), res)
	}
	// 1. wide requests against wide conditions; half of the time the condition names an id / domain the request holds
	for i := 0; i < n/3; i++ {
		dr := wideDR()
		c := wideCond()
		if r.Bool() {
			switch v := c.(type) {
			case *auth.ConfineUser:
				if len(dr.Flyio) > 0 {
					v.ID = pick(r, dr.Flyio).UserID
				}
			case *auth.ConfineOrganization:
				if len(dr.Flyio) > 0 {
					if l := pick(r, dr.Flyio).OrganizationIDs; len(l) > 0 {
						v.ID = pick(r, l)
					}
				}
			case *auth.ConfineGoogleHD:
				if len(dr.Google) > 0 {
					*v = auth.ConfineGoogleHD(pick(r, dr.Google).HD)
				}
			case *auth.ConfineGitHubOrg:
				if len(dr.GitHub) > 0 {
					if l := pick(r, dr.GitHub).OrgIDs; len(l) > 0 {
						*v = auth.ConfineGitHubOrg(pick(r, l))
					}
				}
			}
		}
		evalDR(c, dr, "wide.cond")
	}
	// 2. ids are compared as 64-bit numbers: wanted x presented over ids equal modulo 2^32 / 2^16 / 2^8, the top bit,
	// the extremes; also next to an identity holding the wanted number in ANOTHER role (a user id that is not an
	// organisation id, and the other way round)
	for _, want := range wideU64 {
		for _, have := range wideU64 {
			for kind := 0; kind < 3; kind++ {
				dr := &auth.DischargeRequest{}
				var c macaroon.Caveat
				switch kind {
				case 0:
					c = &auth.ConfineUser{ID: want}
					dr.Flyio = []*auth.FlyioAuth{{UserID: have, OrganizationIDs: []uint64{want}}}
				case 1:
					c = &auth.ConfineOrganization{ID: want}
					dr.Flyio = []*auth.FlyioAuth{{UserID: want, OrganizationIDs: []uint64{have}}}
					dr.GitHub = []*auth.GitHubAuth{{UserID: want, OrgIDs: []uint64{want}}}
				default:
					g := auth.ConfineGitHubOrg(want)
					c = &g
					dr.GitHub = []*auth.GitHubAuth{{UserID: want, OrgIDs: []uint64{have}}}
					dr.Flyio = []*auth.FlyioAuth{{UserID: want, OrganizationIDs: []uint64{want}}}
				}
				evalDR(c, dr, "wide.ids64")
			}
		}
	}
	// 3. request types that are not *DischargeRequest although they carry one (embedded pointer, embedded value), the
	// library's other request type: every condition refuses them
	for i := 0; i < 60; i++ {
		dr := wideDR()
		t0 := time.Now()
		dr.Expiry = t0.Add(time.Minute)
		var c macaroon.Caveat = wideCond()
		if r.Chance(1, 4) {
			mv := auth.MaxValidity(pick(r, []uint64{3600, 1<<63 - 1}))
			c = &mv
		}
		if v, ok := c.(*auth.ConfineUser); ok && len(dr.Flyio) > 0 {
			v.ID = dr.Flyio[0].UserID
		}
		var a macaroon.Access
		var sx string
		switch i % 3 {
		case 0:
			a, sx = embedsDR{dr}, fmt.Sprintf("(dyn %d %d ok)", t0.Unix(), t0.Nanosecond())
			o.count("wide.lookalike.embedsPointer")
		case 1:
			a, sx = &holdsDR{DischargeRequest: *dr}, fmt.Sprintf("(dyn %d %d ok)", t0.Unix(), t0.Nanosecond())
			o.count("wide.lookalike.embedsValue")
		default:
			d := &Dyn{Action: 1, Org: p64(1)}
			a, sx = d.FlyioAccess(), d.SxFlyio(t0.Unix(), int64(t0.Nanosecond()))
			o.count("wide.lookalike.flyioAccess")
		}
		res := guard(func() string { return sxErr(c.Prohibits(a)) })
		errClassStats(o, res)
		o.emit(fmt.Sprintf("(prohibits %s %s)", sxCav(c), sx), res)
	}
	// 4. lifetimes: expiries that are not "now + d" - the zero time.Time, the epoch, years 1 / 9999 / 2262+, values
	// without a monotonic reading, in UTC or another zone (the instant is what counts)
	for i := 0; i < n/8; i++ {
		lim := pick(r, limits)
		if r.Chance(1, 3) {
			lim = uint64(r.Intn(100000))
		}
		mv := auth.MaxValidity(lim)
		dr := r.DischargeRequest()
		t0 := time.Now()
		var tag string
		switch r.Intn(8) {
		case 0:
			dr.Expiry, tag = time.Time{}, "zero"
		case 1:
			dr.Expiry, tag = time.Unix(0, 0), "epoch"
		case 2:
			dr.Expiry, tag = time.Date(9999, 12, 31, 23, 59, 59, 999999999, time.UTC), "y9999"
		case 3:
			dr.Expiry, tag = time.Unix(pick(r, []int64{1 << 40, 1<<62 - 1, -1 << 40, 1<<63 - 1 - 62135596800}), 0), "far"
		case 4: // limit +- a few seconds, the wall reading only
			dr.Expiry, tag = t0.Add(time.Duration(lim%9000000000)*time.Second+pick(r, []time.Duration{-3 * time.Second, 3 * time.Second, -2500 * time.Millisecond, 2500 * time.Millisecond})).Round(0), "wallOnly"
		case 5:
			dr.Expiry, tag = t0.Add(time.Duration(lim%9000000000)*time.Second+pick(r, []time.Duration{-3 * time.Second, 3 * time.Second})).UTC(), "utc"
		case 6:
			dr.Expiry, tag = t0.Add(time.Duration(lim%9000000000)*time.Second+pick(r, []time.Duration{-3 * time.Second, 3 * time.Second})).In(time.FixedZone("east", 14*3600)), "zone"
		default:
			dr.Expiry, tag = time.Unix(t0.Unix()+int64(lim%9000000000)+pick(r, []int64{-3, 3, -86400, 86400}), int64(r.Intn(1000000000))), "rebuilt"
		}
		if !mvComparable(lim, dr.Expiry, t0) {
			o.count("discarded.nearlimit")
			continue
		}
		res := guard(func() string { return sxErr(mv.Prohibits(dr)) })
		if time.Since(t0) > 500*time.Millisecond {
			o.count("discarded.slow")
			continue
		}
		errClassStats(o, res)
		o.count("wide.expiry." + tag)
		o.emit(fmt.Sprintf("(prohibits %s %s)", sxCav(&mv), sxDR(dr, t0.Unix(), int64(t0.Nanosecond()))), res)
	}
	// 5. several conditions in one set, cleared together against one or more discharge requests (the way a third
	// party checks a ticket's caveats): all must hold for all
	for i := 0; i < n/16; i++ {
		m := 1 + r.Intn(3)
		drs := make([]*auth.DischargeRequest, m)
		for j := range drs {
			drs[j] = wideDR()
			if j > 0 && r.Chance(1, 3) {
				drs[j] = drs[0]
			}
		}
		var cavs []macaroon.Caveat
		for j, k := 0, 1+r.Intn(4); j < k; j++ {
			c := wideCond()
			if r.Chance(2, 3) { // make it hold for the first request where possible
				switch v := c.(type) {
				case *auth.ConfineUser:
					if len(drs[0].Flyio) > 0 {
						v.ID = pick(r, drs[0].Flyio).UserID
					}
				case *auth.ConfineGoogleHD:
					if len(drs[0].Google) > 0 {
						*v = auth.ConfineGoogleHD(pick(r, drs[0].Google).HD)
					}
				}
			}
			cavs = append(cavs, c)
		}
		if r.Bool() {
			mv := auth.MaxValidity(pick(r, []uint64{60, 7200, 1<<63 - 1}))
			cavs = append(cavs, &mv)
		}
		if r.Chance(1, 4) {
			u := auth.FlyioUserID(wid())
			at := r.Intn(len(cavs) + 1)
			cavs = append(cavs[:at], append([]macaroon.Caveat{&u}, cavs[at:]...)...)
		}
		t0 := time.Now()
		accs := make([]macaroon.Access, m)
		sxs := make([]string, m)
		for j := range drs {
			drs[j].Expiry = t0.Add(time.Hour)
		}
		for j := range drs {
			accs[j], sxs[j] = drs[j], sxDR(drs[j], t0.Unix(), int64(t0.Nanosecond()))
		}
		cs := macaroon.NewCaveatSet(cavs...)
		res := guard(func() string { return sxErr(cs.Validate(accs...)) })
		errClassStats(o, res)
		o.count("wide.validate")
		o.emit(fmt.Sprintf("(validate %s (%s))", sxCavs(cavs), strings.Join(sxs, " ")), res)
	}
	// 6. GetMaxValidity: many limits, one limit VALUE at several places, limits only deep inside, conditionals without a
	// set, wrapper types of a library user (GetCaveats looks into anything that unwraps; shown to the model as a
	// conditional), wrappers that unwrap to nothing
	for i := 0; i < n/16; i++ {
		var shared []*auth.MaxValidity
		for j := 0; j < 3; j++ {
			mv := auth.MaxValidity(pick(r, limits))
			shared = append(shared, &mv)
		}
		var mk func(depth int) []macaroon.Caveat
		mk = func(depth int) []macaroon.Caveat {
			var cs []macaroon.Caveat
			m := r.Intn(4)
			if r.Chance(1, 10) {
				m = 8 + r.Intn(20)
			}
			for j := 0; j < m; j++ {
				switch k := r.Intn(10); {
				case depth > 0 && k < 3:
					cs = append(cs, &resset.IfPresent{Ifs: macaroon.NewCaveatSet(mk(depth - 1)...), Else: r.mask()})
				case depth > 0 && k == 3:
					w := &userWrap{Typ: pick(r, userTypeNumbers), Permit: r.Bool(), Inner: macaroon.NewCaveatSet(mk(depth - 1)...)}
					if r.Chance(1, 5) {
						w.Inner = nil
					}
					cs = append(cs, w)
					o.count("getmaxvalidity.userWrapper")
				case k == 4:
					cs = append(cs, &resset.IfPresent{Else: r.mask()})
				case k < 7:
					cs = append(cs, pick(r, shared))
				case k == 7:
					mv := auth.MaxValidity(r.U64())
					if r.Bool() {
						mv = auth.MaxValidity(r.U64() % 9223372037)
					}
					cs = append(cs, &mv)
				default:
					cs = append(cs, r.Cav(0))
				}
			}
			return cs
		}
		cs := mk(pick(r, []int{0, 1, 3, 6}))
		if r.Chance(1, 4) { // the only limits sit at the bottom of a chain of wrappers
			mv := auth.MaxValidity(pick(r, limits))
			inner := []macaroon.Caveat{&mv}
			for d := 0; d < 2+r.Intn(8); d++ {
				inner = []macaroon.Caveat{&resset.IfPresent{Ifs: macaroon.NewCaveatSet(inner...), Else: 0}}
			}
			cs = inner
			o.count("getmaxvalidity.deepOnly")
		}
		res := guard(func() string {
			d, ok := auth.GetMaxValidity(macaroon.NewCaveatSet(cs...))
			return fmt.Sprintf("maxvalidity:%d,%v", int64(d), ok)
		})
		o.count("getmaxvalidity.wide")
		o.emit(fmt.Sprintf("(getmaxvalidity %s)", sxCavsW(cs)), res)
	}
}

// sxCavsW prints a set for GetMaxValidity: a user wrapper is what it unwraps to (a conditional, to the model)
func sxCavsW(cs []macaroon.Caveat) string {
	parts := make([]string, len(cs))
	for i, c := range cs {
		switch v := c.(type) {
		case *userWrap:
			if v.Inner == nil {
				parts[i] = "(ifp () 0)"
			} else {
				parts[i] = fmt.Sprintf("(ifp %s 0)", sxCavsW(v.Inner.Caveats))
			}
		case *resset.IfPresent:
			if v.Ifs == nil {
				parts[i] = sxCav(c)
			} else {
				parts[i] = fmt.Sprintf("(ifp %s %d)", sxCavsW(v.Ifs.Caveats), uint16(v.Else))
			}
		default:
			parts[i] = sxCav(c)
		}
	}
	return "(" + strings.Join(parts, " ") + ")"
}
